"""Generators of ISA-level cases: single-step planted states and whole byte programs."""
from common import Rng

MEMW = 200000
OPC = {"LDAM": 0, "LDBM": 1, "STAM": 2, "LDAC": 3, "LDBC": 4, "LDAP": 5, "LDAI": 6, "LDBI": 7,
       "STAI": 8, "BR": 9, "BRZ": 10, "BRN": 11, "OPR": 13, "PFIX": 14, "NFIX": 15}
M32 = 0xFFFFFFFF
CORNERS = [0, 1, 2, 3, 4, 15, 16, 17, 255, 256, 0xFFFF, 0x10000, 0x7FFFFFFF, 0x80000000, 0x80000001,
           0xFFFFFFFF, 0xFFFFFFFE, 0xFFFFFFF0, 0xFFFFFF00, MEMW - 1, MEMW, MEMW * 4 - 1, MEMW * 4]


def enc(opc, v):
    """Minimal prefix encoding of a signed/unsigned 32-bit operand (python ints, any sign)."""
    v &= M32
    sv = v - (1 << 32) if v & 0x80000000 else v
    if 0 <= sv < 16:
        return [opc << 4 | sv]
    if sv >= 16:
        k = 1
        while sv >= 16 ** k:
            k += 1
        out = [(0xE << 4) | ((sv >> (4 * i)) & 0xF) for i in range(k - 1, 0, -1)]
        return out + [opc << 4 | (sv & 0xF)]
    k = 2
    while sv < -(16 ** k):
        k += 1
    out = [(0xF << 4) | ((v >> (4 * (k - 1))) & 0xF)]
    out += [(0xE << 4) | ((v >> (4 * i)) & 0xF) for i in range(k - 2, 0, -1)]
    return out + [opc << 4 | (v & 0xF)]


def hexw(x):
    return format(x & M32, "x")


def rnd_word(r: Rng):
    k = r.below(10)
    if k < 4:
        return r.choice(CORNERS)
    if k < 6:
        return r.below(256)
    if k < 8:
        return r.below(MEMW)
    return r.word()


def step_case(r: Rng, byte: int):
    """A planted state for one execution of instruction byte `byte`. Returns (line, tags)."""
    opc, nib = byte >> 4, byte & 0xF
    lane = r.below(4)
    k = r.below(10)
    if k < 6:
        pcw = r.choice([0, 1, 2, 5, 100, MEMW - 1, r.below(MEMW)])
    elif k < 9:
        pcw = r.below(MEMW)
    else:
        pcw = r.choice([MEMW, MEMW + 1, 0x3FFFFFFF, r.word() >> 2])  # out of range fetch
    pc = ((pcw << 2) | lane) & M32
    k = r.below(10)
    if k < 4:
        o = 0
    elif k < 7:
        o = (r.choice([1, 0xF, 0x10, 0xFF, 0xFFFFFFF, 0xFFFFFFF0 >> 4, 0xFFFFFF0, r.word()]) << 4) & M32
    else:
        o = rnd_word(r)
    oeff = o | nib
    a, b = rnd_word(r), rnd_word(r)
    mem = {}
    other = r.word()
    word = (other & ~(0xFF << (8 * lane))) | (byte << (8 * lane))
    if pcw < MEMW:
        mem[pcw] = word & M32
    inrange = not r.chance(1, 12)

    def target():
        if not inrange:
            return r.choice([MEMW, MEMW + 5, 0x7FFFFFFF, 0xFFFFFFFF, r.word() | 0x40000])
        return r.choice([0, 1, 2, MEMW - 1, pcw if pcw < MEMW else 7, r.below(MEMW), r.below(MEMW)])

    stdin = "-"
    files = "-"
    if opc in (0, 1, 2):
        if r.chance(2, 3):
            t = target()
            o = (t & ~0xF) | (o & 0xF & 0)  # make o|nib land on a chosen target when possible
            o = (t & ~0xF) & M32
            oeff = o | nib
        if oeff < MEMW and oeff not in mem:
            mem[oeff] = rnd_word(r)
    elif opc in (6, 7, 8):
        t = target()
        if opc == 6:
            a = (t - oeff) & M32
        else:
            b = (t - oeff) & M32
        if t < MEMW and t not in mem:
            mem[t] = rnd_word(r)
    elif opc == 0xD:
        if r.chance(1, 2):
            o = 0
            oeff = nib
        if oeff == 3:
            a = r.choice([0, 1, 2, 2, 1, 0, 3, 4, 0xFFFFFFFF, r.word()])
            sp = r.choice([0, 10, 1000, MEMW - 4, MEMW - 3, MEMW - 2, MEMW - 1, r.below(MEMW), 0xFFFFFFFE, 0xFFFFFFFF, r.word()])
            if 1 not in mem:
                mem[1] = sp
            sp = mem[1]
            streams = [0, 1, 255, 256, 257, 0x1FF, 0x200, 0x700, 0x7FF, 0x800, 0xF00, 0x1234, 0x7FFFFFFF,
                       0x80000000, 0xFFFFFFFF, r.word()]
            for off, val in ((2, r.choice(streams) if a == 2 else rnd_word(r)), (3, r.choice(streams)), (1, rnd_word(r))):
                ad = (sp + off) & M32
                if ad < MEMW and ad not in mem:
                    mem[ad] = val
            if r.chance(3, 4):
                n = r.below(4)
                stdin = "".join(format(r.choice([0, 1, 0x41, 0x7F, 0x80, 0xFF, r.below(256)]), "02x") for _ in range(n)) or "-"
            if r.chance(1, 2):
                parts = []
                for kk in range(8):
                    if r.chance(1, 3):
                        n = r.below(3)
                        parts.append(f"{kk}=" + ("".join(format(r.choice([0x42, 0x80, 0xFF, r.below(256)]), "02x") for _ in range(n)) or "-"))
                files = ";".join(parts) or "-"
    trunc = "0" if r.chance(1, 10) else "1"
    memspec = ",".join(f"{hexw(k)}={hexw(v)}" for k, v in sorted(mem.items())) or "-"
    line = f"step {hexw(pc)} {hexw(a)} {hexw(b)} {hexw(o)} {trunc} {memspec} {stdin} {files}"
    return line


# ---------------------------------------------------------------------------------------------
# Whole programs

class Prog:
    def __init__(self):
        self.b = []

    def op(self, name, v=0):
        self.b += enc(OPC[name], v)

    def opr(self, k):
        self.b.append(0xD0 | k)


def gen_program(r: Rng, size=30, sp=None, allow_undefined=False, stdout_writes=True, read_unwritten=False, init_reads=False):
    """A structured random program: header (BR over the sp word), body, exit sequence.
    Memory traffic stays in a scratch region unless `allow_undefined`."""
    sp = sp if sp is not None else r.choice([1000, 5000, MEMW - 10, 300])
    scratch = 2000
    body = Prog()
    reads = set()

    def block(depth, n):
        p = Prog()
        for _ in range(n):
            k = r.below(20)
            if k < 3:
                p.op(r.choice(["LDAC", "LDBC"]), r.choice([0, 1, 5, 15, 16, 255, 256, 4095, 65535, 65536, -1, -16, -17, -256, -65536, 0x7FFFFFFF, -0x80000000, r.word()]))
            elif k < 5:
                ad = scratch + r.below(64)
                reads.add(ad)
                p.op(r.choice(["LDAM", "LDBM", "STAM"]), ad)
            elif k == 5:
                p.op("LDAP", r.choice([0, 1, -1, 100, -4, -17, r.below(4096)]))   # result stays inside [0, 800000): body starts at byte >= 28
                if r.chance(1, 2):
                    # make the full 32-bit LDAP result observable (an address is < 2^20 here)
                    wr = Prog()
                    wr.op("LDAC", 0x51); wr.op("LDBM", 1); wr.op("STAI", 2)
                    wr.op("LDAC", 0 if stdout_writes else 0x300); wr.op("STAI", 3); wr.op("LDAC", 1); wr.opr(3)
                    p.op("LDBC", 1 << 20); p.opr(2); p.op("BRN", len(wr.b)); p.b += wr.b
            elif k < 8:
                base = scratch + r.below(32)
                reads.add(base)
                which = r.choice(["LDAI", "LDBI", "STAI"])
                off = r.choice([0, 1, 2, 15, 16, 31, -1, -2])
                if which == "LDAI":
                    p.op("LDAC", base - off); p.op("LDAI", off)
                else:
                    p.op("LDBC", base - off); p.op(which, off)
            elif k < 10:
                p.opr(r.choice([1, 2]))
            elif k < 12 and depth < 2:
                inner = block(depth + 1, 1 + r.below(4))
                if r.chance(1, 2):
                    # branch decision on a boundary value, made observable by a write in the skipped block
                    p.op("LDAC", r.choice([0, 1, -1, 0x7FFFFFFF, -0x80000000, 0x100000, 0x200000, 255, 256]))
                    wr = Prog()
                    wr.op("LDAC", 0x42); wr.op("LDBM", 1); wr.op("STAI", 2)
                    wr.op("LDAC", 0 if stdout_writes else 0x300); wr.op("STAI", 3); wr.op("LDAC", 1); wr.opr(3)
                    inner.b = wr.b + inner.b
                p.op(r.choice(["BR", "BRZ", "BRN"]), len(inner.b))
                p.b += inner.b
            elif k == 12 and depth < 2:
                # counted loop: mem[c] = n; L: body; a = mem[c]-1; mem[c]=a; BRZ out; BR L; out:
                c = scratch + 100 + depth
                n = 1 + r.below(4)
                inner = block(depth + 1, 1 + r.below(3))
                p.op("LDAC", n); p.op("STAM", c)
                loop = Prog()
                loop.b += inner.b
                loop.op("LDAM", c); loop.op("LDBC", 1); loop.opr(2); loop.op("STAM", c)
                # BRZ over the back branch; back branch length depends on distance
                back_len = 1
                while True:
                    dist = -(len(loop.b) + len(enc(OPC["BRZ"], back_len)) + back_len)
                    e = enc(OPC["BR"], dist)
                    if len(e) == back_len:
                        break
                    back_len = len(e)
                loop.op("BRZ", back_len)
                loop.b += e
                p.b += loop.b
            elif k < 16:
                # write syscall
                stream = r.choice([0, 0, 1, 255, 256, 0x300, 0x7FF, 0x800, -1]) if stdout_writes else r.choice([256, 0x300, 0x7FF, 0x800, 0x100])
                p.op("LDAC", r.choice([0x41, 0x0A, 0, 0xFF, 0x80, 0x141, r.below(256)])); p.op("LDBM", 1); p.op("STAI", 2)
                p.op("LDAC", stream); p.op("STAI", 3); p.op("LDAC", 1); p.opr(3)
                for _ in range(r.choice([0, 0, 0, 1, 2])):
                    p.opr(3)                                  # back-to-back system calls: each one is performed
            elif k < 18:
                stream = r.choice([0, 0, 0, 256, 0x200, 0x300, 0x700])
                p.op("LDAC", stream); p.op("LDBM", 1); p.op("STAI", 2); p.op("LDAC", 2); p.opr(3)
                for _ in range(r.choice([0, 0, 0, 1, 2])):
                    p.opr(3)                                  # back-to-back reads: each consumes a byte
                p.op("LDBM", 1); p.op("LDBI", 1)
                if r.chance(1, 2):
                    # make all 32 bits of the value read observable: branch on its sign / on value - 128
                    wr = Prog()
                    wr.op("LDAC", r.choice([0x4E, 0x50])); wr.op("LDBM", 1); wr.op("STAI", 2)
                    wr.op("LDAC", 0 if stdout_writes else 0x300); wr.op("STAI", 3); wr.op("LDAC", 1); wr.opr(3)
                    p.op("LDAM", 1); p.op("LDAI", 1)
                    if r.chance(1, 2):
                        p.op("LDBC", 128); p.opr(2)          # areg = value - 128
                    p.op("BRN", len(wr.b)); p.b += wr.b
            elif k == 19 and read_unwritten:
                # read a word far above the image that nothing has written, and make it observable
                p.op("LDAM", r.choice([50000, 150000, MEMW - 1, 3000 + r.below(100000)]))
                p.op("STAM", scratch + r.below(8))
            elif k == 18 and allow_undefined:
                p.b.append(r.choice([0xC0, 0xC5, 0xD4, 0xDF, 0xD3]))
            else:
                p.op("LDAC", r.below(100))
        return p

    main = block(0, size).b
    body.b += [0x30] * 20          # 20 x LDAC 0: backward LDAP offsets (>= -17) stay above address 0
    if init_reads:
        for ad in sorted(reads):
            body.op("LDAC", r.choice([0, 0, 1, 7, ad])); body.op("STAM", ad)
    body.b += main
    # exit: with a constant, or with a checksum of the registers and of the scratch words the program used (so that a wrong
    # load, store or address anywhere in the run reaches the exit value)
    if r.chance(1, 3):
        body.op("LDAC", r.choice([0, 1, 42, 255, 256, -1, r.word()]))
    else:
        body.opr(1)
        for ad in sorted(reads)[:8]:
            body.op("LDBM", ad); body.opr(1)
    body.op("LDBM", 1); body.op("STAI", 2)
    body.op("LDAC", 0); body.opr(3)
    code = [0x97, 0, 0, 0] + list(sp.to_bytes(4, "little")) + body.b
    while len(code) % 4:
        code.append(0)
    return code


def image_file(code, debug=None):
    """hexasm's file format: length word, image, then (optionally) the debug section."""
    out = list((len(code) // 4).to_bytes(4, "little")) + list(code)
    if debug is not None:
        out += list(len(debug).to_bytes(4, "little"))
        for name, _ in debug:
            out += list(name.encode()) + [0]
        out += list(len(debug).to_bytes(4, "little"))
        for i, (_, off) in enumerate(debug):
            out += list(i.to_bytes(4, "little")) + list(off.to_bytes(4, "little"))
    return out


def run_case(r: Rng, tracing=0, max_cycles=0, fill=0, size=None, debug=False, trunc=None, allow_undefined=False, stdout_writes=True, read_unwritten=False, init_reads=False):
    many = debug and size is None and r.chance(1, 10)      # a symbol table with more than 255 entries
    code = gen_program(r, size if size is not None else (150 if many else 5 + r.below(40)), allow_undefined=allow_undefined, stdout_writes=stdout_writes, read_unwritten=read_unwritten, init_reads=init_reads)
    dbg = None
    if debug:
        n = r.choice([255, 256, 257, 300]) if many else 1 + r.below(4)
        offs = sorted(set(r.below(len(code)) for _ in range(n)))
        # names of every length (the trace label is "<name>+<offset>" whatever its width)
        dbg = [(r.choice(["main", "f", "g", "put", "x1", "countdownandsum", "a_procedure_with_a_long_name", "q" * (1 + r.below(60))])
                + (str(i) if r.chance(1, 2) else ""), o) for i, o in enumerate(offs)]
    f = image_file(code, dbg)
    n = r.below(6)
    stdin = "".join(format(r.choice([0x41, 0, 0x80, 0xFF, r.below(256)]), "02x") for _ in range(n)) or "-"
    parts = []
    for kk in (1, 2, 3, 7):
        if r.chance(1, 3):
            m = r.below(4)
            parts.append(f"{kk}=" + ("".join(format(r.below(256), "02x") for _ in range(m)) or "-"))
    files = ";".join(parts) or "-"
    tr = trunc if trunc is not None else ("0" if r.chance(1, 8) else "1")
    fuel = 4000
    line = f"run {max_cycles} {tracing} {tr} {fuel} {format(fill, 'x')} {''.join(format(x, '02x') for x in f)} {stdin} {files}"
    return line


# ---------------------------------------------------------------------------------------------
# Multi-step planted cases: hidden (non-architectural) state in an implementation shows only when
# one step's effect must be seen by the next, e.g. a store into the word being executed.

SAFE = [0x30, 0x31, 0x3F, 0x40, 0x45, 0xD1, 0xD2, 0xE1, 0xE0, 0xF0, 0x35, 0x4A]   # LDAC/LDBC/ADD/SUB/PFIX/NFIX bytes


def steps_case(r: Rng):
    k = 2 + r.below(5)
    w = r.choice([2, 10, 100, 5000, MEMW - 2, r.below(MEMW - 2)])
    lane = r.below(3)
    mem = {}
    kind = r.below(6)
    old = [r.choice(SAFE) for _ in range(4)]
    new = [r.choice(SAFE) for _ in range(4)]
    a, b, o = rnd_word(r), rnd_word(r), 0
    stdin, files = "-", "-"
    if kind <= 2:
        # STAM/STAI into the word being executed (or the next one): the following bytes must be the NEW ones
        tgt = w + (0 if kind < 2 else r.below(2))
        a = int.from_bytes(bytes(new), "little")
        if kind == 0:
            o = tgt & ~0xF & M32
            old[lane] = 0x20 | (tgt & 0xF)            # STAM tgt
        else:
            off = r.below(16)
            b = (tgt - off) & M32
            old[lane] = 0x80 | off                     # STAI off  (breg + off = tgt)
        # keep the storing byte itself in place in the new word so that pc continues sensibly
        for i in range(lane + 1):
            new[i] = old[i]
        a = int.from_bytes(bytes(new), "little")
    elif kind == 3:
        # READ system call whose result word is the word being executed
        old[lane] = 0xD3
        a = 2
        mem[1] = (w - 1) & M32                         # sp+1 = w
        spv = mem[1]
        mem[(spv + 2) % (1 << 32) if (spv + 2) < MEMW else 0] = 0
        stdin = format(r.choice(SAFE), "02x")
    elif kind == 4:
        # plain straight-line bytes across a word boundary
        lane = 2 + r.below(2)
    else:
        # prefix chain spanning words
        old = [0xE0 | r.below(16), 0xF0 | r.below(16), 0xE0 | r.below(16), 0x30 | r.below(16)]
    mem[w] = int.from_bytes(bytes(old), "little")
    if w + 1 < MEMW and (w + 1) not in mem:
        mem[w + 1] = int.from_bytes(bytes(r.choice(SAFE) for _ in range(4)), "little")
    if w + 2 < MEMW and (w + 2) not in mem:
        mem[w + 2] = int.from_bytes(bytes(r.choice(SAFE) for _ in range(4)), "little")
    pc = (w << 2) | lane
    memspec = ",".join(f"{hexw(kk)}={hexw(v)}" for kk, v in sorted(mem.items()))
    return f"steps {k} {hexw(pc)} {hexw(a)} {hexw(b)} {hexw(o)} 1 {memspec} {stdin} {files}"
