"""C07: compile-time evaluation agrees with run-time evaluation.

Proof : lean/HexVerif/Properties/C07.lean - `C07_un`, `C07_ops_partial` (all operand pairs; ordering
        comparisons restricted to representable differences), `C07_ls_iff` (the restriction is tight),
        `C07_ops_false` (the full statement is false of the code: finding D23), `C07_tree_partial`
        (any placement of constant sub-trees) over the model `Xcmp/ConstFold.lean`.
Tie   : for every generated expression tree the REAL xcmp + hexsim are run on
          const  : every leaf a literal                       0(e)
          vars   : every leaf supplied through a variable     v0 := c0; ...; 0(e')
          mixed  : a random subset of the leaves through variables
          val    : val v = e; ... 0(v)                        (pure folding, before rewriting)
        and each exit value must equal the model's `codeVal` (`constVal` for val) of that variant
        (model = code), while the property itself demands const/mixed/val = vars (= `runVal`).
A tree whose variants differ is a failing input of C07; it is reported unless it matches the finding
`shape=ordering-comparison-with-overflowing-difference` of KNOWN_FINDINGS.txt (predicate `hasD23` in
Drivers/C07Driver.lean: a folded ordering comparison whose operand difference overflows).
"""
import json
import os
import time
from collections import Counter

import common as C
import c01
import gen_x as G

PID = "C07"
BOUND = [0, 1, -1, 2, 65535, 65536, 65537, -65535, -65536, -65537, 0x7FFFFFFF, -0x80000000, 0x7FFFFFFE, -0x7FFFFFFF]
ARITH = ["plus", "minus"]
REL = ["eq", "ne", "ls", "le", "gr", "ge"]
FINDING_SHAPE = "ordering-comparison-with-overflowing-difference"


def w(v):
    return v & 0xFFFFFFFF


# trees: ('c', value) | ('un', op, t) | ('bin', op, l, r)      leaves are numbered left to right

def gen_int(r, depth):
    k = r.below(100)
    if depth <= 0 or k < 25:
        return ("c", w(r.choice(BOUND)) if r.chance(1, 2) else (w(r.below(200) - 100) if r.chance(2, 3) else r.word()))
    if k < 65:
        return ("bin", r.choice(ARITH), gen_int(r, depth - 1), gen_int(r, depth - 1))
    if k < 75:
        return ("un", "neg", gen_int(r, depth - 1))
    return gen_bool(r, depth - 1)


def gen_bool(r, depth):
    k = r.below(100)
    if depth <= 0 or k < 10:
        return ("c", r.below(2))
    if k < 60:
        return ("bin", r.choice(REL), gen_int(r, depth - 1), gen_int(r, depth - 1))
    if k < 85:
        return ("bin", r.choice(["and", "or"]), gen_bool(r, depth - 1), gen_bool(r, depth - 1))
    return ("un", "not", gen_bool(r, depth - 1))


def leaves(t):
    if t[0] == "c":
        return [t[1]]
    if t[0] == "un":
        return leaves(t[2])
    return leaves(t[2]) + leaves(t[3])


def render(t, as_var, counter, r):
    """-> (X expression tree in gen_x form, model s-expression); as_var: set of leaf indices through variables"""
    if t[0] == "c":
        i = counter[0]
        counter[0] += 1
        if i in as_var:
            return ["name", f"v{i}"], f"(leaf {i})"
        v = t[1]
        style = "hex" if (v >= 0x80000000 or r.chance(1, 4)) and not r.chance(1, 8) else "dec"
        return ["num", v, style], f"(num {v:x})"
    if t[0] == "un":
        e, m = render(t[2], as_var, counter, r)
        return ["un", t[1], e], f"(un {t[1]} {m})"
    a, ma = render(t[2], as_var, counter, r)
    b, mb = render(t[3], as_var, counter, r)
    return ["bin", t[1], a, b, False], f"(bin {t[1]} {ma} {mb})"


def program(t, as_var, wrapper, r, local_vars):
    """X program for one placement; returns (source, model line)"""
    vals = leaves(t)
    e, m = render(t, as_var, [0], r)
    used = sorted(as_var)
    env = ",".join(f"{vals[i]:x}" if i in as_var else "0" for i in range(len(vals))) or "-"
    decl = "".join(f"var v{i};\n" for i in used)
    assigns = [["assign", f"v{i}", ["num", vals[i], "hex" if vals[i] >= 0x80000000 else "dec"]] for i in used]
    gl, lc = (decl, "") if not local_vars else ("", "".join(f"  var v{i};\n" for i in used))
    if wrapper == "val":
        src = f"val k = {G.pp_expr(e)};\nproc main() is 0(k)\n"
    elif wrapper == "call":
        body = ["seq", assigns + [["syscall", 0, [["call", "id", [e]]]]]]
        src = gl + "func id(val x) is return x\nproc main() is\n" + lc + G.pp_stmt(body, 1) + "\n"
    elif wrapper == "assign":
        body = ["seq", assigns + [["assign", "res", e], ["syscall", 0, [["name", "res"]]]]]
        src = "var res;\n" + gl + "proc main() is\n" + lc + G.pp_stmt(body, 1) + "\n"
    else:
        body = ["seq", assigns + [["syscall", 0, [e]]]]
        src = gl + "proc main() is\n" + lc + G.pp_stmt(body, 1) + "\n"
    return src, f"{env}|{m}"


# ------------------------------------------------------------------------------------------------
# placements with an IMPURE non-constant operand (differential only: the Lean model `codeVal` is pure)
# ------------------------------------------------------------------------------------------------

IMPURE_PRELUDE = (
    "val zv = 0;\nval ov = 1;\nval five = 5;\nvar g;\nvar c;\nvar res;\n"
    "func m1() is { 1('a', 0); g := g + 1; return 1 }\n"
    "func m0() is { 1('b', 0); g := g + 2; return 0 }\n"
    "func mk(val v) is { 1('k', 0); g := g + 4; return v }\n"
    "func id(val x) is return x\n")


def const_forms(v):
    """X source forms of the compile-time constant v: literal, val, folded sub-tree, rewritten comparison"""
    f = [str(v) if v >= 0 else f"(0 - {-v})"]
    if v == 0:
        f += ["false", "zv", "(3 - 3)", "(4 < 2)", "(1 ~= 1)", "(2 >= 3)", "(~true)", "(true and false)", "(ov - 1)"]
    elif v == 1:
        f += ["true", "ov", "(2 - 1)", "(2 < 4)", "(3 >= 2)", "(1 <= 1)", "(~false)", "(false or true)", "(1 ~= 2)"]
    elif v == 5:
        f += ["five", "(2 + 3)", "(7 - 2)", "(five + zv)", "#5"]
    elif v > 0:
        f += [f"({v} + 0)", f"({v + 1} - 1)"]
    else:
        f += [f"((0 - {-v}) + 0)", f"((0 - {-v - 1}) - 1)", f"(zv - {-v})"]
    return f


def impure_pairs(r, tier):
    """[(label, source with C as a constant, source with C supplied through a variable)]"""
    out = []
    wrappers = ["assign", "exit", "if", "actual", "put"]

    def program(expr, cval, wrapper, through_var, local):
        cdecl = "  var c;\n" if (through_var and local) else ""
        pre = f"c := {cval if cval >= 0 else '0 - ' + str(-cval)}; " if through_var else ""
        if wrapper == "assign":
            body = f"res := {expr}; 1(g + '0', 0); 0(res)"
        elif wrapper == "exit":
            body = f"0({expr})"
        elif wrapper == "if":
            body = f"if {expr} then 1('T', 0) else 1('F', 0); 1(g + '0', 0)"
        elif wrapper == "actual":
            body = f"res := id({expr}); 1(g + '0', 0); 0(res)"
        else:
            body = f"1(({expr}) + '0', 0); 1(g + '0', 0)"
        return IMPURE_PRELUDE + "proc main() is\n" + cdecl + "{ g := 0; " + pre + body + " }\n"

    logical_e = ["m1()", "m0()", "(~m1())", "(~m0())", "(m1() = 1)", "(mk(1) = 1)", "(mk(0) < 1)", "id(m0())"]
    arith_e = ["mk(3)", "mk(0)", "mk(7)", "(mk(2) + 1)", "id(mk(5))"]
    for op in ("and", "or"):
        for cv in (0, 1):
            forms = const_forms(cv)
            for form in forms if tier != "quick" else forms[:1] + [r.choice(forms[1:]) for _ in range(4)]:
                for e in (logical_e if tier != "quick" else [r.choice(logical_e) for _ in range(3)]):
                    for left in (True, False):
                        w = r.choice(wrappers) if op in ("and", "or") else "assign"
                        if w == "if" or True:
                            pass
                        ce = f"{form} {op} {e}" if left else f"{e} {op} {form}"
                        ve = f"c {op} {e}" if left else f"{e} {op} c"
                        local = r.chance(1, 3)
                        out.append((f"{op} C={form} E={e} {'C first' if left else 'E first'} in {w}",
                                    program(ce, cv, w, False, False), program(ve, cv, w, True, local)))
    for op in ("+", "-", "=", "~=", "<", "<=", ">", ">="):
        for cv in (0, 1, 5, -3):
            forms = const_forms(cv)
            for form in forms if tier != "quick" else [forms[0], r.choice(forms)]:
                for e in (arith_e if tier != "quick" else [r.choice(arith_e)]):
                    for left in (True, False):
                        w = r.choice(["assign", "exit", "actual"] if op in ("+", "-") else wrappers)
                        ce = f"{form} {op} {e}" if left else f"{e} {op} {form}"
                        ve = f"c {op} {e}" if left else f"{e} {op} c"
                        out.append((f"{op} C={form} E={e} {'C first' if left else 'E first'} in {w}",
                                    program(ce, cv, w, False, False), program(ve, cv, w, True, r.chance(1, 3))))
    # several actuals of ONE call: the same constant (in different forms) in more than one position, separated by actuals that
    # contain calls, variables or other constants (what is left in a register by one actual must not be taken for the next)
    shows = "".join(
        f"proc show{n}(" + ", ".join(f"val a{i}" for i in range(n)) + ") is { " + "; ".join(f"1(a{i} + '0', 0)" for i in range(n)) + " }\n"
        f"func fshow{n}(" + ", ".join(f"val a{i}" for i in range(n)) + ") is { " + "; ".join(f"1(a{i} + '0', 0)" for i in range(n)) + f"; return a0 + a{n - 1} }}\n"
        for n in range(2, 6))
    slots = {"E": "mk(7)", "P": "id(3)", "V": "x", "K": "2", "N": "(mk(1) + 1)", "S": "(x + 1)"}
    pats = ["CEC", "CPC", "CVC", "CEPC", "CCEC", "ECC", "CEK", "KECEC", "CNC", "CKC", "CEVC", "CC", "CCC", "PCEC", "CSC", "CEEC", "VCPC"]
    for cv in (5, 0, 1):
        forms = const_forms(cv)
        for pat in pats:
            for _ in range(1 if tier == "quick" else 6):
                cs = [r.choice(forms) for _ in pat]
                ac = ", ".join(cs[i] if ch == "C" else slots[ch] for i, ch in enumerate(pat))
                av = ", ".join("c" if ch == "C" else slots[ch] for ch in pat)
                n = len(pat)

                def prog(actuals, through_var):
                    pre = f"c := {cv}; " if through_var else ""
                    return ("var x;\n" + IMPURE_PRELUDE + shows + "proc main() is\n{ g := 0; x := 4; " + pre +
                            f"show{n}({actuals}); 1(g + '0', 0); res := fshow{n}({actuals}); 1(g + '0', 0); 0(res) }}\n")
                out.append((f"actuals {pat} C={cv} forms={cs}", prog(ac, False), prog(av, True)))
    # a constant as the WHOLE condition of if / while (and under not): the statement generators see a constant node
    for cv in (0, 1):
        for form in const_forms(cv):
            for tmpl in ("while {C} do {{ 1('w', 0); g := g + 1; if g > 2 then 0(g) else skip }}; 1('e', 0); 0(g + 7)",
                         "if {C} then 1('T', 0) else 1('F', 0); 0(g)",
                         "while ~{C} do {{ 1('w', 0); g := g + 1; if g > 2 then 0(g) else skip }}; 1('e', 0); 0(g + 7)",
                         "if ~{C} then {{ 1('T', 0); g := 3 }} else skip; 0(g)",
                         "while m1() and {C} do {{ 1('w', 0); if g > 2 then 0(g) else skip }}; 1('e', 0); 0(g + 7)",
                         "if {C} then while {C} do {{ 1('w', 0); 0(9) }} else 1('n', 0); 0(g)"):
                def cprog(cexpr, through_var):
                    pre = f"c := {cv}; " if through_var else ""
                    return IMPURE_PRELUDE + "proc main() is\n{ g := 0; " + pre + tmpl.replace("{C}", cexpr).replace("{{", "{").replace("}}", "}") + " }\n"
                out.append((f"condition {tmpl[:24]} C={form}", cprog(form, False), cprog("c", True)))
    # nested: the constant decides an inner node whose sibling is impure, under another operator
    for form0, form1 in zip(const_forms(0)[:6], const_forms(1)[:6]):
        for tmpl, cv in (("(m1() and {C}) or m0()", 0), ("m0() or ({C} and m1())", 0), ("~(m1() and {C})", 0),
                         ("(m0() or {C}) and m1()", 1), ("~({C} or m0())", 1), ("(mk(2) + {C}) - mk(1)", 1)):
            form = form0 if cv == 0 else form1
            w = "assign"
            out.append((f"nested {tmpl} C={form}", program(tmpl.replace("{C}", form), cv, w, False, False),
                        program(tmpl.replace("{C}", "c"), cv, w, True, False)))
    return out


def scope_pairs(r, tier):
    """val names and scoping: [(label, source with vals, the same program with every val supplied through a variable of its
    own name)].  A local val or var hides a global val from its declaration on; its own initialiser and earlier local
    declarations still see the global; formals hide globals; another procedure still sees the global."""
    out = []
    vals = [(5, 1), (65535, 1), (65536, 7), (3, 65536)] if tier == "quick" else [(a, b) for a in (0, 5, 65535, 65536, 70000) for b in (1, 7, 65536)]
    for a, b in vals:
        out.append((f"local val initialised from the global it hides A={a} B={b}",
                    f"val n = {a};\nproc main() is\n  val n = n + {b};\n  0(n)\n",
                    f"var gn;\nproc main() is\n  var ln;\n{{ gn := {a}; ln := gn + {b}; 0(ln) }}\n"))
        out.append((f"earlier local val sees the global, later local val hides it A={a} B={b}",
                    f"val n = {a};\nproc main() is\n  val m = n + 1;\n  val n = {b};\n  0(m + n)\n",
                    f"var gn;\nproc main() is\n  var lm;\n  var ln;\n{{ gn := {a}; lm := gn + 1; ln := {b}; 0(lm + ln) }}\n"))
        out.append((f"earlier local val sees the global, later local VAR hides it A={a} B={b}",
                    f"val n = {a};\nproc main() is\n  val m = n + 1;\n  var n;\n{{ n := {b}; 0(m + n) }}\n",
                    f"var gn;\nproc main() is\n  var lm;\n  var ln;\n{{ gn := {a}; lm := gn + 1; ln := {b}; 0(lm + ln) }}\n"))
        out.append((f"local val in one procedure, global val in the next A={a} B={b}",
                    f"val n = {a};\nproc p() is\n  val n = {b};\n  1((n = {b}) + '0', 0)\nproc q() is\n  1((n = {a}) + '0', 0)\nproc main() is\n{{ p(); q(); 0(n) }}\n",
                    f"var gn;\nproc p() is\n  var ln;\n{{ ln := {b}; 1((ln = {b}) + '0', 0) }}\nproc q() is\n  1((gn = {a}) + '0', 0)\nproc main() is\n{{ gn := {a}; p(); q(); 0(gn) }}\n"))
        out.append((f"formal hides a global val A={a} B={b}",
                    f"val n = {a};\nfunc f(val n) is return n + 1\nproc main() is\n  0(f({b}) + n)\n",
                    f"var gn;\nfunc f(val x) is return x + 1\nproc main() is\n{{ gn := {a}; 0(f({b}) + gn) }}\n"))
        out.append((f"global val used before and after a local val of the same name in nested use A={a} B={b}",
                    f"val n = {a};\nval k = n + 2;\nproc main() is\n  val j = k + n;\n  val n = j + {b};\n  val k = n + 1;\n  0((j + n) + k)\n",
                    f"var gn;\nvar gk;\nproc main() is\n  var lj;\n  var ln;\n  var lk;\n{{ gn := {a}; gk := gn + 2; lj := gk + gn; ln := lj + {b}; lk := ln + 1; 0((lj + ln) + lk) }}\n"))
    out.append(("local val as subscript, global val as array length",
                "val n = 3;\narray a[n];\nproc main() is\n  val n = 1;\n{ a[n] := 7; a[0] := 2; 0((a[n] + n) + a[0]) }\n",
                "array a[3];\nproc main() is\n  var ln;\n{ ln := 1; a[ln] := 7; a[0] := 2; 0((a[ln] + ln) + a[0]) }\n"))
    return out


def behaviour(o):
    f = o.split(" ")
    if f[0] != "ok":
        return " ".join(f[:2])
    d = dict(x.split("=", 1) for x in f[1:] if "=" in x)
    return f"exit={d.get('exit')} out={d.get('out')}"


def parse_model(o):
    return dict(x.split("=", 1) for x in o.split(" ") if "=" in x)


def exit_of(o):
    if not o.startswith("ok "):
        return o.split(" ")[0] + (":" + o.split(" ")[1] if " " in o else "")
    d = dict(x.split("=", 1) for x in o.split(" ")[1:] if "=" in x)
    return d.get("exit")


def finding_listed():
    return next((f for f in C.known_findings() if f.get("property") == PID and f.get("shape") == FINDING_SHAPE), None)


def run(tier, seed, replay=None):
    rep = C.Report(PID, "proof", tier, seed)
    info, problems = C.prove(PID, ["HexVerif.Properties.C07"])
    h = C.build_harness("h_xcmp", extra_srcs=["hex.cpp"])
    drv = C.driver_exe("c07driver")
    r = C.Rng(seed)

    trees = []
    if replay:
        case = json.load(open(replay))
        trees = [("replay", to_tuple(case["tree"]))] if "tree" in case else []
    else:
        rd = os.path.join(C.ROOT, "replays")
        if os.path.isdir(rd):
            for fn in os.listdir(rd):
                if fn.startswith(PID + "-"):
                    os.unlink(os.path.join(rd, fn))
        vals = BOUND if tier == "quick" else BOUND + [3, -2, 255, 256, -256, 4095, 4096, 0x40000000, -0x40000000, 0x7FFF0000,
                                                       -0x7FFF0000, 100000, -100000, 0x12345678, -0x12345678, 0x3FFFFFFF,
                                                       -0x3FFFFFFF, 0x55555555, -0x55555555, 16, -16, 15, -15, 17, 0x7FFFFFFD,
                                                       -0x7FFFFFFE, 1 << 16, 1 << 24]
        for op in ARITH + REL:
            for a in vals:
                for b in vals:
                    trees.append(("boundary", ("bin", op, ("c", w(a)), ("c", w(b)))))
        for op in ("and", "or"):
            for a in (0, 1):
                for b in (0, 1):
                    trees.append(("boundary", ("bin", op, ("c", a), ("c", b))))
        for a in vals:
            trees.append(("boundary", ("un", "neg", ("c", w(a)))))
        trees.append(("boundary", ("un", "not", ("c", 0))))
        trees.append(("boundary", ("un", "not", ("c", 1))))
        # nested constant comparisons: only the root of a maximal constant sub-tree is rewritten by OptimiseExpr,
        # the comparisons below it stay folded (regression: seed 3, ((a >= b) >= (0 > c)) with overflowing differences)
        trees.append(("nested", ("bin", "ge", ("bin", "ge", ("bin", "plus", ("c", 0xFFFFFFED), ("c", 0x80000000)),
                                                  ("bin", "plus", ("c", 0xFFFFFFB3), ("c", 4294967214))),
                                 ("bin", "gr", ("c", 0), ("bin", "plus", ("c", 2147483646), ("c", 2))))))
        ex = [0, 1, w(-1), 0x7FFFFFFF, 0x80000000, 65536]
        for o1 in REL:
            for o2 in REL:
                a, b, c2, d = (r.choice(ex) for _ in range(4))
                trees.append(("nested", ("bin", o2, ("bin", o1, ("c", a), ("c", b)), ("bin", o1, ("c", c2), ("c", d)))))
                trees.append(("nested", ("un", "not", ("bin", o2, ("bin", o1, ("c", a), ("c", b)), ("c", r.below(2))))))
        ntrees = 500 if tier == "quick" else 50000
        if os.environ.get("C07_NTREES"):
            ntrees = int(os.environ["C07_NTREES"])
        for i in range(ntrees):
            trees.append(("random", gen_int(r, 2 + i % 4) if i % 3 else gen_bool(r, 2 + i % 4)))

    # placements
    jobs = []       # (tree index, placement name, source, model line)
    for ti, (stream, t) in enumerate(trees):
        n = len(leaves(t))
        allv = set(range(n))
        jobs.append((ti, "vars", *program(t, allv, "exit", r, local_vars=r.chance(1, 2))))
        jobs.append((ti, "const", *program(t, set(), r.choice(["exit", "exit", "call", "assign"]), r, False)))
        jobs.append((ti, "val", *program(t, set(), "val", r, False)))
        if stream != "boundary" or r.chance(1, 4):
            for _ in range(2 if n > 1 else 0):
                sub = {i for i in range(n) if r.chance(1, 2)}
                if sub and sub != allv:
                    jobs.append((ti, "mixed", *program(t, sub, r.choice(["exit", "call", "assign"]), r, r.chance(1, 2))))
    model = C.drive_parallel(drv, [j[3] for j in jobs])
    real = c01.real_drive(h, [c01.real_line(j[2], b"", "-") for j in jobs])

    per_tree = {}
    for j, mo, ro in zip(jobs, model, real):
        per_tree.setdefault(j[0], []).append((j[1], j[2], j[3], parse_model(mo), exit_of(ro), ro))

    ops = Counter()
    tie_bad, prop_bad, known = [], [], []
    nontrivial = set()
    skipped_bool = 0
    evaluations = 0
    for ti, rows in per_tree.items():
        stream, t = trees[ti]
        vrow = next(x for x in rows if x[0] == "vars")
        if vrow[3].get("bool") != "1":
            skipped_bool += 1          # an operand of and/or/~ is not Boolean-valued: outside the quantifier
            continue
        count_ops(t, ops)
        for name, src, mline, m, ex, raw in rows:
            evaluations += 1
            expect = m.get("const") if name == "val" else m.get("code")
            if ex != expect:
                tie_bad.append((ti, name, src, mline, m, raw))
            if ex is not None and ex == expect:
                nontrivial.add(mline + name)
            if ex != vrow[4] or vrow[4] != vrow[3].get("run"):
                entry = (ti, name, src, mline, m, raw, vrow)
                if m.get("d23") == "1" and finding_listed():
                    known.append(entry)
                else:
                    prop_bad.append(entry)

    if known:
        rep.known_finding(f"{finding_listed()['raw']} ({len(known)} placements, e.g. {known[0][2].strip()[:120]!r})")
    seen = set()
    for ti, name, src, mline, m, raw, vrow in sorted(prop_bad, key=lambda x: (x[4].get("d23") == "1", len(x[2]))):
        key = mline.split("|")[1]
        if key in seen or len(seen) >= 5:
            continue
        seen.add(key)
        rep.violation(f"tree{len(seen) - 1}", {
            "property": PID, "seed": seed, "tree": trees[ti][1], "placement": name, "source": src,
            "implementation": raw, "model": m, "through_variables_source": vrow[1], "through_variables": vrow[5],
            "matches_finding_shape": FINDING_SHAPE if m.get("d23") == "1" else None,
            "note": "the placement with compile-time evaluation and the all-run-time program differ",
            "rerun": "./check C07 --replay <this file>"})
    if tie_bad and not prop_bad:
        ti, name, src, mline, m, raw = tie_bad[0]
        rep.violation("correspondence", {"property": PID, "tree": trees[ti][1], "placement": name, "source": src,
                                         "implementation": raw, "model": m, "count": len(tie_bad),
                                         "broken": "model Xcmp/ConstFold.lean vs real xcmp (no property-violating input among them)"},
                      no_input=True)
    if problems:
        rep.violation("proof", {"broken": problems}, no_input=not prop_bad)

    # placements with an impure operand: constant written out vs supplied through a variable
    pairs = (impure_pairs(r, tier) + scope_pairs(r, tier)) if not replay else []
    if replay and "source_const" in json.load(open(replay)):
        cs = json.load(open(replay))
        pairs = [(cs.get("label", "replay"), cs["source_const"], cs["source_var"])]
    pair_bad = []
    if pairs:
        obs = c01.real_drive(h, [c01.real_line(src, b"", "-") for _, a, b in pairs for src in (a, b)])
        for k, (label, a, b) in enumerate(pairs):
            oa, ob = obs[2 * k], obs[2 * k + 1]
            if behaviour(oa) != behaviour(ob) or not oa.startswith("ok "):
                pair_bad.append((label, a, b, oa, ob))
        for k, (label, a, b, oa, ob) in enumerate(sorted(pair_bad, key=lambda x: len(x[1]))[:4]):
            rep.violation(f"pair{k}", {"property": PID, "seed": seed, "label": label, "source_const": a, "source_var": b,
                                       "implementation_const": oa, "implementation_var": ob,
                                       "note": "the program with the constant written out and the program with the same value "
                                               "supplied through a variable behave differently (output incl. the markers "
                                               "of the impure operand, exit value)",
                                       "rerun": "./check C07 --replay <this file>"})
        if replay:
            for label, a, b, oa, ob in pair_bad or [(pairs[0][0], pairs[0][1], pairs[0][2], obs[0], obs[1])]:
                print(f"--- {label}\n{a}const: {oa}\n{b}var  : {ob}")

    if replay:
        for rows in per_tree.values():
            for name, src, mline, m, ex, raw in rows:
                print(f"--- {name}\n{src}model: {m}\nreal : {raw}")

    rep.coverage.update({
        "obligations": info.get("obligations", 0), "discharged": info.get("discharged", 0),
        "checker_cmd": "cd lean && lake build HexVerif.Properties.C07 && lake env lean <#print axioms of every theorem>",
        "trusted_base": ["Lean 4.33.0 kernel", "axioms: " + json.dumps(info.get("axioms", {})),
                         "Xcmp/ConstFold.lean as a model of ConstProp/OptimiseExpr/ExprCodeGen (tied by this check)",
                         "harness h_xcmp.cpp + g++ ASan/UBSan", "hexsim (C02)"],
        "evaluations": evaluations, "distinct_nontrivial": len(nontrivial),
        "rule": "boundary stream (every diadic operator x all pairs of boundary values, monadic operators x boundary values) and "
                "random typed expression trees (depth 2-5), each in the placements const / vars / val / mixed; a case is one "
                "(tree, placement) compiled by the real xcmp and run on the real hexsim; non-trivial = real exit value equals the "
                "model's value for that placement; distinct by (model tree, placement)",
        "samples": [jobs[0][2], jobs[min(len(jobs) - 1, 7)][2], jobs[-1][2]] if jobs else [p[1] for p in pairs[:1]],
        "trees": len(trees), "skipped_not_boolean_typed": skipped_bool, "operator_counts": dict(ops),
        "model_vs_impl_mismatches": len(tie_bad), "property_violations": len(prop_bad),
        "known_finding_placements": len(known),
        "impure_operand_pairs": len(pairs), "impure_operand_pair_mismatches": len(pair_bad),
        "impure_operand_stream": "differential only (constant written out vs the same value through a variable, with a call "
                                 "that prints a marker and bumps a printed global as the other operand, for and/or and "
                                 "+ - = ~= < <= > >=, both operand orders, constant forms literal/val/folded/rewritten, "
                                 "placements assign/exit/if/actual/put and nested); the Lean model codeVal stays pure",
        "impure_pair_samples": [p[1] for p in pairs[:1]],
        "property_violations_outside_finding_shape": len([x for x in prop_bad if x[4].get("d23") != "1"]),
        "traces_validated_against_impl": evaluations - len(tie_bad),
        "partial_theorems": ["C07_ops_partial (ordering comparisons restricted to representable differences; C07_ls_iff: tight)",
                             "C07_tree_partial (FoldSafe)"],
        "refuted_full_statement": "C07_ops (C07_ops_false, witness 2147483647 < (0-1))",
    })
    rep.assumptions += ["and/or/~ operands Boolean-typed (the property's quantifier)",
                        "model of the generated code's value per operator read off xcmp.hpp 2130-2242"]
    return rep.finish()


def to_tuple(t):
    if isinstance(t, list):
        return tuple(to_tuple(x) for x in t)
    return t


def count_ops(t, c):
    if t[0] == "un":
        c[t[1]] += 1
        count_ops(t[2], c)
    elif t[0] == "bin":
        c[t[1]] += 1
        count_ops(t[2], c)
        count_ops(t[3], c)
