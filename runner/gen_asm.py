"""Generators of assembly sources for C04 C05 C10 C15 C17."""
import glob
import os
from common import Rng, REPO

ABS = ["LDAM", "LDBM", "STAM", "LDAC", "LDBC"]
REL = ["LDAP", "LDAI", "LDBI", "STAI", "BR", "BRZ", "BRN"]
ALL = ABS + REL
OPR = ["BRB", "ADD", "SUB", "SVC"]
BOUND = [0, 1, 14, 15, 16, 17, 255, 256, 257, 4095, 4096, 4097, 65535, 65536, 65537, 0xFFFFF, 0x100000,
         0xFFFFFF, 0x1000000, 0xFFFFFFF, 0x10000000, 0x7FFFFFFF]


def filler(r: Rng, nbytes):
    """Source lines occupying exactly nbytes, with no labels and no alignment sensitivity."""
    out = []
    while nbytes > 0:
        k = r.below(4)
        if k == 0 and nbytes >= 5:
            out.append("LDAC 65536"); nbytes -= 5
        elif k == 1 and nbytes >= 2:
            out.append("LDBC 255"); nbytes -= 2
        elif k == 2 and nbytes >= 3:
            out.append("LDAC -4000"); nbytes -= 3
        else:
            out.append("OPR " + r.choice(["ADD", "SUB"])); nbytes -= 1
    return out


def distance_case(r: Rng, m, d, backward):
    """Reference whose label is d bytes away (measured from the end of a 1-byte encoding)."""
    if m in REL:
        if backward:
            return ["L"] + filler(r, d) + [f"{m} L"]
        return [f"{m} L"] + filler(r, d) + ["L", "OPR ADD"]
    # absolute: put the label's DATA word at word address d
    if not backward:
        return ["BR over", f"{m} L", "over"] + filler(r, max(0, 4 * d - 3)) + ["L", "DATA 7"]
    return ["BR over"] + filler(r, max(0, 4 * d - 2)) + ["L", "DATA 7", "over", f"{m} L"]


def chain_case(r: Rng, k, gap):
    lines = []
    for i in range(k):
        lines.append(f"{r.choice(REL)} L{i}")
    lines += filler(r, gap)
    for i in range(k):
        lines.append(f"L{i}")
        if r.chance(1, 2):
            lines += filler(r, r.below(3))
    lines.append("OPR SVC")
    return lines


def align_case(r: Rng):
    lines = [f"{r.choice(REL)} L"] + filler(r, r.below(6))
    lines += ["D", "DATA " + str(r.choice(BOUND))]
    lines += filler(r, r.choice([8, 9, 10, 11, 12, 13, 250, 251, 252]))
    lines += [f"{r.choice(ABS)} D", "L", "OPR ADD"]
    if r.chance(1, 2):
        lines += filler(r, r.below(4)) + ["E", "F", "DATA -1", f"{r.choice(REL)} E", f"{r.choice(ABS)} F"]
    return lines


def random_program(r: Rng, n=None, allow_bad=False):
    n = n if n is not None else 3 + r.below(40)
    nlabels = 1 + r.below(8)
    code_labels = [f"c{i}" for i in range(nlabels)]
    data_labels = [f"d{i}" for i in range(1 + r.below(4))]
    lines = []
    defined = set()
    for _ in range(n):
        k = r.below(12)
        if k < 2:
            cands = [l for l in code_labels if l not in defined]
            if cands:
                l = r.choice(cands); defined.add(l)
                kind = r.below(8)
                lines.append(("FUNC " if kind == 0 else "PROC " if kind == 1 else "") + l)
            else:
                lines.append("OPR ADD")
        elif k == 2:
            cands = [l for l in data_labels if l not in defined]
            if cands:
                l = r.choice(cands); defined.add(l)
                if r.chance(1, 4):
                    l2 = l + "x"; defined.add(l2); data_labels.append(l2)
                    lines.append(l2)
                lines.append(l)
            v = r.choice(BOUND)
            lines.append("DATA " + (("-" + str(v)) if r.chance(1, 3) else str(v if r.chance(3, 4) else (v * 3 + 1) & 0xFFFFFFFF)))
        elif k < 5:
            v = r.choice(BOUND) if r.chance(2, 3) else r.below(1 << 32)
            lines.append(f"{r.choice(ALL)} " + (("-" + str(v)) if r.chance(1, 3) else str(v)))
        elif k < 9:
            lines.append(f"{r.choice(REL)} {r.choice(code_labels + (data_labels if r.chance(1, 6) else []))}")
        elif k == 9:
            tgt = r.choice(data_labels) if (not allow_bad or r.chance(5, 6)) else r.choice(code_labels)
            lines.append(f"{r.choice(ABS)} {tgt}")
        elif k == 10:
            lines.append("OPR " + r.choice(OPR))
        else:
            lines += filler(r, r.choice([1, 2, 13, 14, 15, 16, 17, 250, 255, 256]))
    # define every label that was referenced but not placed
    for l in code_labels:
        if l not in defined:
            lines.append(l); lines.append("OPR " + r.choice(OPR))
    for l in data_labels:
        if l not in defined:
            lines.append(l); lines.append("DATA 0")
    return lines


RESERVED = set(ALL + OPR + ["OPR", "DATA", "FUNC", "PROC"])
LONG_TAILS = ["_of_the_program", "_counter_for_the_outer_loop", "_x", "_write_character_to_the_stream", "_a_rather_long_label_name_indeed"]


def long_names(r: Rng, lines):
    """The same program with every label renamed to a long identifier (consistently): a listing line `MNEMONIC label (value)`
    then exceeds any fixed column width."""
    ren = {}

    def name(tok):
        if tok not in ren:
            ren[tok] = tok + r.choice(LONG_TAILS) + str(len(ren))
        return ren[tok]

    out = []
    for l in lines:
        toks = l.split(" ")
        new = []
        for t in toks:
            if t and (t[0].isalpha() or t[0] == "_") and t not in RESERVED:
                new.append(name(t))
            else:
                new.append(t)
        out.append(" ".join(new))
    return out


def render(r: Rng, lines):
    if lines and r.chance(1, 4) and not any(l.startswith("#") for l in lines):
        lines = long_names(r, lines)
    out = []
    for l in lines:
        if r.chance(1, 15):
            out.append("# " + r.choice(["comment", "x y z", "LDAC 5", ""]) + "\n")
        sep = r.choice(["\n", "\n", "\n", " ", "\n\n", " \t", "\r\n"])
        out.append(l + sep)
    s = "".join(out)
    if r.chance(1, 5):
        s = s.rstrip("\n ")   # no trailing newline: EOF straight after the last token
    return s.encode()


def jump_case(m, n, e, fill, backward):
    """A reference whose needed operand JUMPS between two layout passes: between the reference `m` and its label stand `n`
    references to a label `fill` bytes further on; all of them grow (1 -> 3 or 4 bytes) in the pass after the one that sized
    `m`, so `m` meets its new distance while it still holds its old, shorter length.  With `n`, `e` swept, the distance seen
    in that pass lands on every value around a power of two / of sixteen."""
    mid = ["BR far"] * n + ["OPR ADD"] * e
    tail = ["LDAC 65536"] * (fill // 5) + ["far", "OPR SVC"]
    if backward:
        return ["L"] + mid + [f"{m} L"] + tail
    return [f"{m} L"] + mid + ["L", "OPR ADD"] + tail


def jump_programs(r: Rng, tier):
    out = []
    targets = [16, 32, 64, 128, 256, 512, 1024, 2048, 4096]
    if tier == "thorough":
        targets += [8192, 16384, 32768, 65536]
    for t in targets:
        g, fill = (3, 300) if t <= 2048 else (4, 4200)
        if t == 4096:
            g, fill = 3, 300          # the referrers nearest to `far` stay below 4096; the sweep covers the mixture
        n0 = t // g
        for back in (True, False):
            for n in range(max(0, n0 - 3), n0 + 2):
                for e in range(g):
                    out.append(render(r, jump_case(r.choice(REL), n, e, fill, back)))
    return out


def cascade_case(r: Rng, depth, boundary):
    """A chain of `depth` forward references; each spans exactly the next one at the largest distance its current length can
    encode (`boundary` = 15 or 255), except the last, which is one byte further.  The last grows first, which pushes the one
    before it over the boundary in the NEXT layout pass, and so on: the layout needs `depth` + 1 passes - more than any bound
    derived from the length of a single encoding."""
    base = 1 if boundary == 15 else 2
    fill = boundary - base
    one = lambda n: [r.choice(["OPR ADD", "OPR SUB", "LDAC 0", "LDBC 1"]) for _ in range(n)]
    lines = ["BR start", "DATA 16383", "start", f"{r.choice(REL)} t1"]
    for i in range(1, depth):
        lines += one(fill) + [f"{r.choice(REL)} t{i + 1}", f"t{i}"]
    lines += one(boundary + 1) + [f"t{depth}", "OPR SVC"]
    return lines


def cascade_programs(r: Rng, tier):
    depths = list(range(2, 15)) + [16, 20, 24] if tier == "quick" else list(range(2, 40)) + [48, 64, 96]
    out = [render(r, cascade_case(r, d, 15)) for d in depths]
    out += [render(r, cascade_case(r, d, 255)) for d in (depths[:6] + [9, 10, 12] if tier == "quick" else depths[:20])]
    return out


def shipped_sources():
    return [open(f, "rb").read() for f in sorted(glob.glob(os.path.join(REPO, "tests", "asm", "*.S")))]


def c05_programs(r: Rng, tier):
    progs = []
    dists = [14, 15, 16, 17, 18, 254, 255, 256, 257, 258, 4094, 4095, 4096, 4097, 4098]
    if tier == "thorough":
        dists += [65534, 65535, 65536, 65537, 65538]
    for m in REL:
        for d in dists:
            for back in (False, True):
                progs.append(render(r, distance_case(r, m, d, back)))
    for m in ABS:
        for d in [3, 4, 15, 16, 17, 63, 64, 255, 256, 257] + ([4095, 4096, 4097] if tier == "thorough" else []):
            for back in (False, True):
                progs.append(render(r, distance_case(r, m, d, back)))
    for k in range(1, 9):
        for gap in range(8, 20):
            progs.append(render(r, chain_case(r, k, gap)))
    progs += jump_programs(r, tier)
    progs += cascade_programs(r, tier)
    nalign = 200 if tier == "quick" else 5000
    for _ in range(nalign):
        progs.append(render(r, align_case(r)))
    nrand = 1200 if tier == "quick" else 60000
    for _ in range(nrand):
        progs.append(render(r, random_program(r, allow_bad=r.chance(1, 5))))
    return progs


# ---------------------------------------------------------------------------------------------
# malformed inputs (C10)

TOKENS = ALL + OPR + ["OPR", "DATA", "FUNC", "PROC", "-", "0", "1", "15", "16", "4294967295", "4294967296",
                      "18446744073709551615", "18446744073709551616", "99999999999999999999999999", "x", "L1",
                      "main", "LDAC1", "BR_", "_x", "ldac", "#", "\n", " ", "\t", "\xff", "\x80", "\x00", ";", "(", "--", "-5"]


def malformed(r: Rng, shipped):
    k = r.below(10)
    if k == 0:
        n = r.below(200)
        return bytes(r.below(256) for _ in range(n))
    if k == 1:
        n = r.below(60)
        return bytes(r.choice([32, 10, 35, 45, 48, 57, 65, 90, 95, 97, 255, 0, 128, 9, 13]) for _ in range(n))
    if k < 5:
        n = r.below(30)
        return " ".join(r.choice(TOKENS) for _ in range(n)).encode("latin1")
    if k < 8:
        # token-level mutation of a small shipped file or of a generated program
        src = r.choice(shipped[:4]) if r.chance(1, 2) and shipped else render(r, random_program(r, 10))
        toks = src.decode("latin1").split(" ")
        for _ in range(1 + r.below(4)):
            if not toks:
                break
            i = r.below(len(toks))
            op = r.below(4)
            if op == 0:
                del toks[i]
            elif op == 1:
                toks.insert(i, r.choice(TOKENS))
            elif op == 2:
                toks[i] = r.choice(TOKENS)
            else:
                toks = toks[:i]   # EOF after an arbitrary token
        return " ".join(toks).encode("latin1")
    # semantically odd but lexically clean
    lines = random_program(r, 8, allow_bad=True)
    extra = r.choice([["BR nowhere"], ["x", "x", "BR x"], ["LDAM c0"], ["OPR LDAC"], ["DATA"], ["FUNC"], ["PROC 5"],
                      ["LDAC -"], ["BR"], ["OPR"], ["DATA -x"], ["BR BR"], ["LDAC 99999999999999999999"]])
    pos = r.below(len(lines) + 1)
    return render(r, lines[:pos] + extra + lines[pos:])
