"""C10: hexasm accepts or cleanly rejects every input.
Proof: Properties/C10.lean (the model of the whole assembler is total; label resolution terminates;
       a diagnostic carries no image).  PARTIAL: freedom from undefined behaviour of the C++ itself
       is exhibited only by the sanitizer-instrumented real code on the generated inputs.
Tie:   real Lexer/Parser/CodeGen under ASan/UBSan/_GLIBCXX_ASSERTIONS with a watchdog vs the
       model's outcome class (image / diagnostic class + location), and token streams."""
import json
import os
import subprocess
import tempfile
import concurrent.futures as cf
from collections import Counter

import common as C
import asm_common as A
import gen_asm as G

PID = "C10"


def layout_variants(r):
    """every diagnostic class with the offending token on the same line, at the end of a line, at the start of the next line and
    after blank lines / indentation (the location a diagnostic carries may lie on an earlier line than the one being lexed)"""
    out = []
    heads = ["", "LDAC 0 ", "  LDBM 1   ", "lab\n", "# c\nLDAC 1\n"]
    gaps = [" ", "\n", "\n\n", "  \n   ", "\n# c\n", "\t"]
    bads = ["OPR{g}X", "OPR{g}LDAC 0", "OPR{g}7", "OPR{g}OPR", "OPR", "LDAC{g}X9{g}X9", "LDAC{g}-{g}X", "LDAC{g}-", "DATA{g}OPR", "BR{g}nowhere",
            "FUNC{g}7", "PROC{g}OPR", "LDAM{g}u{g}OPR ADD{g}u{g}DATA 1", "LDAC{g}:", "x{g}:{g}y", "OPR{g}ADD{g}OPR{g}+"]
    for h in heads:
        for b in bads:
            for g in gaps:
                out.append((h + b.replace("{g}", g) + r.choice(["", "\n", "\nLDAC 1\n", " BR 1\n"])).encode())
    return out


def run_exe(exe, src, workroot):
    d = tempfile.mkdtemp(prefix="c10x-", dir=workroot)
    try:
        with open(os.path.join(d, "p.S"), "wb") as f:
            f.write(src)
        try:
            p = subprocess.run([exe, "p.S", "-o", "o.bin"], cwd=d, stdin=subprocess.DEVNULL, stdout=subprocess.PIPE,
                               stderr=subprocess.PIPE, timeout=20)
            rc, err = p.returncode, (p.stderr + p.stdout)[:800].decode("latin1")
        except subprocess.TimeoutExpired:
            rc, err = "timeout", ""
        left = os.path.exists(os.path.join(d, "o.bin"))
        return rc, err, left
    finally:
        import shutil
        shutil.rmtree(d, ignore_errors=True)


def executable_pass(sources, recs, r, replay):
    import c14
    tools = c14.build_tools()
    exe = os.path.join(tools, "hexasm")
    workroot = os.path.join(C.BUILD, "work")
    os.makedirs(workroot, exist_ok=True)
    if replay:
        todo = list(sources)
    else:
        todo = layout_variants(r)
        seen = set()
        # one source of every outcome class of the in-process run, plus the hand-written ones
        for rec in recs:
            k = " ".join(rec["real"].split(" ")[:2])
            if k not in seen or len(seen) < 400 and len(rec["src"]) < 200 and r.chance(1, 8):
                seen.add(k)
                todo.append(rec["src"])
    with cf.ThreadPoolExecutor(max_workers=C.NPROC) as ex:
        res = list(ex.map(lambda s: run_exe(exe, s, workroot), todo))
    bad, classes = [], Counter()
    for src, (rc, err, left) in zip(todo, res):
        classes[str(rc) + ("+file" if left else "")] += 1
        if rc == 0 and left:
            continue
        if rc == 1 and not left and err.strip():
            continue
        why = ("hang" if rc == "timeout" else "killed by signal %d" % -rc if isinstance(rc, int) and rc < 0 else
               "status 0 without an output file" if rc == 0 else "diagnostic with an output file left behind" if rc == 1 and left else
               "status 1 without a diagnostic" if rc == 1 else "unexpected exit status %s" % rc)
        bad.append((src, why, rc, err))
    return bad, classes, len(todo)


def run(tier, seed, replay=None):
    rep = C.Report(PID, "proof", tier, seed)
    info, problems = C.prove(PID, ["HexVerif.Properties.C10"])
    h, drv = A.tools()
    r = C.Rng(seed)
    shipped = G.shipped_sources()
    if replay:
        sources = [bytes.fromhex(json.load(open(replay))["source_hex"])]
    else:
        n = 4000 if tier == "quick" else 250000
        sources = [b"", b"#", b"# c", b"\n", b"\xff", b"x", b"LDAC", b"OPR", b"DATA -", b"FUNC", b"LDAC -2147483648",
                   b"BR x", b"x x BR x", b"LDAM x OPR ADD x OPR SVC"] + shipped[:4]
        # every mnemonic as the operand of OPR; every directive cut off at end of file, with and without a trailing newline
        for m in G.ALL + G.OPR + ["OPR", "DATA", "FUNC", "PROC", "x", "7", "-", "-7"]:
            sources += [f"LDAC 1\nOPR {m}\n".encode(), f"OPR {m}".encode(), f"LDAC 1\nLDAC 2\nLDAC 3\nLDAC 4\nLDAC 5\n{m}".encode(),
                        f"x\nBR x\n{m} ".encode(), f"{m} {m}\n".encode(), f"{m} -\n".encode(), f"{m} - {m}\n".encode()]
        # long tokens, many labels, duplicate and DATA-only labels, numbers of many digits
        for k in (64, 255, 256, 1000, 5000):
            lab = "L" * k
            sources += [f"{lab}\nBR {lab}\n".encode(), f"BR {lab}\n".encode(), f"LDAC {'9' * k}\n".encode(), f"DATA -{'9' * k}\n".encode(),
                        ("\n".join(f"l{i}" for i in range(k)) + "\nOPR SVC\n").encode(),
                        ("\n".join(f"l{i}\nBR l{(i * 7) % k}" for i in range(min(k, 1000))) + "\n").encode(),
                        ("x\n" * k + "BR x\n").encode(), ("#" + "c" * k).encode(), ("#" + "c" * k + "\nOPR SVC").encode()]
        sources += [b"x\nx\nBR x\n", b"x\nDATA 1\nx\nDATA 2\nLDAM x\n", b"d\nDATA 5\nBR d\n", b"d\nDATA 5\nLDAM d\nLDAC d\nLDAP d\n",
                    b"FUNC\n", b"PROC\n", b"FUNC 5\n", b"FUNC f\nFUNC f\nBR f\n", b"PROC p\n", b"FUNC f\n", b"a\nb\nc\n", b"a", b"a b c",
                    b"LDAC - 5\n", b"LDAC --5\n", b"LDAC -\n5\n", b"DATA\n", b"DATA x\n", b"DATA - x\n", b"\x00", b"LDAC 1\x00\n", b"LDAC\x001\n"]
        sources += [G.malformed(r, shipped) for _ in range(n)]
    recs = A.assemble_all(h, drv, sources, want_tokens=True)
    cls = Counter()
    faults, mism, leftover = [], [], []
    kinds = set()
    for rec in recs:
        a = rec["real"]
        k = " ".join(a.split(" ")[:2]) if not a.startswith("ok") else "ok"
        cls[k] += 1
        kinds.add(k)
        if rec.get("left") is not None:
            leftover.append(rec)
        if a.startswith("fault skipped") or rec["tok_real"].startswith("fault skipped"):
            continue         # not run: the process had already hung several times in this batch
        if a.startswith("fault") or rec["tok_real"].startswith("fault"):
            faults.append(rec)
        elif a != rec["model"] or rec["tok_real"] != rec["tok_model"]:
            mism.append(rec)
    # the EXECUTABLE (hexasm.cpp main with its catch sites, built by the repository's CMake) on the hand-written sources, on
    # every accepted-or-rejected class once more, and on sources whose diagnostics refer to an earlier line than the lexer holds:
    # the process must end with status 0 (image written) or 1 (diagnostic, nothing written) - no signal, no abort, no hang
    exe_bad, exe_classes, exe_n = executable_pass(sources, recs, r, replay)
    rep.coverage.update({
        "obligations": info.get("obligations", 0), "discharged": info.get("discharged", 0),
        "checker_cmd": "cd lean && lake build HexVerif.Properties.C10 && #print axioms",
        "trusted_base": ["Lean 4.33.0 kernel", "axioms: " + json.dumps(info.get("axioms", {})),
                         "ASan/UBSan/_GLIBCXX_ASSERTIONS as the detector of undefined behaviour in the real code",
                         "isspace/isalpha/isalnum/isdigit on negative char values: glibc table lookup (not flagged)",
                         "modelled not verified: hexasm.hpp C++ text"],
        "evaluations": len(sources), "distinct_nontrivial": len(set(s for s in sources if len(s) > 3)),
        "rule": "random bytes, token soups (keywords, huge literals, 0xFF/0x80/NUL bytes), token-level mutations of shipped .S "
                "files and generated programs (EOF after any token), lexically clean but semantically odd programs; "
                "non-trivial = longer than 3 bytes, distinct by content; outcome classes below",
        "samples": [s.decode("latin1")[:120] for s in sources[20:24]],
        "outcome_classes": dict(cls), "model_vs_impl_mismatches": len(mism), "faults": len(faults),
        "diagnostic_but_output_left_behind": len(leftover),
        "traces_validated_against_impl": len(sources) - len(mism) - len(faults),
        "executable_runs": exe_n, "executable_outcomes": dict(exe_classes), "executable_failures": len(exe_bad),
    })
    rep.assumptions += ["inputs are up to a few kilobytes (property quantifier); the theorem covers < 2^26 bytes"]
    if exe_bad and not faults:
        src, why, rc, err = exe_bad[0]
        rep.violation("executable", {"source_hex": src.hex(), "source": src.decode("latin1")[:1500], "why": why, "status": rc,
                                     "stderr": err[:600], "seed": seed, "count": len(exe_bad),
                                     "rerun": "./check C10 --replay <this file>"})
    if faults:
        rec = faults[0]
        def fails(src):
            rr = A.assemble_all(h, drv, [src], want_tokens=True)[0]
            return rr["real"].startswith("fault") or rr["tok_real"].startswith("fault")
        small = A.shrink_source(rec["src"], fails)
        rr = A.assemble_all(h, drv, [small], want_tokens=True)[0]
        rep.violation("fault", {"source_hex": small.hex(), "source": small.decode("latin1"), "implementation": rr["real"],
                                "tokens": rr["tok_real"][:200], "model": rr["model"][:300], "seed": seed, "count": len(faults)})
    elif leftover:
        rec = leftover[0]
        def fails(src):
            rr = A.assemble_all(h, drv, [src])[0]
            return rr.get("left") is not None
        small = A.shrink_source(rec["src"], fails)
        rr = A.assemble_all(h, drv, [small])[0]
        rep.violation("emits-on-error", {"source_hex": small.hex(), "source": small.decode("latin1"), "implementation": rr["real"],
                                         "output_bytes_left_behind": rr.get("left"), "model": rr["model"][:300], "seed": seed,
                                         "broken": "a diagnostic was reported but the output file exists (clause: reports a diagnostic "
                                                   "and emits nothing)", "count": len(leftover)})
    elif mism:
        rec = mism[0]
        rep.violation("correspondence", {"source_hex": rec["src"].hex(), "source": rec["src"].decode("latin1")[:500],
                                         "implementation": rec["real"][:600], "model": rec["model"][:600],
                                         "tok_impl": rec["tok_real"][:300], "tok_model": rec["tok_model"][:300],
                                         "broken": "outcome class/location or token stream differs between model and hexasm.hpp",
                                         "count": len(mism)}, no_input=True)
    if problems:
        rep.violation("proof", {"broken": problems}, no_input=not (faults or leftover))
    if replay:
        for rec in recs:
            print(rec)
    return rep.finish()
