"""C06: a binary behaves identically on the RTL testbench and on the simulator.
Tie/search: the REAL hextb.cpp on the Verilated RTL (harness/h_tb.cpp `real` route = hextb's own main)
vs the REAL hexsim executable built from the tree, on toolchain binaries x inputs: stdout after the
load banner and exit status must agree (input consumption is observed through echoing programs and
end-of-input behaviour).
Proof: Properties/C06.lean (lock-step of Tb.run and Sim.run after the reset lemma; see evidence)."""
import concurrent.futures as cf
import json
import os
import shutil
import subprocess
import tempfile
from collections import Counter

import common as C
import tb_common as T
import tb_progs as P
import gen_isa as GI
import c14

PID = "C06"


def isa_binaries(r, wd, n):
    """Structured ISA programs (all three system calls, stdout and file streams)."""
    out = {}
    for i in range(n):
        line = GI.run_case(C.Rng(r.next()), tracing=0, max_cycles=0, trunc="1", stdout_writes=True, init_reads=True)
        f = line.split(" ")
        path = os.path.join(wd, f"isa{i}.bin")
        open(path, "wb").write(bytes.fromhex(f[6]))
        out[f"isa{i}"] = (path, bytes.fromhex(f[7]) if f[7] != "-" else b"", f[8])
    return out


def run(tier, seed, replay=None):
    rep = C.Report(PID, "other", tier, seed)
    prove_info, problems = ({}, [])
    if os.path.exists(os.path.join(C.LEAN, "HexVerif", "Properties", "C06.lean")):
        rep.level = "proof"
        import rtl_common
        ok_tr, tr_txt = rtl_common.regenerate()     # the RTL model is re-translated from the current tree
        prove_info, problems = C.prove(PID, ["HexVerif.Properties.C06"], allow_bv_decide=True)
        if not ok_tr:
            problems.append("translator refused the current Verilog: " + tr_txt[-300:])
    tools = c14.build_tools()
    exe = T.build_htb()
    r = C.Rng(seed)
    os.makedirs(os.path.join(C.BUILD, "work"), exist_ok=True)
    wd = tempfile.mkdtemp(dir=os.path.join(C.BUILD, "work"))
    try:
        bins = P.build_binaries(tools, wd)
        bins.update(P.build_big(tools, wd))      # an image larger than 200000 bytes whose far words are read
        # the D25 shape: first instruction is a system call
        p = os.path.join(wd, "svcfirst.S")
        open(p, "w").write("OPR SVC\nBR cont\nDATA 2\nDATA 0\nDATA 0\nDATA 42\ncont\nLDAC 5\nLDBM 1\nSTAI 2\nLDAC 0\nOPR SVC\n")
        subprocess.run([os.path.join(tools, "hexasm"), p, "-o", os.path.join(wd, "svcfirst.bin")], cwd=wd, capture_output=True)
        if os.path.exists(os.path.join(wd, "svcfirst.bin")):
            bins["svcfirst"] = os.path.join(wd, "svcfirst.bin")
        # a READ whose result word is the word holding the SVC instruction being executed
        p = os.path.join(wd, "readown.S")
        open(p, "w").write("BR start\nDATA 5\nstart\nLDAC 0\nSTAM 7\nLDAC 2\nBR svcw\nDATA 0\nDATA 0\nDATA 0\nsvcw\nDATA 211\nDATA 0\nDATA 0\n"
                           "cont\nLDAC 0\nOPR ADD\nLDBM 1\nSTAI 2\nLDAC 0\nOPR SVC\n")
        subprocess.run([os.path.join(tools, "hexasm"), p, "-o", os.path.join(wd, "readown.bin")], cwd=wd, capture_output=True)
        if os.path.exists(os.path.join(wd, "readown.bin")):
            bins["readown"] = os.path.join(wd, "readown.bin")
        jobs = []
        for name, path in bins.items():
            for inp in P.INPUTS.get(name, [b"A", b""] if name == "readown" else [b""]):
                jobs.append((name, path, inp, "-"))
        nisa = 60 if tier == "quick" else 3000
        for name, (path, inp, files) in isa_binaries(r, wd, nisa).items():
            jobs.append((name, path, inp, files))
        if replay:
            c = json.load(open(replay))
            path = os.path.join(wd, "replay.bin")
            open(path, "wb").write(bytes.fromhex(c["binary_hex"]))
            jobs = [(c["name"], path, bytes.fromhex(c["stdin_hex"]), c.get("files", "-"))]

        def one(j):
            name, path, inp, files = j
            d = tempfile.mkdtemp(dir=wd)
            res = {}
            for tool in ("tb", "sim"):
                dd = os.path.join(d, tool)
                os.makedirs(dd)
                if files != "-":
                    for kv in files.split(";"):
                        k, v = kv.split("=")
                        open(os.path.join(dd, "simin" + k), "wb").write(bytes.fromhex(v) if v != "-" else b"")
                if tool == "tb":
                    rc, out, err = T.run_tb(exe, ["real", path, "+verilator+seed+%d" % (1 + (hash(name) % 1000)), "--max-cycles", "400000"],
                                            stdin=inp, cwd=dd)
                    out = T.strip_banner(out)
                else:
                    try:
                        pr = subprocess.run([os.path.join(tools, "hexsim"), path, "--max-cycles", "400000"], input=inp, cwd=dd,
                                            stdout=subprocess.PIPE, stderr=subprocess.PIPE, timeout=120)
                        rc, out = pr.returncode, pr.stdout
                    except subprocess.TimeoutExpired:
                        rc, out = -999, b""
                outs = {}
                for k in range(8):
                    fp = os.path.join(dd, f"simout{k}")
                    if os.path.exists(fp):
                        outs[k] = open(fp, "rb").read().hex()
                res[tool] = (rc, out.hex(), outs)
            shutil.rmtree(d, ignore_errors=True)
            return res
        with cf.ThreadPoolExecutor(C.NPROC) as ex:
            res = list(ex.map(one, jobs))
        bad = []
        cls = Counter()
        for j, o in zip(jobs, res):
            cls["exit%d" % o["sim"][0] if -1 < o["sim"][0] < 256 else "other"] += 0
            cls["agree" if o["tb"] == o["sim"] else "differ"] += 1
            if o["tb"] != o["sim"]:
                bad.append({"name": j[0], "binary_hex": open(j[1], "rb").read().hex(), "stdin_hex": j[2].hex(), "files": j[3],
                            "hextb": o["tb"], "hexsim": o["sim"]})
        cov = {
            "evaluations": len(jobs), "distinct_nontrivial": len(set(j[0] for j, o in zip(jobs, res) if o["sim"][0] >= 0)),
            "rule": "toolchain binaries (X programs: exit, output, echo of stdin to EOF, loops, recursion, arrays; assembly; a binary "
                    "whose first instruction is a system call) + structured ISA programs using all three system calls on stdout and "
                    "file streams; hextb (Verilated RTL) vs hexsim on (exit status, stdout after banner, simout files); non-trivial "
                    "= distinct binary that hexsim ran to an exit",
            "samples": [j[0] for j in jobs[:12]], "outcomes": dict(cls), "differing": len(bad),
        }
        if prove_info:
            cov.update({"obligations": prove_info.get("obligations", 0), "discharged": prove_info.get("discharged", 0),
                        "checker_cmd": "cd lean && lake build HexVerif.Properties.C06 && #print axioms",
                        "trusted_base": ["Lean 4.33.0 kernel", "axioms: " + json.dumps(prove_info.get("axioms", {}))]})
        else:
            cov["explanation"] = "differential exploration only (no Lean theorem registered yet for C06)"
        rep.coverage.update(cov)
        if bad:
            rep.violation("differ", dict(bad[0], seed=seed, count=len(bad)))
        if problems:
            rep.violation("proof", {"broken": problems}, no_input=not bad)
        if replay:
            print(res)
        return rep.finish()
    finally:
        shutil.rmtree(wd, ignore_errors=True)
