#!/usr/bin/env python3
"""Run X source text through the reference semantics and the real toolchain.
usage: xtool.py [-i stdinhex] (file.x | -e 'source') ...      (HEX_REPO selects the tree)"""
import sys
import common as C
import c01
import xparse


def main():
    args = sys.argv[1:]
    data = b""
    srcs = []
    i = 0
    while i < len(args):
        if args[i] == "-i":
            data = bytes.fromhex(args[i + 1]); i += 2
        elif args[i] == "-e":
            srcs.append(args[i + 1]); i += 2
        else:
            srcs.append(open(args[i], encoding="latin1").read()); i += 1
    h = C.build_harness("h_xcmp", extra_srcs=["hex.cpp"])
    drv = C.driver_exe("xsemdriver")
    for src in srcs:
        prog = xparse.parse(src)
        ref, = c01.sem_drive(drv, [c01.sem_line(c01.G.to_sexp(prog), data, "-")])
        real, = c01.real_drive(h, [c01.real_line(src, data, "-")])
        print("src :", src.strip()[:300].replace("\n", " "))
        print("ref :", ref[:300])
        print("real:", real[:300])
        print("verdict:", "MISMATCH" if c01.fails(ref, real) else ("agree" if ref.startswith("ok") else "not in domain"))


if __name__ == "__main__":
    main()
