"""C08: generated code stays inside its memory regions and balances the stack.

For every generated well-defined X program x input (the C01 generator, filtered by the reference
semantics `X.run`) plus a boundary stream (frames of size 0/1/2, `stop` in frameless procedures,
recursion to the stack budget, arrays filling the top of memory), the REAL binary produced by the
REAL xcmp is executed one instruction at a time on the REAL hexsim (HEX_VERIF friend hook,
harness/h_xcmp.cpp `acc`), and an observer that decodes every instruction before it executes checks:

  (a) every fetch, load and store (system-call accesses included) addresses a word < 200000;
      an access outside is never executed (the run is stopped and reported);
  (b) no store hits a word from which an instruction is fetched at any time of the run;
  (c) stores at or below the end of the image hit DATA words of the assembler listing only
      (everything above the image is stack/array space);
  (d) mem[1] (the stack pointer) never rises above its load-time value;
  (e) when `main` returns (the reference semantics says so) mem[1] holds the load-time value again.

A violating (program, input) is a failing input of C08; it is shrunk with the C01 shrinker using the
C08 verdict as the failure predicate.
"""
import json
import os
import time
from collections import Counter

import common as C
import c01
import gen_x as G
import xparse

PID = "C08"

BOUNDARY = [
    "proc main() is skip",
    "proc main() is stop",
    "proc p() is stop proc main() is p()",
    "proc p(val a) is stop proc main() is p(1)",
    "proc p() is skip proc main() is { p(); p() }",
    "var g; proc p() is g := 1 proc main() is { p(); 0(g) }",
    "func f() is return 7 proc main() is 0(f())",
    "func f(val a) is return a proc main() is 0(f(7))",
    "func sum(val n) is if n = 0 then return 0 else return n + sum(n - 1) proc main() is 0(sum(60))",
    "proc down(val n) is if n > 0 then down(n - 1) else skip proc main() is down(62)",
    "array big[99990]; proc main() is { big[0] := 1; big[99989] := 2; 0(big[0] + big[99989]) }",
    "array a[1]; array b[1]; proc main() is { a[0] := 1; b[0] := 2; 1(a[0] + b[0], 0) }",
    "array a[3]; proc fill(array v, val n) is if n > 0 then { v[n - 1] := n; fill(v, n - 1) } else skip "
    "proc main() is { fill(a, 3); 0((a[0] + a[1]) + a[2]) }",
    "func len(array s) is return s[0] proc main() is 0(len(\"\") + len(\"abc\"))",
    # an ADDRESS as an earlier actual and a later actual whose evaluation performs a call (inside a subscript, under an
    # operator, nested): the callee stores through the address it received
    "array log[4]; array tab[8]; func slot(val i) is return i proc note(array a, val v) is a[1] := v "
    "proc main() is { tab[3] := 7; note(log, tab[slot(3)]); 0(log[1]) }",
    "array log[4]; array tab[8]; func slot(val i) is return i proc note(array a, val v) is a[1] := v "
    "proc main() is { tab[3] := 7; tab[7] := 3; note(log, tab[tab[slot(7)]]); note(log, 0 - tab[slot(1) + slot(2)]); 0(log[1]) }",
    "array log[4]; array tab[8]; func slot(val i) is return i proc note3(val k, array a, val v) is a[k] := v "
    "proc main() is { tab[2] := 5; note3(2, log, tab[slot(2)] + 1); note3(slot(1), log, tab[slot(2)]); 0(log[2] + log[1]) }",
    "proc main() is 1(2(0), 0)",
    "proc main() is { 1('a', 256); 1('b', 256); 0(2(512)) }",
]


def stress_programs():
    """stack pressure at the stack budget of the quantifier (call depth 62): many calls / many function calls in operands /
    deep temporaries in the body of the procedure that recurses.  A frame that is larger than it has to be (outgoing areas or
    temporaries not reused) stays unnoticed in small programs and drives the stack into the image here."""
    calls = "; ".join(["q(n, 1, 2, 3, 4)"] * 600)
    p1 = ("proc q(val a, val b, val c, val d, val e) is skip "
          f"proc walk(val n) is {{ {calls}; if n > 0 then walk(n - 1) else skip }} proc main() is walk(61)")
    asg = "; ".join(["x := g(n, x, 1, 2)"] * 500)
    p2 = ("func g(val a, val b, val c, val d) is return b + 1 "
          f"func walk(val n) is var x; {{ x := 0; {asg}; if n = 0 then return x else return walk(n - 1) }} proc main() is 0(walk(61) - 500)")
    e = "n"
    for k in range(40):
        e = f"(1 + g({e}, {k}))" if k % 2 else f"g(1 + {e}, {k})"
    tmp = "; ".join([f"x := {e}"] * 12)
    p3 = ("func g(val a, val b) is return a "
          f"func walk(val n) is var x; {{ {tmp}; if n = 0 then return 0 else return walk(n - 1) }} proc main() is 0(walk(61))")
    sys = "; ".join(["1(n, 256)"] * 400)
    p4 = f"proc walk(val n) is {{ {sys}; if n > 0 then walk(n - 1) else skip }} proc main() is walk(61)"
    return [p1, p2, p3, p4]


STRESS_FUEL = 4000000


def parse_acc(o):
    f = o.split(" ")
    if len(f) < 3 or f[0] != "acc":
        return None
    d = {"status": f[1]}
    for x in f[2:]:
        if "=" in x:
            k, v = x.split("=", 1)
            d[k] = v
    return d


def verdict(ref, acc):
    """returns list of violated clauses (empty = fine) for a case on which the reference is defined"""
    d = parse_acc(acc)
    if d is None:
        return ["harness: " + acc[:80]]
    bad = []
    if d["status"] in ("oob-access", "oob-fetch") or int(d.get("oob", "0")) > 0:
        bad.append(f"(a) access outside memory: maxfetch={d.get('maxfetch')} maxload={d.get('maxload')} maxstore={d.get('maxstore')}")
    elif d["status"] != "ok":
        bad.append("run did not complete: " + d["status"])
    if not d.get("codestore", "0:0").startswith("0:"):
        bad.append("(b) store into an instruction word: " + d["codestore"])
    if not d.get("lowstore", "0:0").startswith("0:"):
        bad.append("(c) store below the end of the image outside its DATA words: " + d["lowstore"])
    try:
        sp0, spmax, spend = int(d["sp0"], 16), int(d["spmax"], 16), int(d["spend"], 16)
        if spmax > sp0:
            bad.append(f"(d) stack pointer rose above its load-time value: {spmax:x} > {sp0:x}")
        if "end=return" in ref and d["status"] == "ok" and spend != sp0:
            bad.append(f"(e) main returned with sp={spend:x}, load-time value {sp0:x}")
    except (KeyError, ValueError):
        bad.append("harness: malformed acc line")
    return bad


def evaluate(h, drv, cases):
    sexps = [G.to_sexp(p) for p, _, _ in cases]
    refs = c01.sem_drive(drv, [c01.sem_line(sx, d, f, STRESS_FUEL if len(sx) > 20000 else None) for sx, (_, d, f) in zip(sexps, cases)])
    idx = [i for i, r in enumerate(refs) if r.startswith("ok ")]
    accs = c01.real_drive(h, [c01.real_line(G.to_source(cases[i][0]), cases[i][1], cases[i][2], cmd="acc")
                              for i in idx]) if idx else []
    out = [(r, None) for r in refs]
    for i, o in zip(idx, accs):
        out[i] = (refs[i], o)
    return out


ACC_TIE_MAX_CYCLES = 2000000
ACC_FIELDS = ("status", "exit", "cycles", "maxfetch", "maxload", "maxstore", "oob")


def access_log_tie(cases, results):
    """model side: xcmpdriver `acc|fuel|stdin|files|sexp` -> digest of Isa.runAccesses on the image of the compiler model"""
    xdrv = C.driver_exe("xcmpdriver")
    todo = []
    for k, ((prog, data, files), (ref, acc)) in enumerate(zip(cases, results)):
        d = parse_acc(acc) if (ref.startswith("ok ") and acc) else None
        if d and d.get("status") == "ok" and int(d.get("cycles", "0")) <= ACC_TIE_MAX_CYCLES:
            todo.append((k, d))
    lines = [f"acc|{int(d['cycles']) + 8}|{cases[k][1].hex() or '-'}|{cases[k][2]}|{G.to_sexp(cases[k][0])}" for k, d in todo]
    outs = (C.drive_parallel(xdrv, lines) if len(lines) >= 64 else C.drive(xdrv, lines)) if lines else []
    mism, first, naccess = 0, None, 0
    for (k, d), o in zip(todo, outs):
        m = parse_acc(o) or {}
        real = tuple(d.get(f) for f in ACC_FIELDS)
        model = tuple(m.get(f) for f in ACC_FIELDS)
        try:
            naccess += int(m.get("nfetch", 0)) + int(m.get("nload", 0)) + int(m.get("nstore", 0))
        except ValueError:
            pass
        if real != model:
            mism += 1
            if first is None:
                first = {"source": G.to_source(cases[k][0])[:3000], "stdin_hex": cases[k][1].hex(), "files": cases[k][2],
                         "fields": list(ACC_FIELDS), "real": list(real), "model": list(model), "model_line": o[:300]}
    return {"compared_runs": len(todo), "mismatches": mism, "first_mismatch": first, "accesses_logged_by_model": naccess,
            "fields": list(ACC_FIELDS), "skipped_longer_than_cycles": ACC_TIE_MAX_CYCLES}


def shrink(h, drv, prog, data, files, budget_s=60):
    t0 = time.time()
    cur = prog
    for _ in range(40):
        if time.time() - t0 > budget_s:
            break
        n0 = c01.size_of(cur)
        cands, seen = [], set()
        for c in c01.prog_alts(cur):
            sx = G.to_sexp(c)
            if sx in seen or len(sx) >= n0:
                continue
            seen.add(sx)
            cands.append(c)
            if len(cands) >= 300:
                break
        if not cands:
            break
        cands.sort(key=c01.size_of)
        res = evaluate(h, drv, [(c, data, files) for c in cands])
        nxt = next((c for c, (ref, acc) in zip(cands, res) if ref.startswith("ok ") and acc and verdict(ref, acc)), None)
        if nxt is None:
            break
        cur = nxt
    return cur


def run(tier, seed, replay=None):
    rep = C.Report(PID, "other", tier, seed)
    t0 = time.time()
    info, problems = C.prove(PID, ["HexVerif.X.Examples", "HexVerif.Properties.C08"])
    h = C.build_harness("h_xcmp", extra_srcs=["hex.cpp"])
    drv = C.driver_exe("xsemdriver")

    if replay:
        case = json.load(open(replay))
        prog, data, files = case["program"], bytes.fromhex(case["stdin_hex"]), case.get("files", "-")
        (ref, acc), = evaluate(h, drv, [(prog, data, files)])
        print(G.to_source(prog)); print("reference:", ref); print("access   :", acc)
        bad = verdict(ref, acc) if ref.startswith("ok ") and acc else []
        print("violated :", bad)
        if bad:
            rep.violation("replay", dict(case, violated=bad, access=acc))
        rep.coverage.update({"evaluations": 1, "distinct_nontrivial": 1, "rule": "replay", "samples": [G.to_source(prog)[:2000]],
                             "explanation": "replay"})
        return rep.finish()

    rd = os.path.join(C.ROOT, "replays")
    if os.path.isdir(rd):
        for fn in os.listdir(rd):
            if fn.startswith(PID + "-"):
                os.unlink(os.path.join(rd, fn))

    r = C.Rng(seed)
    nprog = 250 if tier == "quick" else 8000
    if os.environ.get("C08_NPROG"):
        nprog = int(os.environ["C08_NPROG"])
    cases = []
    for src in BOUNDARY:
        prog = xparse.parse(src)
        for data in (b"", b"az"):
            cases.append((prog, data, "-"))
    for src in stress_programs():
        cases.append((xparse.parse(src), b"", "-"))
    nb = len(cases)
    feats = Counter()
    for i in range(nprog):
        if i % 4 == 1:
            prog, f = G.callshape_program(C.Rng(r.next()))       # calling-convention boundary stream (small frames)
        elif i % 8 == 3:
            prog, f = G.flow_program(C.Rng(r.next()))            # stop / return / skip on the last statement of procedures
        else:
            prog, f = G.generate(C.Rng(r.next()), [0.5, 1.0, 1.0, 1.6][i % 4])
        feats.update(f)
        for _ in range(2):
            data, files = G.gen_input(r)
            cases.append((prog, data, files))
    results = evaluate(h, drv, cases)

    ndef = 0
    status = Counter()
    bad_cases = []
    depth = Counter()
    spans = []
    for k, ((prog, data, files), (ref, acc)) in enumerate(zip(cases, results)):
        if not ref.startswith("ok "):
            if k < nb:
                bad_cases.append((prog, data, files, ref, acc or "-", ["boundary program is not defined by the reference semantics: " + ref]))
            continue
        ndef += 1
        d = parse_acc(acc) or {}
        status[d.get("status", "harness")] += 1
        try:
            spans.append(int(d["sp0"], 16) - min(int(d["spend"], 16), int(d["sp0"], 16)))
        except (KeyError, ValueError):
            pass
        v = verdict(ref, acc)
        if v:
            bad_cases.append((prog, data, files, ref, acc, v))

    # the access log of the Lean theorems (`Isa.runAccesses`, Lemmas/IsaAccess.lean: C08_access_log / C08_v3_partial) against
    # the observer: the MODEL compiler's image run by `Isa.step` with the log's digest vs the real binary on the real hexsim
    acc_tie = access_log_tie(cases, results)

    seen = set()
    nrep = 0
    classes = Counter()
    for prog, data, files, ref, acc, v in bad_cases:
        classes[v[0][:40]] += 1
        key = G.to_sexp(prog)
        if key in seen or nrep >= 6:
            continue
        seen.add(key)
        small = shrink(h, drv, prog, data, files) if ref.startswith("ok ") else prog
        (ref2, acc2), = evaluate(h, drv, [(small, data, files)])
        v2 = verdict(ref2, acc2) if ref2.startswith("ok ") and acc2 else v
        rep.violation(f"prog{nrep}", {"property": PID, "seed": seed, "source": G.to_source(small), "program": small,
                                      "stdin_hex": data.hex(), "files": files, "reference": ref2, "access": acc2,
                                      "violated": v2, "rerun": "./check C08 --replay <this file>"})
        nrep += 1
    if problems:
        rep.violation("proof", {"broken": problems}, no_input=not bad_cases)
    if acc_tie["mismatches"]:
        rep.violation("accesslog", {"broken": "correspondence of the Lean access log (Isa.runAccesses over the compiler model's image) "
                                              "with the observer on the real binary", "first": acc_tie["first_mismatch"]},
                      no_input=not bad_cases)

    # the static theorems are about the Lean model of the compiler: its tie to the real xcmp (five stages, byte for byte)
    model_corr = C.compiler_model_tie(rep, PID, tier, seed + 1000, bool(bad_cases))

    rep.coverage.update({
        "explanation": "dynamic check of the C08 clauses on real xcmp binaries executed instruction by instruction on the real hexsim "
                       "with an access observer; plus the static frame theorems C08_static_* / C08_store_discipline (Properties/C08.lean) about the "
                       "Lean model of the code generator, which is compared with the real xcmp stage by stage",
        "evaluations": ndef, "generated_cases": len(cases), "boundary_cases": nb, "stack_pressure_programs": len(stress_programs()), "programs": nprog + len(BOUNDARY) + len(stress_programs()),
        "distinct_nontrivial": len({(G.to_sexp(p), d, f) for (p, d, f), (ref, acc) in zip(cases, results)
                                    if ref.startswith("ok ") and acc and (parse_acc(acc) or {}).get("status") == "ok"}),
        "rule": "C01 generator + boundary programs, filtered by X.run definedness; each case is a complete single-stepped run whose "
                "every fetch/load/store is observed; non-trivial = the run completed under observation; distinct by (program, input)",
        "samples": [G.to_source(cases[nb][0])[:2500]] if len(cases) > nb else [BOUNDARY[0]],
        "run_status": dict(status), "violating_cases": len(bad_cases), "violation_classes": dict(classes),
        "max_stack_words_at_exit": max(spans) if spans else 0,
        "feature_distribution": dict(sorted(feats.items())), "lean": info, "compiler_model_correspondence": model_corr,
        "traces_validated_against_impl": ndef - len(bad_cases),
        "access_log_correspondence": acc_tie,
    })
    rep.assumptions += ["well-definedness = X.run (lean/HexVerif/X/Sem.lean) defined", "the observer decodes each instruction from the "
                        "architectural state before hexsim executes it (friend hook) and mirrors hexsim's address computation",
                        "DATA words of the image = DATA lines of xcmp's own assembler listing (EMIT_ASM)"]
    return rep.finish()
