"""Shared by the hexasm checks: run sources through the real assembler, the Lean model and the
Lean oracle."""
import common as C


def hx(b: bytes):
    return b.hex() or "-"


def tools():
    h = C.build_harness("h_asm", extra_srcs=["hex.cpp"], flags=C.SAN_FLAGS + ["-DNDEBUG"])
    drv = C.driver_exe("asmdriver")
    return h, drv


def assemble_all(h, drv, sources, want_tokens=False):
    """Returns list of dicts: src, real, model, oracle (chk line or None)."""
    lines = ["asm " + hx(s) for s in sources]
    real = C.drive_parallel(h, lines, workdir=True, timeout_per_case=30.0)
    left = [None] * len(real)     # bytes of output the real assembler left behind although it reported a diagnostic
    for i, a in enumerate(real):
        if a.startswith("diag ") and " LEFT=" in a:
            a, l = a.rsplit(" LEFT=", 1)
            real[i], left[i] = a, int(l)
    model = C.drive_parallel(drv, lines, timeout_per_case=30.0)
    chk_in, idx = [], []
    for i, (s, a) in enumerate(zip(sources, real)):
        if a.startswith("ok "):
            f = a.split(" ")
            chk_in.append(f"check {hx(s)} {f[1]} {f[2]}")
            idx.append(i)
    chk = C.drive_parallel(drv, chk_in, timeout_per_case=30.0) if chk_in else []
    oracle = [None] * len(sources)
    for i, c in zip(idx, chk):
        oracle[i] = c
    out = [{"src": s, "real": a, "model": b, "oracle": o, "left": l} for s, a, b, o, l in zip(sources, real, model, oracle, left)]
    if want_tokens:
        tl = ["tok " + hx(s) for s in sources]
        tr = C.drive_parallel(h, tl, workdir=True)
        tm = C.drive_parallel(drv, tl)
        for d, x, y in zip(out, tr, tm):
            d["tok_real"], d["tok_model"] = x, y
    return out


def shrink_source(src: bytes, still_fails, max_steps=400):
    """Delta-debug by lines, then by tokens."""
    cur = src
    for sep in (b"\n", b" "):
        parts = cur.split(sep)
        i = 0
        steps = 0
        while i < len(parts) and steps < max_steps:
            cand = sep.join(parts[:i] + parts[i + 1:])
            steps += 1
            if cand != cur and still_fails(cand):
                parts = parts[:i] + parts[i + 1:]
                cur = cand
            else:
                i += 1
    return cur
