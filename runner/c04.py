"""C04: the assembler's prefix encoding reconstructs every 32-bit operand exactly.
Proof: Properties/C04.lean (for all 2^32 values x 12 mnemonics the emitted bytes are a prefix
       chain that the ISA decodes to exactly that value, leaving the operand register clear).
Tie:   real hexasm (harness/h_asm.cpp) vs Lean model on one-instruction programs; the decidable
       oracle `Asm.checkImage` (ISA decode of the REAL bytes) on every case; thorough tier sweeps
       all 2^32 values through the real InstrImm/emitProgramBin (harness/h_asm_sweep.cpp)."""
import json
import os
import subprocess
import concurrent.futures as cf
from collections import Counter

import common as C
import asm_common as A
import gen_asm as G

PID = "C04"
OPCN = {m: i for i, m in enumerate(["LDAM", "LDBM", "STAM", "LDAC", "LDBC", "LDAP", "LDAI", "LDBI", "STAI", "BR", "BRZ", "BRN"])}


def values(r, tier):
    vs = set([0, 1, 15, 16, 17, 0x7FFFFFFF, 0x80000000, 0x80000001, 0xFFFFFFFF, 0xFFFFFFF0, 0xFFFFFFF1, 0xFFFFFFEF])
    for k in range(1, 8):
        for d in (-1, 0, 1):
            vs.add((16 ** k + d) & 0xFFFFFFFF)
            vs.add((-(16 ** k) + d) & 0xFFFFFFFF)
    n = 1500 if tier == "quick" else 100000
    for _ in range(n):
        vs.add(r.word() >> r.below(32))
        vs.add((-(r.word() >> r.below(32))) & 0xFFFFFFFF)
    return sorted(vs)


def literal_forms(v):
    """Source spellings that denote v (mod 2^32): unsigned decimal, and -n."""
    forms = [str(v)]
    n = (-v) & 0xFFFFFFFF
    forms.append("-" + str(n))
    if v >= 0x80000000:
        pass
    return forms


def run(tier, seed, replay=None):
    rep = C.Report(PID, "proof", tier, seed)
    info, problems = C.prove(PID, ["HexVerif.Properties.C04"])
    h, drv = A.tools()
    r = C.Rng(seed)
    cases = []   # (mnemonic, v, source)
    if replay:
        c = json.load(open(replay))
        cases = [(c["mnemonic"], c["value"], bytes.fromhex(c["source_hex"]))]
    else:
        vals = values(r, tier)
        bvals = vals[:]
        for m in OPCN:
            sub = bvals if m == "LDAC" else [v for v in bvals if r.chance(1, 4)] + [0x80000000, 0xFFFFFFFF, 16, 0xFFFFFFF0]
            for v in sub:
                for f in literal_forms(v):
                    cases.append((m, v, f"{m} {f}\n".encode()))
    lines = ["asm " + A.hx(s) for (_, _, s) in cases]
    real = C.drive_parallel(h, lines, workdir=True)
    model = C.drive_parallel(drv, lines)
    chk_in = []
    for (m, v, s), a in zip(cases, real):
        if a.startswith("ok "):
            chk_in.append(f"check04 {OPCN[m]:x} {v:x} {a.split(' ')[1]}")
        else:
            chk_in.append("bad")
    chk = C.drive_parallel(drv, chk_in)
    genuine, mism = [], []
    lens = Counter()
    for (m, v, s), a, b, o in zip(cases, real, model, chk):
        if not a.startswith("ok ") or o != "chk image=true header=true":
            genuine.append((m, v, s, a, o))
        elif a != b:
            mism.append((m, v, s, a, b))
        if a.startswith("ok "):
            lens[(len(a.split(" ")[1]) // 2 - 4)] += 1
    sweep = None
    if tier == "thorough" and not replay:
        sweep = run_sweep(rep)
        if sweep.get("failures"):
            f = sweep["failures"][0]
            genuine.append(("LDAC", f["value"], f"LDAC {f['value']}".encode(), f["bytes"], "sweep oracle"))
    rep.coverage.update({
        "obligations": info.get("obligations", 0), "discharged": info.get("discharged", 0),
        "checker_cmd": "cd lean && lake build HexVerif.Properties.C04 && #print axioms",
        "trusted_base": ["Lean 4.33.0 kernel", "axioms: " + json.dumps(info.get("axioms", {})),
                         "Asm/Check.lean decodeChain = ISA prefix rules (hexb.pdf p.8)",
                         "harness h_asm.cpp (real Lexer/Parser/CodeGen) + ASan/UBSan", "modelled not verified: hexasm.hpp C++ text"],
        "evaluations": len(cases), "distinct_nontrivial": len(set((m, v) for (m, v, _) in cases if v >= 16)),
        "rule": "one-instruction programs: 12 mnemonics x boundary/random 32-bit values x {unsigned literal, -n literal}; "
                "non-trivial = value needs at least one prefix byte; judged by ISA decode of the real bytes",
        "samples": [c[2].decode() for c in cases[:3]] + [cases[-1][2].decode()],
        "image_size_histogram": {str(k): v for k, v in sorted(lens.items())},
        "model_vs_impl_mismatches": len(mism), "oracle_violations": len(genuine),
        "exhaustive": bool(sweep and sweep.get("complete")),
    })
    if sweep:
        rep.coverage["sweep"] = {k: v for k, v in sweep.items() if k != "failures"}
    if genuine:
        m, v, s, a, o = genuine[0]
        rep.violation("operand", {"mnemonic": m, "value": v, "source_hex": s.hex(), "source": s.decode(),
                                  "implementation": a, "oracle": o, "seed": seed})
    elif mism:
        m, v, s, a, b = mism[0]
        rep.violation("correspondence", {"mnemonic": m, "value": v, "source_hex": s.hex(), "implementation": a, "model": b,
                                         "broken": "Asm model vs hexasm.hpp bytes differ although both decode correctly"}, no_input=True)
    if problems:
        rep.violation("proof", {"broken": problems}, no_input=not genuine)
    if replay:
        for (m, v, s), a, b, o in zip(cases, real, model, chk):
            print(s, a, b, o)
    return rep.finish()


def run_sweep(rep):
    exe = C.build_harness("h_asm_sweep", extra_srcs=["hex.cpp"], flags=["-std=c++17", "-O2", "-DNDEBUG", "-DHEX_VERIF"])
    n = C.NPROC
    step = (1 << 32) // n
    def one(i):
        lo, hi = i * step, ((i + 1) * step if i < n - 1 else (1 << 32))
        r = subprocess.run([exe, str(lo), str(hi)], stdout=subprocess.PIPE, stderr=subprocess.PIPE, text=True)
        return r.stdout
    with cf.ThreadPoolExecutor(max_workers=n) as ex:
        outs = list(ex.map(one, range(n)))
    total, fails = 0, []
    for o in outs:
        for l in o.splitlines():
            if l.startswith("checked "):
                total += int(l.split()[1])
            elif l.startswith("FAIL "):
                f = l.split()
                fails.append({"value": int(f[1]), "mnemonic": f[2], "bytes": f[3]})
    return {"values_checked": total, "complete": total >= (1 << 32), "failures": fails[:10], "failure_count": len(fails)}
