"""C01: xcmp preserves X source semantics in the binaries it emits.

Oracle: the reference semantics `X.run` (lean/HexVerif/X/Sem.lean, driver `xsemdriver`), which is
`undefined` wherever the X definition is silent or the C01 quantifier excludes a case.
Implementation: the real `xcmp::Driver` (EMIT_BINARY) and the real `hexsim::Processor`, in-process,
under ASan/UBSan (harness/h_xcmp.cpp).

For every generated program x input on which the reference semantics is *defined*, the real
toolchain must show exactly that behaviour (stdout bytes, bytes per output file, number of stdin
bytes consumed, exit value).  A defined program that behaves differently is a failing input of C01:
it is shrunk (while it stays defined and still fails) and reported as a VIOLATION with a replay file,
unless it matches an entry of KNOWN_FINDINGS.txt (reported as KNOWN-FINDING).
"""
import copy
import json
import os
import re
import sys
import time
from collections import Counter

import common as C
import gen_x as G
import xparse

PID = "C01"
FUEL = 200000          # evaluation steps of the reference semantics (run-length bound of the quantifier)
MAXCYCLES = 40000000   # cycle watchdog of the real run (>= 200 cycles per reference step)


# ------------------------------------------------------------------------------------------------
# running both sides
# ------------------------------------------------------------------------------------------------

def sem_line(sexp, data, files, fuel=None):
    return f"{fuel or FUEL}|{data.hex() or '-'}|{files}|{sexp}"


def real_line(src, data, files, cmd="run"):
    return f"{cmd} {src.encode('latin1').hex() or '-'} {data.hex() or '-'} {files} {MAXCYCLES}"


def sem_drive(drv, lines):
    # the interpreter recurses once per loop iteration / call level: give it a large stack
    sh = f"ulimit -s unlimited 2>/dev/null || ulimit -s 4000000 2>/dev/null; exec {drv}"
    if len(lines) < 64:
        return C.drive("/bin/sh", lines, args=("-c", sh))
    return C.drive_parallel("/bin/sh", lines, args=("-c", sh))


def real_drive(h, lines):
    env = dict(os.environ)
    env["ASAN_OPTIONS"] = "detect_leaks=0:" + env.get("ASAN_OPTIONS", "")
    return C.drive_parallel(h, lines, workdir=True, env=env, timeout_per_case=60.0)


def canon(obs):
    """comparable part of an observation: exit, stdout, stdin consumed, output files"""
    f = obs.split(" ")
    if f[0] != "ok":
        return obs if f[0] != "timeout" else "timeout"
    d = dict(x.split("=", 1) for x in f[1:] if "=" in x)
    return f"ok exit={d.get('exit')} out={d.get('out')} in={d.get('in')} files={d.get('files')}"


def nontrivial(ref):
    d = dict(x.split("=", 1) for x in ref.split(" ")[1:] if "=" in x)
    return d.get("out") != "-" or d.get("exit") != "0" or d.get("in") != "0" or d.get("files") != "-"


# ------------------------------------------------------------------------------------------------
# known findings (predicates on the failing program)
# ------------------------------------------------------------------------------------------------

def walk_exprs(e, f):
    f(e)
    t = e[0]
    if t in ("sub", "un"):
        walk_exprs(e[2], f)
    elif t == "bin":
        walk_exprs(e[2], f); walk_exprs(e[3], f)
    elif t in ("call", "syscall"):
        for a in e[2]:
            walk_exprs(a, f)


def walk_stmts(s, fs, fe):
    fs(s)
    t = s[0]
    if t == "ret":
        walk_exprs(s[1], fe)
    elif t == "if":
        walk_exprs(s[1], fe); walk_stmts(s[2], fs, fe); walk_stmts(s[3], fs, fe)
    elif t == "while":
        walk_exprs(s[1], fe); walk_stmts(s[2], fs, fe)
    elif t == "seq":
        for x in s[1]:
            walk_stmts(x, fs, fe)
    elif t == "assign":
        walk_exprs(s[2], fe)
    elif t == "assignsub":
        walk_exprs(s[2], fe); walk_exprs(s[3], fe)
    elif t in ("call", "syscall"):
        for a in s[2]:
            walk_exprs(a, fe)


def contains_call(e):
    found = []
    walk_exprs(e, lambda x: found.append(1) if x[0] in ("call", "syscall") else None)
    return bool(found)


def shape_if_skip_skip_call(prog, source):
    """`if e then skip else skip` whose condition contains a call (DESIGN D24)"""
    hit = []

    def fs(s):
        if s[0] == "if" and s[2] == ["skip"] and s[3] == ["skip"] and contains_call(s[1]):
            hit.append(1)
    for p in prog["procs"]:
        walk_stmts(p["body"], fs, lambda e: None)
    return bool(hit)


SHAPES = {
    "if-skip-skip-with-call-in-condition": shape_if_skip_skip_call,
}


def matches_known_finding(prog, source):
    """consulted before a failing program is reported: returns the matching finding or None"""
    for f in C.known_findings():
        if f.get("property") != PID:
            continue
        pred = SHAPES.get(f.get("shape", ""))
        if pred is not None and pred(prog, source):
            return f
    return None


# ------------------------------------------------------------------------------------------------
# shrinking
# ------------------------------------------------------------------------------------------------

def expr_alts(e):
    t = e[0]
    if t not in ("num", "bool"):
        yield ["num", 0, "dec"]
        yield ["num", 1, "dec"]
    if t in ("sub", "un"):
        yield e[2]
        for a in expr_alts(e[2]):
            yield [t, e[1], a]
    elif t == "bin":
        yield e[2]
        yield e[3]
        for a in expr_alts(e[2]):
            yield ["bin", e[1], a, e[3], False]
        for a in expr_alts(e[3]):
            yield ["bin", e[1], e[2], a, False]
    elif t in ("call", "syscall"):
        for i, x in enumerate(e[2]):
            yield x
        for i, x in enumerate(e[2]):
            for a in expr_alts(x):
                yield [t, e[1], e[2][:i] + [a] + e[2][i + 1:]]
    elif t == "str" and e[1]:
        yield ["str", []]
        yield ["str", e[1][:len(e[1]) // 2]]
    elif t == "num" and e[1] > 1:
        yield ["num", 0, "dec"]
        yield ["num", 1, "dec"]
        yield ["num", e[1] // 2, "dec"]


def stmt_alts(s):
    t = s[0]
    if t != "skip":
        yield ["skip"]
    if t == "ret":
        for a in expr_alts(s[1]):
            yield ["ret", a]
    elif t == "if":
        yield s[2]
        yield s[3]
        for a in stmt_alts(s[2]):
            yield ["if", s[1], a, s[3]]
        for a in stmt_alts(s[3]):
            yield ["if", s[1], s[2], a]
        for a in expr_alts(s[1]):
            yield ["if", a, s[2], s[3]]
    elif t == "while":
        yield s[2]
        for a in stmt_alts(s[2]):
            yield ["while", s[1], a]
        for a in expr_alts(s[1]):
            yield ["while", a, s[2]]
    elif t == "seq":
        xs = s[1]
        if len(xs) == 1:
            yield xs[0]
        if len(xs) > 3:
            yield ["seq", xs[:len(xs) // 2]]
            yield ["seq", xs[len(xs) // 2:]]
        if len(xs) > 1:
            for i in range(len(xs)):
                yield ["seq", xs[:i] + xs[i + 1:]]
        for i, x in enumerate(xs):
            if x[0] == "seq":
                yield ["seq", xs[:i] + x[1] + xs[i + 1:]]
            for a in stmt_alts(x):
                if a == ["skip"] and len(xs) > 1:
                    continue
                yield ["seq", xs[:i] + [a] + xs[i + 1:]]
    elif t == "assign":
        for a in expr_alts(s[2]):
            yield ["assign", s[1], a]
    elif t == "assignsub":
        for a in expr_alts(s[2]):
            yield ["assignsub", s[1], a, s[3]]
        for a in expr_alts(s[3]):
            yield ["assignsub", s[1], s[2], a]
    elif t in ("call", "syscall"):
        for i, x in enumerate(s[2]):
            for a in expr_alts(x):
                yield [t, s[1], s[2][:i] + [a] + s[2][i + 1:]]


def prog_alts(prog):
    ps = prog["procs"]
    for i, p in enumerate(ps):
        if p["name"] != "main":
            yield {"globals": prog["globals"], "procs": ps[:i] + ps[i + 1:]}
    gs = prog["globals"]
    for i in range(len(gs)):
        yield {"globals": gs[:i] + gs[i + 1:], "procs": ps}
    for i, p in enumerate(ps):
        for a in stmt_alts(p["body"]):
            q = dict(p); q["body"] = a
            yield {"globals": gs, "procs": ps[:i] + [q] + ps[i + 1:]}
        for j in range(len(p["locals"])):
            q = dict(p); q["locals"] = p["locals"][:j] + p["locals"][j + 1:]
            yield {"globals": gs, "procs": ps[:i] + [q] + ps[i + 1:]}
        # drop a formal together with the corresponding actual of every call
        for j in range(len(p["formals"])):
            q = dict(p); q["formals"] = p["formals"][:j] + p["formals"][j + 1:]
            cand = {"globals": gs, "procs": ps[:i] + [q] + ps[i + 1:]}
            yield drop_actual(cand, p["name"], j)
    for i, d in enumerate(gs):
        if d[0] in ("val", "array"):
            for a in expr_alts(d[2]):
                yield {"globals": gs[:i] + [[d[0], d[1], a]] + gs[i + 1:], "procs": ps}


def drop_actual(prog, name, j):
    def ex(e):
        t = e[0]
        if t in ("sub", "un"):
            return [t, e[1], ex(e[2])]
        if t == "bin":
            return ["bin", e[1], ex(e[2]), ex(e[3]), False]
        if t in ("call", "syscall"):
            args = [ex(a) for a in e[2]]
            if t == "call" and e[1] == name and j < len(args):
                args = args[:j] + args[j + 1:]
            return [t, e[1], args]
        return e

    def st(s):
        t = s[0]
        if t == "ret":
            return ["ret", ex(s[1])]
        if t == "if":
            return ["if", ex(s[1]), st(s[2]), st(s[3])]
        if t == "while":
            return ["while", ex(s[1]), st(s[2])]
        if t == "seq":
            return ["seq", [st(x) for x in s[1]]]
        if t == "assign":
            return ["assign", s[1], ex(s[2])]
        if t == "assignsub":
            return ["assignsub", s[1], ex(s[2]), ex(s[3])]
        if t in ("call", "syscall"):
            args = [ex(a) for a in s[2]]
            if t == "call" and s[1] == name and j < len(args):
                args = args[:j] + args[j + 1:]
            return [t, s[1], args]
        return s
    out = {"globals": prog["globals"], "procs": []}
    for p in prog["procs"]:
        q = dict(p); q["body"] = st(p["body"])
        out["procs"].append(q)
    return out


def size_of(prog):
    return len(G.to_sexp(prog))


def evaluate(h, drv, cases):
    """cases: list of (prog, data, files). returns list of (ref, real or None)"""
    sexps = [G.to_sexp(p) for p, _, _ in cases]
    refs = sem_drive(drv, [sem_line(sx, d, f) for sx, (_, d, f) in zip(sexps, cases)])
    idx = [i for i, r in enumerate(refs) if r.startswith("ok ")]
    reals = real_drive(h, [real_line(source_of(cases[i][0]), cases[i][1], cases[i][2]) for i in idx]) if idx else []
    out = [(r, None) for r in refs]
    for i, o in zip(idx, reals):
        out[i] = (refs[i], o)
    return out


def source_of(prog):
    """source text handed to the real compiler: comments and layout noise derived from the program itself"""
    sx = G.to_sexp(prog)
    return G.to_source(prog, layout=C.Rng(len(sx) * 7919 + sum(sx.encode()[:200])))


def fails(ref, real):
    return ref.startswith("ok ") and real is not None and canon(ref) != canon(real)


def shrink(h, drv, prog, data, files, max_rounds=60, budget_s=120):
    t0 = time.time()
    cur = prog
    for _ in range(max_rounds):
        if time.time() - t0 > budget_s:
            break
        cands = []
        seen = set()
        n0 = size_of(cur)
        for c in prog_alts(cur):
            sx = G.to_sexp(c)
            if sx in seen or len(sx) >= n0:
                continue
            seen.add(sx)
            cands.append(c)
            if len(cands) >= 400:
                break
        if not cands:
            break
        cands.sort(key=size_of)
        res = evaluate(h, drv, [(c, data, files) for c in cands])
        nxt = None
        for c, (ref, real) in zip(cands, res):
            if fails(ref, real):
                nxt = c
                break
        if nxt is None:
            # also try with empty input
            break
        cur = nxt
    return cur


# ------------------------------------------------------------------------------------------------
# corpus: the repository's own X programs with the expectations its unit tests state
# ------------------------------------------------------------------------------------------------

CORPUS_EXPECT = [
    # (file, stdin, expected stdout or None, expected exit or None)   - from tests/unit/x_programs.cpp
    ("hello_putval.x", b"", b"hello world\n", None),
    ("hello_prints.x", b"", b"hello world\n", None),
    ("exit.x", b"", None, None),
]


def corpus_cases():
    d = os.path.join(C.REPO, "tests", "x")
    out = []
    for fn, data, exp_out, exp_exit in CORPUS_EXPECT:
        p = os.path.join(d, fn)
        if os.path.exists(p):
            out.append((fn, open(p, encoding="latin1").read(), data, exp_out, exp_exit))
    return out


# ------------------------------------------------------------------------------------------------
# the check
# ------------------------------------------------------------------------------------------------

def replay_payload(prog, data, files, ref, real, seed, note=""):
    return {"property": PID, "seed": seed, "source": G.to_source(prog), "program": prog,
            "stdin_hex": data.hex(), "files": files, "reference": ref, "implementation": real,
            "note": note, "rerun": "./check C01 --replay <this file>"}


def run(tier, seed, replay=None):
    rep = C.Report(PID, "other", tier, seed)
    t0 = time.time()
    info, problems = C.prove(PID, ["HexVerif.X.Examples", "HexVerif.Properties.C01", "HexVerif.Lemmas.XcmpIAm", "HexVerif.Lemmas.XcmpExpr", "HexVerif.Lemmas.XcmpStage3"])
    h = C.build_harness("h_xcmp", extra_srcs=["hex.cpp"])
    drv = C.driver_exe("xsemdriver")

    if replay:
        case = json.load(open(replay))
        prog = case["program"]
        data = bytes.fromhex(case["stdin_hex"])
        files = case.get("files", "-")
        (ref, real), = evaluate(h, drv, [(prog, data, files)])
        print(G.to_source(prog))
        print("stdin    :", data.hex() or "-", "files:", files)
        print("reference:", ref)
        print("real     :", real)
        if fails(ref, real):
            kf = matches_known_finding(prog, G.to_source(prog))
            if kf:
                rep.known_finding(kf["raw"])
            else:
                rep.violation("replay", replay_payload(prog, data, files, ref, real, seed))
        rep.coverage.update({"evaluations": 1, "distinct_nontrivial": 1 if ref.startswith("ok") else 0,
                             "rule": "replay of one stored case", "samples": [G.to_source(prog)[:2000]],
                             "explanation": "replay"})
        return rep.finish()

    # stale replay files of earlier runs would be misleading
    rd = os.path.join(C.ROOT, "replays")
    if os.path.isdir(rd):
        for fn in os.listdir(rd):
            if fn.startswith(PID + "-"):
                os.unlink(os.path.join(rd, fn))
    r = C.Rng(seed)
    nprog = 300 if tier == "quick" else 20000
    if os.environ.get("C01_NPROG"):
        nprog = int(os.environ["C01_NPROG"])      # development aid
    ninp = 3 if tier == "quick" else 4
    feats = Counter()
    constructs = Counter()
    cases = []          # (prog, data, files)
    progs = []
    for i in range(nprog):
        size = [0.5, 1.0, 1.0, 1.6][i % 4] if i % 25 else 3.0
        if i % 8 == 5:
            prog, f = G.logic_program(C.Rng(r.next()))           # and/or with one constant operand and an impure one
        elif i % 16 == 3:
            prog, f = G.flow_program(C.Rng(r.next()))            # control reaching / not reaching the end of a procedure
        elif i % 4 == 1:
            prog, f = G.callshape_program(C.Rng(r.next()))       # calling-convention boundary stream
        else:
            prog, f = G.generate(C.Rng(r.next()), size, loose=(i % 7 == 3))
        progs.append(prog)
        feats.update(f)
        G.count_constructs(prog, constructs)
        for _ in range(ninp):
            data, files = G.gen_input(r)
            cases.append((prog, data, files))

    # corpus programs: real behaviour against the expectations of the unit tests
    corpus_bad = []
    clines, cexp = [], []
    for fn, src, data, exp_out, exp_exit in corpus_cases():
        clines.append(real_line(src, data, "-"))
        cexp.append((fn, exp_out, exp_exit))
    if clines:
        for (fn, exp_out, exp_exit), o in zip(cexp, real_drive(h, clines)):
            d = dict(x.split("=", 1) for x in o.split(" ")[1:] if "=" in x)
            good = o.startswith("ok ")
            if good and exp_out is not None:
                good = d.get("out") == (exp_out.hex() or "-")
            if not good:
                corpus_bad.append((fn, o))

    # corpus of minimised past failures and boundary programs (corpus/C01/*.x): run first, through the same oracle
    ncorpus = 0
    cdir = os.path.join(C.ROOT, "corpus", PID)
    if os.path.isdir(cdir):
        pre = []
        for fn in sorted(os.listdir(cdir)):
            if fn.endswith(".x"):
                prog = xparse.parse(open(os.path.join(cdir, fn), encoding="latin1").read())
                for data in (b"", b"\x00a", b"zz\xff"):
                    pre.append((prog, data, "2=4142" if "files" in fn else "-"))
        ncorpus = len(pre)
        cases = pre + cases
    results = evaluate(h, drv, cases)
    t_run = time.time() - t0
    for (prog, data, files), (ref, real) in list(zip(cases, results))[:ncorpus]:
        if not ref.startswith("ok "):
            corpus_bad.append(("corpus program not defined by the reference semantics", G.to_source(prog) + ref))

    undefined = Counter()
    ndef = 0
    nontriv = set()
    mism = []
    real_classes = Counter()
    for (prog, data, files), (ref, real) in zip(cases, results):
        if not ref.startswith("ok "):
            why = ref.split(" ", 1)
            key = why[1] if len(why) > 1 else ref
            key = re.sub(r"(variable|name|procedure|function|to|of|formal) [A-Za-z][A-Za-z0-9_]*", r"\1 N", key)
            undefined[(why[0] + ":" + key)[:90]] += 1
            continue
        ndef += 1
        real_classes[real.split(" ")[0] if real else "none"] += 1
        if nontrivial(ref):
            nontriv.add((G.to_sexp(prog), data, files))
        if fails(ref, real):
            mism.append((prog, data, files, ref, real))

    # triage: shrink distinct failing programs
    reported = []
    known = Counter()
    seen_prog = set()
    max_shrink = 12 if tier == "quick" else 40
    for prog, data, files, ref, real in mism:
        key = G.to_sexp(prog)
        if key in seen_prog:
            continue
        seen_prog.add(key)
        kf = matches_known_finding(prog, G.to_source(prog))
        if kf:
            known[kf["raw"]] += 1
            continue
        if len(reported) >= max_shrink:
            continue
        small = shrink(h, drv, prog, data, files, budget_s=60 if tier == "quick" else 120)
        (ref2, real2), = evaluate(h, drv, [(small, data, files)])
        kf = matches_known_finding(small, G.to_source(small))
        if kf:
            known[kf["raw"]] += 1
            continue
        reported.append((small, data, files, ref2, real2))

    for k, n in known.items():
        rep.known_finding(f"{k} ({n} programs)")
    # distinct shrunk witnesses first
    uniq = {}
    for small, data, files, ref2, real2 in reported:
        uniq.setdefault(G.to_source(small), (small, data, files, ref2, real2))
    for i, (src, (small, data, files, ref2, real2)) in enumerate(sorted(uniq.items(), key=lambda kv: len(kv[0]))):
        rep.violation(f"prog{i}", replay_payload(small, data, files, ref2, real2, seed,
                                                 note="shrunk failing program: reference semantics defined, real xcmp+hexsim differs"))
    for fn, o in corpus_bad:
        rep.violation("corpus-" + fn, {"property": PID, "corpus_file": fn, "implementation": o,
                                       "note": "tests/x program does not show the behaviour its unit test expects"})
    if problems:
        rep.violation("proof", {"broken": problems}, no_input=not uniq)

    # compiler model (Xcmp/*.lean) vs the real xcmp, stage by stage and byte for byte
    model_corr = {}
    try:
        import subprocess, sys as _sys
        mr = subprocess.run([_sys.executable, os.path.join(C.ROOT, "runner", "c01model.py"), "--tier", tier],
                            capture_output=True, text=True, timeout=3000,
                            env=dict(os.environ, VERIF_SEED=str(seed)))
        summ = os.path.join(C.ROOT, "evidence", "C01model.json")
        if os.path.exists(summ):
            model_corr = json.load(open(summ))
        model_corr["exit"] = mr.returncode
        model_corr["tail"] = mr.stdout.strip().splitlines()[-1:] if mr.stdout else []
        if mr.returncode != 0:
            rep.violation("model-correspondence", {"broken": "Xcmp compiler model vs real xcmp differ (runner/c01model.py)",
                                                   "detail": (mr.stdout + mr.stderr)[-3000:]}, no_input=not uniq)
    except Exception as e:   # pragma: no cover
        rep.violation("model-correspondence", {"broken": "c01model.py could not run", "detail": str(e)}, no_input=not uniq)

    nprog_def = len({G.to_sexp(p) for (p, d, f), (ref, real) in zip(cases, results) if ref.startswith("ok ")})
    sample_i = next((i for i, (ref, _) in enumerate(results) if ref.startswith("ok ")), 0)
    rep.coverage.update({
        "explanation": "reference-semantics oracle (Lean X.run, executed natively) vs real xcmp->hexsim on generated "
                       "well-defined X programs of the whole language; Lean theorems Properties/C01.lean (stages 1-4, full statement for the "
                       "class v2Ok) about the compiler model, which is compared with the real xcmp stage by stage",
        "evaluations": ndef, "generated_cases": len(cases), "programs": nprog, "programs_defined": nprog_def,
        "distinct_nontrivial": len(nontriv),
        "rule": "type- and initialisation-directed generator (runner/gen_x.py) x random inputs; a case counts when X.run is "
                "defined on it; non-trivial = defined and produces output, a non-zero exit value or consumes input; distinct by "
                "(program s-expression, input)",
        "samples": [G.to_source(cases[sample_i][0])[:3000]] if cases else [],
        "discard_rate": round(1 - ndef / max(1, len(cases)), 3),
        "undefined_reasons": dict(undefined.most_common(25)),
        "construct_distribution": dict(sorted(constructs.items())),
        "feature_distribution": dict(sorted(feats.items())),
        "real_outcome_classes": dict(real_classes),
        "mismatching_cases": len(mism), "mismatching_programs": len(seen_prog),
        "known_finding_programs": sum(known.values()),
        "shrunk_witnesses": [{"source": s, "reference": v[3], "implementation": v[4]} for s, v in list(uniq.items())[:10]],
        "corpus_checked": len(clines), "corpus_cases": ncorpus, "corpus_bad": [f for f, _ in corpus_bad],
        "compiler_model_correspondence": model_corr,
        "lean": info, "fuel": FUEL, "max_cycles": MAXCYCLES, "run_wall_s": round(t_run, 1),
        "traces_validated_against_impl": ndef - len(mism),
    })
    rep.assumptions += ["X meaning = lean/HexVerif/X/Sem.lean (xhexnotes.pdf pp.1-8 + DESIGN.md oracle rules)",
                        "stack budget: call depth <= 64, arrays <= 100000 words, run length <= fuel steps",
                        "harness built with ASan/UBSan/_GLIBCXX_ASSERTIONS; hexsim truncateInputs=true"]
    return rep.finish()
