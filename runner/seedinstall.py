#!/usr/bin/env python3
"""usage: seedinstall.py <src dir> <seed id> <property> <needs> <first_run_result> <caught_by> <ran>
copies a confirmed seeded change (patch.diff, demo, README) to /verif/seeded/<seed id>/ and writes meta.json"""
import json, os, shutil, sys
src, sid, prop, needs, first, caught, ran = sys.argv[1:8]
dst = os.path.join(os.path.dirname(os.path.dirname(os.path.abspath(__file__))), "seeded", sid)
os.makedirs(dst, exist_ok=True)
for fn in os.listdir(src):
    if fn in ("property.json", "run_patched.log") or fn.endswith(".verify"):
        continue
    p = os.path.join(src, fn)
    if os.path.isdir(p):
        shutil.copytree(p, os.path.join(dst, fn), dirs_exist_ok=True)
    else:
        shutil.copy(p, os.path.join(dst, fn))
json.dump({
    "breaks_property": prop, "needs_to_manifest": needs, "checks_that_catch_it": [caught], "first_run_result": first,
    "confirmed": "runner/seedverify.sh: applied in a scratch worktree of /repo HEAD; runner/baseline.sh -> UnitTests 129/129 pass "
                 "with the change; demo.sh exits non-zero on the changed tree and 0 on /repo",
    "ran": ran,
    "origin": "fresh sub-agent given only the property text (and told which ideas had been tried before) and a scratch worktree under /tmp",
}, open(os.path.join(dst, "meta.json"), "w"), indent=1)
print("installed", dst)
