#!/usr/bin/env python3
"""Self-test of the C03/C16 machinery: inject bugs / harmless rewrites into a SCRATCH copy of the
repository's verilog/ and synth/ directories and record what ./check reports.

  python3 runner/rtl_selftest.py [name ...]

Never touches $HEX_REPO; the scratch copy lives under /var/tmp/rtl-scratch-selftest and is deleted at
the end, and lean/HexVerif/Rtl/Gen is regenerated from the real repository afterwards."""
import json
import os
import re
import shutil
import subprocess
import sys
import time

ROOT = os.path.dirname(os.path.dirname(os.path.abspath(__file__)))
REPO = os.environ.get("HEX_REPO", "/repo")
SCRATCH = "/var/tmp/rtl-scratch-selftest"

# name: (check, file, old, new, expectation)
MUTATIONS = {
    "brn_unsigned": ("C03", "verilog/processor.sv", "(signed'(areg_q) < 0) ?", "(areg_q < 0) ?", "violation"),
    "sub_swapped": ("C03", "verilog/processor.sv", "{areg_q - breg_q}", "{breg_q - areg_q}", "violation"),
    "ldap_pc_q": ("C03", "verilog/processor.sv",
                  "hex_pkg::LDAP: areg_d = {11'b0, pc_d + signed'(", "hex_pkg::LDAP: areg_d = {11'b0, pc_q + signed'(", "violation"),
    "nfix_const": ("C03", "verilog/processor.sv", "32'hFFFFFF00 | (opr_d << 4)", "32'hFFFFFFF0 | (opr_d << 4)", "violation"),
    "stai_areg": ("C03", "verilog/processor.sv",
                  """      hex_pkg::LDBI,
      hex_pkg::STAI:
        o_d_addr = {breg_q[hex_pkg::MEM_ADDR_WIDTH-3:0]
                     + signed'(opr_d[hex_pkg::MEM_ADDR_WIDTH-3:0])};""",
                  """      hex_pkg::LDBI:
        o_d_addr = {breg_q[hex_pkg::MEM_ADDR_WIDTH-3:0]
                     + signed'(opr_d[hex_pkg::MEM_ADDR_WIDTH-3:0])};
      hex_pkg::STAI:
        o_d_addr = {areg_q[hex_pkg::MEM_ADDR_WIDTH-3:0]
                     + signed'(opr_d[hex_pkg::MEM_ADDR_WIDTH-3:0])};""", "violation"),
    "fetch_lane": ("C03", "verilog/memory.sv", "{3'b000, i_f_addr[1:0]} << 3", "{3'b000, i_f_addr[1:0]} << 2", "violation"),
    "hex_we_wiring": ("C03", "verilog/hex.sv", ".i_d_we    (req_d_we),", ".i_d_we    (req_d_valid),", "violation"),
    # the state of the tree before repo commit d715191: a store under reset
    "memory_write_unqualified": ("C03", "verilog/memory.sv", "if (!i_rst && i_d_valid && i_d_we) begin",
                                 "if (i_d_valid && i_d_we) begin", "violation"),
    "svc_decode_sub": ("C03", "verilog/processor.sv", "instr.operand == hex_pkg::SVC;", "instr.operand == hex_pkg::SUB;", "violation"),
    "casez_wildcard_add": ("C03", "verilog/processor.sv", """        unique case(instr.operand)
          hex_pkg::ADD: areg_d = {areg_q + breg_q};""", """        unique casez(instr.operand)
          4'b00?1: areg_d = {areg_q + breg_q};""", "violation"),   # translator refuses (wildcard item); ADD now also fires on SVC
    # request also raised for the UNDEFINED bytes D7/DB/DF: C03_svc (stated for all bytes) breaks, but no
    # byte inside the property's domain misbehaves
    "svc_decode_undefined_bytes": ("C03", "verilog/processor.sv", "instr.operand == hex_pkg::SVC;",
                                   "instr.operand[1:0] == 2'd3;", "ok-or-nofail"),
    "v_brz_polarity": ("C16", "verilog/processor.v",
                       "pc_d = (areg_q == {32 {1'sb0}} ? {pc_d + $signed(opr_d[20:0])} : pc_d);",
                       "pc_d = (areg_q == {32 {1'sb0}} ? pc_d : {pc_d + $signed(opr_d[20:0])});", "violation"),
    "synth_one_line": ("C16", "synth/processor.v", "areg_d = {areg_q - breg_q};", "areg_d = {areg_q + breg_q};", "violation"),
    "v_we_missing_stai": ("C16", "verilog/processor.v", None, None, "violation"),   # handled below (regex)
    # harmless rewrites
    "h_reorder_case": ("C03", "verilog/processor.sv",
                       """      hex_pkg::LDAM: areg_d = i_d_data;
      hex_pkg::LDAC: areg_d = opr_d;""",
                       """      hex_pkg::LDAC: areg_d = opr_d;
      hex_pkg::LDAM: areg_d = i_d_data;""", "ok-or-nofail"),
    "h_rename_wire": ("C03", "verilog/processor.sv", "opr_d", "operand_word", "ok-or-nofail"),
    "h_we_rewrite": ("C03", "verilog/processor.sv",
                     "assign o_d_we = instr.opcode inside {hex_pkg::STAM, hex_pkg::STAI};",
                     "assign o_d_we = (instr.opcode == hex_pkg::STAM) || (instr.opcode == hex_pkg::STAI);", "ok-or-nofail"),
    "h_v_reorder_case": ("C16", "verilog/processor.v",
                         """			sv2v_cast_024B2('h0): areg_d = i_d_data;
			sv2v_cast_024B2('h3): areg_d = opr_d;""",
                         """			sv2v_cast_024B2('h3): areg_d = opr_d;
			sv2v_cast_024B2('h0): areg_d = i_d_data;""", "ok-or-nofail"),
    "h_casez_no_wildcards": ("C03", "verilog/processor.sv", "unique case(instr.operand)", "unique casez(instr.operand)", "ok-or-nofail"),
    # Verilator merges the two part-select assignments into one concatenation: still proved
    "h_partselect": ("C03", "verilog/processor.sv", "assign o_d_data = areg_q;",
                     "always_comb begin o_d_data[31:16] = areg_q[31:16]; o_d_data[15:0] = areg_q[15:0]; end", "ok-or-nofail"),
    # outside the translator's vocabulary (a loop) but harmless: refused, nothing found
    "h_loop_refused": ("C03", "verilog/processor.sv", "assign o_d_data = areg_q;",
                       "always_comb for (int i = 0; i < 32; i++) o_d_data[i] = areg_q[31-i] ^ areg_q[i] ^ areg_q[31-i];", "ok-or-nofail"),
}


def fresh_copy():
    shutil.rmtree(SCRATCH, ignore_errors=True)
    os.makedirs(SCRATCH)
    for d in ("verilog", "synth"):
        shutil.copytree(os.path.join(REPO, d), os.path.join(SCRATCH, d))


def apply(name):
    chk, rel, old, new, _ = MUTATIONS[name]
    p = os.path.join(SCRATCH, rel)
    s = open(p).read()
    if name == "v_we_missing_stai":
        # drop the STAI term of o_d_we in the sv2v output (keep only the STAM term)
        m = re.search(r"assign o_d_we = \|\{(.*)\};", s)
        terms = m.group(1).split(", ((sv2v_cast_024B2('h8)")
        assert len(terms) == 2
        s2 = s.replace(m.group(0), "assign o_d_we = |{" + terms[0] + "};")
    elif name == "h_rename_wire":
        s2 = re.sub(r"\bopr_d\b", new, s)
    else:
        assert old in s, f"{name}: pattern not found in {rel}"
        s2 = s.replace(old, new)
    assert s2 != s
    open(p, "w").write(s2)
    return chk


def main():
    names = sys.argv[1:] or list(MUTATIONS)
    results = {}
    env = dict(os.environ, HEX_REPO=SCRATCH)
    # the evidence files describe the real repository: keep them
    saved = {}
    for pid in ("C03", "C16"):
        p = os.path.join(ROOT, "evidence", pid + ".json")
        saved[p] = open(p).read() if os.path.exists(p) else None
    try:
        for name in names:
            fresh_copy()
            chk = apply(name)
            t = time.time()
            r = subprocess.run([os.path.join(ROOT, "check"), chk], cwd=ROOT, env=env, stdout=subprocess.PIPE,
                               stderr=subprocess.PIPE, text=True)
            verdict = [l for l in r.stdout.splitlines() if l.startswith(("VIOLATION", "OK", "KNOWN"))]
            detail = ""
            m = re.search(r"replay=(\S+)", " ".join(verdict))
            if m and os.path.exists(m.group(1)):
                j = json.load(open(m.group(1)))
                if "input" in j:
                    detail = json.dumps({k: j[k] for k in j if k in ("input", "verilated_rtl", "isa_oracle", "difference",
                                                                     "design_a", "observation_a", "design_b", "observation_b")})[:700]
                else:
                    detail = json.dumps(j.get("broken", j))[:700]
            results[name] = {"check": chk, "exit": r.returncode, "verdict": verdict, "wall_s": round(time.time() - t, 1),
                             "expect": MUTATIONS[name][4], "detail": detail}
            print(f"== {name} [{chk}] exit={r.returncode} {verdict} ({results[name]['wall_s']}s)\n   {detail}", flush=True)
    finally:
        for p, txt in saved.items():
            if txt is not None:
                open(p, "w").write(txt)
        shutil.rmtree(SCRATCH, ignore_errors=True)
        subprocess.run([sys.executable, os.path.join(ROOT, "translator", "sv2lean.py"), "--repo", REPO,
                        "--out", os.path.join(ROOT, "lean", "HexVerif", "Rtl", "Gen")], stdout=subprocess.DEVNULL)
    out = os.path.join(ROOT, "build", "rtl_selftest.json")
    os.makedirs(os.path.dirname(out), exist_ok=True)
    json.dump(results, open(out, "w"), indent=1)
    bad = [n for n, v in results.items() if (v["expect"] == "violation" and not (v["exit"] == 1 and "no-failing-input-found" not in " ".join(v["verdict"])))
           or (v["expect"] == "ok-or-nofail" and not (v["exit"] == 0 or "no-failing-input-found" in " ".join(v["verdict"])))]
    print("UNEXPECTED:", bad)
    return 1 if bad else 0


if __name__ == "__main__":
    sys.exit(main())
