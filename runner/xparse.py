"""Parser of X source text into the tree shape of gen_x.py, following xcmp's grammar (xcmp.hpp Lexer
215-492, Parser 1254-1663) - used to push the repository's own tests/x/*.x programs and hand-written
witnesses through the reference semantics.  Independent of the C++ (written from the grammar), and
only a convenience: generated programs never pass through it."""
import re

KEYWORDS = {"and", "array", "do", "else", "false", "func", "if", "is", "or", "proc", "return", "skip",
            "stop", "then", "true", "val", "var", "while"}
ESC = {"\\": 92, "'": 39, '"': 34, "t": 9, "r": 13, "n": 10}
BINOPS = {"+": "plus", "-": "minus", "=": "eq", "~=": "ne", "<": "ls", "<=": "le", ">": "gr", ">=": "ge",
          "and": "and", "or": "or"}


class ParseError(Exception):
    pass


def tokenize(src):
    toks = []
    i, n = 0, len(src)
    while i < n:
        c = src[i]
        if c.isspace():
            i += 1
        elif c == "|":
            while i < n and src[i] != "\n":
                i += 1
        elif c.isalpha():
            j = i + 1
            while j < n and (src[j].isalnum() or src[j] == "_"):
                j += 1
            w = src[i:j]
            toks.append(("kw", w) if w in KEYWORDS else ("id", w))
            i = j
        elif c.isdigit():
            j = i + 1
            while j < n and src[j].isdigit():
                j += 1
            toks.append(("num", int(src[i:j]) & 0xFFFFFFFF, "dec"))
            i = j
        elif c == "#":
            j = i + 1
            while j < n and re.match(r"[0-9a-zA-Z]", src[j]):
                j += 1
            m = re.match(r"[0-9a-fA-F]*", src[i + 1:j])
            toks.append(("num", int(m.group(0) or "0", 16) & 0xFFFFFFFF, "hex"))
            i = j
        elif c == "'":
            i += 1
            if src[i] == "\\":
                v = ESC.get(src[i + 1])
                if v is None:
                    raise ParseError("bad escape")
                i += 2
            else:
                v = ord(src[i]); i += 1
            if i >= n or src[i] != "'":
                raise ParseError("expected ' after char constant")
            i += 1
            toks.append(("num", v, "chr"))
        elif c == '"':
            i += 1
            out = []
            while i < n and src[i] != '"':
                if src[i] == "\\":
                    v = ESC.get(src[i + 1])
                    if v is None:
                        raise ParseError("bad escape")
                    out.append(v); i += 2
                else:
                    out.append(ord(src[i]) & 0xFF); i += 1
            if i >= n:
                raise ParseError("unterminated string")
            i += 1
            toks.append(("str", out))
        else:
            two = src[i:i + 2]
            if two in ("<=", ">=", "~=", ":="):
                toks.append(("op", two)); i += 2
            elif c in "[](){};,+-=<>~":
                toks.append(("op", c)); i += 1
            else:
                raise ParseError("unexpected character " + repr(c))
    toks.append(("eof",))
    return toks


class Parser:
    def __init__(self, src):
        self.t = tokenize(src)
        self.i = 0

    def peek(self):
        return self.t[self.i]

    def next(self):
        x = self.t[self.i]; self.i += 1
        return x

    def is_op(self, o):
        x = self.peek()
        return x[0] == "op" and x[1] == o

    def is_kw(self, k):
        x = self.peek()
        return x[0] == "kw" and x[1] == k

    def expect_op(self, o):
        if not self.is_op(o):
            raise ParseError(f"expected {o}, got {self.peek()}")
        self.i += 1

    def expect_kw(self, k):
        if not self.is_kw(k):
            raise ParseError(f"expected {k}, got {self.peek()}")
        self.i += 1

    def ident(self):
        x = self.next()
        if x[0] != "id":
            raise ParseError(f"expected name, got {x}")
        return x[1]

    def binop(self):
        x = self.peek()
        if x[0] == "op" and x[1] in BINOPS:
            return BINOPS[x[1]]
        if x[0] == "kw" and x[1] in ("and", "or"):
            return x[1]
        return None

    def expr(self):
        if self.is_op("-"):
            self.i += 1
            return ["un", "neg", self.element()]
        if self.is_op("~"):
            self.i += 1
            return ["un", "not", self.element()]
        e = self.element()
        op = self.binop()
        if op:
            self.i += 1
            return ["bin", op, e, self.rhs(op), False]
        return e

    def rhs(self, op):
        e = self.element()
        if op in ("plus", "and", "or") and self.binop() == op:
            self.i += 1
            return ["bin", op, e, self.rhs(op), True]
        return e

    def args(self):
        # after '(' has been consumed
        if self.is_op(")"):
            self.i += 1
            return []
        out = [self.expr()]
        while self.is_op(","):
            self.i += 1
            out.append(self.expr())
        self.expect_op(")")
        return out

    def element(self):
        x = self.next()
        if x[0] == "id":
            if self.is_op("["):
                self.i += 1
                e = self.expr()
                self.expect_op("]")
                return ["sub", x[1], e]
            if self.is_op("("):
                self.i += 1
                return ["call", x[1], self.args()]
            return ["name", x[1]]
        if x[0] == "num":
            if self.is_op("("):
                self.i += 1
                return ["syscall", x[1], self.args()]
            return ["num", x[1], x[2]]
        if x[0] == "str":
            return ["str", x[1]]
        if x[0] == "kw" and x[1] in ("true", "false"):
            return ["bool", 1 if x[1] == "true" else 0]
        if x[0] == "op" and x[1] == "(":
            e = self.expr()
            self.expect_op(")")
            return e
        raise ParseError(f"in expression element, got {x}")

    def decl(self):
        x = self.next()
        if x[1] == "val":
            n = self.ident(); self.expect_op("="); e = self.expr(); self.expect_op(";")
            return ["val", n, e]
        if x[1] == "var":
            n = self.ident(); self.expect_op(";")
            return ["var", n]
        if x[1] == "array":
            n = self.ident(); self.expect_op("["); e = self.expr(); self.expect_op("]"); self.expect_op(";")
            return ["array", n, e]
        raise ParseError("invalid declaration")

    def stmt(self):
        x = self.peek()
        if x[0] == "kw":
            k = x[1]
            if k == "skip":
                self.i += 1; return ["skip"]
            if k == "stop":
                self.i += 1; return ["stop"]
            if k == "return":
                self.i += 1; return ["ret", self.expr()]
            if k == "if":
                self.i += 1
                c = self.expr(); self.expect_kw("then"); t = self.stmt(); self.expect_kw("else"); e = self.stmt()
                return ["if", c, t, e]
            if k == "while":
                self.i += 1
                c = self.expr(); self.expect_kw("do")
                return ["while", c, self.stmt()]
        if x[0] == "op" and x[1] == "{":
            self.i += 1
            ss = [self.stmt()]
            while self.is_op(";"):
                self.i += 1
                ss.append(self.stmt())
            self.expect_op("}")
            return ["seq", ss]
        if x[0] in ("id", "num"):
            e = self.element()
            if e[0] in ("call", "syscall"):
                return [e[0], e[1], e[2]]
            if x[0] == "num":
                raise ParseError("invalid statement beginning with number")
            self.expect_op(":=")
            r = self.expr()
            if e[0] == "name":
                return ["assign", e[1], r]
            return ["assignsub", e[1], e[2], r]
        raise ParseError(f"invalid statement, got {x}")

    def program(self):
        gs, ps = [], []
        while self.peek()[0] == "kw" and self.peek()[1] in ("val", "var", "array"):
            gs.append(self.decl())
        while self.peek()[0] == "kw" and self.peek()[1] in ("proc", "func"):
            kind = self.next()[1]
            name = self.ident()
            self.expect_op("(")
            fs = []
            if self.is_op(")"):
                self.i += 1
            else:
                while True:
                    k = self.next()
                    if k[0] != "kw" or k[1] not in ("val", "array", "proc", "func"):
                        raise ParseError("invalid formal")
                    fs.append([k[1], self.ident()])
                    if self.is_op(","):
                        self.i += 1
                    else:
                        break
                self.expect_op(")")
            self.expect_kw("is")
            ls = []
            while self.peek()[0] == "kw" and self.peek()[1] in ("val", "var"):
                ls.append(self.decl())
            ps.append({"kind": kind, "name": name, "formals": fs, "locals": ls, "body": self.stmt()})
        if self.peek()[0] != "eof":
            raise ParseError(f"trailing input {self.peek()}")
        return {"globals": gs, "procs": ps}


def parse(src):
    return Parser(src).program()
