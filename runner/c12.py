"""C12: a simulator run depends only on the binary, the input and the options.
Proof: Properties/C12.lean (junk independence, zero memory, cycle limit, tracing is an observer).
Tie:   the real Processor constructed by placement-new on storage filled with 0x00/0xA5/0xFF/PRNG
       bytes, with and without -t, with cycle limits; all compared with each other and the model."""
import json
import os
from collections import Counter

import common as C
import gen_isa as G

PID = "C12"


def fields(line):
    return line.split(" ")


def run(tier, seed, replay=None):
    rep = C.Report(PID, "proof", tier, seed)
    info, problems = C.prove(PID, ["HexVerif.Properties.C12"])
    h = C.build_harness("h_sim", extra_srcs=["hex.cpp"])
    drv = C.driver_exe("simdriver")
    r = C.Rng(seed)
    nprog = 60 if tier == "quick" else 1500
    fills = [0x00, 0xA5, 0xFF, 0x5A]
    groups = []   # each: list of (line, fill, tracing, maxc)
    lines = []
    if replay:
        case = json.load(open(replay))
        groups.append([(l, 0, 0, 0) for l in case["inputs"]])
        lines = list(case["inputs"])
    else:
        for i in range(nprog):
            base = G.run_case(C.Rng(r.next()), tracing=0, max_cycles=0, fill=0, trunc="1",
                              stdout_writes=False, read_unwritten=True, debug=(i % 3 == 0))
            f = base.split(" ")
            if i % 4 == 1 and i % 3 != 0:
                # a file that is SHORTER than its length word announces (truncated binary): the words it does not cover read as
                # zero like all memory outside the image - whatever the loader's buffers held
                old = int.from_bytes(bytes.fromhex(f[6][:8]), "little")
                f[6] = (old + r.choice([1, 2, 7, 64, 900])).to_bytes(4, "little").hex() + f[6][8:]
            g = []
            for maxc in (0, 1 + r.below(6), 20 + r.below(200)):
                for tracing in (0, 1):
                    for fill in fills:
                        ff = list(f)
                        ff[1], ff[2], ff[5] = str(maxc), str(tracing), format(fill, "x")
                        l = " ".join(ff)
                        g.append((l, fill, tracing, maxc))
                        lines.append(l)
            groups.append(g)
    # probe stream (C12_zero stated on the real loader): tiny programs WITH a symbol table whose exit value is one word just
    # behind the image - the words a loader's staging of the debug section could leave behind.  Expected exit value: 0.
    probes = []
    if not replay:
        names = ["main", "f", "a_procedure_with_a_long_name", "zz" * 20]
        for k in range(0, 24 if tier == "quick" else 200):
            for fill in (0xA5, 0xFF):
                code = [0x97, 0, 0, 0] + list((1000).to_bytes(4, "little"))
                code += G.enc(0x0, 8 + k) + [0x11, 0x82, 0x30, 0xD3]      # LDAM 8+k; LDBM 1; STAI 2; LDAC 0; SVC (exit)
                code += [0] * (32 - len(code))
                dbg = [(names[(k + i) % len(names)] + str(i), 8 * (i > 0)) for i in range(1 + k % 3)]
                f = G.image_file(code, dbg)
                l = f"run 0 0 1 4000 {format(fill, 'x')} {''.join(format(x, '02x') for x in f)} - -"
                probes.append(l)
        lines += probes
    real = C.drive_parallel(h, lines, workdir=True)
    # the same cases once more with another allocator fill (heap contents are host memory too: buffers the loader allocates)
    env2 = dict(os.environ)
    env2["ASAN_OPTIONS"] = "detect_leaks=0:malloc_fill_byte=0:max_malloc_fill_size=67108864"
    real2 = C.drive_parallel(h, lines, workdir=True, env=env2)
    model_in = [l for l in lines if l.split(" ")[2] == "0"]
    model = dict(zip(model_in, C.drive_parallel(drv, model_in)))
    obs = dict(zip(lines, real))

    viol = []
    for l, o1, o2 in zip(lines, real, real2):
        if o1 != o2:
            viol.append({"kind": "host-memory dependence (allocator fill 0xbe vs 0x00)", "inputs": [l, l], "observations": [o1, o2]})
    for l in probes:
        o = fields(obs[l])
        if not (o[0] == "ret" and int(o[1], 16) == 0):
            viol.append({"kind": "a word not covered by the loaded image does not read as zero (exit value of the probe is that word)",
                         "inputs": [l], "observations": [obs[l]]})
    corr = []
    classes = Counter()
    nontriv = set()
    for g in groups:
        byopt = {}
        for l, fill, tracing, maxc in g:
            byopt.setdefault((tracing, maxc), []).append((l, fill))
        for (tracing, maxc), lst in byopt.items():
            o0 = obs[lst[0][0]]
            classes[o0.split(" ")[0] + (":limit" if maxc else "") + (":trace" if tracing else "")] += 1
            for l, fill in lst[1:]:
                if obs[l] != o0:
                    viol.append({"kind": "host-memory dependence", "inputs": [lst[0][0], l],
                                 "observations": [o0, obs[l]]})
            if o0.startswith("ret"):
                nontriv.add(lst[0][0])
        for maxc in set(m for (_, m) in byopt):
            if (0, maxc) in byopt and (1, maxc) in byopt:
                a = fields(obs[byopt[(0, maxc)][0][0]])
                b = fields(obs[byopt[(1, maxc)][0][0]])
                # everything but the stdout text (index 8 of a `ret`/`fuel` line) must agree
                if a[0] in ("ret", "fuel") and b[0] in ("ret", "fuel"):
                    a2, b2 = a[:8] + a[9:], b[:8] + b[9:]
                else:
                    a2, b2 = a[:2], b[:2]
                if a2 != b2:
                    viol.append({"kind": "-t changes behaviour", "inputs": [byopt[(0, maxc)][0][0], byopt[(1, maxc)][0][0]],
                                 "observations": [" ".join(a), " ".join(b)]})
        for l, fill, tracing, maxc in g:
            if tracing == 0 and l in model and model[l] != obs[l]:
                corr.append((l, obs[l], model[l]))
    for l in probes:
        if model.get(l) != obs[l]:
            corr.append((l, obs[l], model.get(l)))

    # thorough tier: the built hexsim EXECUTABLE under varied environment size (moves the stack, where the
    # Processor object lives) and ASLR (on by default), several launches each
    exe_level = {}
    if tier == "thorough" and not replay:
        import c14, subprocess, tempfile, shutil
        tools = c14.build_tools()
        wd = tempfile.mkdtemp(dir=os.path.join(C.BUILD, "work")) if os.path.isdir(os.path.join(C.BUILD, "work")) else tempfile.mkdtemp(dir=C.BUILD)
        try:
            nexe, diff = 0, []
            for i in range(120):
                line = G.run_case(C.Rng(r.next()), tracing=0, max_cycles=0, trunc="1", stdout_writes=True, read_unwritten=True)
                f = line.split(" ")
                path = os.path.join(wd, f"p{i}.bin")
                open(path, "wb").write(bytes.fromhex(f[6]))
                inp = bytes.fromhex(f[7]) if f[7] != "-" else b""
                seen = set()
                for pad in (0, 3000, 70000):
                    for opts in ([], ["-t"], ["--max-cycles", "37"]):
                        env = dict(os.environ, HEXPAD="x" * pad)
                        for rep_i in range(2):
                            pr = subprocess.run([os.path.join(tools, "hexsim"), path] + opts, input=inp, cwd=wd, env=env,
                                                stdout=subprocess.PIPE, stderr=subprocess.PIPE, timeout=60)
                            nexe += 1
                            key = (tuple(opts), pr.returncode, pr.stdout if opts != ["-t"] else b"")
                            seen.add(key)
                per_opt = {}
                for o, rc, out in seen:
                    per_opt.setdefault(o, set()).add((rc, out))
                if any(len(v) > 1 for v in per_opt.values()):
                    diff.append({"kind": "executable-level host dependence", "inputs": [line[:400]],
                                 "observations": [str({str(k): [x[0] for x in v] for k, v in per_opt.items()})]})
            exe_level = {"executable_runs": nexe, "executable_differences": len(diff)}
            viol.extend(diff)
        finally:
            shutil.rmtree(wd, ignore_errors=True)

    rep.coverage.update({
        "obligations": info.get("obligations", 0), "discharged": info.get("discharged", 0),
        "checker_cmd": "cd lean && lake build HexVerif.Properties.C12 && #print axioms",
        "trusted_base": ["Lean 4.33.0 kernel", "axioms: " + json.dumps(info.get("axioms", {})),
                         "Sim/Model.lean constructor model (which members are initialised) tied by h_sim on dirtied storage",
                         "modelled not verified: hexsim.hpp C++ text; OS/ASLR effects beyond object storage"],
        "evaluations": len(lines), "distinct_nontrivial": len(nontriv),
        "rule": "programs (reading words they never wrote, file-stream output, optional symbol table) x storage fill "
                "{00,a5,ff,5a} x {-t on/off} x {no limit, small limit, larger limit}; non-trivial = distinct program/option "
                "groups whose run returned",
        "samples": [lines[0][:300], lines[-1][:300]],
        "traces_validated_against_impl": len(model_in) - len(corr),
        "outcome_classes": dict(classes), "model_vs_impl_mismatches": len(corr),
        "property_violations": len(viol), "zero_probes_behind_image": len(probes),
        "executable_level": exe_level,
    })
    rep.assumptions += ["dirty host memory is represented by the bytes of the Processor object's storage before construction"]
    if viol:
        rep.violation("dependence", dict(viol[0], seed=seed))
    elif corr:
        l, a, b = corr[0]
        rep.violation("correspondence", {"input": l, "implementation": a, "model": b, "count": len(corr),
                      "broken": "correspondence Sim.Model vs hexsim.hpp"}, no_input=True)
    if problems:
        rep.violation("proof", {"broken": problems}, no_input=not viol)
    if replay:
        for l in lines:
            print(l[:200]); print("  impl :", obs[l]); print("  model:", model.get(l))
    return rep.finish()
