"""C05 and C17 share inputs and machinery: label-resolution / listing checks on whole programs."""
import json
from collections import Counter

import common as C
import asm_common as A
import gen_asm as G

DOC = {
    "C05": ("HexVerif.Properties.C05", "image"),
    "C17": ("HexVerif.Properties.C17", "listing"),
}


def judge(pid, rec):
    """Returns 'ok' | 'genuine' | 'rejected' for one program record."""
    a, o = rec["real"], rec["oracle"]
    if a.startswith("fault skipped"):
        return "rejected"         # not run (the process had already hung several times in this batch)
    if a.startswith("fault"):
        return "genuine"          # crash / hang / UB while assembling
    if not a.startswith("ok "):
        return "rejected"
    f = dict(kv.split("=") for kv in o.split(" ")[1:]) if o and o.startswith("chk ") and "=" in o else {}
    if pid == "C05":
        return "ok" if f.get("image") == "true" and f.get("header") == "true" else "genuine"
    return "ok" if f.get("listing") == "true" else "genuine"


def run_pid(pid, tier, seed, replay=None):
    module, what = DOC[pid]
    rep = C.Report(pid, "proof", tier, seed)
    info, problems = C.prove(pid, [module])
    h, drv = A.tools()
    r = C.Rng(seed)
    if replay:
        c = json.load(open(replay))
        sources = [bytes.fromhex(c["source_hex"])]
    else:
        sources = G.shipped_sources() + G.c05_programs(r, tier)
    recs = A.assemble_all(h, drv, sources)
    cls = Counter()
    genuine, mism = [], []
    nontrivial = set()
    for rec in recs:
        j = judge(pid, rec)
        cls[j] += 1
        if j == "genuine":
            genuine.append(rec)
        if rec["real"] != rec["model"]:
            mism.append(rec)
        if j == "ok" and (b" L" in rec["src"] or b" c" in rec["src"] or b" d" in rec["src"]):
            nontrivial.add(rec["src"])
    rep.coverage.update({
        "obligations": info.get("obligations", 0), "discharged": info.get("discharged", 0),
        "checker_cmd": f"cd lean && lake build {module} && #print axioms",
        "trusted_base": ["Lean 4.33.0 kernel", "axioms: " + json.dumps(info.get("axioms", {})),
                         "Asm/Check.lean (checkImage/checkListing) as the statement of the property",
                         "harness h_asm.cpp + ASan/UBSan (-DNDEBUG like the shipped build)",
                         "modelled not verified: hexasm.hpp C++ text; the model parser supplies the directive list to the oracle"],
        "evaluations": len(sources), "distinct_nontrivial": len(nontrivial),
        "rule": "shipped .S files + reference-distance sweep (both directions, every label-taking mnemonic) + dependent "
                "chains + DATA-alignment absorption + random multi-label programs; non-trivial = accepted program with at "
                "least one label reference; judged by ISA-decoding the REAL image in directive order (" + what + ")",
        "samples": [s.decode("latin1")[:200] for s in sources[5:8]],
        "outcome_classes": dict(cls), "model_vs_impl_mismatches": len(mism), "oracle_violations": len(genuine),
        "traces_validated_against_impl": len(sources) - len(mism),
    })
    if genuine:
        rec = genuine[0]
        def fails(src):
            rr = A.assemble_all(h, drv, [src])[0]
            return judge(pid, rr) == "genuine"
        small = A.shrink_source(rec["src"], fails) if len(rec["src"]) < 20000 else rec["src"]
        rr = A.assemble_all(h, drv, [small])[0]
        rep.violation(what, {"source_hex": small.hex(), "source": small.decode("latin1"), "implementation": rr["real"][:2000],
                             "model": rr["model"][:2000], "oracle": rr["oracle"], "seed": seed, "count": len(genuine)})
    elif mism:
        rec = mism[0]
        rep.violation("correspondence", {"source_hex": rec["src"].hex(), "implementation": rec["real"][:2000], "model": rec["model"][:2000],
                                         "broken": "Asm model vs hexasm.hpp differ; the real output still satisfies the oracle",
                                         "count": len(mism)}, no_input=True)
    if problems:
        rep.violation("proof", {"broken": problems}, no_input=not genuine)
    if replay:
        for rec in recs:
            print(rec["src"]); print(" impl  :", rec["real"][:500]); print(" model :", rec["model"][:500]); print(" oracle:", rec["oracle"])
    return rep.finish()
