"""C03: the Verilog processor (processor.sv + memory.sv + hex.sv) is cycle-for-cycle equivalent to
the ISA.

Proof: Properties/C03.lean over the Lean model that translator/sv2lean.py REGENERATES from
       $HEX_REPO/verilog on every run (C03_inv, C03_step, C03_svc, C03_run).
Ties:  (1) the regeneration itself; (2) the generated Lean functions executed (rtldriver) against
       the Verilated design (harness/h_rtl.cpp) on 256 bytes x corner/random states and
       instruction sequences, bit for bit; (3) the Verilated design against `Isa.step` itself
       (rtloracle) on the states inside the property's domain.
When the translator refuses, a theorem no longer builds, or (2) differs, (3) is widened into a
search for a concrete failing input."""
import json
import os
import time
from collections import Counter

import common as C
import rtl_common as R

PID = "C03"
MODULE = "HexVerif.Properties.C03"


def sizes(tier, search=False):
    if tier == "quick" and not search:
        return dict(per_in=220, per_any=80, nseq=300, seqlen=60)
    if tier == "quick":
        return dict(per_in=1500, per_any=200, nseq=1500, seqlen=80)
    if not search:
        return dict(per_in=6000, per_any=1500, nseq=6000, seqlen=120)
    return dict(per_in=12000, per_any=1500, nseq=8000, seqlen=120)


def compare(lines, real, model, oracle):
    """-> dict with translator-validation mismatches, oracle verdicts, counts"""
    res = dict(tv_mismatch=[], genuine=[], compared=0, steps=0, skips=Counter(), nontrivial=set(), classes=Counter())
    for i, l in enumerate(lines):
        a = real[i]
        if model is not None and a != model[i]:
            res["tv_mismatch"].append((l, a, model[i]))
        if oracle is not None:
            kind, info = R.oracle_verdict(l, a, oracle[i])
            if kind == "skip":
                res["skips"][info.split(" ")[0]] += 1
            elif kind == "ok":
                res["compared"] += 1
                res["steps"] += info
                res["nontrivial"].add(l)
                if l.startswith("step"):
                    f = a.split(" ")
                    res["classes"][f"opc={int(f[6], 16) >> 4:x}"] += 1
                else:
                    res["classes"]["seq"] += 1
            else:
                res["genuine"].append((l, a, oracle[i], info))
    return res


def run(tier, seed, replay=None):
    rep = C.Report(PID, "proof", tier, seed)
    t0 = time.time()
    problems = []

    # 1. tie: regenerate the Lean model from today's Verilog
    gen_ok, gen_msg = R.regenerate()
    C.log("[translator] " + gen_msg.replace("\n", " | ")[:300])
    if not gen_ok:
        problems.append("translator refused the source: " + gen_msg)

    # 2. Verilator build (parallel with the Lean build)
    import concurrent.futures as cf
    ex = cf.ThreadPoolExecutor(max_workers=2)
    fut_h = ex.submit(R.build_rtl_harness, "sv")

    # 3. proofs
    if gen_ok:
        info, pp = C.prove(PID, [MODULE], allow_bv_decide=True)
        problems += pp
    else:
        info = {"obligations": len(C.theorems_of(MODULE)), "discharged": 0, "axioms": {},
                "note": "generated model is stale (translator refused); nothing is claimed"}
    if problems:
        info["discharged"] = 0
    C.log(f"[lean] obligations={info.get('obligations')} discharged={info.get('discharged')} "
          f"in {info.get('lean_wall_s', '?')}s; problems={len(problems)}")

    # 4. drivers
    model_exe = None
    if gen_ok:
        try:
            model_exe = C.driver_exe("rtldriver")
        except C.BuildError as e:
            problems.append("generated model no longer fits the driver (registers/ports changed?): " + str(e)[-600:])
    oracle_exe = C.driver_exe("rtloracle")
    h = fut_h.result()        # a BuildError here propagates to ./check (broken tie: harness build)

    # 5. cases
    if replay:
        case = json.load(open(replay))
        lines = [case["input"]] if "input" in case else []
        if not lines:
            print("replay file holds no input (it names a broken obligation):", json.dumps(case)[:2000])
    else:
        r = C.Rng(seed)
        z = sizes(tier)
        lines = R.corpus(PID) + R.gen_cases(r, z["per_in"], z["per_any"], z["nseq"], z["seqlen"])
    real = C.drive_parallel(h, lines, timeout_per_case=2.0)
    model = C.drive_parallel(model_exe, lines, args=["sv"], timeout_per_case=2.0) if model_exe else None
    oracle = C.drive_parallel(oracle_exe, lines, timeout_per_case=2.0)
    res = compare(lines, real, model, oracle)
    C.log(f"[cases] {len(lines)} lines; oracle-compared {res['compared']} ({res['steps']} steps); "
          f"tv mismatches {len(res['tv_mismatch'])}; oracle violations {len(res['genuine'])}; {time.time()-t0:.0f}s")
    if res["tv_mismatch"]:
        l, a, b = res["tv_mismatch"][0]
        problems.append(f"generated Lean model disagrees with the Verilated design on {len(res['tv_mismatch'])} cases; "
                        f"first: {l} verilated='{a}' lean='{b}'")

    # 6. search for a failing input when something is broken and none is at hand yet
    searched = 0
    if problems and not res["genuine"] and not replay:
        z = sizes(tier, search=True)
        r2 = C.Rng(seed * 7919 + 13)
        more = R.gen_cases(r2, z["per_in"], z["per_any"], z["nseq"], z["seqlen"])
        real2 = C.drive_parallel(h, more, timeout_per_case=2.0)
        oracle2 = C.drive_parallel(oracle_exe, more, timeout_per_case=2.0)
        res2 = compare(more, real2, None, oracle2)
        searched = len(more)
        res["genuine"] += res2["genuine"]
        res["compared"] += res2["compared"]
        res["steps"] += res2["steps"]
        res["nontrivial"] |= res2["nontrivial"]
        C.log(f"[search] {searched} more cases; oracle violations {len(res2['genuine'])}")

    ax = R.axioms_list(info)
    rep.coverage.update({
        "obligations": info.get("obligations", 0), "discharged": info.get("discharged", 0),
        "checker_cmd": "python3 translator/sv2lean.py --repo $HEX_REPO --out lean/HexVerif/Rtl/Gen && cd lean && "
                       "lake build HexVerif.Properties.C03 && lake env lean <#print axioms of every theorem>",
        "trusted_base": ["Lean 4.33.0 kernel", "axioms: " + ", ".join(ax),
                         "bv_decide: each *._native.bv_decide.ax_* axiom trusts the compiled LRAT checker + cadical",
                         "translator/sv2lean.py and Verilator 5.006's front end (--xml-only -O0)",
                         "Rtl/Sem.lean: event semantics of `always_ff @(posedge i_clk or posedge i_rst)` and the abstraction abs",
                         "Isa/Spec.lean as the meaning of the ISA (hexb.pdf)",
                         "cross-check reach: exactly the generated cases of this run (harness h_rtl.cpp, Verilator 2-state simulation)"],
        "theorems": sorted((info.get("axioms") or {}).keys()),
        "translator": gen_msg[:400],
        "evaluations": len(lines) + searched,
        "distinct_nontrivial": len(res["nontrivial"]),
        "rule": "256 instruction bytes x planted (pc, areg, breg, oreg, sparse memory) states: 'in' states steered into the "
                "property's domain (aligned oreg, addresses in range) and unconstrained states, plus random programs run "
                "from reset; one rising clock edge of the Verilated design each. Non-trivial = inside the domain "
                "(OregAligned, defined byte, InRange) so that the ISA oracle applies and was compared; distinct by input line",
        "samples": lines[:2] + lines[-1:],
        "traces_validated_against_impl": (len(lines) - len(res["tv_mismatch"])) if model is not None else 0,
        "isa_steps_compared": res["steps"],
        "oracle_skips": dict(res["skips"]),
        "opcode_classes": dict(res["classes"]),
        "translator_validation_mismatches": len(res["tv_mismatch"]),
        "oracle_violations": len(res["genuine"]),
        "problems": problems[:10],
    })
    rep.assumptions += ["ISA meaning = Isa/Spec.lean", "Verilator evaluates registers on the rising edge seen between two eval() calls",
                        "system calls are serviced by the test bench (C03_run takes the bench as a parameter; refTb is hextb's handleSyscall)"]

    if res["genuine"]:
        l, a, o, why = res["genuine"][0]
        rep.violation("step" if l.startswith("step") else "seq",
                      {"input": l, "verilated_rtl": a, "isa_oracle": o, "difference": why, "seed": seed,
                       "broken_obligations": problems[:5],
                       "format": "step: pc a b o sv sc f dv we da dd mw  /  oracle: pc a b o sv sc mw",
                       "rerun": f"./check {PID} --replay <this file>"})
    elif problems:
        rep.violation("proof", {"broken": problems, "searched_cases": len(lines) + searched,
                                "note": "no input inside the property's domain on which the Verilated design and Isa.step differ was found"},
                      no_input=True)
    if replay:
        for i, l in enumerate(lines):
            print("input    :", l[:600])
            print("verilated:", real[i])
            if model is not None:
                print("lean     :", model[i])
            print("isa      :", oracle[i])
    return rep.finish()
