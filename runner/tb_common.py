"""Building and driving the REAL hextb.cpp (through harness/h_tb.cpp) for C06 and C13."""
import os
import shutil
import subprocess
import tempfile
import time

import common as C

VFILES = ["verilog/hex_pkg.sv", "verilog/hex.sv", "verilog/processor.sv", "verilog/memory.sv"]


def build_htb():
    """Verilate the design from $HEX_REPO with --public-flat-rw and link it with h_tb.cpp (which
    #includes the repository's hextb.cpp).  Cached by content hash of every input."""
    os.makedirs(C.BUILD, exist_ok=True)
    srcs = [os.path.join(C.REPO, f) for f in VFILES + ["hextb.cpp", "hexsimio.hpp", "hex.hpp", "hex.cpp"]]
    srcs.append(os.path.join(C.ROOT, "harness", "h_tb.cpp"))
    key = C.file_hash(srcs, "htb-v1")
    exe = os.path.join(C.BUILD, f"h_tb-{key}")
    if os.path.exists(exe):
        return exe
    for old in os.listdir(C.BUILD):
        if old.startswith("h_tb-") or old.startswith("htb-obj-"):
            p = os.path.join(C.BUILD, old)
            shutil.rmtree(p, ignore_errors=True) if os.path.isdir(p) else os.unlink(p)
    obj = tempfile.mkdtemp(prefix="htb-obj-", dir=C.BUILD)
    t = time.time()
    try:
        cmd = ["verilator", "--cc", "--exe", "--build", "-j", "16", "--prefix", "Vhex_pkg", "--top-module", "hex", "--trace",
               "--public-flat-rw", "-Mdir", obj, "-CFLAGS", f"-I{C.REPO} -std=c++17 -O1"]
        cmd += [os.path.join(C.REPO, f) for f in VFILES]
        cmd += [os.path.join(C.ROOT, "harness", "h_tb.cpp"), os.path.join(C.REPO, "hex.cpp"), "-o", "h_tb"]
        r = C.sh(cmd)
        if r.returncode != 0 or not os.path.exists(os.path.join(obj, "h_tb")):
            raise C.BuildError("hextb (Verilated) does not build:\n" + (r.stdout + r.stderr)[-4000:])
        shutil.copy2(os.path.join(obj, "h_tb"), exe)
    finally:
        shutil.rmtree(obj, ignore_errors=True)
    C.log(f"[build] h_tb (verilator) in {time.time()-t:.1f}s")
    return exe


def run_tb(exe, args, stdin=b"", cwd=None, timeout=120):
    try:
        r = subprocess.run([exe] + args, input=stdin, stdout=subprocess.PIPE, stderr=subprocess.PIPE, cwd=cwd, timeout=timeout)
        return r.returncode, r.stdout, r.stderr
    except subprocess.TimeoutExpired:
        return -999, b"", b"TIMEOUT"


def strip_banner(out: bytes):
    """hextb prints 'Wrote N bytes to memory\\n' before the program's own output."""
    i = out.find(b" bytes to memory\n")
    if out.startswith(b"Wrote ") and i >= 0:
        return out[i + len(b" bytes to memory\n"):]
    return out
