"""Shared machinery of the /verif checks: building, Lean audit, process driving, evidence."""
import concurrent.futures as cf
import hashlib
import json
import os
import re
import shutil
import subprocess
import sys
import tempfile
import time

ROOT = os.path.dirname(os.path.dirname(os.path.abspath(__file__)))
REPO = os.environ.get("HEX_REPO", "/repo")
LEAN = os.path.join(ROOT, "lean")
BUILD = os.path.join(ROOT, "build")
EVID = os.path.join(ROOT, "evidence")
NPROC = max(1, min(16, os.cpu_count() or 1))

ALLOWED_AXIOMS = {"propext", "Classical.choice", "Quot.sound"}


def log(*a):
    print(*a, file=sys.stderr, flush=True)


class Rng:
    """xorshift64*: every random choice of a run derives from VERIF_SEED through this."""

    def __init__(self, seed):
        self.s = (seed * 0x9E3779B97F4A7C15 + 0x1234567) & 0xFFFFFFFFFFFFFFFF or 1

    def next(self):
        x = self.s
        x ^= (x >> 12)
        x ^= (x << 25) & 0xFFFFFFFFFFFFFFFF
        x ^= (x >> 27)
        self.s = x
        return (x * 0x2545F4914F6CDD1D) & 0xFFFFFFFFFFFFFFFF

    def below(self, n):
        return self.next() % n

    def choice(self, xs):
        return xs[self.below(len(xs))]

    def chance(self, num, den):
        return self.below(den) < num

    def word(self):
        return self.next() & 0xFFFFFFFF

    def shuffle(self, xs):
        for i in range(len(xs) - 1, 0, -1):
            j = self.below(i + 1)
            xs[i], xs[j] = xs[j], xs[i]


def seed_from_env():
    try:
        return int(os.environ.get("VERIF_SEED", "1"))
    except ValueError:
        return 1


def sh(cmd, cwd=None, timeout=None, env=None, input=None):
    return subprocess.run(cmd, cwd=cwd, timeout=timeout, env=env, input=input,
                          stdout=subprocess.PIPE, stderr=subprocess.PIPE, text=True)


def file_hash(paths, extra=""):
    h = hashlib.sha256(extra.encode())
    for p in sorted(paths):
        h.update(p.encode())
        try:
            with open(p, "rb") as f:
                h.update(f.read())
        except OSError:
            h.update(b"<missing>")
    return h.hexdigest()[:16]


def repo_sources():
    out = []
    for n in sorted(os.listdir(REPO)):
        if n.endswith((".hpp", ".cpp")):
            out.append(os.path.join(REPO, n))
    for d in ("verilog", "synth"):
        dd = os.path.join(REPO, d)
        if os.path.isdir(dd):
            for n in sorted(os.listdir(dd)):
                out.append(os.path.join(dd, n))
    return out


SAN_FLAGS = ["-std=c++17", "-O1", "-g", "-fsanitize=address,undefined", "-fno-sanitize-recover=all",
             "-D_GLIBCXX_ASSERTIONS", "-DHEX_VERIF", "-Wno-deprecated-declarations"]


def build_harness(name, extra_srcs=(), flags=None, defines=()):
    """Compile harness/<name>.cpp against /repo's current working tree. The binary is cached under
    build/ keyed by the content hash of every /repo source and of the harness, so any edit of the
    tree forces a rebuild."""
    os.makedirs(BUILD, exist_ok=True)
    src = os.path.join(ROOT, "harness", name + ".cpp")
    flags = list(flags if flags is not None else SAN_FLAGS) + list(defines)
    key = file_hash(repo_sources() + [src], " ".join(flags))
    exe = os.path.join(BUILD, f"{name}-{key}")
    if os.path.exists(exe):
        return exe
    for old in os.listdir(BUILD):
        if old.startswith(name + "-"):
            try:
                os.unlink(os.path.join(BUILD, old))
            except OSError:
                pass
    cmd = ["g++"] + flags + ["-I" + REPO, src] + [os.path.join(REPO, s) for s in extra_srcs] + ["-o", exe + ".tmp"]
    t = time.time()
    r = sh(cmd)
    if r.returncode != 0:
        raise BuildError(f"harness {name} does not compile against /repo:\n" + r.stderr[-4000:])
    os.replace(exe + ".tmp", exe)
    log(f"[build] {name} in {time.time()-t:.1f}s")
    return exe


class BuildError(Exception):
    pass


def lake_build(targets):
    """lake build of the given targets; returns (ok, output)."""
    r = sh(["lake", "build"] + list(targets), cwd=LEAN, timeout=3600)
    return r.returncode == 0, (r.stdout + r.stderr)


def driver_exe(name):
    ok, out = lake_build([name])
    if not ok:
        raise BuildError(f"lean driver {name} failed to build:\n" + out[-4000:])
    return os.path.join(LEAN, ".lake", "build", "bin", name)


FORBIDDEN = re.compile(r"\b(sorry|admit|native_decide|implemented_by|unsafe)\b|^axiom\s|maxHeartbeats\s+0", re.M)


def strip_lean_comments(src):
    # remove nested block comments and line comments
    out = []
    i = 0
    depth = 0
    n = len(src)
    while i < n:
        if src.startswith("/-", i):
            depth += 1
            i += 2
        elif depth and src.startswith("-/", i):
            depth -= 1
            i += 2
        elif depth:
            i += 1
        elif src.startswith("--", i):
            j = src.find("\n", i)
            i = n if j < 0 else j
        else:
            out.append(src[i])
            i += 1
    return "".join(out)


def lean_audit(modules):
    """Grep the library for forbidden constructs (outside comments)."""
    hits = []
    base = os.path.join(LEAN, "HexVerif")
    for dp, _, fns in os.walk(base):
        for fn in fns:
            if fn.endswith(".lean"):
                p = os.path.join(dp, fn)
                code = strip_lean_comments(open(p).read())
                for m in FORBIDDEN.finditer(code):
                    hits.append(f"{os.path.relpath(p, LEAN)}: {m.group(0).strip()}")
    return hits


def theorems_of(module):
    path = os.path.join(LEAN, module.replace(".", "/") + ".lean")
    src = strip_lean_comments(open(path).read())
    ns = re.search(r"^namespace\s+(\S+)", src, re.M)
    prefix = ns.group(1) + "." if ns else ""
    return [prefix + m.group(1) for m in re.finditer(r"^theorem\s+(\S+)", src, re.M)]


def print_axioms(module, thms):
    """Returns {theorem: [axioms]} using `#print axioms` under `lake env lean`."""
    os.makedirs(BUILD, exist_ok=True)
    fd, path = tempfile.mkstemp(suffix=".lean", dir=BUILD)
    with os.fdopen(fd, "w") as f:
        f.write(f"import {module}\n")
        for t in thms:
            f.write(f"#print axioms {t}\n")
    r = sh(["lake", "env", "lean", path], cwd=LEAN, timeout=1800)
    os.unlink(path)
    out = r.stdout + r.stderr
    res = {}
    for t in thms:
        m = re.search(r"'" + re.escape(t) + r"' depends on axioms: \[(.*?)\]", out, re.S)
        if m:
            res[t] = [a.strip() for a in m.group(1).replace("\n", " ").split(",") if a.strip()]
        elif re.search(r"'" + re.escape(t) + r"' does not depend on any axioms", out):
            res[t] = []
        else:
            res[t] = None
    return res, out


def prove(pid, modules, allow_bv_decide=False):
    """Build the property module(s), audit them, list axioms. Returns a dict for the evidence and a
    list of problems (each a string naming the theorem / obligation that no longer checks)."""
    problems = []
    t0 = time.time()
    ok, out = lake_build(modules)
    info = {"modules": modules, "lake_build_ok": ok}
    if not ok:
        errs = [l for l in out.splitlines() if "error" in l][:20]
        problems.append("lake build failed: " + " | ".join(errs))
        info["build_errors"] = errs
        info["obligations"] = 0
        info["discharged"] = 0
        return info, problems
    hits = lean_audit(modules)
    if hits:
        problems.append("forbidden construct in library: " + "; ".join(hits[:10]))
    axioms = {}
    for mod in modules:
        thms = theorems_of(mod)
        res, raw = print_axioms(mod, thms)
        for t, ax in res.items():
            if ax is None:
                problems.append(f"#print axioms gave no answer for {t}")
                continue
            axioms[t] = ax
            for a in ax:
                if a in ALLOWED_AXIOMS:
                    continue
                if allow_bv_decide and "._native.bv_decide.ax_" in a:
                    continue
                problems.append(f"theorem {t} depends on unexpected axiom {a}")
    info["axioms"] = axioms
    info["obligations"] = len(axioms)
    info["discharged"] = len([t for t in axioms if axioms[t] is not None]) if not problems else 0
    # thorough tier: re-check the compiled property modules with the independent checker
    if os.environ.get("VERIF_TIER_EFFECTIVE") == "thorough" and not problems:
        rechecked = {}
        for mod in modules:
            r = sh(["lake", "env", "leanchecker", mod], cwd=LEAN, timeout=3600)
            rechecked[mod] = r.returncode
            if r.returncode != 0:
                problems.append(f"leanchecker rejects {mod}: " + (r.stdout + r.stderr)[-400:])
        info["leanchecker"] = rechecked
    info["lean_wall_s"] = round(time.time() - t0, 1)
    return info, problems


def chunk(xs, n):
    k = max(1, (len(xs) + n - 1) // n)
    return [xs[i:i + k] for i in range(0, len(xs), k)]


def classify_crash(stderr):
    if "Assertion '__n < this->size()'" in stderr or "__n < this->size()" in stderr:
        return "fault oob"
    m = re.search(r"runtime error: ([^\n]*)", stderr)
    if m:
        return "fault ub:" + m.group(1)[:80].replace(" ", "_")
    m = re.search(r"AddressSanitizer: ([a-zA-Z-]+)", stderr)
    if m:
        return "fault asan:" + m.group(1)
    return "fault crash"


def drive(exe, lines, args=(), workdir=False, timeout_per_case=20.0, env=None):
    """Feed `lines` (one case per line) to `exe`; returns one output line per case. If the
    process dies on a case (sanitizer abort, assertion, crash, hang) the case's observation is
    `fault <kind>` and the process is restarted on the remaining cases."""
    out = []
    i = 0
    wd = None
    nfaults = 0
    if workdir:
        os.makedirs(os.path.join(BUILD, "work"), exist_ok=True)
        wd = tempfile.mkdtemp(dir=os.path.join(BUILD, "work"))
    try:
        while i < len(lines):
            batch = lines[i:]
            cmd = [exe] + list(args) + ([wd] if wd else [])
            try:
                r = subprocess.run(cmd, input="\n".join(batch) + "\n", stdout=subprocess.PIPE,
                                   stderr=subprocess.PIPE, text=True, errors="replace", env=env,
                                   timeout=timeout_per_case * max(10, len(batch)) if len(batch) > 1 else timeout_per_case * 5)
                got = r.stdout.split("\n")
                if got and got[-1] == "":
                    got.pop()
                crashed = r.returncode != 0
                stderr = "TIMEOUT" if r.returncode == -14 else r.stderr
            except subprocess.TimeoutExpired as e:
                got = (e.stdout or b"")
                got = got.decode(errors="replace") if isinstance(got, bytes) else got
                got = got.split("\n")
                if got and got[-1] == "":
                    got.pop()
                crashed = True
                stderr = "TIMEOUT"
            got = got[:len(batch)]
            out.extend(got)
            i += len(got)
            if i < len(lines):
                if not crashed:
                    # process ended early without an error: treat like a crash on the next case
                    out.append("fault ended-early")
                else:
                    out.append("fault hang" if stderr == "TIMEOUT" else classify_crash(stderr))
                i += 1
                if stderr == "TIMEOUT":
                    nfaults += 1
                if nfaults >= 4:
                    # several hangs: the run already has its failing inputs; do not spend minutes on more
                    out.extend(["fault skipped-after-4-hangs"] * (len(lines) - i))
                    i = len(lines)
        return out
    finally:
        if wd:
            shutil.rmtree(wd, ignore_errors=True)


def drive_parallel(exe, lines, args=(), workdir=False, nproc=NPROC, env=None, timeout_per_case=20.0):
    if len(lines) < 64:
        return drive(exe, lines, args, workdir, env=env, timeout_per_case=timeout_per_case)
    parts = chunk(lines, nproc)
    with cf.ThreadPoolExecutor(max_workers=nproc) as ex:
        res = list(ex.map(lambda p: drive(exe, p, args, workdir, env=env, timeout_per_case=timeout_per_case), parts))
    out = []
    for r in res:
        out.extend(r)
    return out


def known_findings():
    """Parse KNOWN_FINDINGS.txt: returns list of dicts for `finding:` lines."""
    path = os.path.join(ROOT, "KNOWN_FINDINGS.txt")
    res = []
    if not os.path.exists(path):
        return res
    for line in open(path):
        line = line.strip()
        if line.startswith("finding:"):
            d = {"raw": line}
            for m in re.finditer(r'(\w+)=("([^"]*)"|\S+)', line):
                d[m.group(1)] = m.group(3) if m.group(3) is not None else m.group(2)
            res.append(d)
    return res


class Report:
    """Collects what a check did and writes evidence / prints the verdict."""

    def __init__(self, pid, level, tier, seed):
        self.pid, self.level, self.tier, self.seed = pid, level, tier, seed
        self.t0 = time.time()
        self.coverage = {}
        self.assumptions = []
        self.violations = []       # (replay_path, text, no_input)
        self.known = []

    def replay_path(self, tag):
        d = os.path.join(ROOT, "replays")
        os.makedirs(d, exist_ok=True)
        return os.path.join(d, f"{self.pid}-{tag}.json")

    def violation(self, tag, payload, no_input=False):
        path = self.replay_path(tag)
        with open(path, "w") as f:
            json.dump(payload, f, indent=1)
        self.violations.append((path, no_input))

    def known_finding(self, text):
        self.known.append(text)

    def finish(self):
        ev = {
            "property_id": self.pid, "tier": self.tier, "seed": self.seed, "level": self.level,
            "coverage": self.coverage, "assumptions": self.assumptions,
            "wall_s": round(time.time() - self.t0, 2), "violations": len(self.violations),
        }
        os.makedirs(EVID, exist_ok=True)
        with open(os.path.join(EVID, self.pid + ".json"), "w") as f:
            json.dump(ev, f, indent=1)
        for k in self.known:
            print(f"KNOWN-FINDING: property={self.pid} {k}")
        for path, no_input in self.violations[:5]:
            print(f"VIOLATION property={self.pid} replay={path}" + (" no-failing-input-found" if no_input else ""))
        if self.violations:
            return 1
        print(f"OK property={self.pid} tier={self.tier} seed={self.seed} wall={ev['wall_s']}s")
        return 0


def compiler_model_tie(rep, pid, tier, seed, have_input):
    """runs runner/c01model.py (Lean compiler model vs the real xcmp, five stages byte for byte) for a check whose theorems
    are about that model; a difference is reported as a broken correspondence of `pid`"""
    import subprocess
    outp = os.path.join(BUILD, f"{pid}-c01model.json")
    corr = {}
    try:
        if os.path.exists(outp):
            os.unlink(outp)
        mr = subprocess.run([sys.executable, os.path.join(ROOT, "runner", "c01model.py"), "--tier", tier],
                            capture_output=True, text=True, timeout=3000,
                            env=dict(os.environ, VERIF_SEED=str(seed), C01MODEL_OUT=outp))
        if os.path.exists(outp):
            corr = json.load(open(outp))
            for k in ("first_differences", "generator_features", "constructs", "v1_check_failures", "v2_check_failures"):
                corr.pop(k, None)
        corr["exit"] = mr.returncode
        if mr.returncode != 0:
            rep.violation("model-correspondence", {"broken": "Xcmp compiler model vs real xcmp differ (runner/c01model.py); the Lean theorems of "
                                                   f"{pid} are about that model", "detail": (mr.stdout + mr.stderr)[-3000:]},
                          no_input=not have_input)
    except Exception as e:   # pragma: no cover
        rep.violation("model-correspondence", {"broken": "c01model.py could not run", "detail": str(e)}, no_input=not have_input)
    return corr
