"""C16: verilog/processor.v (sv2v output) and its copy synth/processor.v are behaviourally identical
to verilog/processor.sv; the two copies are the same design.

Proof: Properties/C16.lean over three Lean models REGENERATED from $HEX_REPO on every run
       (C16, C16_copies, C16_seq; every 1'bx of the sv2v output universally quantified).
Ties:  (1) the regeneration; (2) each generated model executed (rtldriver) against the Verilated
       design built with that processor file under the same hex.sv/memory.sv, bit for bit, with
       the x-bits at 0 and at 1; (3) the three Verilated designs against each other in lock-step
       (single clocks from planted states and sequences from reset).
When the translator refuses, a theorem no longer builds, or (2) differs, (3) is widened into a
search for a concrete input on which the designs differ."""
import json
import time

import common as C
import rtl_common as R

PID = "C16"
MODULE = "HexVerif.Properties.C16"


def sizes(tier, search=False):
    if tier == "quick" and not search:
        return dict(per_in=60, per_any=140, nseq=200, seqlen=60)
    if tier == "quick":
        return dict(per_in=500, per_any=1000, nseq=1000, seqlen=80)
    if not search:
        return dict(per_in=1000, per_any=2500, nseq=4000, seqlen=120)
    return dict(per_in=4000, per_any=8000, nseq=8000, seqlen=120)


def lockstep(lines, obs):
    """obs: {design: [lines]} -> list of (input, design_a, obs_a, design_b, obs_b)"""
    bad = []
    for i, l in enumerate(lines):
        if obs["v"][i] != obs["sv"][i]:
            bad.append((l, "verilog/processor.v", obs["v"][i], "verilog/processor.sv", obs["sv"][i]))
        elif obs["synthv"][i] != obs["v"][i]:
            bad.append((l, "synth/processor.v", obs["synthv"][i], "verilog/processor.v", obs["v"][i]))
    return bad


def run(tier, seed, replay=None):
    rep = C.Report(PID, "proof", tier, seed)
    t0 = time.time()
    problems = []

    gen_ok, gen_msg = R.regenerate()
    C.log("[translator] " + gen_msg.replace("\n", " | ")[:300])
    if not gen_ok:
        problems.append("translator refused the source: " + gen_msg)

    import concurrent.futures as cf
    ex = cf.ThreadPoolExecutor(max_workers=1)
    fut_h = ex.submit(R.build_all, ["sv", "v", "synthv"])

    if gen_ok:
        info, pp = C.prove(PID, [MODULE], allow_bv_decide=True)
        problems += pp
    else:
        info = {"obligations": len(C.theorems_of(MODULE)), "discharged": 0, "axioms": {},
                "note": "generated models are stale (translator refused); nothing is claimed"}
    if problems:
        info["discharged"] = 0
    C.log(f"[lean] obligations={info.get('obligations')} discharged={info.get('discharged')} "
          f"in {info.get('lean_wall_s', '?')}s; problems={len(problems)}")

    model_exe = None
    if gen_ok:
        try:
            model_exe = C.driver_exe("rtldriver")
        except C.BuildError as e:
            problems.append("generated models no longer fit the driver (registers/ports/x-bits changed?): " + str(e)[-600:])
    hs = fut_h.result()
    for d, h in hs.items():
        if isinstance(h, C.BuildError):
            if d == "sv":
                raise h
            # processor.v does not even elaborate under the same top level: that IS a difference
            problems.append(f"design '{d}' ({R.DESIGNS[d][0]}) does not build under hex.sv/memory.sv: " + str(h)[-800:])
    usable = [d for d in hs if not isinstance(hs[d], C.BuildError)]

    if replay:
        case = json.load(open(replay))
        lines = [case["input"]] if "input" in case else []
        if not lines:
            print("replay file holds no input (it names a broken obligation):", json.dumps(case)[:2000])
    else:
        r = C.Rng(seed)
        z = sizes(tier)
        lines = R.corpus(PID) + R.gen_cases(r, z["per_in"], z["per_any"], z["nseq"], z["seqlen"])

    obs = {d: C.drive_parallel(hs[d], lines, timeout_per_case=2.0) for d in usable}
    tv = []
    validated = 0
    if model_exe:
        for d, x in (("sv", None), ("v", "0"), ("v", "1"), ("synthv", "0"), ("synthv", "1")):
            if d not in obs:
                continue
            m = C.drive_parallel(model_exe, lines, args=[d] + ([x] if x else []), timeout_per_case=2.0)
            for l, a, b in zip(lines, obs[d], m):
                if a != b:
                    tv.append((d, x, l, a, b))
            validated += len(lines)
    bad = lockstep(lines, obs) if len(usable) == 3 else []
    C.log(f"[cases] {len(lines)} lines x {len(usable)} designs; tv mismatches {len(tv)}; lock-step differences {len(bad)}; {time.time()-t0:.0f}s")
    if tv:
        d, x, l, a, b = tv[0]
        problems.append(f"generated Lean model of design '{d}' (x={x}) disagrees with its Verilated design on {len(tv)} cases; "
                        f"first: {l} verilated='{a}' lean='{b}'")

    searched = 0
    if problems and not bad and not replay and len(usable) == 3:
        z = sizes(tier, search=True)
        r2 = C.Rng(seed * 7919 + 13)
        more = R.gen_cases(r2, z["per_in"], z["per_any"], z["nseq"], z["seqlen"])
        obs2 = {d: C.drive_parallel(hs[d], more, timeout_per_case=2.0) for d in usable}
        bad = lockstep(more, obs2)
        searched = len(more)
        C.log(f"[search] {searched} more cases; lock-step differences {len(bad)}")

    nontrivial = set()
    classes = {}
    for i, l in enumerate(lines):
        o = obs.get("v", obs.get("sv"))[i]
        f = o.split(" ")
        if l.startswith("step") and len(f) == 12:
            # non-trivial: the clock changed some register other than pc+1, or stored, or raised a syscall
            pc0 = int(l.split(" ")[1], 16)
            if f[11] != "-" or f[4] == "1" or int(f[0], 16) != ((pc0 + 1) & 0x1FFFFF) or \
                    f[1:4] != [x.lstrip("0") or "0" for x in l.split(" ")[2:5]]:
                nontrivial.add(l)
            k = f"opc={int(f[6], 16) >> 4:x}"
            classes[k] = classes.get(k, 0) + 1
        elif l.startswith("seq"):
            nontrivial.add(l)
            classes["seq"] = classes.get("seq", 0) + 1

    ax = R.axioms_list(info)
    rep.coverage.update({
        "obligations": info.get("obligations", 0), "discharged": info.get("discharged", 0),
        "checker_cmd": "python3 translator/sv2lean.py --repo $HEX_REPO --out lean/HexVerif/Rtl/Gen && cd lean && "
                       "lake build HexVerif.Properties.C16 && lake env lean <#print axioms of every theorem>",
        "trusted_base": ["Lean 4.33.0 kernel", "axioms: " + ", ".join(ax),
                         "bv_decide: each *._native.bv_decide.ax_* axiom trusts the compiled LRAT checker + cadical",
                         "translator/sv2lean.py and Verilator 5.006's front end (--xml-only -O0; -Wno-WIDTH for processor.v)",
                         "two-state reading of processor.v: each 1'bx is a universally quantified bit; === is ==",
                         "Rtl/Equiv.lean: field-by-field repackaging of the three generated modules",
                         "cross-check reach: exactly the generated cases of this run (three Verilated designs, harness h_rtl.cpp)"],
        "theorems": sorted((info.get("axioms") or {}).keys()),
        "translator": gen_msg[:400],
        "copies_textually_identical_modulo_comments": R.copies_text_identical(),
        "evaluations": (len(lines) + searched) * max(1, len(usable)),
        "distinct_nontrivial": len(nontrivial),
        "rule": "256 instruction bytes x planted (pc, areg, breg, oreg, sparse memory) states, unconstrained and in-range, plus "
                "random programs from reset, each run on the three Verilated designs (processor.sv, verilog/processor.v, "
                "synth/processor.v under the same hex.sv and memory.sv) and compared on every register, output and memory "
                "word. Non-trivial = the clock did something other than pc+1 (register change, store, syscall request) or a "
                "sequence; distinct by input line",
        "samples": lines[:2] + lines[-1:],
        "traces_validated_against_impl": validated - len(tv),
        "opcode_classes": classes,
        "translator_validation_mismatches": len(tv),
        "lockstep_differences": len(bad),
        "problems": problems[:10],
    })
    rep.assumptions += ["Verilator's two-state simulation of processor.v (x constants take whatever value Verilator picks; "
                        "the theorem covers both)", "same hex.sv and memory.sv around all three processors"]

    if bad:
        l, da, oa, db, ob = bad[0]
        rep.violation("step" if l.startswith("step") else "seq",
                      {"input": l, "design_a": da, "observation_a": oa, "design_b": db, "observation_b": ob,
                       "seed": seed, "broken_obligations": problems[:5],
                       "format": "step: pc a b o sv sc f dv we da dd mw", "rerun": f"./check {PID} --replay <this file>"})
    elif problems:
        rep.violation("proof", {"broken": problems, "searched_cases": len(lines) + searched,
                                "note": "no input on which the Verilated designs differ was found"}, no_input=True)
    if replay:
        for i, l in enumerate(lines):
            print("input :", l[:600])
            for d in usable:
                print(f"{d:7}:", obs[d][i])
    return rep.finish()
