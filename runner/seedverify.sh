#!/bin/bash
# usage: seedverify.sh <id> <SEED dir>  — confirms a seeded change: applies in a scratch worktree, suite passes,
# demo fails with the change and passes on the unchanged /repo. Prints one summary line.
id=$1; seed=$2
wt=/tmp/seedverify/$id
rm -rf $wt; mkdir -p /tmp/seedverify
git -C /repo worktree add -q --detach $wt HEAD || exit 2
git -C $wt apply $seed/patch.diff || { echo "$id: patch does not apply"; git -C /repo worktree remove --force $wt; exit 2; }
suite=$(/verif/runner/baseline.sh $wt 2>&1 | grep UnitTests)
( cd $seed && timeout 900 bash ./demo.sh $wt >/tmp/seedverify/$id.changed.log 2>&1 ); rc_changed=$?
( cd $seed && timeout 900 bash ./demo.sh /repo >/tmp/seedverify/$id.clean.log 2>&1 ); rc_clean=$?
git -C /repo worktree remove --force $wt
echo "$id: suite[$suite] demo_changed_rc=$rc_changed demo_clean_rc=$rc_clean"
