"""C13: RTL testbench results do not depend on the power-on state.
Tie/search: the REAL hextb.cpp (load() and run() unchanged, harness/h_tb.cpp) on toolchain binaries
 (a) over Verilator randomisation seeds, (b) from directly planted adversarial power-on states
 (random pc pointing at a planted OPR SVC with areg 0..2, at a planted STAM/STAI aimed into the image,
 non-zero oreg); every run must give the output and exit status of the reference run.
Proof: Properties/C13.lean (reset lemma over an arbitrary power-on state; see evidence for status)."""
import concurrent.futures as cf
import json
import os
import shutil
import tempfile
from collections import Counter

import common as C
import tb_common as T
import tb_progs as P
import c14

PID = "C13"

PLANT_WORD = 0x40000          # a word outside image, stack and arrays, inside the RTL memory
PLANT_PC = PLANT_WORD << 2


def planted_states(r, n):
    out = []
    fixed = [
        ("svc-exit", f"pc={PLANT_PC:x},a=0,b=0,o=0,m{PLANT_WORD:x}=d3"),
        ("svc-write", f"pc={PLANT_PC:x},a=1,b=0,o=0,m{PLANT_WORD:x}=d3"),
        ("svc-read", f"pc={PLANT_PC:x},a=2,b=0,o=0,m{PLANT_WORD:x}=d3"),
        ("stam-into-code", f"pc={PLANT_PC:x},a=deadbeef,b=0,o=0,m{PLANT_WORD:x}=22"),
        ("stam-sp", f"pc={PLANT_PC:x},a=5,b=0,o=0,m{PLANT_WORD:x}=21"),
        ("stai-into-code", f"pc={PLANT_PC:x},a=12345678,b=2,o=0,m{PLANT_WORD:x}=80"),
        ("stai-oreg", f"pc={PLANT_PC:x},a=ffffffff,b=0,o=10,m{PLANT_WORD:x}=82"),
        ("svc-lane2", f"pc={PLANT_PC + 2:x},a=0,b=0,o=0,m{PLANT_WORD:x}=d30000"),
        ("br-regs", f"pc=1ffffc,a=ffffffff,b=ffffffff,o=fffffff0"),
        ("oreg-svc", f"pc={PLANT_PC:x},a=0,b=0,o=3,m{PLANT_WORD:x}=d0"),
    ]
    out += fixed
    for i in range(n):
        lane = r.below(4)
        byte = r.choice([0xD3, 0x20 | r.below(16), 0x80 | r.below(16), r.below(256)])
        w = PLANT_WORD + r.below(1000)
        out.append((f"rand{i}", f"pc={(w << 2) + lane:x},a={r.choice([0, 1, 2, r.word()]):x},b={r.choice([0, 1, 2, 3, r.word()]):x},"
                                f"o={r.choice([0, 0, 0x10, r.word()]):x},m{w:x}={byte << (8 * lane):x}"))
    return out


def run(tier, seed, replay=None):
    rep = C.Report(PID, "other", tier, seed)
    prove_info, problems = ({}, [])
    if os.path.exists(os.path.join(C.LEAN, "HexVerif", "Properties", "C13.lean")):
        rep.level = "proof"
        import rtl_common
        ok_tr, tr_txt = rtl_common.regenerate()     # the RTL model is re-translated from the current tree
        prove_info, problems = C.prove(PID, ["HexVerif.Properties.C13"], allow_bv_decide=True)
        if not ok_tr:
            problems.append("translator refused the current Verilog: " + tr_txt[-300:])
    tools = c14.build_tools()
    exe = T.build_htb()
    r = C.Rng(seed)
    os.makedirs(os.path.join(C.BUILD, "work"), exist_ok=True)
    wd = tempfile.mkdtemp(dir=os.path.join(C.BUILD, "work"))
    try:
        bins = P.build_binaries(tools, wd)
        nseeds = 150 if tier == "quick" else 5000
        nplant = 20 if tier == "quick" else 600
        plants = planted_states(r, nplant)
        jobs = []   # (binname, input, kind, tag, args)
        for name, path in bins.items():
            for inp in P.INPUTS.get(name, [b""]):
                jobs.append((name, inp, "ref", "seed1", ["real", path, "+verilator+seed+1", "--max-cycles", "400000"]))
                for s in range(2, nseeds + 2):
                    sd = (seed * 7919 + s * 104729) % 2147483646 + 1
                    jobs.append((name, inp, "seed", str(sd), ["real", path, f"+verilator+seed+{sd}", "--max-cycles", "400000"]))
                for tag, spec in plants:
                    jobs.append((name, inp, "plant", tag + ":" + spec, ["plant", spec, path, "400000", f"+verilator+seed+{1 + r.below(1000)}"]))
        if replay:
            c = json.load(open(replay))
            jobs = [(c["binary"], bytes.fromhex(c["stdin_hex"]), "ref", "seed1", ["real", bins[c["binary"]], "+verilator+seed+1", "--max-cycles", "400000"]),
                    (c["binary"], bytes.fromhex(c["stdin_hex"]), c["kind"], c["tag"],
                     [a if a != "<bin>" else bins[c["binary"]] for a in c["args"]])]

        def one(j):
            name, inp, kind, tag, args = j
            rc, out, err = T.run_tb(exe, args, stdin=inp, cwd=wd)
            return (rc, T.strip_banner(out))
        with cf.ThreadPoolExecutor(C.NPROC) as ex:
            res = list(ex.map(one, jobs))
        # hexsim reference too (C06 flavour, informative)
        ref = {}
        bad = []
        cls = Counter()
        for j, o in zip(jobs, res):
            name, inp, kind, tag, args = j
            if kind == "ref":
                ref[(name, inp)] = o
        for j, o in zip(jobs, res):
            name, inp, kind, tag, args = j
            cls[kind] += 1
            if kind != "ref" and o != ref[(name, inp)]:
                bad.append({"binary": name, "stdin_hex": inp.hex(), "kind": kind, "tag": tag,
                            "args": [a if not a.endswith(".bin") else "<bin>" for a in args],
                            "observed": [o[0], o[1].hex()], "reference_seed1": [ref[(name, inp)][0], ref[(name, inp)][1].hex()]})
        cov = {
            "evaluations": len(jobs), "distinct_nontrivial": len(set((j[0], j[1], j[3]) for j in jobs if j[2] != "ref")),
            "rule": "toolchain binaries x inputs x {Verilator seeds, planted adversarial power-on states (pc at a planted "
                    "SVC/STAM/STAI byte, junk areg/breg/oreg)}; every run compared with the seed-1 run of the same binary "
                    "and input on (exit status, stdout after the banner); non-trivial = distinct (binary, input, state)",
            "samples": [str(jobs[1][4]), str(jobs[-1][4])],
            "kinds": dict(cls), "binaries": sorted(bins), "deviating_runs": len(bad),
        }
        if prove_info:
            cov.update({"obligations": prove_info.get("obligations", 0), "discharged": prove_info.get("discharged", 0),
                        "checker_cmd": "cd lean && lake build HexVerif.Properties.C13 && #print axioms",
                        "trusted_base": ["Lean 4.33.0 kernel", "axioms: " + json.dumps(prove_info.get("axioms", {})),
                                         "Tb/Model.lean timing model of hextb.cpp's loop and of Verilator's eval()",
                                         "translator sv2lean.py (RTL model regenerated every run)"]})
        else:
            cov["explanation"] = "differential exploration only (no Lean theorem registered yet for C13)"
        rep.coverage.update(cov)
        if bad:
            # prefer a planted (deterministic) witness
            bad.sort(key=lambda b: 0 if b["kind"] == "plant" else 1)
            rep.violation("poweron", dict(bad[0], seed=seed, count=len(bad)))
        if problems:
            rep.violation("proof", {"broken": problems}, no_input=not bad)
        if replay:
            for j, o in zip(jobs, res):
                print(j[2], j[3], o)
        return rep.finish()
    finally:
        shutil.rmtree(wd, ignore_errors=True)
