"""C17: listings agree with the binary they describe (see asm_layout.py)."""
import asm_layout


def run(tier, seed, replay=None):
    return asm_layout.run_pid("C17", tier, seed, replay)
