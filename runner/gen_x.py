"""Generator of well-defined X programs for C01/C07/C08 (type- and initialisation-directed).

A program is a plain tree (lists/dicts, see below), printed to X source text by `to_source` and
serialised for the Lean driver (Drivers/XSemDriver.lean) by `to_sexp`.  The generator aims at
programs the reference semantics `X.run` deems *defined* (assigned-before-read, in-range subscripts,
small values, bounded loops/recursion, impure calls only where the evaluation order cannot matter);
it does not have to be perfect: `X.run` filters, and the discard rate goes into the evidence.

Tree shapes
  expr : ['num', v, style]  style in dec|hex|chr   (0 <= v < 2**32)
         ['bool', 0|1] ['str', bytes] ['name', n] ['sub', n, e]
         ['call', f, [e..]] ['syscall', k, [e..]] ['un', 'neg'|'not', e] ['bin', op, l, r, chain]
  stmt : ['skip'] ['stop'] ['ret', e] ['if', c, t, e] ['while', c, b] ['seq', [s..]]
         ['assign', n, e] ['assignsub', n, i, e] ['call', f, [e..]] ['syscall', k, [e..]]
  decl : ['val', n, e] ['var', n] ['array', n, e]      formal : ['val', n] ['array', n]
  proc : {'kind': 'proc'|'func', 'name', 'formals', 'locals', 'body'}
  prog : {'globals': [decl..], 'procs': [proc..]}
All randomness comes from the `common.Rng` passed in.
"""
from collections import Counter

KEYWORDS = {"and", "array", "do", "else", "false", "func", "if", "is", "or", "proc", "return", "skip",
            "stop", "then", "true", "val", "var", "while"}
ASSOC = {"plus", "and", "or"}
OPTXT = {"plus": "+", "minus": "-", "eq": "=", "ne": "~=", "ls": "<", "le": "<=", "gr": ">", "ge": ">=",
         "and": "and", "or": "or"}
RELOPS = ["eq", "ne", "ls", "le", "gr", "ge"]

# ------------------------------------------------------------------------------------------------
# printing
# ------------------------------------------------------------------------------------------------

ESC = {ord("\\"): "\\\\", ord("'"): "\\'", ord('"'): '\\"', 9: "\\t", 13: "\\r", 10: "\\n"}


def chr_src(b):
    return ESC.get(b, chr(b))


def pp_num(e):
    v, style = e[1], e[2]
    if style == "hex":
        return "#%X" % v
    if style == "chr" and (32 <= v < 127 or v in (9, 10, 13)):
        return "'" + chr_src(v) + "'"
    return str(v)


def pp_elem(e):
    t = e[0]
    if t == "num":
        return pp_num(e)
    if t == "bool":
        return "true" if e[1] else "false"
    if t == "str":
        return '"' + "".join(chr_src(b) for b in e[1]) + '"'
    if t == "name":
        return e[1]
    if t == "sub":
        return f"{e[1]}[{pp_expr(e[2])}]"
    if t == "call":
        return f"{e[1]}({', '.join(pp_expr(a) for a in e[2])})"
    if t == "syscall":
        return f"{e[1]}({', '.join(pp_expr(a) for a in e[2])})"
    return "(" + pp_expr(e) + ")"


def pp_rhs(op, e):
    # binary-op-RHS: an associative operator may continue the chain without parentheses
    if e[0] == "bin" and e[1] == op and op in ASSOC and len(e) > 4 and e[4]:
        return pp_elem(e[2]) + " " + OPTXT[op] + " " + pp_rhs(op, e[3])
    return pp_elem(e)


def pp_expr(e):
    t = e[0]
    if t == "un":
        return ("-" if e[1] == "neg" else "~") + pp_elem(e[2])
    if t == "bin":
        return pp_elem(e[2]) + " " + OPTXT[e[1]] + " " + pp_rhs(e[1], e[3])
    return pp_elem(e)


def pp_stmt(s, ind):
    p = "  " * ind
    t = s[0]
    if t == "skip":
        return p + "skip"
    if t == "stop":
        return p + "stop"
    if t == "ret":
        return p + "return " + pp_expr(s[1])
    if t == "if":
        return (p + "if " + pp_expr(s[1]) + "\n" + p + "then\n" + pp_stmt(s[2], ind + 1) + "\n" + p + "else\n"
                + pp_stmt(s[3], ind + 1))
    if t == "while":
        return p + "while " + pp_expr(s[1]) + " do\n" + pp_stmt(s[2], ind + 1)
    if t == "seq":
        return p + "{\n" + ";\n".join(pp_stmt(x, ind + 1) for x in s[1]) + "\n" + p + "}"
    if t == "assign":
        return p + s[1] + " := " + pp_expr(s[2])
    if t == "assignsub":
        return p + f"{s[1]}[{pp_expr(s[2])}] := " + pp_expr(s[3])
    if t in ("call", "syscall"):
        return p + f"{s[1]}({', '.join(pp_expr(a) for a in s[2])})"
    raise ValueError(t)


def pp_decl(d):
    if d[0] == "val":
        return f"val {d[1]} = {pp_expr(d[2])};"
    if d[0] == "var":
        return f"var {d[1]};"
    return f"array {d[1]}[{pp_expr(d[2])}];"


def to_source(prog, comment=None, layout=None):
    """layout: optional Rng-like object with .below(n) used to sprinkle comments (`| text` to end of
    line) and blank lines; the token sequence is unchanged."""
    out = []
    if comment:
        out.append("| " + comment)
    for d in prog["globals"]:
        out.append(pp_decl(d))
    for p in prog["procs"]:
        fs = ", ".join(f"{f[0]} {f[1]}" for f in p["formals"])
        out.append(f"{p['kind']} {p['name']}({fs}) is")
        for d in p["locals"]:
            out.append("  " + pp_decl(d))
        out.append(pp_stmt(p["body"], 1))
    text = "\n".join(out) + "\n"
    if layout is not None:
        lines = []
        for ln in text.split("\n"):
            k = layout.below(12)
            if k == 0:
                lines.append(ln + " | " + "note ; := { } \" ' 123 #FF while"[: 3 + layout.below(30)])
            elif k == 1:
                lines.append("")
                lines.append(ln)
            elif k == 2:
                lines.append("\t" + ln + "   ")
            else:
                lines.append(ln)
        text = "\n".join(lines)
    return text


# ------------------------------------------------------------------------------------------------
# serialisation for the Lean driver
# ------------------------------------------------------------------------------------------------

def sx_expr(e):
    t = e[0]
    if t == "num":
        return f"(num {e[1]})"
    if t == "bool":
        return f"(bool {1 if e[1] else 0})"
    if t == "str":
        return "(str " + (bytes(e[1]).hex() or "-") + ")"
    if t == "name":
        return f"(name {e[1]})"
    if t == "sub":
        return f"(sub {e[1]} {sx_expr(e[2])})"
    if t in ("call", "syscall"):
        return f"({t} {e[1]}" + "".join(" " + sx_expr(a) for a in e[2]) + ")"
    if t == "un":
        return f"(un {e[1]} {sx_expr(e[2])})"
    if t == "bin":
        return f"(bin {e[1]} {sx_expr(e[2])} {sx_expr(e[3])})"
    raise ValueError(t)


def sx_stmt(s):
    t = s[0]
    if t in ("skip", "stop"):
        return f"({t})"
    if t == "ret":
        return f"(ret {sx_expr(s[1])})"
    if t == "if":
        return f"(if {sx_expr(s[1])} {sx_stmt(s[2])} {sx_stmt(s[3])})"
    if t == "while":
        return f"(while {sx_expr(s[1])} {sx_stmt(s[2])})"
    if t == "seq":
        return "(seq" + "".join(" " + sx_stmt(x) for x in s[1]) + ")"
    if t == "assign":
        return f"(assign {s[1]} {sx_expr(s[2])})"
    if t == "assignsub":
        return f"(assignsub {s[1]} {sx_expr(s[2])} {sx_expr(s[3])})"
    if t in ("call", "syscall"):
        return f"({t} {s[1]}" + "".join(" " + sx_expr(a) for a in s[2]) + ")"
    raise ValueError(t)


def sx_decl(d):
    if d[0] == "var":
        return f"(var {d[1]})"
    return f"({d[0]} {d[1]} {sx_expr(d[2])})"


def to_sexp(prog):
    gs = " ".join(sx_decl(d) for d in prog["globals"])
    ps = []
    for p in prog["procs"]:
        fs = " ".join(f"({f[0]} {f[1]})" for f in p["formals"])
        ls = " ".join(sx_decl(d) for d in p["locals"])
        ps.append(f"({p['kind']} {p['name']} ({fs}) ({ls}) {sx_stmt(p['body'])})")
    return f"(prog ({gs}) ({' '.join(ps)}))"


# ------------------------------------------------------------------------------------------------
# statistics
# ------------------------------------------------------------------------------------------------

def count_constructs(prog, c=None):
    c = c if c is not None else Counter()

    def ex(e):
        t = e[0]
        if t == "bin":
            c["op:" + e[1]] += 1
            ex(e[2]); ex(e[3])
        elif t == "un":
            c["op:" + e[1]] += 1
            ex(e[2])
        elif t in ("call", "syscall"):
            c["expr:" + t] += 1
            for a in e[2]:
                ex(a)
        elif t == "sub":
            c["expr:sub"] += 1
            ex(e[2])
        elif t == "str":
            c["expr:str" + ("-empty" if not e[1] else "")] += 1
        else:
            c["expr:" + t] += 1

    def st(s):
        t = s[0]
        c["stmt:" + t] += 1
        if t == "ret":
            ex(s[1])
        elif t == "if":
            ex(s[1]); st(s[2]); st(s[3])
        elif t == "while":
            ex(s[1]); st(s[2])
        elif t == "seq":
            for x in s[1]:
                st(x)
        elif t == "assign":
            ex(s[2])
        elif t == "assignsub":
            ex(s[2]); ex(s[3])
        elif t in ("call", "syscall"):
            for a in s[2]:
                ex(a)

    for d in prog["globals"]:
        c["decl:global-" + d[0]] += 1
    for p in prog["procs"]:
        c["decl:" + p["kind"]] += 1
        for f in p["formals"]:
            c["formal:" + f[0]] += 1
        for d in p["locals"]:
            c["decl:local-" + d[0]] += 1
        st(p["body"])
    return c


# ------------------------------------------------------------------------------------------------
# generation
# ------------------------------------------------------------------------------------------------

def num(v, style="dec"):
    return ["num", v & 0xFFFFFFFF, style]


def lit(v):
    """integer literal expression for a possibly negative value"""
    return num(v) if v >= 0 else ["un", "neg", num(-v)]


class PInfo:
    def __init__(self, name, kind):
        self.name, self.kind = name, kind
        self.formals = []      # (fkind, name, minlen, writes)
        self.pure = True
        self.ret = None        # 'int' | 'bool' | 'idx' (returns constant self.retval)
        self.retval = None
        self.rec = False
        self.node = None


class Scope:
    def __init__(self, g, me, is_main=False):
        self.g, self.me, self.is_main = g, me, is_main
        self.vals = {}             # local vals
        self.vars = []             # local vars (declared)
        self.assigned = set()      # assigned local vars; for main also late globals
        self.ranged = {}           # name -> (lo, hi), loop counters / formals with known range
        self.frozen = set()        # loop counters that must not be assigned
        self.vformals = []         # val formal names
        self.aformals = {}         # array formal name -> (minlen, writes)
        self.must_pure = False
        self.loop_depth = 0
        self.nstmts = 0
        self.body_started = False  # once statements exist, new locals must not shadow globals


class Gen:
    def __init__(self, rng, size=1.0, loose=False):
        self.r = rng
        self.size = size
        # loose: do not keep impure calls away from non-constant siblings; the reference semantics
        # decides which of these programs are defined (probes the boundary of its evaluation-order rule)
        self.loose = loose
        self.used = set(KEYWORDS)
        self.gvals = {}            # name -> int
        self.gvars = []            # initialised by main's prologue
        self.late = []             # globals NOT initialised by the prologue
        self.arrays = {}           # name -> size
        self.procs = []            # PInfo, callable by later ones
        self.features = Counter()
        self.put = None            # val names bound to 1 / 2 / 0
        self.get = None
        self.exit = None
        self.used_input_loop = False
        self.nest = 0              # nesting of actual lists being generated (bounds expression depth)

    # ---- names ---------------------------------------------------------------------------------
    def fresh(self, kind="var"):
        r = self.r
        for _ in range(100):
            k = r.below(100)
            if kind == "proc" and k < 14:
                n = r.choice(["lab0", "lab1", "lab2", "lab3", "lab5", "lab7", "lab10", "start", "lab4", "lab6"])
                feat = "name:label-like-proc"
            elif k < 6:
                n = r.choice(["lab0", "lab1", "lab2", "start", "main0", "mainx", "Main", "exit1", "_exit"[1:], "x", "i", "n"])
                feat = "name:label-like" if n.startswith(("lab", "start")) else "name:main-adjacent"
            else:
                ln = 1 + r.below(6)
                first = "abcdefghijklmnopqrstuvwxyzABCDEFGHIJKLMNOPQRSTUVWXYZ"
                rest = first + "0123456789_"
                n = r.choice(first) + "".join(r.choice(rest) for _ in range(ln - 1))
                feat = None
            if n not in self.used and n != "main":
                self.used.add(n)
                if feat:
                    self.features[feat] += 1
                return n
        n = "v%d" % len(self.used)
        self.used.add(n)
        return n

    # ---- constants -----------------------------------------------------------------------------
    def small(self):
        r = self.r
        k = r.below(100)
        if k < 50:
            return r.below(10)
        if k < 85:
            return r.below(100)
        if k < 93:
            return -r.below(20) - 1
        if k < 97:
            return r.choice([255, 256, 127, 128, 1000, 4095, 4096])
        if k < 99:
            return r.choice([65535, 65536, 65537, -65535, -65536, -65537, 100000])
        return r.choice([0x7FFFFFFF, -0x7FFFFFFF, 0x40000000, 0x12345678])

    def int_literal(self, v=None):
        r = self.r
        if v is None:
            v = self.small()
        if v < 0:
            return ["un", "neg", self.int_literal(-v)]
        k = r.below(10)
        if k == 0:
            return num(v, "hex")
        if k == 1 and (32 <= v < 127 or v in (9, 10, 13)):
            return num(v, "chr")
        return num(v)

    def const_expr(self, sc, depth=2):
        """constant expression (literals, vals, operators) - returns (expr, value or None)"""
        r = self.r
        k = r.below(100)
        if depth <= 0 or k < 45:
            vals = list(self.gvals.items()) + list(sc.vals.items()) if sc else list(self.gvals.items())
            vals = [(n, v) for n, v in vals if sc is None or self.visible_val(sc, n)]
            if vals and r.chance(1, 4):
                n, v = r.choice(vals)
                return ["name", n], v
            v = self.small()
            if abs(v) > 100000:
                v = r.below(50)
            e = self.int_literal(v)
            return e, v
        if k < 50 and r.chance(1, 3):
            b = r.below(2)
            return ["bool", b], b
        a, av = self.const_expr(sc, depth - 1)
        b, bv = self.const_expr(sc, depth - 1)
        op = r.choice(["plus", "plus", "minus", "minus", "plus", "eq", "ls", "gr"])
        val = {"plus": av + bv, "minus": av - bv, "eq": int(av == bv), "ls": int(av < bv), "gr": int(av > bv)}[op]
        return ["bin", op, a, b, False], val

    def visible_val(self, sc, n):
        """is the global val n visible (not shadowed) in scope sc, or a local val"""
        if n in sc.vals:
            return True
        if n in sc.vars or n in sc.vformals or n in sc.aformals:
            return False
        return n in self.gvals

    def gvisible(self, sc, n):
        """is the global name n not shadowed by a local of sc"""
        return not (n in sc.vals or n in sc.vars or n in sc.vformals or n in sc.aformals)

    # ---- leaves ---------------------------------------------------------------------------------
    def readable_vars(self, sc):
        out = [v for v in sc.vars if v in sc.assigned]
        out += sc.vformals
        out += [g for g in self.gvars if self.gvisible(sc, g)]
        if sc.is_main:
            out += [g for g in self.late if g in sc.assigned and self.gvisible(sc, g)]
        return out

    def subscript(self, sc, size, allow_impure=False):
        """an expression whose value is known to lie in [0, size)"""
        r = self.r
        k = r.below(100)
        cands = [(n, lo, hi) for n, (lo, hi) in sc.ranged.items()]
        if k < 40 and cands:
            n, lo, hi = r.choice(cands)
            if 0 <= lo and hi < size:
                if hi + 1 < size and r.chance(1, 3):
                    c = 1 + r.below(size - hi - 1)
                    return ["bin", "plus", ["name", n], num(c), False]
                return ["name", n]
            if 0 <= lo and hi - lo < size:
                # c - n  with c = hi
                return ["bin", "minus", num(hi), ["name", n], False]
        if (k < 55 or (allow_impure and k < 85)) and self.nest <= 2:
            fs = [p for p in self.callable(sc) if p.ret == "idx" and p.retval < size and (p.pure or allow_impure)]
            if allow_impure and any(not p.pure for p in fs):
                fs = [p for p in fs if not p.pure]
            if fs:
                p = r.choice(fs)
                if not p.pure:
                    self.features["shape:subscript-with-side-effect"] += 1
                return ["call", p.name, self.actuals(sc, p, allow_impure=False)]
        if k < 65:
            vs = [(n, v) for n, v in list(self.gvals.items()) + list(sc.vals.items()) if self.visible_val(sc, n) and 0 <= v < size]
            if vs:
                return ["name", r.choice(vs)[0]]
        if k < 75 and size >= 2:
            a = r.below(size)
            b = r.below(size - a)
            return ["bin", "plus", num(a), num(b), False]
        return num(r.below(size))

    def impure_int(self, sc):
        """an integer expression that is a call of an impure function or a get"""
        r = self.r
        if sc.must_pure:
            return None
        fs = [p for p in self.callable(sc) if p.kind == "func" and not p.pure and p.ret in ("int", "idx")]
        if fs and r.chance(2, 3) and self.nest <= 2:
            p = r.choice(fs)
            return ["call", p.name, self.actuals(sc, p, allow_impure=False)]
        return self.get_call(sc)

    def array_read(self, sc, allow_impure=False):
        r = self.r
        cands = [(n, s) for n, s in self.arrays.items() if self.gvisible(sc, n)]
        cands += [(n, ml) for n, (ml, w) in sc.aformals.items()]
        if not cands:
            return None
        n, s = r.choice(cands)
        if s <= 0:
            return None
        return ["sub", n, self.subscript(sc, s, allow_impure)]

    def callable(self, sc):
        ps = [p for p in self.procs if self.gvisible(sc, p.name)]
        if sc.must_pure:
            ps = [p for p in ps if p.pure]
        return ps

    # ---- expressions -----------------------------------------------------------------------------
    def gen_int(self, sc, depth, imp=False, const_only=False):
        """integer-valued expression. imp: may contain a call of an impure callee."""
        r = self.r
        if const_only:
            return self.const_expr(sc, min(depth, 2))[0]
        k = r.below(100)
        if depth <= 0 or k < 30:
            return self.leaf_int(sc)
        if k < 36:
            e = self.elem_for_unary(sc, depth - 1, imp)
            return ["un", "neg", e]
        if k < 62:
            op = "plus" if r.chance(3, 5) else "minus"
            return self.binary(sc, op, depth, imp, self.gen_int)
        if k < 78:
            e = self.call_expr(sc, depth, imp, want="int")
            if e is not None:
                return e
            return self.leaf_int(sc)
        if k < 84:
            a = self.array_read(sc, imp)
            if a is not None:
                return a
            return self.leaf_int(sc)
        if k < 90 and imp and not sc.must_pure:
            return self.get_call(sc)
        if k < 96:
            return self.gen_bool(sc, depth - 1, imp)
        return self.leaf_int(sc)

    def elem_for_unary(self, sc, depth, imp):
        return self.gen_int(sc, depth, imp)

    def leaf_int(self, sc):
        r = self.r
        k = r.below(100)
        vs = self.readable_vars(sc)
        if k < 45 and vs:
            return ["name", r.choice(vs)]
        if k < 55:
            vals = [n for n in list(self.gvals) + list(sc.vals) if self.visible_val(sc, n)]
            if vals:
                return ["name", r.choice(vals)]
        if k < 62 and self.nest <= 3:
            a = self.array_read(sc)
            if a is not None:
                return a
        if k < 66:
            return ["bool", r.below(2)]
        return self.int_literal()

    def binary(self, sc, op, depth, imp, sub):
        """op applied to two operands whose order of evaluation is open: at most one side may hold
        an impure call, and then the other must be constant."""
        r = self.r
        k = r.below(100)
        if imp and k < 25 and not sc.must_pure:
            # impure side + constant side
            a = sub(sc, depth - 1, True)
            c = self.const_expr(sc, 1)[0]
            if r.chance(1, 2):
                return ["bin", op, a, c, False]
            return ["bin", op, c, a, False]
        if k < 40:
            # D7 shape: a parenthesised constant expression as right operand
            a = sub(sc, depth - 1, False)
            c = self.const_expr(sc, 2)[0]
            if c[0] == "bin":
                self.features["shape:const-binop-rhs"] += 1
            return ["bin", op, a, c, False]
        if k < 48:
            c = self.const_expr(sc, 2)[0]
            b = sub(sc, depth - 1, False)
            return ["bin", op, c, b, False]
        a = sub(sc, depth - 1, imp and self.loose)
        b = sub(sc, depth - 1, imp and self.loose)
        chain = op in ASSOC and b[0] == "bin" and b[1] == op and r.chance(2, 3)
        if b[0] in ("bin", "call", "sub", "syscall", "un"):
            self.features["shape:rhs-needs-temp"] += 1
        return ["bin", op, a, b, chain]

    def get_call(self, sc):
        r = self.r
        s = self.stream(sc, for_input=True)
        self.features["syscall:get"] += 1
        if self.get and self.visible_val(sc, self.get) and r.chance(1, 2):
            return ["call", self.get, [s]]
        return ["syscall", 2, [s]]

    def stream(self, sc, for_input=False):
        r = self.r
        k = r.below(100)
        if k < 70:
            return num(0)
        if k < 78:
            return num(255)
        if k < 84:
            return self.int_literal(r.choice([1, 7, 100]))
        if k < 88:
            return lit(-1)
        self.features["syscall:file-stream"] += 1
        return num(256 * (1 + r.below(8)) + r.below(256), "hex" if r.chance(1, 2) else "dec")

    def call_expr(self, sc, depth, imp, want):
        r = self.r
        fs = [p for p in self.callable(sc) if p.kind == "func" and (p.pure or (imp and not sc.must_pure))]
        if want == "bool":
            fs = [p for p in fs if p.ret == "bool"]
        if not fs or self.nest > 3:
            return None
        p = r.choice(fs)
        return ["call", p.name, self.actuals(sc, p, allow_impure=imp and p.pure is not None, depth=depth - 1)]

    def gen_bool(self, sc, depth, imp=False):
        r = self.r
        k = r.below(100)
        if depth <= 0 or k < 8:
            return ["bool", r.below(2)]
        if k < 60:
            op = r.choice(RELOPS)
            e = self.binary(sc, op, depth, imp, self.gen_int)
            if r.chance(1, 6):
                # comparison against zero: special-cased by the code generator
                z = num(0)
                if r.chance(1, 2):
                    e = ["bin", op, e[2], z, False]
                else:
                    e = ["bin", op, z, e[3], False]
            return e
        if k < 80:
            op = "and" if r.chance(1, 2) else "or"
            # fixed left-to-right order: both sides may be impure
            a = self.gen_bool(sc, depth - 1, imp)
            b = self.gen_bool(sc, depth - 1, imp)
            chain = b[0] == "bin" and b[1] == op and r.chance(2, 3)
            return ["bin", op, a, b, chain]
        if k < 90:
            return ["un", "not", self.gen_bool(sc, depth - 1, imp)]
        e = self.call_expr(sc, depth, imp, want="bool")
        if e is not None:
            return e
        return ["bin", r.choice(RELOPS), self.leaf_int(sc), self.leaf_int(sc), False]

    def array_actual(self, sc, minlen, writes):
        r = self.r
        cands = [n for n, s in self.arrays.items() if s >= minlen and self.gvisible(sc, n)]
        cands += [n for n, (ml, w) in sc.aformals.items() if ml >= minlen and (w or not writes)]
        if not writes and (not cands or r.chance(1, 3)):
            # a string literal with at least minlen words: 1 + len >= 4*minlen - 3
            need = max(0, 4 * minlen - 4)
            ln = need + r.below(6)
            if minlen <= 1 and r.chance(1, 3):
                ln = 0
            if ln == 0:
                self.features["shape:empty-string"] += 1
            hi = r.chance(1, 3)     # bytes above 0x7f (never 0xff: the lexer takes it for the end of the file)
            chars = [r.choice([32 + r.below(95), 32 + r.below(95), 10, 9, 34, 39, 92] + ([128 + r.below(127)] * 3 if hi else [])) for _ in range(ln)]
            return ["str", chars]
        if not cands:
            return None
        return ["name", r.choice(cands)]

    def actuals(self, sc, p, allow_impure=False, depth=2):
        self.nest += 1
        try:
            return self.actuals_(sc, p, allow_impure, min(depth, 4 - self.nest))
        finally:
            self.nest -= 1

    def simple_leaf(self, sc):
        vs = self.readable_vars(sc)
        if vs and self.r.chance(1, 2):
            return ["name", self.r.choice(vs)]
        return self.int_literal()

    def actuals_(self, sc, p, allow_impure=False, depth=2):
        """actual list for a call of p. The order of evaluation of actuals is open: at most one may
        hold an impure call, and then all others must be constant."""
        r = self.r
        n = len(p.formals)
        imp_at = -1
        if (allow_impure and not sc.must_pure and n > 0 and r.chance(1, 4)
                and all(f[0] == "val" for f in p.formals) and sc.me is not p):
            cand = [i for i, f in enumerate(p.formals) if not (p.rec and i == 0)]
            if cand:
                imp_at = r.choice(cand)
        out = []
        shapes = []
        for i, (fk, fn, ml, wr) in enumerate(p.formals):
            if fk == "array":
                a = self.array_actual(sc, ml, wr)
                if a is None:
                    a = ["str", [65] * (4 * ml)]
                out.append(a)
                shapes.append("arr")
                continue
            if p.rec and i == 0:
                # recursion budget
                if sc.me is p:
                    out.append(["bin", "minus", ["name", sc.me.formals[0][1]], num(1), False])
                else:
                    out.append(num(r.below(4)))
                shapes.append("rec")
                continue
            if imp_at >= 0 and i != imp_at:
                out.append(self.const_expr(sc, 1)[0])
                shapes.append("const")
                continue
            if i == imp_at:
                e = self.gen_int(sc, max(1, depth), True)
                out.append(e)
                shapes.append("imp")
                continue
            k = r.below(100)
            if self.nest > 3:
                out.append(self.simple_leaf(sc)); shapes.append("leaf")
            elif k < 22:
                out.append(self.const_expr(sc, 2)[0]); shapes.append("const")
            elif k < 40:
                out.append(self.leaf_int(sc)); shapes.append("leaf")
            elif k < 60:
                # needs a temporary: complex right operand
                a = self.leaf_int(sc)
                b = ["bin", r.choice(["plus", "minus"]), self.leaf_int(sc), self.leaf_int(sc), False]
                out.append(["bin", r.choice(["plus", "minus"]), a, b, False]); shapes.append("temp")
            elif k < 82:
                e = self.call_expr(sc, depth, False, want="int")
                if e is None:
                    e = self.gen_int(sc, depth, False)
                    shapes.append("expr")
                else:
                    if r.chance(1, 3):
                        # '=' / '~=' around a call inside an actual (D8 shape)
                        e = ["bin", r.choice(["eq", "ne", "ls", "ge"]), e, self.const_expr(sc, 1)[0], False]
                        self.features["shape:relop-on-call-in-actual"] += 1
                    elif r.chance(1, 3):
                        e = ["bin", "plus", e, self.leaf_int(sc), False]
                    shapes.append("call")
                out.append(e)
            else:
                out.append(self.gen_int(sc, depth, self.loose and allow_impure)); shapes.append("expr")
        # the same constant, in different forms, in several positions of one call (between actuals that hold calls / temporaries)
        free = [i for i, s in enumerate(shapes) if s in ("const", "leaf", "expr", "temp")]
        if len(free) >= 2 and imp_at < 0 and r.chance(1, 5):
            v = r.choice([0, 1, 2, 5, 7, 255, 65536])
            forms = [num(v), ["bin", "plus", num(v - 1 if v else 0), num(1 if v else 0), False], ["bin", "minus", num(v + 2), num(2), False]]
            k = 2 + r.below(len(free) - 1)
            pos = sorted(free[:1] + [free[-1]] + [r.choice(free) for _ in range(k - 2)])
            for i in set(pos):
                out[i] = r.choice(forms)
                shapes[i] = "const"
            self.features["shape:repeated-const-actuals"] += 1
        for i, s in enumerate(shapes):
            if s == "temp" and "call" in shapes[i + 1:]:
                self.features["shape:temp-actual-before-call-actual"] += 1
                break
        self.features["actuals:" + str(min(n, 5))] += 1
        return out

    # ---- statements -----------------------------------------------------------------------------
    def assignable(self, sc):
        vs = [v for v in sc.vars if v not in sc.frozen]
        if not sc.must_pure:
            vs += [g for g in self.gvars + self.late if self.gvisible(sc, g)]
        return vs

    def put_stmt(self, sc, e=None):
        r = self.r
        if e is None:
            imp = r.chance(1, 5)
            e = self.gen_int(sc, 2, imp)
        s = self.stream(sc) if not self.has_impure(e) else num(r.choice([0, 0, 255, 512]))
        self.features["syscall:put"] += 1
        if self.put and self.visible_val(sc, self.put) and r.chance(2, 3):
            return ["call", self.put, [e, s]]
        return ["syscall", 1, [e, s]]

    def has_impure(self, e):
        t = e[0]
        if t == "syscall":
            return True
        if t == "call":
            p = next((q for q in self.procs if q.name == e[1]), None)
            if p is None or not p.pure:
                return True
            return any(self.has_impure(a) for a in e[2])
        if t == "sub":
            return self.has_impure(e[2])
        if t == "un":
            return self.has_impure(e[2])
        if t == "bin":
            return self.has_impure(e[2]) or self.has_impure(e[3])
        return False

    def gen_stmt(self, sc, depth, budget):
        """returns a statement; updates sc.assigned"""
        r = self.r
        sc.nstmts += 1
        k = r.below(100)
        pure = sc.must_pure
        if depth <= 0:
            k = r.below(55)
        if k < 24:
            vs = self.assignable(sc)
            if vs:
                v = r.choice(vs)
                e = self.gen_int(sc, 3, imp=r.chance(1, 3))
                if not pure and r.chance(1, 8):
                    a = self.array_read(sc, allow_impure=True)
                    if a is not None:
                        e = a
                if v in sc.vars or (sc.is_main and v in self.late):
                    sc.assigned.add(v)
                return ["assign", v, e]
            return ["skip"]
        if k < 32 and not pure:
            cands = [(n, s) for n, s in self.arrays.items() if self.gvisible(sc, n) and s > 0]
            cands += [(n, ml) for n, (ml, w) in sc.aformals.items() if w]
            if cands:
                n, s = r.choice(cands)
                if r.chance(1, 5):
                    i = self.subscript(sc, s, allow_impure=True)
                    e = self.const_expr(sc, 1)[0] if self.has_impure(i) else self.gen_int(sc, 2)
                else:
                    i = self.subscript(sc, s)
                    imp = isinstance(i, list) and i[0] == "num" or self.is_const(sc, i)
                    e = self.gen_int(sc, 2, imp=imp and r.chance(1, 3))
                return ["assignsub", n, i, e]
            return ["skip"]
        if k < 44 and not pure:
            return self.put_stmt(sc)
        if k < 48 and not pure:
            vs = self.assignable(sc)
            if vs and r.chance(3, 4):
                v = r.choice(vs)
                if v in sc.vars or (sc.is_main and v in self.late):
                    sc.assigned.add(v)
                return ["assign", v, self.get_call(sc)]
            g = self.get_call(sc)
            return [g[0], g[1], g[2]]
        if k < 56:
            ps = [p for p in self.callable(sc) if p.kind == "proc"]
            if ps:
                p = r.choice(ps)
                return ["call", p.name, self.actuals(sc, p, allow_impure=True)]
            return ["skip"]
        if k < 74 and depth > 0:
            return self.if_stmt(sc, depth, budget)
        if k < 84 and depth > 0 and sc.loop_depth < 2:
            return self.while_stmt(sc, depth, budget)
        if k < 92 and depth > 0:
            n = 1 + r.below(3)
            return ["seq", [self.gen_stmt(sc, depth - 1, budget) for _ in range(n)]]
        if k < 94 and not pure and r.chance(1, 3):
            self.features["stmt:exit-or-stop"] += 1
            if r.chance(1, 2):
                return ["stop"]
            e = self.gen_int(sc, 1)
            if self.exit and self.visible_val(sc, self.exit) and r.chance(1, 2):
                return ["call", self.exit, [e]]
            return ["syscall", 0, [e]]
        return ["skip"]

    def is_const(self, sc, e):
        t = e[0]
        if t in ("num", "bool"):
            return True
        if t == "name":
            return self.visible_val(sc, e[1])
        if t == "un":
            return self.is_const(sc, e[2])
        if t == "bin":
            return self.is_const(sc, e[2]) and self.is_const(sc, e[3])
        return False

    def if_stmt(self, sc, depth, budget):
        r = self.r
        c = self.gen_bool(sc, 2, imp=r.chance(1, 4))
        k = r.below(100)
        base = set(sc.assigned)
        if k < 8:
            if not sc.must_pure and r.chance(1, 2):
                ic = self.impure_int(sc)
                if ic is not None:
                    c = ["bin", r.choice(RELOPS), ic, self.const_expr(sc, 1)[0], False]
            if self.has_impure(c):
                self.features["shape:if-skip-skip-impure-cond"] += 1
            return ["if", c, ["skip"], ["skip"]]
        if k < 30:
            t = self.gen_stmt(sc, depth - 1, budget)
            sc.assigned = base
            return ["if", c, t, ["skip"]]
        if k < 42:
            e = self.gen_stmt(sc, depth - 1, budget)
            sc.assigned = base
            return ["if", c, ["skip"], e]
        t = self.gen_stmt(sc, depth - 1, budget)
        at = sc.assigned
        sc.assigned = set(base)
        e = self.gen_stmt(sc, depth - 1, budget)
        sc.assigned = at & sc.assigned
        return ["if", c, t, e]

    def new_local(self, sc):
        for _ in range(50):
            n = self.local_name(sc)
            if n is not None:
                sc.vars.append(n)
                return n
        return None

    def local_name(self, sc):
        r = self.r
        k = r.below(100)
        if k < 12 and not sc.is_main and not sc.body_started:
            # shadow a global name (not in main: its prologue initialises every global by name)
            gl = list(self.gvals) + self.gvars + list(self.arrays) + [p.name for p in self.procs]
            gl = [n for n in gl if n not in (self.put, self.get, self.exit)]
            if gl:
                n = r.choice(gl)
                if self.gvisible(sc, n) and n != sc.me.name:
                    self.features["name:local-shadows-global"] += 1
                    return n
        first = "abcdefghijklmnopqrstuvwxyz"
        n = r.choice(first) + "".join(r.choice(first + "0123456789_") for _ in range(r.below(4)))
        if n in KEYWORDS or n == "main" or not self.gvisible(sc, n):
            return None
        # a fresh local name may coincide with a global one only through the explicit branch above
        if n in self.used:
            return None
        return n

    def while_stmt(self, sc, depth, budget):
        r = self.r
        i = self.new_local(sc)
        if i is None:
            return ["skip"]
        K = 1 + r.below(5)
        base = set(sc.assigned)
        sc.assigned.add(i)
        sc.frozen.add(i)
        sc.loop_depth += 1
        style = r.below(100)
        iv = ["name", i]
        if style < 60:
            lo = r.below(3)
            hi = lo + K - 1
            init = ["assign", i, num(lo)]
            lim = lo + K
            c = r.choice([
                ["bin", "ls", iv, num(lim), False],
                ["bin", "le", iv, num(lim - 1), False],
                ["bin", "ne", iv, num(lim), False],
                ["bin", "gr", num(lim), iv, False],
                ["un", "not", ["bin", "ge", iv, num(lim), False]],
                ["bin", "ls", iv, self.const_of(sc, lim), False],
            ])
            step = ["assign", i, ["bin", "plus", iv, num(1), False]]
            sc.ranged[i] = (lo, hi)
        else:
            init = ["assign", i, num(K)]
            c = r.choice([
                ["bin", "gr", iv, num(0), False],
                ["bin", "ne", iv, num(0), False],
                ["bin", "ls", num(0), iv, False],
                ["bin", "ge", iv, num(1), False],
            ])
            step = ["assign", i, ["bin", "minus", iv, num(1), False]]
            sc.ranged[i] = (1, K)
        if r.chance(1, 6):
            c = ["bin", "and", c, self.gen_bool(sc, 1), False]
        body = [self.gen_stmt(sc, depth - 1, budget) for _ in range(1 + r.below(3))]
        body.append(step)
        del sc.ranged[i]
        sc.frozen.discard(i)
        sc.loop_depth -= 1
        sc.assigned = base | {i}
        return ["seq", [init, ["while", c, ["seq", body]]]]

    def const_of(self, sc, v):
        """a constant expression with value v"""
        r = self.r
        vs = [n for n, x in list(self.gvals.items()) + list(sc.vals.items()) if x == v and self.visible_val(sc, n)]
        if vs and r.chance(1, 2):
            return ["name", r.choice(vs)]
        a = r.below(v + 1)
        return ["bin", "plus", num(a), num(v - a), False]

    def observe(self, sc, names=None, limit=6):
        """put statements that make the values of readable variables (and array elements) observable"""
        r = self.r
        out = []
        vs = self.readable_vars(sc) if names is None else names
        vs = list(dict.fromkeys(vs))
        r.shuffle(vs)
        for v in vs[:limit]:
            out.append(self.put_stmt(sc, ["name", v]))
        arrs = [(n, s) for n, s in self.arrays.items() if self.gvisible(sc, n)] + [(n, ml) for n, (ml, w) in sc.aformals.items()]
        r.shuffle(arrs)
        for n, s in arrs[:2]:
            for i in range(min(s, 3)):
                out.append(self.put_stmt(sc, ["sub", n, num(i)]))
        return out

    def uses_all(self, sc, names):
        """an integer expression that depends on every name in names (small values assumed)"""
        r = self.r
        e = None
        for n in names:
            t = ["name", n]
            if e is None:
                e = t
            elif r.chance(1, 2):
                e = ["bin", "plus", e, t, False]
            elif r.chance(1, 2):
                e = ["bin", "plus", t, e, False] if e[0] != "bin" or r.chance(1, 2) else ["bin", "minus", e, t, False]
            else:
                e = ["bin", "minus", t, e, False]
        return e

    # ---- procedures -----------------------------------------------------------------------------
    def gen_proc(self, idx):
        r = self.r
        kind = "func" if r.chance(3, 5) else "proc"
        p = PInfo(self.fresh("proc"), kind)
        sc = Scope(self, p)
        nform = r.choice([0, 1, 1, 2, 2, 3, 4, 5, 8] if r.chance(1, 5) else [0, 1, 1, 2, 2, 3, 4])
        style = r.below(100)
        p.pure = kind == "func" and r.chance(1, 2)
        sc.must_pure = p.pure
        if kind == "func":
            p.ret = r.choice(["int", "int", "int", "bool", "idx", "idx"])
            if p.ret == "idx":
                p.retval = r.below(4)
        if style < 25:
            p.rec = True
            nform = max(1, nform)
        names = set()
        for i in range(nform):
            fk = "array" if (r.chance(1, 4) and not (p.rec and i == 0)) else "val"
            for _ in range(20):
                n = self.local_name(sc)
                if n is not None and n not in names and n != p.name:
                    break
            else:
                n = "f%d_%d" % (idx, i)
            names.add(n)
            if fk == "array":
                ml = 1 + r.below(3)
                wr = (not p.pure) and r.chance(1, 3)
                p.formals.append(("array", n, ml, wr))
                sc.aformals[n] = (ml, wr)
            else:
                p.formals.append(("val", n, 0, False))
                sc.vformals.append(n)
        locals_ = []
        for _ in range(r.below(3) if r.chance(4, 5) else 3 + r.below(5)):
            n = self.local_name(sc)
            if n is not None and n not in names and n not in sc.vars:
                if r.chance(1, 4):
                    e, v = self.const_expr(sc, 1)
                    sc.vals[n] = v
                    locals_.append(["val", n, e])
                else:
                    sc.vars.append(n)
        body = []
        if p.rec:
            n0 = p.formals[0][1]
            sc.ranged[n0] = (0, 3)
        nst = 1 + r.below(max(1, int(4 * self.size)))
        sc.body_started = True
        pre = [self.gen_stmt(sc, 2, None) for _ in range(nst)]
        if not p.pure and r.chance(3, 5):
            # make formals, locals and array formals observable
            obs = self.observe(sc, [v for v in sc.vformals + [x for x in sc.vars if x in sc.assigned]], limit=4)
            for o in obs:
                pre.insert(r.below(len(pre) + 1) if r.chance(1, 3) else len(pre), o)
        if kind == "func":
            if p.ret == "idx":
                tail = ["ret", self.const_of(sc, p.retval) if r.chance(1, 2) else num(p.retval)]
            elif p.ret == "bool":
                tail = ["ret", self.gen_bool(sc, 2, imp=not p.pure and r.chance(1, 3))]
            elif sc.vformals and r.chance(1, 2):
                tail = ["ret", self.uses_all(sc, sc.vformals)]
            else:
                tail = ["ret", self.gen_int(sc, 3, imp=not p.pure and r.chance(1, 3))]
            if r.chance(1, 3) and p.ret != "idx":
                c = self.gen_bool(sc, 2)
                t2 = ["ret", self.gen_bool(sc, 2) if p.ret == "bool" else self.gen_int(sc, 2)]
                tail = ["if", c, tail, t2]
            if p.rec:
                n0 = p.formals[0][1]
                rc = ["call", p.name, self.actuals(sc, p)]
                if p.ret == "int":
                    comb = r.choice([
                        ["bin", "plus", rc, self.leaf_int(sc), False],
                        ["bin", "plus", self.leaf_int(sc), rc, False] if p.pure else rc,
                        rc,
                        ["bin", "plus", rc, ["call", p.name, self.actuals(sc, p)], False] if p.pure else rc,
                    ])
                elif p.ret == "bool":
                    comb = r.choice([rc, ["un", "not", rc]])
                else:
                    comb = rc
                tail = ["if", ["bin", "le", ["name", n0], num(0), False], tail, ["ret", comb]]
            body = pre + [tail]
        else:
            if p.rec:
                n0 = p.formals[0][1]
                rc = ["call", p.name, self.actuals(sc, p)]
                inner = pre + [rc] if r.chance(1, 2) else [rc] + pre
                body = [["if", ["bin", "gr", ["name", n0], num(0), False], ["seq", inner], ["skip"]]]
            else:
                body = pre
        stmt = body[0] if len(body) == 1 and r.chance(1, 2) else ["seq", body]
        decls = locals_ + [["var", v] for v in sc.vars]
        # interleave declarations
        orig = list(decls)
        r.shuffle(decls)
        decls = self.order_vals(decls, orig)
        p.node = {"kind": kind, "name": p.name, "formals": [[f[0], f[1]] for f in p.formals],
                  "locals": decls, "body": stmt}
        return p

    def order_vals(self, decls, orig):
        """vals keep their original relative order (a val may use an earlier one)"""
        it = iter([d for d in orig if d[0] == "val"])
        return [next(it) if d[0] == "val" else d for d in decls]

    # ---- whole programs ---------------------------------------------------------------------------
    def gen_program(self):
        r = self.r
        globals_ = []
        # system call names
        if r.chance(4, 5):
            self.put = r.choice(["put", "put", "putc", "out"]); self.used.add(self.put)
            self.gvals[self.put] = 1
            globals_.append(["val", self.put, num(1)])
        if r.chance(3, 5):
            self.get = r.choice(["get", "get", "getc"]); self.used.add(self.get)
            self.gvals[self.get] = 2
            globals_.append(["val", self.get, num(2)])
        if r.chance(2, 5):
            self.exit = "exit"; self.used.add("exit")
            self.gvals["exit"] = 0
            globals_.append(["val", "exit", num(0)])
        for _ in range(r.below(4)):
            n = self.fresh()
            e, v = self.const_expr(None, 2)
            self.gvals[n] = v
            globals_.append(["val", n, e])
        for _ in range(r.below(5)):
            n = self.fresh()
            (self.late if r.chance(1, 6) else self.gvars).append(n)
            globals_.append(["var", n])
        for _ in range(r.below(4)):
            n = self.fresh()
            s = r.choice([1, 2, 3, 4, 4, 5, 8, 8, 16, 100])
            self.arrays[n] = s
            vs = [m for m, v in self.gvals.items() if v == s]
            if vs and r.chance(1, 2):
                e = ["name", r.choice(vs)]
            elif s >= 2 and r.chance(1, 4):
                a = 1 + r.below(s - 1)
                e = ["bin", "plus", num(a), num(s - a), False]
            else:
                e = num(s)
            globals_.append(["array", n, e])
        # random interleaving in which an array length only names a val defined earlier
        others = [d for d in globals_ if d[0] != "val"]
        vals = [d for d in globals_ if d[0] == "val"]
        r.shuffle(others)
        merged, defined = [], set()
        while vals or others:
            d = others[0] if others else None
            blocked = d is not None and d[0] == "array" and d[2][0] == "name" and d[2][1] not in defined
            if vals and (d is None or blocked or r.chance(1, 2)):
                v = vals.pop(0)
                defined.add(v[1])
                merged.append(v)
            else:
                merged.append(others.pop(0))
        globals_ = merged

        nprocs = r.below(1 + int(5 * self.size))
        for i in range(nprocs):
            p = self.gen_proc(i)
            self.procs.append(p)
        # main
        me = PInfo("main", "proc")
        sc = Scope(self, me, is_main=True)
        prologue = []
        for g in self.gvars:
            prologue.append(["assign", g, self.const_expr(sc, 1)[0] if r.chance(1, 2) else self.int_literal()])
        for a, s in self.arrays.items():
            if s <= 5:
                idx = list(range(s))
                r.shuffle(idx)
                for i in idx:
                    prologue.append(["assignsub", a, num(i), self.int_literal(r.below(50))])
            else:
                i = self.new_local(sc)
                if i is None:
                    i = "zz%d" % s
                    sc.vars.append(i)
                iv = ["name", i]
                prologue.append(["assign", i, num(0)])
                prologue.append(["while", ["bin", "ls", iv, num(s), False], ["seq", [
                    ["assignsub", a, iv, ["bin", "plus", iv, num(r.below(9)), False] if r.chance(1, 2) else num(r.below(9))],
                    ["assign", i, ["bin", "plus", iv, num(1), False]]]]])
                sc.assigned.add(i)
        body = list(prologue)
        for _ in range(r.below(3)):
            n = self.local_name(sc)
            if n is not None and n not in sc.vars:
                sc.vars.append(n)
        nst = 2 + r.below(max(2, int(7 * self.size)))
        if not self.used_input_loop and r.chance(1, 6):
            # read until end of input
            v = self.new_local(sc)
            if v is not None:
                self.used_input_loop = True
                self.features["shape:read-until-eof"] += 1
                sc.assigned.add(v)
                body.append(["assign", v, ["syscall", 2, [num(0)]]])
                body.append(["while", ["bin", "ls", ["name", v], num(255), False], ["seq", [
                    self.put_stmt(sc, ["name", v]) if r.chance(1, 2) else self.put_stmt(sc, ["bin", "plus", ["name", v], num(1), False]),
                    ["assign", v, ["syscall", 2, [num(0)]]]]]])
        for _ in range(nst):
            body.append(self.gen_stmt(sc, 3, None))
        if r.chance(4, 5):
            body += self.observe(sc, limit=8)
        k = r.below(100)
        if k < 35:
            e = self.gen_int(sc, 2, imp=r.chance(1, 4))
            if self.exit and r.chance(1, 2) and self.visible_val(sc, "exit"):
                body.append(["call", "exit", [e]])
            else:
                body.append(["syscall", 0, [e]])
        elif k < 42:
            body.append(["stop"])
        main = {"kind": "proc", "name": "main", "formals": [], "locals": [["var", v] for v in sc.vars],
                "body": ["seq", body] if len(body) != 1 or r.chance(1, 2) else body[0]}
        if not body:
            main["body"] = ["skip"]
        procs = [p.node for p in self.procs] + [main]
        if r.chance(1, 2):
            r.shuffle(procs)
        return {"globals": globals_, "procs": procs}


def generate(rng, size=1.0, loose=False):
    """returns (program, features Counter)"""
    g = Gen(rng, size, loose)
    prog = g.gen_program()
    if loose:
        g.features["mode:loose"] += 1
    return prog, g.features


def callshape_program(rng):
    """Boundary stream for the calling convention: small procedures (0-3 locals, so small frames) whose
    body is one call - user function, user procedure or system call - with 1-5 actuals drawn from the
    shapes constant / variable / one temporary `a + (b + c)` / several temporaries
    `((a + b) + (c + d)) + (e + f)` / deeper left- and right-nested sums / a call / a call plus a
    temporary, in every order; the callee makes every formal observable."""
    r = rng
    gl = ["a", "b", "c", "d", "e", "f"]
    vals = [1 + r.below(9) for _ in gl]

    def v():
        return ["name", r.choice(gl)]

    def pair():
        return ["bin", r.choice(["plus", "plus", "minus"]), v(), v(), False]

    def shape(k):
        if k == "const":
            return lit(r.below(50))
        if k == "var":
            return v()
        if k == "temp1":
            return ["bin", "plus", v(), pair(), False]
        if k == "temp2":
            return ["bin", "plus", ["bin", "plus", pair(), pair(), False], pair(), False]
        if k == "temp3":
            return ["bin", "plus", ["bin", "plus", ["bin", "plus", pair(), pair(), False], pair(), False], pair(), False]
        if k == "right":
            return ["bin", "plus", v(), ["bin", "plus", v(), ["bin", "minus", v(), pair(), False], False], False]
        if k == "call":
            return ["call", "h", [v()]]
        if k == "calltemp":
            return ["bin", "plus", ["call", "h", [pair()]], pair(), False]
        if k == "rel":
            return ["bin", r.choice(["ls", "eq", "ge"]), pair(), pair(), False]
        raise ValueError(k)

    if r.chance(1, 5):
        # a spilled LEFT operand next to a call as RIGHT operand, in a function with no locals and no other call (frame of two
        # words): the temporary and the outgoing area of the call are neighbours
        op1, op2 = r.choice(["plus", "minus"]), r.choice(["plus", "minus", "eq", "ls"])
        el = lambda: ["sub", "arr", lit(r.below(4))]
        left = r.choice([["bin", op1, el(), el(), False], ["bin", op1, ["bin", "minus", el(), el(), False], el(), False],
                         ["bin", op1, v(), el(), False],
                         ["bin", op1, v(), ["bin", "minus", v(), v(), False], False],
                         ["bin", op1, ["bin", "minus", v(), v(), False], ["bin", "plus", v(), v(), False], False],
                         ["bin", op1, v(), ["bin", "minus", v(), ["bin", "plus", v(), v(), False], False], False],
                         ["bin", op1, ["bin", "minus", v(), v(), False], v(), False]])
        zarg = r.chance(1, 3)
        procs = [{"kind": "func", "name": "tz", "formals": [["val", "k"]] if zarg else [], "locals": [], "body": ["ret", lit(1 + r.below(9))]},
                 {"kind": "func", "name": "tf", "formals": [], "locals": [],
                  "body": ["ret", ["bin", op2, left, ["call", "tz", [v()] if zarg else []], False]]}]
        body = [["assign", g, lit(x)] for g, x in zip(gl, vals)] + [["assignsub", "arr", lit(k), lit(3 + 7 * k)] for k in range(4)]
        body += [["syscall", 1, [["bin", "plus", ["call", "tf", []], num(40), False], num(0)]], ["syscall", 0, [["call", "tf", []]]]]
        procs.append({"kind": "proc", "name": "main", "formals": [], "locals": [], "body": ["seq", body]})
        return {"globals": [["var", g] for g in gl] + [["array", "arr", lit(4)]], "procs": procs}, Counter({"stream:callshape": 1, "callshape:tightframe": 1})
    kinds = ["const", "var", "temp1", "temp2", "temp2", "temp3", "right", "call", "calltemp", "rel"]
    n = 1 + r.below(5)
    args = [shape(r.choice(kinds)) for _ in range(n)]
    fnames = ["p%d" % i for i in range(n)]
    globals_ = [["var", g] for g in gl]
    procs = []
    procs.append({"kind": "func", "name": "h", "formals": [["val", "x"]], "locals": [],
                  "body": ["ret", ["bin", "plus", ["name", "x"], num(1), False]]})
    target = r.choice(["func", "proc", "put", "put", "exit", "get"])
    obs = [["syscall", 1, [["name", f], num(0)]] for f in fnames]
    if target == "func":
        procs.append({"kind": "func", "name": "callee", "formals": [["val", f] for f in fnames], "locals": [],
                      "body": ["seq", obs + [["ret", ["name", r.choice(fnames)]]]]})
        call = ["syscall", 1, [["call", "callee", args], num(0)]]
    elif target == "proc":
        procs.append({"kind": "proc", "name": "callee", "formals": [["val", f] for f in fnames], "locals": [],
                      "body": ["seq", obs] if len(obs) > 1 else obs[0]})
        call = ["call", "callee", args]
    elif target == "put":
        args = [shape(r.choice(kinds)), shape(r.choice(["const", "temp1", "temp2", "temp3", "right", "rel"]))]
        call = ["syscall", 1, args]
    elif target == "exit":
        call = ["syscall", 0, [args[0]]]
    else:
        call = ["seq", [["syscall", 1, [["syscall", 2, [shape(r.choice(["const", "temp2", "rel"]))]], num(0)]]]]
    nloc = r.below(4)
    locs = ["t%d" % i for i in range(nloc)]
    body = [["assign", l, lit(r.below(9))] for l in locs]
    body.append(call)
    body += [["syscall", 1, [["name", l], num(0)]] for l in locs]
    inner = {"kind": "proc", "name": "q", "formals": [], "locals": [["var", l] for l in locs], "body": ["seq", body]}
    init = [["assign", g, lit(x)] for g, x in zip(gl, vals)]
    if r.chance(1, 2):
        procs.append(inner)
        main = {"kind": "proc", "name": "main", "formals": [], "locals": [], "body": ["seq", init + [["call", "q", []]]]}
    else:
        main = {"kind": "proc", "name": "main", "formals": [], "locals": inner["locals"], "body": ["seq", init + body]}
    procs.append(main)
    feats = Counter({"stream:callshape": 1, "callshape:" + target: 1})
    return {"globals": globals_, "procs": procs}, feats


def flow_program(rng):
    """Boundary stream for control reaching (or not reaching) the END of a procedure: procedures and functions whose last
    statement is an `if` / nested `if` / `while` with `stop`, `return` or an exit call in some branches and `skip` or plain
    statements in the others ("guard" / "assert" procedures), called with actuals that take every path; every procedure is
    followed in the source by another one (so that falling off the end runs into a prologue) and `main` prints a marker
    after every call."""
    r = rng
    procs = []
    calls = []
    nguard = 1 + r.below(3)

    def put(ch):
        return ["syscall", 1, [lit(ch), num(0)]]

    def leaf(kind):
        if kind == "stop":
            return ["stop"]
        if kind == "exit":
            return ["syscall", 0, [lit(r.below(200))]]
        if kind == "skip":
            return ["skip"]
        if kind == "put":
            return put(97 + r.below(26))
        if kind == "assign":
            return ["assign", "n", ["bin", "plus", ["name", "x"], num(1), False]]
        return ["seq", [put(65 + r.below(26)), ["stop"] if kind == "putstop" else ["skip"]]]

    for i in range(nguard):
        name = "g%d" % i
        cond = ["bin", r.choice(["eq", "ne", "ls", "ge"]), ["name", "x"], lit(r.choice([0, 1, 5, 113])), False]
        a, b = r.choice([("skip", "stop"), ("stop", "skip"), ("skip", "exit"), ("put", "stop"), ("putstop", "skip"),
                         ("skip", "putstop"), ("stop", "put"), ("exit", "skip"), ("assign", "skip"), ("skip", "assign"),
                         ("assign", "skip"), ("assign", "stop")])
        tail = ["if", cond, leaf(a), leaf(b)]
        k = r.below(5)
        if k == 0:      # nested: the completing path is two levels down
            tail = ["if", ["bin", "ls", ["name", "x"], lit(50), False], tail, leaf(r.choice(["skip", "stop"]))]
        elif k == 1:    # a loop whose body stops on some iteration
            tail = ["seq", [["assign", "n", ["name", "x"]],
                            ["while", ["bin", "ls", ["name", "n"], lit(3), False],
                             ["seq", [["if", ["bin", "eq", ["name", "n"], lit(2), False], leaf(r.choice(["stop", "skip"])), ["skip"]],
                                      ["assign", "n", ["bin", "plus", ["name", "n"], num(1), False]]]]]]]
        body = tail if r.chance(1, 2) else ["seq", [put(48 + i), tail]]
        if r.chance(1, 4):
            # a function: every completing path returns
            def fix(st):
                if st[0] == "skip":
                    return ["ret", ["name", "x"]]
                if st[0] == "if":
                    return ["if", st[1], fix(st[2]), fix(st[3])]
                if st[0] == "seq":
                    return ["seq", st[1][:-1] + [fix(st[1][-1])]]
                if st[0] == "syscall" and st[1] == 1:
                    return ["seq", [st, ["ret", ["name", "x"]]]]
                return st
            fb = fix(tail if tail[0] == "if" else ["if", cond, leaf(a), leaf(b)])
            procs.append({"kind": "func", "name": name, "formals": [["val", "x"]], "locals": [], "body": fb})
            for arg in ([0, 1, 2, 5, 49, 50, 113, 114][r.below(4):][:3]):
                calls.append(["syscall", 1, [["bin", "plus", ["call", name, [lit(arg)]], num(1), False], num(0)]])
        else:
            procs.append({"kind": "proc", "name": name, "formals": [["val", "x"]], "locals": [["var", "n"]], "body": body})
            for arg in ([0, 1, 2, 5, 49, 50, 113, 114][r.below(3):][:3]):
                calls.append(["call", name, [lit(arg)]])
        # the procedure that follows in the image
        procs.append({"kind": "proc", "name": "after%d" % i, "formals": [], "locals": [], "body": put(33 + i)})
    body = []
    inp = r.chance(1, 2)
    if inp:
        body.append(["assign", "c", ["syscall", 2, [num(0)]]])
    # one or two calls only: a call that stops the program hides every later one
    r.shuffle(calls)
    for k, c in enumerate(calls[:1 + r.below(2)]):
        if inp and c[0] == "call" and r.chance(1, 2):
            c = ["call", c[1], [["name", "c"]]]
        body += [c, put(46)]
    body.append(put(10))
    main = {"kind": "proc", "name": "main", "formals": [], "locals": [["var", "c"]] if inp else [], "body": ["seq", body]}
    if r.chance(1, 2):
        procs.append(main)
    else:
        procs.insert(r.below(len(procs) + 1), main)
    return {"globals": [], "procs": procs}, Counter({"stream:flow": 1})


def logic_program(rng):
    """Boundary stream for the logical operators with one compile-time-constant operand: `C op E` and
    `E op C` for op in {and, or}, C a constant-zero / constant-one form (0, 1, false, true, a val equal
    to 0/1, a folded sub-expression) and E an expression containing a call of an impure function that
    returns 0 or 1 (prints a marker, reads input, or assigns a global) - as condition of if / while, as
    assigned value, as actual, under `~`, and nested `(E op C) op2 E2`.  `and`/`or` have a defined
    left-to-right short-circuit order, so which operands are evaluated is observable from the output,
    the input consumed and the global counter that the program prints at the end."""
    r = rng
    globals_ = [["val", "z", num(0)], ["val", "o", num(1)], ["var", "g"], ["var", "x"]]
    procs = [
        {"kind": "func", "name": "t1", "formals": [], "locals": [], "body": ["seq", [["syscall", 1, [num(ord("a"), "chr"), num(0)]], ["ret", num(1)]]]},
        {"kind": "func", "name": "t0", "formals": [], "locals": [], "body": ["seq", [["syscall", 1, [num(ord("b"), "chr"), num(0)]], ["ret", num(0)]]]},
        {"kind": "func", "name": "rd", "formals": [], "locals": [], "body": ["ret", ["bin", "ls", ["syscall", 2, [num(0)]], num(128), False]]},
        {"kind": "func", "name": "g1", "formals": [], "locals": [], "body": ["seq", [["assign", "g", ["bin", "plus", ["name", "g"], num(1), False]], ["ret", num(1)]]]},
        {"kind": "func", "name": "g0", "formals": [], "locals": [], "body": ["seq", [["assign", "g", ["bin", "plus", ["name", "g"], num(2), False]], ["ret", num(0)]]]},
        {"kind": "func", "name": "idb", "formals": [["val", "v"]], "locals": [], "body": ["seq", [["syscall", 1, [["bin", "plus", ["name", "v"], num(48), False], num(0)]], ["ret", ["name", "v"]]]]},
        {"kind": "proc", "name": "show", "formals": [["val", "v"]], "locals": [], "body": ["syscall", 1, [["bin", "plus", ["name", "v"], num(ord("A")), False], num(0)]]},
    ]

    def const(v):
        if v == 0:
            return r.choice([num(0), ["bool", 0], ["name", "z"], ["bin", "minus", num(3), num(3), False],
                             ["bin", "ls", num(4), num(2), False], ["bin", "eq", num(1), num(2), False],
                             ["un", "not", ["bool", 1]], ["bin", "and", ["bool", 1], num(0), False]])
        return r.choice([num(1), ["bool", 1], ["name", "o"], ["bin", "minus", num(2), num(1), False],
                         ["bin", "ls", num(2), num(4), False], ["bin", "eq", ["name", "o"], num(1), False],
                         ["un", "not", num(0)], ["bin", "or", num(0), ["bool", 1], False]])

    def impure():
        """(expression, value or None when it depends on the input)"""
        k = r.below(8)
        if k == 0:
            return ["call", "t1", []], 1
        if k == 1:
            return ["call", "t0", []], 0
        if k == 2:
            return ["call", "rd", []], None
        if k == 3:
            return ["call", "g1", []], 1
        if k == 4:
            return ["call", "g0", []], 0
        if k == 5:
            e, v = impure()
            return ["call", "idb", [e]], v
        if k == 6:
            e, v = impure()
            return ["un", "not", e], (None if v is None else 1 - v)
        return ["bin", "eq", ["call", "t1", []], num(r.below(2)), False], None

    def core(depth):
        op = r.choice(["and", "or"])
        cv = r.below(2)
        c = const(cv)
        e, ev = impure() if depth == 0 or r.chance(2, 3) else core(depth - 1)
        if r.chance(1, 2):
            l, lv, rr, rv = c, cv, e, ev
        else:
            l, lv, rr, rv = e, ev, c, cv
        if op == "and":
            val = 0 if lv == 0 else (rv if lv == 1 else (0 if rv == 0 else None))
        else:
            val = 1 if lv == 1 else (rv if lv == 0 else (1 if rv == 1 else None))
        return ["bin", op, l, rr, False], val

    stmts = [["assign", "g", num(0)], ["assign", "x", num(0)]]
    feats = Counter({"stream:logic": 1})
    for _ in range(1 + r.below(3)):
        e, v = core(r.below(2))
        k = r.below(100)
        if k < 15:
            e2, v2 = impure()
            op2 = r.choice(["and", "or"])
            e = ["bin", op2, e, e2, False] if r.chance(1, 2) else ["bin", op2, e2, e, False]
            v = None
            feats["logic:nested"] += 1
        elif k < 30:
            e, v = ["un", "not", e], (None if v is None else 1 - v)
            feats["logic:under-not"] += 1
        place = r.choice(["if", "if", "assign", "actual", "put", "while", "exit" if False else "if"])
        if place == "while" and v != 0:
            place = "if"
        feats["logic:" + place] += 1
        if place == "if":
            t = r.choice([["syscall", 1, [num(ord("T"), "chr"), num(0)]], ["skip"]])
            f = r.choice([["syscall", 1, [num(ord("F"), "chr"), num(0)]], ["skip"]])
            stmts.append(["if", e, t, f])
        elif place == "while":
            stmts.append(["while", e, ["skip"]])
        elif place == "assign":
            stmts += [["assign", "x", e], ["call", "show", [["name", "x"]]]]
        elif place == "actual":
            stmts.append(["call", "show", [e]])
        else:
            stmts.append(["syscall", 1, [["bin", "plus", e, num(ord("0")), False], num(0)]])
    # a compile-time constant as the WHOLE condition of while / if (also under not)
    for _ in range(r.below(3)):
        cv = r.below(2)
        c = const(cv)
        if r.chance(1, 3):
            c, cv = ["un", "not", c], 1 - cv
        if cv == 0 and r.chance(1, 2):
            stmts.append(["while", c, ["syscall", 1, [num(ord("W"), "chr"), num(0)]]])
            feats["logic:const-while"] += 1
        else:
            stmts.append(["if", c, ["syscall", 1, [num(ord("T"), "chr"), num(0)]], ["syscall", 1, [num(ord("F"), "chr"), num(0)]]])
            feats["logic:const-if"] += 1
    stmts += [["call", "show", [["name", "g"]]], ["syscall", 1, [["syscall", 2, [num(0)]], num(0)]]]
    procs.append({"kind": "proc", "name": "main", "formals": [], "locals": [], "body": ["seq", stmts]})
    return {"globals": globals_, "procs": procs}, feats


def gen_input(rng):
    n = rng.choice([0, 0, 1, 2, 3, 5, 8, 13])
    data = bytes(rng.choice([rng.below(256), 32 + rng.below(95), 255, 0, 10, 254]) for _ in range(n))
    files = {}
    for _ in range(rng.choice([0, 0, 0, 1, 2])):
        k = rng.below(8)
        files[k] = bytes(rng.below(256) for _ in range(rng.below(6)))
    fs = ";".join(f"{k}={v.hex() or '-'}" for k, v in sorted(files.items()) if v) or "-"
    return data, fs


if __name__ == "__main__":
    import sys
    import common as C
    seed = int(sys.argv[1]) if len(sys.argv) > 1 else 1
    prog, feats = generate(C.Rng(seed))
    print(to_source(prog))
    print(to_sexp(prog))
    print(dict(feats))
