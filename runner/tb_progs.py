"""Small fixed toolchain programs used by the testbench checks (C06, C13), built with the tools of
the current tree."""
import os
import subprocess

X_PROGS = {
    "exit7": "proc main() is 0(7)\n",
    "ret0": "proc main() is skip\n",
    "hi": "val put = 1;\nproc main() is { put('h', 0); put('i', 0); put('\\n', 0); 0(3) }\n",
    "echo": "val put = 1; val get = 2;\nvar c;\nproc main() is { c := get(0); while c ~= 255 do { put(c, 0); c := get(0) }; 0(0) }\n",
    "classify": "val put = 1; val get = 2;\nvar c;\nproc main() is { c := get(0); while c ~= 255 do { if c < 128 then put('L', 0) else put('H', 0); c := get(0) }; 0(0) }\n",
    "sum": "var i; var s;\nproc main() is { i := 0; s := 0; while i < 10 do { s := s + i; i := i + 1 }; 0(s) }\n",
    "fact": "func fac(val n) is if n = 0 then return 1 else return mul(n, fac(n - 1))\n"
            "func mul(val a, val b) is var r; { r := 0; while b > 0 do { r := r + a; b := b - 1 }; return r }\n"
            "proc main() is 0(fac(5))\n",
    # more than three global words: the image starts with a PREFIXED branch (first byte PFIX)
    "globals5": "var a; var b; var c; var d; var e;\nproc main() is { a := 1; b := 2; c := 3; d := 4; e := 5; 0(((a + b) + (c + d)) + e) }\n",
    "arr": "array a[8]; var i;\nproc main() is { i := 0; while i < 8 do { a[i] := i + i; i := i + 1 }; 0(a[3] + a[7]) }\n",
}

ASM_PROGS = {
    "asm_exit9": "BR start\nDATA 16383\nstart\nLDAC 9\nLDBM 1\nSTAI 2\nLDAC 0\nOPR SVC\n",
    # programs that use a register before loading it: after reset areg = breg = oreg = 0
    "asm_uses_ab": "BR start\nDATA 16383\nstart\nOPR ADD\nLDBM 1\nSTAI 2\nLDAC 0\nOPR SVC\n",
    "asm_uses_b": "BR start\nDATA 16383\nstart\nLDAC 5\nOPR SUB\nLDBM 1\nSTAI 2\nLDAC 0\nOPR SVC\n",
    "asm_brn_a": "BR start\nDATA 16383\nstart\nBRN neg\nLDAC 1\nBR out\nneg\nLDAC 2\nout\nLDBM 1\nSTAI 2\nLDAC 0\nOPR SVC\n",
    "asm_stai_b": "BR start\nDATA 16383\nstart\nLDAC 77\nSTAI 100\nLDAM 100\nLDBM 1\nSTAI 2\nLDAC 0\nOPR SVC\n",
    # first byte of the image is a prefix (BR over more than 15 bytes): nothing may accumulate in oreg while reset is held
    "asm_prefix_first": "BR start\nDATA 16383\nDATA 1\nDATA 2\nDATA 3\nDATA 4\nstart\nLDAC 9\nLDBM 1\nSTAI 2\nLDAC 0\nOPR SVC\n",
    "asm_nfix_first": "LDAC -1\nBR start\nDATA 16383\nstart\nLDBC 7\nOPR ADD\nLDBM 1\nSTAI 2\nLDAC 0\nOPR SVC\n",
    # a store, fetched from lane 0 of a word, that rewrites the rest of that same word: the following bytes are the NEW ones
    "asm_selfmod": "BR start\nDATA 16383\nneww\nDATA 842150436\nstart\nLDAM neww\nLDBC 0\nLDBC 0\nLDBC 0\nself\nSTAM self\n"
                   "LDAC 1\nLDAC 1\nLDAC 1\nLDBM 1\nSTAI 2\nLDAC 0\nOPR SVC\n",
    # the same through STAI, fetched after a taken branch into lane 0
    "asm_selfmod_stai": "BR start\nDATA 16383\nneww\nDATA 842150528\nstart\nLDAM neww\nLDBC 4\nBR self\nLDAC 0\nself\nSTAI 0\n"
                        "LDAC 1\nLDAC 1\nLDAC 1\nLDBM 1\nSTAI 2\nLDAC 0\nOPR SVC\n",
    # back-to-back system calls: three writes, then two reads of which the second decides the exit value
    "asm_svc_twice": "BR start\nDATA 16383\nstart\nLDAC 104\nLDBM 1\nSTAI 2\nLDAC 0\nSTAI 3\nLDAC 1\nOPR SVC\nOPR SVC\nOPR SVC\n"
                     "LDAC 0\nSTAI 2\nLDAC 2\nOPR SVC\nOPR SVC\nLDAM 1\nLDAI 1\nLDBM 1\nSTAI 2\nLDAC 0\nOPR SVC\n",
    "asm_svc_first": "OPR SVC\nBR start\nDATA 16383\n",   # first instruction is SVC (D25 shape); never well-formed, kept out of C06
}


def big_image_source(nwords=60000):
    """An image of more than 200000 BYTES (the memory has 200000 WORDS): a constant table whose far entries are read."""
    lines = ["BR start", "DATA 199990", "tab"]
    for i in range(nwords):
        if i == 51000:
            lines.append("far")
        if i == nwords - 1:
            lines.append("last")
        lines.append(f"DATA {77 if i == 51000 else 42 if i == nwords - 1 else (i * 7919) % 100000}")
    lines += ["start", "LDAM far", "LDBM last", "OPR ADD", "LDBM 1", "STAI 2", "LDAC 0", "OPR SVC"]
    return "\n".join(lines) + "\n"


def build_big(tools, wd):
    """{name: path} of large-image binaries (used by C06 only)."""
    p = os.path.join(wd, "asm_bigtable.S")
    open(p, "w").write(big_image_source())
    b = os.path.join(wd, "asm_bigtable.bin")
    r = subprocess.run([os.path.join(tools, "hexasm"), p, "-o", b], cwd=wd, capture_output=True)
    return {"asm_bigtable": b} if r.returncode == 0 and os.path.exists(b) else {}


def build_binaries(tools, wd):
    """Returns {name: path}. Programs the current compiler rejects or mis-handles are still
    returned if a binary was produced; callers judge behaviour against hexsim."""
    out = {}
    for name, src in X_PROGS.items():
        p = os.path.join(wd, name + ".x")
        open(p, "w").write(src)
        b = os.path.join(wd, name + ".bin")
        r = subprocess.run([os.path.join(tools, "xcmp"), p, "-o", b], cwd=wd, capture_output=True)
        if r.returncode == 0 and os.path.exists(b):
            out[name] = b
    for name, src in ASM_PROGS.items():
        if name == "asm_svc_first":
            continue
        p = os.path.join(wd, name + ".S")
        open(p, "w").write(src)
        b = os.path.join(wd, name + ".bin")
        r = subprocess.run([os.path.join(tools, "hexasm"), p, "-o", b], cwd=wd, capture_output=True)
        if r.returncode == 0 and os.path.exists(b):
            out[name] = b
    return out


_IN = [b"", b"a", b"hello\n", bytes([0x80, 0xFE, 0x00, 0x41]), bytes([0x7F, 0x80, 0xC3, 0xA9])]
INPUTS = {"echo": _IN, "classify": _IN, "asm_svc_twice": [b"AB", b"A", b""]}
