"""C14: tool exit status and output files reflect what happened.

Proof: lean/HexVerif/Properties/C14.lean over the models of the four `main`s in Cli/Model.lean
       (status/output biconditionals for ALL argument lists; xrun = xcmp && hexsim; status =
       exit value mod 256; order independence).
Tie:   the four executables built from $HEX_REPO by the repository's own CMake are run in fresh
       scratch directories on generated command lines (every order/spelling of the options,
       accepted and rejected sources, missing files, pre-existing / uncreatable outputs, malformed
       lines); status, stderr, stdout kind and the directory contents before/after are compared
       (a) with the prediction of the Lean model (`clidriver`) and (b) with the property's own
       oracle, which is evaluated on the real observation only.
A real observation that contradicts the oracle is a failing input (VIOLATION with replay); a
model/implementation difference without an oracle failure is reported `no-failing-input-found`.
"""
import concurrent.futures as cf
import hashlib
import itertools
import json
import os
import shutil
import subprocess
import sys
import tempfile
import time
from collections import Counter

import common as C

PID = "C14"
TOOLS = ["hexasm", "xcmp", "xrun", "hexsim"]
USAGE_BANNERS = {"hexasm": "Hex assembler", "xcmp": "X compiler", "xrun": "X run",
                 "hexsim": "Hex processor simulator"}
EXITS = [0, 1, 42, 255, 256, -1]


# ------------------------------------------------------------------------------------------------
# building the tools
# ------------------------------------------------------------------------------------------------

def build_tools():
    """The four executables, built with the repository's CMake into a scratch tree; cached under
    build/ keyed by the content hash of every source of the repo."""
    os.makedirs(C.BUILD, exist_ok=True)
    srcs = C.repo_sources() + [os.path.join(C.REPO, "CMakeLists.txt")]
    key = C.file_hash(srcs, "cli-tools-v1")
    d = os.path.join(C.BUILD, f"cli-tools-{key}")
    if all(os.path.exists(os.path.join(d, t)) for t in TOOLS):
        os.utime(d)
        return d
    # keep the two most recently used tool sets (switching HEX_REPO between two trees is common);
    # remove older ones and any scratch tree left by an interrupted build
    olds = sorted((o for o in os.listdir(C.BUILD) if o.startswith("cli-tools-")),
                  key=lambda o: os.path.getmtime(os.path.join(C.BUILD, o)), reverse=True)
    for old in olds[2:] + [o for o in os.listdir(C.BUILD) if o.startswith("cli-cmake-")]:
        shutil.rmtree(os.path.join(C.BUILD, old), ignore_errors=True)
    scratch = tempfile.mkdtemp(prefix="cli-cmake-", dir=C.BUILD)
    t = time.time()
    try:
        r = C.sh(["cmake", "-G", "Ninja", "-S", C.REPO, "-B", scratch, "-DCMAKE_BUILD_TYPE=RelWithDebInfo",
                  "-DUSE_VERILATOR=NO", "-DCMAKE_CXX_FLAGS=-Wno-error"])
        if r.returncode != 0:
            raise C.BuildError("cmake configure failed:\n" + (r.stdout + r.stderr)[-3000:])
        r = C.sh(["cmake", "--build", scratch, "--target"] + TOOLS)
        if r.returncode != 0:
            raise C.BuildError("tools do not build:\n" + (r.stdout + r.stderr)[-4000:])
        os.makedirs(d + ".tmp", exist_ok=True)
        for tname in TOOLS:
            shutil.copy2(os.path.join(scratch, tname), os.path.join(d + ".tmp", tname))
        os.replace(d + ".tmp", d)
    finally:
        shutil.rmtree(scratch, ignore_errors=True)
    C.log(f"[build] hexasm xcmp xrun hexsim in {time.time()-t:.1f}s")
    return d


# ------------------------------------------------------------------------------------------------
# sources (tiny, fixed; their classification is by construction, never taken from the tools)
# ------------------------------------------------------------------------------------------------

def asm_exit(v):
    return (f"BR start\nDATA 16383\nstart\nLDAC {v}\nLDBM 1\nSTAI 2\nLDAC 0\nOPR SVC\n").encode()


def x_exit(v):
    return (f"proc main() is 0({v})\n" if v >= 0 else f"proc main() is 0(0 - {-v})\n").encode()


# kind: valid | reject | ambiguous;  lex: does the token stage succeed
ASM_SRC = {f"e{v}".replace("-", "m"): {"text": asm_exit(v), "kind": "valid", "lex": True, "exit": v} for v in EXITS}
CUT_LIMIT = 150      # a --max-cycles value below the run length of the `count` programs and above that of the exit programs
ASM_COUNT = (b"BR start\nDATA 16383\ncnt\nDATA 300\nstart\nloop\nLDAM cnt\nLDBC 1\nOPR SUB\nSTAM cnt\nBRZ done\nBR loop\ndone\n"
             b"LDAC 7\nLDBM 1\nSTAI 2\nLDAC 0\nOPR SVC\n")
X_COUNT = b"var i;\nproc main() is { i := 0; while i < 200 do i := i + 1; 0(7) }\n"
ASM_SRC.update({
    # runs for some 2000 cycles before it exits with 7: under --max-cycles 150 the run is cut short (status 0)
    "count": {"text": ASM_COUNT, "kind": "valid", "lex": True, "exit": 7, "cut": {CUT_LIMIT: 0}},
    "syn": {"text": b"LDAC LDAC\n", "kind": "reject", "lex": True},          # unexpected token
    "late": {"text": b"BR nowhere\n", "kind": "reject", "lex": True},         # unknown label (CodeGen ctor)
    "opr": {"text": b"OPR FOO\n", "kind": "reject", "lex": True},             # invalid OPR operand
    # rejections that a change could move behind the point where the output file is opened: an instruction mnemonic as OPR
    # operand, an unknown label after code that could already be emitted, an absolute reference to an unaligned label
    "oprins": {"text": b"LDAC 1\nOPR BRN\n", "kind": "reject", "lex": True},
    "oprins2": {"text": b"LDAC 1\nLDAC 2\nLDAC 3\nLDAC 4\nLDAC 5\nOPR LDAC\n", "kind": "reject", "lex": True},
    "late2": {"text": b"LDAC 1\nLDAC 2\nLDAC 3\nLDAC 4\nLDAC 5\nBR nowhere\n", "kind": "reject", "lex": True},
    "unal": {"text": b"LDAC 1\nLDAC lab\nlab\nLDAC 2\n", "kind": "reject", "lex": True},
    "empty": {"text": b"", "kind": "ambiguous", "lex": True},                 # (D5 / C10 territory)
})
X_SRC = {f"e{v}".replace("-", "m"): {"text": x_exit(v), "kind": "valid", "lex": True, "exit": v} for v in EXITS}
X_SRC.update({
    "count": {"text": X_COUNT, "kind": "valid", "lex": True, "exit": 7, "cut": {CUT_LIMIT: 0}},
    "lex": {"text": b"proc main() is 0($)\n", "kind": "reject", "lex": False},   # lexical error
    "syn": {"text": b"proc main( is skip\n", "kind": "reject", "lex": True},     # syntax error
    "sem": {"text": b"proc main() is x := 1\n", "kind": "reject", "lex": True},  # unknown symbol (ConstProp)
    "call": {"text": b"proc main() is foo()\n", "kind": "reject", "lex": True},  # unknown procedure
    # rejected by later stages of the compiler (constant evaluation, array length, assembly of the generated code)
    "nonconst": {"text": b"var v; val c = v; proc main() is 0(c)\n", "kind": "reject", "lex": True},
    "redecl": {"text": b"proc p() is skip proc p() is skip proc main() is p()\n", "kind": "reject", "lex": True},
    "sysc": {"text": b"proc main() is 9(1)\n", "kind": "reject", "lex": True},
    "empty": {"text": b"", "kind": "ambiguous", "lex": True},
})


def hexs(b):
    return "x" + b.hex()


# ------------------------------------------------------------------------------------------------
# running one real invocation
# ------------------------------------------------------------------------------------------------

def snapshot(d):
    """name -> 'x<hex>' for regular files, 'dir' for directories (relative paths, recursive)."""
    out = {}
    for dp, dns, fns in os.walk(d):
        rel = os.path.relpath(dp, d)
        for n in dns:
            out[os.path.normpath(os.path.join(rel, n))] = "dir"
        for n in fns:
            p = os.path.join(dp, n)
            with open(p, "rb") as f:
                out[os.path.normpath(os.path.join(rel, n))] = hexs(f.read())
    return out


def stdout_kind(tool, data):
    if not data:
        return "none"
    if data.startswith(USAGE_BANNERS[tool].encode()):
        return "usage"
    return "text"


def run_real(tools, case, workroot):
    d = tempfile.mkdtemp(prefix="c14-", dir=workroot)
    try:
        for n in case.get("dirs", []):
            os.makedirs(os.path.join(d, n), exist_ok=True)
        for n, h in case["files"].items():
            with open(os.path.join(d, n), "wb") as f:
                f.write(bytes.fromhex(h[1:]))
        before = snapshot(d)
        obs = {}
        try:
            r = subprocess.run([os.path.join(tools, case["tool"])] + case["argv"], cwd=d, stdin=subprocess.DEVNULL,
                               stdout=subprocess.PIPE, stderr=subprocess.PIPE, timeout=10)
            obs["rc"] = r.returncode
            obs["stdout_kind"] = stdout_kind(case["tool"], r.stdout)
            obs["stdout_head"] = r.stdout[:120].decode(errors="replace")
            obs["stdout_sha"] = hashlib.sha256(r.stdout).hexdigest()[:16]
            obs["stderr"] = bool(r.stderr)
            obs["stderr_head"] = r.stderr[:200].decode(errors="replace")
        except subprocess.TimeoutExpired:
            obs.update({"rc": "timeout", "stdout_kind": "none", "stdout_head": "", "stdout_sha": "", "stderr": False,
                        "stderr_head": ""})
        after = snapshot(d)
        obs["before"] = before
        obs["after"] = after
        # the pipeline `xcmp f -o a.bin && hexsim <opts> a.bin` for well-formed xrun lines
        if case.get("pipeline"):
            for n in list(os.listdir(d)):
                p = os.path.join(d, n)
                shutil.rmtree(p) if os.path.isdir(p) else os.unlink(p)
            for n in case.get("dirs", []):
                os.makedirs(os.path.join(d, n), exist_ok=True)
            for n, h in case["files"].items():
                with open(os.path.join(d, n), "wb") as f:
                    f.write(bytes.fromhex(h[1:]))
            pl = case["pipeline"]
            try:
                r1 = subprocess.run([os.path.join(tools, "xcmp")] + pl["xcmp"], cwd=d, stdin=subprocess.DEVNULL,
                                    stdout=subprocess.PIPE, stderr=subprocess.PIPE, timeout=10)
                p_rc, p_out, p_err = r1.returncode, r1.stdout, r1.stderr
                if r1.returncode == 0:
                    r2 = subprocess.run([os.path.join(tools, "hexsim")] + pl["hexsim"], cwd=d, stdin=subprocess.DEVNULL,
                                        stdout=subprocess.PIPE, stderr=subprocess.PIPE, timeout=10)
                    p_rc, p_out, p_err = r2.returncode, p_out + r2.stdout, p_err + r2.stderr
                obs["pipeline"] = {"rc": p_rc, "stdout": p_out[:120].decode(errors="replace"), "stderr": bool(p_err),
                                   "stdout_sha": hashlib.sha256(p_out).hexdigest()[:16], "after": snapshot(d)}
            except subprocess.TimeoutExpired:
                obs["pipeline"] = {"rc": "timeout", "stdout": "", "stderr": False, "after": {}}
        return obs
    finally:
        shutil.rmtree(d, ignore_errors=True)


# ------------------------------------------------------------------------------------------------
# the oracle: C14 evaluated on a real observation, from the expectation fixed by construction
# ------------------------------------------------------------------------------------------------

def diag(obs):
    return obs["stderr"] or obs["stdout_kind"] == "usage"


def oracle(case, obs):
    """Returns a list of violated clauses (empty = the observation satisfies C14)."""
    e = case["expect"]
    bad = []
    rc = obs["rc"]
    before, after = obs["before"], obs["after"]
    if rc == "timeout":
        return ["timeout"]
    if isinstance(rc, int) and rc < 0:
        # killed by a signal: whether every input is accepted or *cleanly* rejected is C09/C10;
        # what is C14's here is that nothing new or truncated is left behind.
        if after != before:
            bad.append("crash-left-files")
        if e["kind"] != "consistent":
            bad.append("crash")
        return bad
    if e["kind"] == "accept-binary":
        want = dict(before)
        want[e["out"]] = e["image"]
        if rc != 0:
            bad.append("accepted-but-status-nonzero")
        if obs["stderr"]:
            bad.append("accepted-but-stderr")
        if after.get(e["out"]) != e["image"]:
            bad.append("binary-not-in-named-output")
        if {k: v for k, v in after.items() if k != e["out"]} != {k: v for k, v in before.items() if k != e["out"]}:
            bad.append("other-files-changed")
    elif e["kind"] == "accept-listing":
        if rc != 0:
            bad.append("accepted-but-status-nonzero")
        if obs["stderr"]:
            bad.append("accepted-but-stderr")
        if obs["stdout_kind"] != "text":
            bad.append("listing-missing")
        if after != before:
            bad.append("listing-mode-changed-files")
    elif e["kind"] == "reject":
        if rc == 0:
            bad.append("error-but-status-zero")
        if not diag(obs):
            bad.append("error-but-no-diagnostic")
        if after != before:
            bad.append("error-but-files-changed")
    elif e["kind"] == "run":
        if rc != e["status"]:
            bad.append("status-is-not-exit-value")
        if obs["stderr"]:
            bad.append("run-but-stderr")
        want = dict(before)
        want.update(e.get("created", {}))
        if after != want:
            bad.append("unexpected-files")
    elif e["kind"] == "consistent":
        changed = {k: v for k, v in after.items() if before.get(k) != v}
        removed = [k for k in before if k not in after]
        if rc == 0:
            if obs["stderr"]:
                bad.append("status-zero-with-error-output")
            if e.get("out") is not None and (set(changed) - {e["out"]} or removed):
                bad.append("other-files-changed")
            if e.get("out") is not None and e["out"] not in after:
                bad.append("status-zero-without-output")
            if e.get("out") is None and (changed or removed):
                bad.append("listing-mode-changed-files")
        else:
            if not diag(obs):
                bad.append("error-but-no-diagnostic")
            if after != before:
                bad.append("error-but-files-changed")
    # xrun = xcmp && hexsim, on the real tools
    if "pipeline" in obs and obs["pipeline"]["rc"] != "timeout":
        p = obs["pipeline"]
        if (p["rc"] == 0) != (rc == 0) or (e["kind"] == "run" and p["rc"] != rc):
            bad.append("xrun-status-differs-from-xcmp-then-hexsim")
        if e["kind"] == "run" and p["stdout_sha"] != obs.get("stdout_sha"):
            bad.append("xrun-stdout-differs-from-xcmp-then-hexsim")
    return bad


# ------------------------------------------------------------------------------------------------
# the model side
# ------------------------------------------------------------------------------------------------

def model_line(case, variant):
    names = set(case["files"]) | set(case["argv"]) | {"a.out", "a.bin"} | set(case.get("probe", []))
    names = sorted(n for n in names if n and " " not in n and "," not in n)
    f = lambda xs: ",".join(xs) if xs else "-"
    return " ".join([
        case["tool"], variant,
        f([hexs(a.encode()) for a in case["argv"]]),
        f([hexs(n.encode()) + "=" + h for n, h in sorted(case["files"].items())]),
        f([hexs(n.encode()) for n in case.get("unwritable", [])]),
        f(case.get("src_table", [])),
        f(case.get("sim_table", [])),
        f([hexs(n.encode()) for n in names]),
    ])


def parse_model(line):
    p = line.split(" ")
    if len(p) != 4:
        return {"bad": line}
    fs = {}
    if p[3] != "-":
        for e in p[3].split(","):
            n, c = e.split("=")
            fs[bytes.fromhex(n[1:]).decode(errors="replace")] = c
    return {"rc": int(p[0]), "stderr": p[1] == "1", "stdout": p[2], "fs": fs}


def model_differs(case, obs, m):
    """Compare the model's prediction with the real observation; returns list of differing facets."""
    if "bad" in m:
        return ["model-output-unparsable"]
    d = []
    rc = obs["rc"]
    if rc != m["rc"]:
        d.append(f"status real={rc} model={m['rc']}")
    if obs["stderr"] != m["stderr"]:
        d.append(f"stderr real={obs['stderr']} model={m['stderr']}")
    k = obs["stdout_kind"]
    ms = m["stdout"]
    ok = ((ms == "usage") == (k == "usage")) and (ms != "none" or k == "none") and \
         (ms != "text" or m["rc"] != 0 or k == "text")
    if not ok:
        d.append(f"stdout real={k} model={ms}")
    real_files = {n: v for n, v in obs["after"].items() if v != "dir"}
    if real_files != m["fs"]:
        d.append("files real=" + json.dumps(sorted(real_files.items()))[:300] + " model=" + json.dumps(sorted(m["fs"].items()))[:300])
    return d


# ------------------------------------------------------------------------------------------------
# case construction: a command line is built from *items*; its reading is fixed here, by
# construction, the same way `asmCmdOf`/`xcmpCmdOf`/… read an item list in the Lean development
# ------------------------------------------------------------------------------------------------

XCMP_ACTIONS = {"--tokens": "tokens", "--tree": "tree", "--tree-opt": "treeOpt", "--insts": "insts",
                "--insts-lowered": "lowered", "--insts-optimised": "optimised", "-S": "asm", "--insts-asm": "tree"}


class Ctx:
    def __init__(self, tools, workroot):
        self.tools, self.workroot = tools, workroot
        self.images = {}

    def image(self, tool, key):
        """Reference image of a valid/ambiguous source: the canonical invocation `tool file` in an
        empty directory (a.out). For xrun the compile step is xcmp's."""
        t = "hexasm" if tool == "hexasm" else "xcmp"
        if (t, key) in self.images:
            return self.images[(t, key)]
        src = (ASM_SRC if t == "hexasm" else X_SRC)[key]
        name = "ref.S" if t == "hexasm" else "ref.x"
        case = {"tool": t, "argv": [name], "files": {name: hexs(src["text"])}}
        obs = run_real(self.tools, case, self.workroot)
        img = obs["after"].get("a.out") if obs["rc"] == 0 else None
        self.images[(t, key)] = (img, obs)
        return self.images[(t, key)]


def reading(tool, items):
    """items: list of ('flag', name) | ('opt', name, value) | ('file', name, srckey).  Returns the
    declarative reading (None if not well-formed)."""
    files = [i for i in items if i[0] == "file"]
    if len(files) != 1:
        return None
    r = {"file": files[0][1], "src": files[0][2]}
    flags = [i[1] for i in items if i[0] == "flag"]
    opts = [i for i in items if i[0] == "opt"]
    if tool in ("hexasm", "xcmp"):
        outs = [i[2] for i in opts if i[1] in ("-o", "--output")]
        r["out"] = outs[-1] if outs else "a.out"
    if tool == "hexasm":
        tk, ins = "--tokens" in flags, "--instrs" in flags
        r["mode"] = "tokens" if (tk and not ins) else ("instrs" if ins else "binary")
    if tool == "xcmp":
        acts = [XCMP_ACTIONS[f] for f in flags if f in XCMP_ACTIONS]
        r["mode"] = acts[-1] if acts else "binary"
        r["mem"] = "--memory-info" in flags
    if tool in ("xrun", "hexsim"):
        cyc = [i[2] for i in opts if i[1] == "--max-cycles"]
        r["cycles_ok"] = all(stoull_ok(c) for c in cyc)
        r["limit"] = stoull_val(cyc[-1]) if cyc and r["cycles_ok"] else 0
        r["dump"] = any(f in ("-d", "--dump") for f in flags)
    return r


def stoull_val(s):
    t = s.lstrip(" \t\n\v\f\r")
    neg = t[:1] == "-"
    if t[:1] in "+-":
        t = t[1:]
    ds = ""
    for ch in t:
        if ch.isdigit() and ch.isascii():
            ds += ch
        else:
            break
    v = int(ds) if ds else 0
    return (2 ** 64 - v) % 2 ** 64 if neg else v


def stoull_ok(s):
    t = s.lstrip(" \t\n\v\f\r")
    if t[:1] in "+-":
        t = t[1:]
    ds = ""
    for ch in t:
        if ch.isdigit() and ch.isascii():
            ds += ch
        else:
            break
    return bool(ds) and int(ds) < 2 ** 64


def render(items):
    out = []
    for i in items:
        if i[0] == "flag":
            out.append(i[1])
        elif i[0] == "opt":
            out += [i[1], i[2]]
        else:
            out.append(i[1])
    return out


def outcome_str(ok, img):
    return ("ok." + (img or "x")) if ok else "errL"


def make_case(ctx, tool, items, extra_args=None, present=True, pre_out=None, out_blocked=None, malformed=False,
              tag=""):
    """Builds the case (files, expectation, model tables) for `tool` on the rendering of `items`
    (+ `extra_args` appended verbatim for malformed lines).
    present: the input file exists.  pre_out: bytes of a pre-existing output file (or None).
    out_blocked: None | 'nodir' (output path inside a missing directory) | 'isdir' (output name is
    an existing directory)."""
    argv = render(items) + list(extra_args or [])
    srcs = ASM_SRC if tool == "hexasm" else X_SRC
    files, dirs, unwritable = {}, [], []
    file_items = [i for i in items if i[0] == "file"]
    rd = None if malformed else reading(tool, items)
    src_table, sim_table = [], []
    case = {"tool": tool, "argv": argv, "tag": tag}

    if tool == "hexsim":
        # the "source" of hexsim is a binary: the reference image of an assembly program
        for fi in file_items:
            if present and fi[2] is not None:
                img, _ = ctx.image("hexasm", fi[2])
                if img is not None:
                    files[fi[1]] = img
                    sim_table.append(f"{img}/exit.{(ASM_SRC[fi[2]]['exit'] & 0xFFFFFFFF):x}")
                    for lim, v in ASM_SRC[fi[2]].get("cut", {}).items():
                        sim_table.append(f"{img}/exit.{(v & 0xFFFFFFFF):x}/{lim}")
    else:
        for fi in file_items:
            if present and fi[2] is not None:
                s = srcs[fi[2]]
                files[fi[1]] = hexs(s["text"])
                img = None
                if s["kind"] in ("valid", "ambiguous"):
                    img, refobs = ctx.image(tool, fi[2])
                full_ok = (s["kind"] == "valid") or (s["kind"] == "ambiguous" and img is not None)
                src_table.append(f"{hexs(s['text'])}/{outcome_str(s['lex'], None)}/{outcome_str(full_ok, img)}")
                if img is not None and "exit" in s:
                    sim_table.append(f"{img}/exit.{(s['exit'] & 0xFFFFFFFF):x}")
                    for lim, v in s.get("cut", {}).items():
                        sim_table.append(f"{img}/exit.{(v & 0xFFFFFFFF):x}/{lim}")

    # output situation
    out = rd.get("out") if rd else None
    outs_named = [i[2] for i in items if i[0] == "opt" and i[1] in ("-o", "--output")]
    if tool == "xrun":
        out = "a.bin"
    for o in set(outs_named + ([out] if out else [])):
        if "/" in o:
            unwritable.append(o)          # parent directory does not exist
    if out_blocked == "isdir" and out and "/" not in out and out not in files:
        dirs.append(out)
        unwritable.append(out)
    if pre_out is not None and out and out not in unwritable and out not in files:
        files[out] = hexs(pre_out)

    # expectation, by construction
    if rd is None:
        expect = {"kind": "reject", "why": "malformed command line"}
    else:
        key = rd["src"]
        srcinfo = None if key is None else (ASM_SRC if tool in ("hexasm", "hexsim") else X_SRC)[key]
        if tool in ("hexasm", "xcmp"):
            if not present or srcinfo is None:
                expect = {"kind": "reject", "why": "input file missing"}
            else:
                listing = rd["mode"] != "binary"
                stage_ok = srcinfo["lex"] if rd["mode"] == "tokens" else (srcinfo["kind"] == "valid" or rd["mode"] in srcinfo.get("ok_modes", ()))
                if srcinfo["kind"] == "ambiguous" and rd["mode"] != "tokens":
                    # status 0 requires the output to exist, so an uncreatable output still has to be reported
                    expect = {"kind": "consistent", "out": None if listing else rd["out"]}
                elif not stage_ok:
                    expect = {"kind": "reject", "why": "source rejected"}
                elif listing:
                    expect = {"kind": "accept-listing"}
                elif rd["out"] in unwritable:
                    expect = {"kind": "reject", "why": "output cannot be created"}
                else:
                    img, refobs = ctx.image(tool, key)
                    if img is None:
                        expect = {"kind": "accept-binary", "out": rd["out"], "image": "<reference run failed>"}
                    else:
                        expect = {"kind": "accept-binary", "out": rd["out"], "image": img}
        elif tool == "xrun":
            if not rd["cycles_ok"]:
                expect = {"kind": "reject", "why": "--max-cycles value is not a number"}
            elif not present or srcinfo is None:
                expect = {"kind": "reject", "why": "input file missing"}
            elif srcinfo["kind"] == "ambiguous":
                expect = {"kind": "consistent", "out": "a.bin"}
            elif srcinfo["kind"] != "valid" or "a.bin" in unwritable:
                expect = {"kind": "reject", "why": "source rejected"}
            else:
                img, _ = ctx.image("xcmp", key)
                expect = {"kind": "run", "status": srcinfo.get("cut", {}).get(rd["limit"], srcinfo["exit"]) & 0xFF,
                          "created": {"a.bin": img or "<reference run failed>"}}
            if rd["cycles_ok"]:
                nf = [i for i in items if i[0] != "file"]
                case["pipeline"] = {"xcmp": [rd["file"], "-o", "a.bin"], "hexsim": render(nf) + ["a.bin"]}
        else:  # hexsim
            if not rd["cycles_ok"]:
                expect = {"kind": "reject", "why": "--max-cycles value is not a number"}
            elif not present or srcinfo is None or rd["file"] not in files:
                expect = {"kind": "reject", "why": "binary missing"}
            elif rd["dump"]:
                expect = {"kind": "accept-listing"}
            else:
                expect = {"kind": "run", "status": srcinfo.get("cut", {}).get(rd["limit"], srcinfo["exit"]) & 0xFF}
    case.update({"files": files, "dirs": dirs, "unwritable": sorted(set(unwritable)), "expect": expect,
                 "src_table": src_table, "sim_table": sim_table,
                 "nontrivial": rd is not None})
    return case


# ---- generators ---------------------------------------------------------------------------------

def opt_pool(tool, r=None):
    """(items) alternatives for one option of `tool`."""
    if tool == "hexasm":
        return [[("flag", "--tokens")], [("flag", "--instrs")], [("opt", "-o", "o1.bin")], [("opt", "--output", "o2.bin")]]
    if tool == "xcmp":
        return [[("flag", f)] for f in list(XCMP_ACTIONS) + ["--memory-info"]] + \
               [[("opt", "-o", "o1.bin")], [("opt", "--output", "o2.bin")]]
    if tool == "xrun":
        return [[("flag", "-t")], [("flag", "--trace")], [("opt", "--max-cycles", "100000")], [("opt", "--max-cycles", "+77777")],
                [("opt", "--max-cycles", str(CUT_LIMIT))]]
    return [[("flag", "-t")], [("flag", "--trace")], [("flag", "-d")], [("flag", "--dump")],
            [("opt", "--max-cycles", "100000")], [("opt", "--max-cycles", " 90000")], [("opt", "--max-cycles", str(CUT_LIMIT))]]


def src_keys(tool, quick):
    d = ASM_SRC if tool in ("hexasm", "hexsim") else X_SRC
    if tool in ("hexasm", "xcmp"):
        ks = ["e42"] + [k for k in d if d[k]["kind"] != "valid"]
        return ks if quick else ks + ["e0", "em1"]
    if tool == "hexsim":
        return [k for k in d if d[k]["kind"] == "valid"]
    return [k for k in d if d[k]["kind"] == "valid"] + ["lex", "syn", "sem", "empty"]


def file_name(tool):
    return {"hexasm": "prog.S", "xcmp": "prog.x", "xrun": "prog.x", "hexsim": "prog.bin"}[tool]


def systematic(ctx, quick):
    """Every order of small option sets x source kinds; malformed lines; output situations."""
    cases = []
    for tool in TOOLS:
        fn = file_name(tool)
        pool = opt_pool(tool)
        sets = [[]] + [[o] for o in pool]
        if tool in ("hexasm", "xcmp"):
            sets += [[[("opt", "-o", "o1.bin")], [("opt", "--output", "o2.bin")]],
                     [[("opt", "--output", "o2.bin")], [("opt", "-o", "o1.bin")], [("flag", "--tokens")]],
                     [[("opt", "-o", "--tokens")]], [[("opt", "-o", "-o")]], [[("opt", "--output", "nodir/o.bin")]]]
        if tool == "hexasm":
            sets += [[[("flag", "--tokens")], [("flag", "--instrs")]], [[("opt", "-o", "o1.bin")], [("flag", "--instrs")]]]
        if tool == "xcmp":
            sets += [[[("flag", "--tree")], [("flag", "-S")]], [[("flag", "--memory-info")], [("opt", "-o", "o1.bin")]]]
        if tool in ("xrun", "hexsim"):
            sets += [[[("flag", "-t")], [("opt", "--max-cycles", "100000")]],
                     [[("opt", "--max-cycles", "100000")], [("opt", "--max-cycles", "200000")]],
                     [[("opt", "--max-cycles", str(CUT_LIMIT))], [("opt", "--max-cycles", "100000")]],
                     [[("flag", "-t")], [("opt", "--max-cycles", str(CUT_LIMIT))]]]
        keys = src_keys(tool, quick)
        for si, s in enumerate(sets):
            parts = s + [[("file", fn, None)]]
            perms = list(itertools.permutations(range(len(parts))))
            for ki, key in enumerate(keys):
                # all orders for the main accepted and one rejected source, one order for the others
                use = perms if (ki < 2 or not quick) else [perms[(si + ki) % len(perms)]]
                for p in use:
                    items = []
                    for j in p:
                        items += [(("file", fn, key) if it[0] == "file" else it) for it in parts[j]]
                    cases.append(make_case(ctx, tool, items, tag="order"))
        # input file missing
        for s in sets[:4]:
            items = [it for part in s for it in part] + [("file", "nosuch" + os.path.splitext(fn)[1], None)]
            cases.append(make_case(ctx, tool, items, present=False, tag="missing-input"))
        # output situations (pre-existing content; name is a directory)
        if tool in ("hexasm", "xcmp", "xrun"):
            okk = "e42"
            bad = "late" if tool == "hexasm" else "sem"
            for key in (okk, bad, "syn"):
                for o in ([[("opt", "-o", "o1.bin")], [("opt", "--output", "o2.bin")], []] if tool != "xrun" else [[]]):
                    for order in (0, 1):
                        items = (o + [("file", fn, key)]) if order == 0 else ([("file", fn, key)] + o)
                        cases.append(make_case(ctx, tool, items, pre_out=b"OLD CONTENT\n", tag="preexisting-output"))
                        cases.append(make_case(ctx, tool, items, out_blocked="isdir", tag="output-is-directory"))
        # malformed command lines
        okk = "e42"
        f = ("file", fn, okk)
        mal = [
            ([], []), ([f], ["second" + os.path.splitext(fn)[1]]), ([f], ["--bogus"]), ([("flag", "--bogus2")], [fn]),
            ([f], ["-h"]), ([], ["-h", fn]), ([f], ["--help"]), ([], ["--help"]), ([f], ["-x"]),
        ]
        if tool in ("hexasm", "xcmp"):
            mal += [([f], ["-o"]), ([f], ["--output"]), ([], ["-o", fn]), ([], ["--output", fn]), ([], ["-o"]),
                    ([f], ["-oX"]), ([f, ("opt", "-o", "o1.bin")], ["-h"])]
        else:
            mal += [([f], ["--max-cycles"]), ([f], ["--max-cycles", "abc"]), ([], ["--max-cycles", fn]),
                    ([f], ["--max-cycles", ""]), ([f], ["--max-cycles", "99999999999999999999999"])]
        for its, extra in mal:
            c = make_case(ctx, tool, its, extra_args=extra, malformed=True, tag="malformed")
            if tool == "hexsim":
                # hexsim has no "unrecognised argument" arm: an unknown dash word is a file name
                if extra in (["--bogus"], ["-x"], ["-oX"]) or (its and its[0] == ("flag", "--bogus2")):
                    c["expect"] = {"kind": "reject", "why": "two files / missing binary"}
            cases.append(c)
    return cases


def random_cases(ctx, rng, n):
    cases = []
    for _ in range(n):
        tool = rng.choice(TOOLS)
        fn = file_name(tool)
        pool = opt_pool(tool)
        k = rng.below(5)
        parts = [list(rng.choice(pool)) for _ in range(k)]
        # vary values
        for part in parts:
            for idx, it in enumerate(part):
                if it[0] == "opt" and it[1] in ("-o", "--output"):
                    part[idx] = ("opt", it[1], rng.choice(["o1.bin", "o2.bin", "out", "x.y.z", "--tokens", "-o", "nodir/o.bin", "a.out"]))
                if it[0] == "opt" and it[1] == "--max-cycles" and rng.chance(1, 6):
                    part[idx] = ("opt", it[1], rng.choice(["abc", "", "-", "100000x", "0", "18446744073709551616", "-1"]))
        keys = list((ASM_SRC if tool in ("hexasm", "hexsim") else X_SRC).keys())
        if tool == "hexsim":
            keys = [k_ for k_ in keys if ASM_SRC[k_]["kind"] == "valid"]
        key = rng.choice(keys)
        nfiles = 1 if rng.chance(9, 10) else rng.choice([0, 2])
        for j in range(nfiles):
            parts.append([("file", fn if j == 0 else "other" + os.path.splitext(fn)[1], key)])
        rng.shuffle(parts)
        malformed = nfiles != 1
        roll = rng.below(20)
        extra = []
        if roll == 0:        # help at any item boundary
            parts.insert(rng.below(len(parts) + 1), [("flag", rng.choice(["-h", "--help"]))])
            malformed = True
        elif roll == 1:      # unknown option at any item boundary (hexsim: taken as a second / missing file)
            parts.insert(rng.below(len(parts) + 1), [("flag", rng.choice(["--bogus", "-x", "-oX", "--tokenz"]))])
            malformed = True
        elif roll == 2:      # option without its value, last
            extra, malformed = [rng.choice(["-o", "--output"] if tool in ("hexasm", "xcmp") else ["--max-cycles"])], True
        items = [it for part in parts for it in part]
        # a `--max-cycles 0`‑style small limit never occurs: the limits used never cut a run short
        present = not rng.chance(1, 12)
        pre = b"OLD CONTENT\n" if rng.chance(1, 3) else None
        blocked = "isdir" if rng.chance(1, 15) else None
        # "12x", "0", "-" … are acceptable to stoull or not: reading() decides
        c = make_case(ctx, tool, items, extra_args=extra, present=present, pre_out=pre, out_blocked=blocked,
                      malformed=malformed, tag="random")
        cases.append(c)
    return cases


# ------------------------------------------------------------------------------------------------

def evaluate(tools, drv, cases, variant, workroot):
    with cf.ThreadPoolExecutor(max_workers=C.NPROC) as ex:
        obs = list(ex.map(lambda c: run_real(tools, c, workroot), cases))
    # For sources whose acceptance is not fixed by construction (kind "consistent": the empty source) the
    # outcome of the translation stage, a *parameter* of the model, is read off the real run; the argument
    # handling, file handling and status logic of the model are still checked on these cases.
    for c, o in zip(cases, obs):
        if c["expect"]["kind"] == "consistent" and c["tool"] != "hexsim" and c.get("src_table"):
            okrun = o["rc"] == 0 and not o["stderr"]
            out = c["expect"].get("out")
            img = o["after"].get(out) if out else None
            txt = c["src_table"][0].split("/")[0]
            c["src_table"] = [f"{txt}/ok.x/{outcome_str(okrun, img if img and img != 'dir' else None)}"]
            c["core_outcome_from_observation"] = True
    lines = [model_line(c, variant) for c in cases]
    out = C.drive_parallel(drv, lines)
    models = [parse_model(l) for l in out]
    return obs, models


def run(tier, seed, replay=None):
    rep = C.Report(PID, "proof", tier, seed)
    info, problems = C.prove(PID, ["HexVerif.Properties.C14"])
    tools = build_tools()
    drv = C.driver_exe("clidriver")
    variant = os.environ.get("C14_MODEL", "fixed")
    workroot = os.path.join(C.BUILD, "work-c14-%d" % os.getpid())
    os.makedirs(workroot, exist_ok=True)
    ctx = Ctx(tools, workroot)
    t0 = time.time()

    if replay:
        payload = json.load(open(replay))
        cases = [payload["case"]] if "case" in payload else []
    else:
        cases = systematic(ctx, tier == "quick")
        rng = C.Rng(seed)
        cases += random_cases(ctx, rng, 120 if tier == "quick" else 19000)

    # a valid source whose canonical invocation fails is itself a failing input
    ref_failures = [(k, o) for k, (img, o) in ctx.images.items()
                    if img is None and (ASM_SRC if k[0] == "hexasm" else X_SRC)[k[1]]["kind"] == "valid"]

    obs, models = evaluate(tools, drv, cases, variant, workroot)

    failing = {}      # signature -> (case, obs, model, clauses)
    mismatches = []
    classes = Counter()
    nontrivial = set()
    deferred_crashes = 0
    for c, o, m in zip(cases, obs, models):
        clauses = oracle(c, o)
        classes[f"{c['tool']}:{c['expect']['kind']}"] += 1
        if c.get("nontrivial"):
            nontrivial.add((c["tool"], tuple(c["argv"]), json.dumps(c["files"], sort_keys=True), tuple(c.get("dirs", []))))
        if isinstance(o["rc"], int) and o["rc"] < 0 and not clauses:
            deferred_crashes += 1
        if clauses:
            sig = c["tool"] + ":" + clauses[0]
            if sig not in failing or len(c["argv"]) < len(failing[sig][0]["argv"]):
                failing[sig] = (c, o, m, clauses)
        diffs = model_differs(c, o, m)
        if isinstance(o["rc"], int) and o["rc"] < 0 and c["expect"]["kind"] == "consistent":
            diffs = []      # crash on an input whose acceptance is C09/C10's question
        if diffs:
            mismatches.append((c, o, m, diffs))

    n_real = len(cases) + sum(1 for c in cases if c.get("pipeline")) * 2 + len(ctx.images)
    rep.coverage.update({
        "obligations": info.get("obligations", 0), "discharged": info.get("discharged", 0),
        "checker_cmd": "cd lean && lake build HexVerif.Properties.C14 && lake env lean <#print axioms of every theorem>",
        "trusted_base": ["Lean 4.33.0 kernel", "axioms: " + json.dumps(info.get("axioms", {})),
                         "Cli/Model.lean as transcription of hexasm.cpp, xcmp.cpp (+Driver::run*, emitBin), xrun.cpp, hexsim.cpp",
                         "assembler/compiler/simulator proper are parameters of the model (AsmCore/XcmpCore/SimCore)",
                         "file system = name -> bytes + can-create predicate; host keeps the low 8 bits of main's return value",
                         "classification of the fixed test sources (valid / rejected) is by construction"],
        "evaluations": n_real, "distinct_nontrivial": len(nontrivial),
        "rule": "real executables (built from HEX_REPO by the repo's CMake) run in fresh scratch directories: every order "
                "of small option sets (both spellings of -o/--output, listing flags, -t/--trace, --max-cycles) x accepted and "
                "rejected sources (syntax, unknown label/symbol, lexical, empty), missing input, pre-existing output, output "
                "that cannot be created, malformed lines (no file, two files, unknown option, -h anywhere, missing or bad "
                "option value), programs exiting 0,1,42,255,256,-1; plus seeded random lines. non-trivial = the command line "
                "is well-formed (one file, options complete) so the tool reaches translation/simulation; distinct by "
                "(tool, argv, directory contents)",
        "samples": [{"tool": c["tool"], "argv": c["argv"], "expect": c["expect"]} for c in (cases[:2] + cases[-2:])],
        "traces_validated_against_impl": len(cases) - len(mismatches),
        "model_variant": variant, "model_vs_impl_mismatches": len(mismatches),
        "oracle_violations": sum(1 for c, o in zip(cases, obs) if oracle(c, o)),
        "violation_classes": sorted(failing), "outcome_classes": dict(classes),
        "crashes_deferred_to_C09_C10": deferred_crashes,
        "core_outcomes_read_from_observation": sum(1 for c in cases if c.get("core_outcome_from_observation")),
        "reference_images": len(ctx.images), "tools_dir": os.path.basename(tools),
        "correspondence_wall_s": round(time.time() - t0, 1),
    })
    rep.assumptions += ["translation and simulation proper are abstracted (covered by C01-C13)",
                        "the simulated programs terminate and open no files",
                        "std::stoull as documented (base 10, leading white space, sign, 2^64 range)",
                        "a crash (signal) on an input is C09/C10's finding; C14 only requires that it leaves no file behind"]

    for k, o in ref_failures:
        name = "ref.S" if k[0] == "hexasm" else "ref.x"
        rep.violation(f"reference-{k[0]}-{k[1]}", {
            "case": {"tool": k[0], "argv": [name], "files": {name: hexs((ASM_SRC if k[0] == 'hexasm' else X_SRC)[k[1]]["text"])},
                     "expect": {"kind": "accept-binary", "out": "a.out", "image": "<any>"}, "tag": "reference"},
            "observation": o, "violated": ["valid source not accepted by the canonical invocation"], "seed": seed})
    # one replay per (tool, violated clause); listed round-robin over the tools so that the five
    # VIOLATION lines the report prints cover as many tools as possible
    by_tool = {t: sorted(k for k in failing if k.startswith(t + ":")) for t in TOOLS}
    order = []
    while any(by_tool.values()):
        for t in TOOLS:
            if by_tool[t]:
                order.append(by_tool[t].pop(0))
    for sig in order:
        c, o, m, clauses = failing[sig]
        rep.violation(sig.replace(":", "-"), {
            "case": c, "observation": o, "expectation": c["expect"], "violated": clauses, "model": m, "seed": seed,
            "rerun": f"./check {PID} --replay <this file>",
            "how_to_reproduce_by_hand": "in an empty directory create the files of case.files (hex after the x), then run: "
                                        + c["tool"] + " " + " ".join(repr(a) for a in c["argv"])})
    if mismatches and not failing:
        c, o, m, diffs = mismatches[0]
        rep.violation("correspondence", {"case": c, "observation": o, "model": m, "differences": diffs, "seed": seed,
                                         "count": len(mismatches),
                                         "broken": "correspondence Cli.Model vs the executables (no observation contradicts the C14 oracle)"},
                      no_input=True)
    rep.coverage["model_mismatch_samples"] = [{"tool": c["tool"], "argv": c["argv"], "differences": d}
                                              for c, o, m, d in mismatches[:8]]
    if mismatches and failing:
        rep.coverage["first_model_mismatch"] = {"argv": mismatches[0][0]["argv"], "tool": mismatches[0][0]["tool"],
                                                "differences": mismatches[0][3]}
    if problems:
        rep.violation("proof", {"broken": problems, "note": "proof obligations are independent of the repo"},
                      no_input=not failing)
    if replay:
        for c, o, m in zip(cases, obs, models):
            print("tool  :", c["tool"], c["argv"])
            print("expect:", json.dumps(c["expect"]))
            print("real  :", json.dumps({k: o[k] for k in ("rc", "stderr", "stdout_kind", "stderr_head", "after")}))
            print("model :", json.dumps(m))
            print("oracle:", oracle(c, o) or "ok")
    shutil.rmtree(workroot, ignore_errors=True)
    return rep.finish()
