"""C09: xcmp accepts or cleanly rejects every input.

Implementation side: the REAL `xcmp::Driver::run` (harness/h_xcmp.cpp `x <action> <src>`, ASan/UBSan/
_GLIBCXX_ASSERTIONS, 1 GiB stack, hang watchdog) on
  (a) random byte strings (uniform and X-alphabet biased),
  (b) token-level mutations of tests/x/*.x and of generated programs (delete / insert / replace /
      duplicate / swap a token, identifier swaps, truncation = end of file after any token),
  (c) grammar-valid but semantically odd programs (undeclared / redeclared / mis-kinded names, wrong
      arities, calls of arrays, `=` and calls in every expression position, val cycles, strings with
      bytes >= 0x80, huge literals, missing main ...).
A failing input of C09 is one on which the compiler crashes, trips a sanitizer, hangs, or reports a
diagnostic AND emits an image.  It is shrunk and reported with a replay file.

Model side (what makes this more than fuzzing): `Xcmp/Lexer.lean` (total, structural on the bytes)
and `Xcmp/Parser.lean` (total, fuelled by the token count) are tied to the real code on every input:
the real `--tokens` output and the class and location of every lexical / syntactic diagnostic must be
what the model says, and for accepted programs the real `--tree` output (locations and constant
annotations stripped) must be the model's tree.  `Properties/C09.lean` proves totality of the
modelled stages and that no `fault` result is reachable in them.
"""
import json
import subprocess
import tempfile
import concurrent.futures as cf
import os
import re
import time
from collections import Counter

import common as C
import gen_x as G

PID = "C09"
ACTIONS = ["bin", "asm", "tokens", "tree"]
KEYWORDS = sorted(G.KEYWORDS)
SYMS = ["[", "]", "(", ")", "{", "}", ";", ",", "+", "-", "=", "~=", "<", "<=", ">", ">=", "~", ":=", "|", "#", "'", '"', ":"]

ODD = [
    'val c = #7FFFFFFF + #7FFFFFFF; proc main() is 0(c)',
    'val c = #7FFFFFFF - #80000000; proc main() is 0(c)',
    'val c = #7FFFFFFF < #FFFFFFFF; proc main() is 0(c)',
    'val c = #7FFFFFFF <= 2147483647; proc main() is 0(c)',
    'val c = #7FFFFFFF > (-2147483647); proc main() is 0(c)',
    'val c = #7FFFFFFF >= (0-1); proc main() is 0(c)',
    'val c = #7FFFFFFF = 2000000000; proc main() is 0(c)',
    'val c = #7FFFFFFF ~= (-2000000000); proc main() is 0(c)',
    'val c = #7FFFFFFF + 1; proc main() is 0(c)',
    'val c = #7FFFFFFF - 0; proc main() is 0(c)',
    'val c = #7FFFFFFF < 4294967295; proc main() is 0(c)',
    'val c = #7FFFFFFF <= 4294967298; proc main() is 0(c)',
    'val c = #7FFFFFFF > 99999999999999999999; proc main() is 0(c)',
    'val c = #80000000 >= #7FFFFFFF; proc main() is 0(c)',
    'val c = #80000000 = #80000000; proc main() is 0(c)',
    'val c = #80000000 ~= #FFFFFFFF; proc main() is 0(c)',
    'val c = #80000000 + 2147483647; proc main() is 0(c)',
    'val c = #80000000 - (-2147483647); proc main() is 0(c)',
    'val c = #80000000 < (0-1); proc main() is 0(c)',
    'val c = #80000000 <= 2000000000; proc main() is 0(c)',
    'val c = #80000000 > (-2000000000); proc main() is 0(c)',
    'val c = #80000000 >= 1; proc main() is 0(c)',
    'val c = #80000000 = 0; proc main() is 0(c)',
    'val c = #80000000 ~= 4294967295; proc main() is 0(c)',
    'val c = #80000000 + 4294967298; proc main() is 0(c)',
    'val c = #80000000 - 99999999999999999999; proc main() is 0(c)',
    'val c = #FFFFFFFF < #7FFFFFFF; proc main() is 0(c)',
    'val c = #FFFFFFFF <= #80000000; proc main() is 0(c)',
    'val c = #FFFFFFFF > #FFFFFFFF; proc main() is 0(c)',
    'val c = #FFFFFFFF >= 2147483647; proc main() is 0(c)',
    'val c = #FFFFFFFF = (-2147483647); proc main() is 0(c)',
    'val c = #FFFFFFFF ~= (0-1); proc main() is 0(c)',
    'val c = #FFFFFFFF + 2000000000; proc main() is 0(c)',
    'val c = #FFFFFFFF - (-2000000000); proc main() is 0(c)',
    'val c = #FFFFFFFF < 1; proc main() is 0(c)',
    'val c = #FFFFFFFF <= 0; proc main() is 0(c)',
    'val c = #FFFFFFFF > 4294967295; proc main() is 0(c)',
    'val c = #FFFFFFFF >= 4294967298; proc main() is 0(c)',
    'val c = #FFFFFFFF = 99999999999999999999; proc main() is 0(c)',
    'val c = 2147483647 ~= #7FFFFFFF; proc main() is 0(c)',
    'val c = 2147483647 + #80000000; proc main() is 0(c)',
    'val c = 2147483647 - #FFFFFFFF; proc main() is 0(c)',
    'val c = 2147483647 < 2147483647; proc main() is 0(c)',
    'val c = 2147483647 <= (-2147483647); proc main() is 0(c)',
    'val c = 2147483647 > (0-1); proc main() is 0(c)',
    'val c = 2147483647 >= 2000000000; proc main() is 0(c)',
    'val c = 2147483647 = (-2000000000); proc main() is 0(c)',
    'val c = 2147483647 ~= 1; proc main() is 0(c)',
    'val c = 2147483647 + 0; proc main() is 0(c)',
    'val c = 2147483647 - 4294967295; proc main() is 0(c)',
    'val c = 2147483647 < 4294967298; proc main() is 0(c)',
    'val c = 2147483647 <= 99999999999999999999; proc main() is 0(c)',
    'val c = (-2147483647) > #7FFFFFFF; proc main() is 0(c)',
    'val c = (-2147483647) >= #80000000; proc main() is 0(c)',
    'val c = (-2147483647) = #FFFFFFFF; proc main() is 0(c)',
    'val c = (-2147483647) ~= 2147483647; proc main() is 0(c)',
    'val c = (-2147483647) + (-2147483647); proc main() is 0(c)',
    'val c = (-2147483647) - (0-1); proc main() is 0(c)',
    'val c = (-2147483647) < 2000000000; proc main() is 0(c)',
    'val c = (-2147483647) <= (-2000000000); proc main() is 0(c)',
    'val c = (-2147483647) > 1; proc main() is 0(c)',
    'val c = (-2147483647) >= 0; proc main() is 0(c)',
    'val c = (-2147483647) = 4294967295; proc main() is 0(c)',
    'val c = (-2147483647) ~= 4294967298; proc main() is 0(c)',
    'val c = (-2147483647) + 99999999999999999999; proc main() is 0(c)',
    'val c = (0-1) - #7FFFFFFF; proc main() is 0(c)',
    'val c = (0-1) < #80000000; proc main() is 0(c)',
    'val c = (0-1) <= #FFFFFFFF; proc main() is 0(c)',
    'val c = (0-1) > 2147483647; proc main() is 0(c)',
    'val c = (0-1) >= (-2147483647); proc main() is 0(c)',
    'val c = (0-1) = (0-1); proc main() is 0(c)',
    'val c = (0-1) ~= 2000000000; proc main() is 0(c)',
    'val c = (0-1) + (-2000000000); proc main() is 0(c)',
    'val c = (0-1) - 1; proc main() is 0(c)',
    'val c = (0-1) < 0; proc main() is 0(c)',
    'val c = (0-1) <= 4294967295; proc main() is 0(c)',
    'val c = (0-1) > 4294967298; proc main() is 0(c)',
    'val c = (0-1) >= 99999999999999999999; proc main() is 0(c)',
    'val c = 2000000000 = #7FFFFFFF; proc main() is 0(c)',
    'val c = 2000000000 ~= #80000000; proc main() is 0(c)',
    'val c = 2000000000 + #FFFFFFFF; proc main() is 0(c)',
    'val c = 2000000000 - 2147483647; proc main() is 0(c)',
    'val c = 2000000000 < (-2147483647); proc main() is 0(c)',
    'val c = 2000000000 <= (0-1); proc main() is 0(c)',
    'val c = 2000000000 > 2000000000; proc main() is 0(c)',
    'val c = 2000000000 >= (-2000000000); proc main() is 0(c)',
    'val c = 2000000000 = 1; proc main() is 0(c)',
    'val c = 2000000000 ~= 0; proc main() is 0(c)',
    'val c = 2000000000 + 4294967295; proc main() is 0(c)',
    'val c = 2000000000 - 4294967298; proc main() is 0(c)',
    'val c = 2000000000 < 99999999999999999999; proc main() is 0(c)',
    'val c = (-2000000000) <= #7FFFFFFF; proc main() is 0(c)',
    'val c = (-2000000000) > #80000000; proc main() is 0(c)',
    'val c = (-2000000000) >= #FFFFFFFF; proc main() is 0(c)',
    'val c = (-2000000000) = 2147483647; proc main() is 0(c)',
    'val c = (-2000000000) ~= (-2147483647); proc main() is 0(c)',
    'val c = (-2000000000) + (0-1); proc main() is 0(c)',
    'val c = (-2000000000) - 2000000000; proc main() is 0(c)',
    'val c = (-2000000000) < (-2000000000); proc main() is 0(c)',
    'val c = (-2000000000) <= 1; proc main() is 0(c)',
    'val c = (-2000000000) > 0; proc main() is 0(c)',
    'val c = (-2000000000) >= 4294967295; proc main() is 0(c)',
    'val c = (-2000000000) = 4294967298; proc main() is 0(c)',
    'val c = (-2000000000) ~= 99999999999999999999; proc main() is 0(c)',
    'val c = 1 + #7FFFFFFF; proc main() is 0(c)',
    'val c = 1 - #80000000; proc main() is 0(c)',
    'val c = 1 < #FFFFFFFF; proc main() is 0(c)',
    'val c = 1 <= 2147483647; proc main() is 0(c)',
    'val c = 1 > (-2147483647); proc main() is 0(c)',
    'val c = 1 >= (0-1); proc main() is 0(c)',
    'val c = 1 = 2000000000; proc main() is 0(c)',
    'val c = 1 ~= (-2000000000); proc main() is 0(c)',
    'val c = 1 + 1; proc main() is 0(c)',
    'val c = 1 - 0; proc main() is 0(c)',
    'val c = 1 < 4294967295; proc main() is 0(c)',
    'val c = 1 <= 4294967298; proc main() is 0(c)',
    'val c = 1 > 99999999999999999999; proc main() is 0(c)',
    'val c = 0 >= #7FFFFFFF; proc main() is 0(c)',
    'val c = 0 = #80000000; proc main() is 0(c)',
    'val c = 0 ~= #FFFFFFFF; proc main() is 0(c)',
    'val c = 0 + 2147483647; proc main() is 0(c)',
    'val c = 0 - (-2147483647); proc main() is 0(c)',
    'val c = 0 < (0-1); proc main() is 0(c)',
    'val c = 0 <= 2000000000; proc main() is 0(c)',
    'val c = 0 > (-2000000000); proc main() is 0(c)',
    'val c = 0 >= 1; proc main() is 0(c)',
    'val c = 0 = 0; proc main() is 0(c)',
    'val c = 0 ~= 4294967295; proc main() is 0(c)',
    'val c = 0 + 4294967298; proc main() is 0(c)',
    'val c = 0 - 99999999999999999999; proc main() is 0(c)',
    'val c = 4294967295 < #7FFFFFFF; proc main() is 0(c)',
    'val c = 4294967295 <= #80000000; proc main() is 0(c)',
    'val c = 4294967295 > #FFFFFFFF; proc main() is 0(c)',
    'val c = 4294967295 >= 2147483647; proc main() is 0(c)',
    'val c = 4294967295 = (-2147483647); proc main() is 0(c)',
    'val c = 4294967295 ~= (0-1); proc main() is 0(c)',
    'val c = 4294967295 + 2000000000; proc main() is 0(c)',
    'val c = 4294967295 - (-2000000000); proc main() is 0(c)',
    'val c = 4294967295 < 1; proc main() is 0(c)',
    'val c = 4294967295 <= 0; proc main() is 0(c)',
    'val c = 4294967295 > 4294967295; proc main() is 0(c)',
    'val c = 4294967295 >= 4294967298; proc main() is 0(c)',
    'val c = 4294967295 = 99999999999999999999; proc main() is 0(c)',
    'val c = 4294967298 ~= #7FFFFFFF; proc main() is 0(c)',
    'val c = 4294967298 + #80000000; proc main() is 0(c)',
    'val c = 4294967298 - #FFFFFFFF; proc main() is 0(c)',
    'val c = 4294967298 < 2147483647; proc main() is 0(c)',
    'val c = 4294967298 <= (-2147483647); proc main() is 0(c)',
    'val c = 4294967298 > (0-1); proc main() is 0(c)',
    'val c = 4294967298 >= 2000000000; proc main() is 0(c)',
    'val c = 4294967298 = (-2000000000); proc main() is 0(c)',
    'val c = 4294967298 ~= 1; proc main() is 0(c)',
    'val c = 4294967298 + 0; proc main() is 0(c)',
    'val c = 4294967298 - 4294967295; proc main() is 0(c)',
    'val c = 4294967298 < 4294967298; proc main() is 0(c)',
    'val c = 4294967298 <= 99999999999999999999; proc main() is 0(c)',
    'val c = 99999999999999999999 > #7FFFFFFF; proc main() is 0(c)',
    'val c = 99999999999999999999 >= #80000000; proc main() is 0(c)',
    'val c = 99999999999999999999 = #FFFFFFFF; proc main() is 0(c)',
    'val c = 99999999999999999999 ~= 2147483647; proc main() is 0(c)',
    'val c = 99999999999999999999 + (-2147483647); proc main() is 0(c)',
    'val c = 99999999999999999999 - (0-1); proc main() is 0(c)',
    'val c = 99999999999999999999 < 2000000000; proc main() is 0(c)',
    'val c = 99999999999999999999 <= (-2000000000); proc main() is 0(c)',
    'val c = 99999999999999999999 > 1; proc main() is 0(c)',
    'val c = 99999999999999999999 >= 0; proc main() is 0(c)',
    'val c = 99999999999999999999 = 4294967295; proc main() is 0(c)',
    'val c = 99999999999999999999 ~= 4294967298; proc main() is 0(c)',
    'val c = 99999999999999999999 + 99999999999999999999; proc main() is 0(c)',
    'proc main() is 0(#7FFFFFFF + #FFFFFFFF)',
    'proc main() is 0(2000000000 + (-2000000000))',
    'val k = 1 + #80000000; array a[3]; proc main() is 0(k)',
    'proc main() is 0(#7FFFFFFF - #FFFFFFFF)',
    'proc main() is 0(2000000000 - (-2000000000))',
    'val k = 1 - #80000000; array a[3]; proc main() is 0(k)',
    'proc main() is 0(#7FFFFFFF < #FFFFFFFF)',
    'proc main() is 0(2000000000 < (-2000000000))',
    'val k = 1 < #80000000; array a[3]; proc main() is 0(k)',
    'proc main() is 0(#7FFFFFFF <= #FFFFFFFF)',
    'proc main() is 0(2000000000 <= (-2000000000))',
    'val k = 1 <= #80000000; array a[3]; proc main() is 0(k)',
    'proc main() is 0(#7FFFFFFF > #FFFFFFFF)',
    'proc main() is 0(2000000000 > (-2000000000))',
    'val k = 1 > #80000000; array a[3]; proc main() is 0(k)',
    'proc main() is 0(#7FFFFFFF >= #FFFFFFFF)',
    'proc main() is 0(2000000000 >= (-2000000000))',
    'val k = 1 >= #80000000; array a[3]; proc main() is 0(k)',
    'proc main() is 0(#7FFFFFFF = #FFFFFFFF)',
    'proc main() is 0(2000000000 = (-2000000000))',
    'val k = 1 = #80000000; array a[3]; proc main() is 0(k)',
    'proc main() is 0(#7FFFFFFF ~= #FFFFFFFF)',
    'proc main() is 0(2000000000 ~= (-2000000000))',
    'val k = 1 ~= #80000000; array a[3]; proc main() is 0(k)',
    'proc main() is 0(-(#80000000))',
    'val m = -(0 - #80000000); proc main() is 0(m)',
    'proc main() is 0(#)',
    'val z = #; proc main() is 0(z)',
    'proc main() is 0(~(#7FFFFFFF + 1))',
    'proc main() is 0((#7FFFFFFF + #7FFFFFFF) + (#80000000 - 1))',
    "", " ", "|", "| c", "\xff", "proc", "proc main", "proc main()", "proc main() is", "proc main() is skip x", "proc main() is skip x y",
    "val a = b; val b = a; proc main() is 0(a)", "val a = a; proc main() is 0(a)", "var g; val v = g; proc main() is 0(v)",
    "proc main() is 0(f(1) = 2)", "proc main() is x := 1", "var x; var x; proc main() is x := 1", "proc main() is main := 1",
    "array a[3]; proc main() is a := 1", "array a[3]; proc main() is a(1)", "var x; proc main() is x(1)", "var x; proc main() is x[1] := 2",
    "proc p() is skip proc main() is p[1] := 2", "proc p() is skip proc main() is 0(p)", "proc p() is skip proc main() is p := 1",
    "func f(val a) is return a proc main() is 0(f())", "func f(val a) is return a proc main() is 0(f(1, 2, 3))",
    "func f() is skip proc main() is 0(f())", "proc p() is return 1 proc main() is p()", "func main() is return 0",
    "proc main(val a) is skip", "proc notmain() is skip", "var x; array a[x]; proc main() is skip", "array a[0]; proc main() is a[0] := 1",
    "array a[-1]; proc main() is skip", "array a[3 >= 2]; proc main() is skip", "array a[100000000]; proc main() is a[0] := 1",
    "proc main() is 0(\"\x80\xfe\")", "proc main() is 0('\x80')", "proc main() is 0('", "proc main() is 0(''')", "proc main() is 0('\\q')",
    "proc main() is 0(\"abc", "proc main() is 0(99999999999999999999999)", "proc main() is 0(#FFFFFFFFFFFFFFFFFFFFF)", "proc main() is 0(#)",
    "proc main() is 0(#0x1F)", "proc main() is 0(#xyz)", "proc main() is 3(0)", "val s = 7; proc main() is s(0)", "proc main() is 0()",
    "proc main() is 1()", "proc main() is 2()", "proc main() is 0(1,2,3,4,5,6,7,8,9)", "proc main() is {}", "proc main() is { }",
    "proc main() is { skip; }", "proc main() is if 1 then skip", "proc main() is while 1 do", "proc main() is 0(-)", "proc main() is 0(~)",
    "proc main() is 0(1 + 2 - 3)", "proc main() is 0(1 - 2 - 3)", "proc main() is 0((((((((((1))))))))))", "proc main() is 0(-(-(-(-1))))",
    "proc main() is 0(~(~(~0)))", "proc p(proc q) is q() proc main() is p(main)", "proc p(func q) is 0(q()) proc main() is p(main)",
    "proc p(array a, array a) is skip proc main() is skip", "proc p(val p) is p() proc main() is p(1)", "proc main() is var main; main := 1",
    "proc main() is val x = 1; val x = 2; 0(x)", "proc main() is var v; val v = 2; 0(v)", "val exit = 0; proc main() is exit(exit(exit(1)))",
    "proc main() is 0(2(2(2(0))))", "proc main() is 0(\"abc\" + 1)", "proc main() is 0(1 + \"abc\")", "proc main() is 0(\"a\" = \"a\")",
    "proc main() is 0(-\"a\")", "array a[2]; proc main() is 0(a + a)", "array a[2]; proc main() is a[a] := a[a[0]]",
    "proc main() is 0(true and false or true)", "proc main() is 0(true + false + 1 + 2 + 3 + 4 + 5 + 6 + 7 + 8)",
    "proc main() is 0(2147483647 + 1)", "proc main() is 0(-2147483648)", "proc main() is 0(0 - 2147483648 - 1)",
    "val a = 2147483647 + 2147483647; proc main() is 0(a)", "val a = -#80000000; proc main() is 0(a)",
    "proc main() is stop stop", "proc main() is skip ; skip", "proc main() is skip }", "proc main() is skip proc", "proc main() is skip \xff proc q() is",
]


def lexical_corners():
    """every literal / comment / operator opening x what follows it (end of file, high and NUL bytes, quotes, newline), bare
    and inside an otherwise complete program: the places where a lexer indexes a table or reads ahead with an unchecked byte"""
    heads = ["'", "'\\", "'a", "\"", "\"abc", "\"abc\\", "\"\\", "|", "| c", "#", "#F", "1", "a", "a_", ":", "~", "<", ">", "-", "\\"]
    tails = ["", "\x80", "\xe9", "\xff", "\x00", "\n", "'", "\"", "\\", "\x7f", "n'", "n\""]
    out = []
    for h in heads:
        for t in tails:
            out.append("proc main() is 0(" + h + t)
            out.append("proc main() is 0(" + h + t + ") proc q() is skip")
            out.append(h + t)
    return out


def size_corners():
    """long tokens and long lists: fixed-size buffers, 8-bit length fields, positional indexing of formals by actuals"""
    out = []
    for n in (254, 255, 256, 257, 300, 1000, 5000):
        out.append('proc main() is 0("' + "a" * n + '")')
        out.append('func len(array s) is return s[0] proc main() is 0(len("' + "b" * n + '"))')
    for n in (64, 255, 256, 1000, 4000):
        out.append("var " + "v" * n + "; proc main() is " + "v" * n + " := 1")
        out.append("proc " + "p" * n + "() is skip proc main() is " + "p" * n + "()")
        out.append("proc main() is 0(" + "7" * n + ")")
        out.append("proc main() is 0(#" + "F" * n + ")")
    for n in (1, 5, 40, 200):
        fs = ", ".join(f"val a{i}" for i in range(n))
        out.append(f"proc p({fs}) is skip proc main() is p(" + ", ".join("1" for _ in range(n)) + ")")
        out.append(f"proc p({fs}) is skip proc main() is p(" + ", ".join("1" for _ in range(n + 3)) + ")")
        out.append(f"proc p({fs}) is skip proc main() is p(" + ", ".join("1" for _ in range(max(0, n - 1))) + ")")
        out.append(f"func f({fs}) is return a0 proc main() is 0(f(" + ", ".join("f(" + ", ".join("2" for _ in range(n)) + ")" for _ in range(n)) + "))" if n <= 5 else
                   f"func f({fs}) is return a0 proc main() is 0(f(" + ", ".join("3" for _ in range(n)) + "))")
        out.append("proc main() is { " + "; ".join(f"var x{i}" for i in range(n)) + "; skip }")
        out.append("proc main() is " + " ".join(f"var x{i};" for i in range(n)) + " x0 := 1")
        out.append(" ".join(f"array g{i}[{i + 1}];" for i in range(n)) + " proc main() is g0[0] := 1")
    for sz in ("199990", "199999", "200000", "200001", "1073741824", "2147483647", "2147483648", "4294967295", "4294967296", "0", "0 - 1", "1 - 2147483647"):
        out.append(f"array a[{sz}]; proc main() is a[0] := 1")
        out.append(f"array a[{sz}]; array b[{sz}]; proc main() is b[0] := a[0]")
        out.append(f"proc p(array x) is x[0] := 1 array a[{sz}]; proc main() is p(a)")
    return out


ODD = ODD + lexical_corners() + size_corners()


def tokenize(src):
    """coarse tokens of X source text (keeps strings, comments and unknown bytes as tokens)"""
    return re.findall(r'"(?:\\.|[^"\\])*"?|\'(?:\\.|[^\'\\])?\'?|\|[^\n]*|[A-Za-z][A-Za-z0-9_]*|#?[0-9A-Za-z]+|:=|~=|<=|>=|\s+|.', src, re.S)


def mutate(r, toks, idents):
    toks = list(toks)
    n = 1 + r.below(3)
    for _ in range(n):
        if not toks:
            toks = ["proc"]
        k = r.below(100)
        i = r.below(len(toks))
        if k < 18:
            del toks[i]
        elif k < 34:
            toks.insert(i, r.choice(KEYWORDS + SYMS + idents + ["0", "1", "2", "255", "#FF", "65536", "\"s\"", "'c'"]))
            toks.insert(i, " ")
        elif k < 50:
            toks[i] = r.choice(KEYWORDS + SYMS + idents + ["0", "3", "99999999999", "\"\"", "\xff", "\x80", "\x00"])
        elif k < 58:
            toks.insert(i, toks[i])
        elif k < 66:
            j = r.below(len(toks))
            toks[i], toks[j] = toks[j], toks[i]
        elif k < 84:
            # identifier swap: mis-kinded / undeclared / redeclared names
            ids = [p for p, t in enumerate(toks) if re.fullmatch(r"[A-Za-z][A-Za-z0-9_]*", t) and t not in G.KEYWORDS]
            if ids:
                toks[r.choice(ids)] = r.choice(idents + ["undeclared", "main"])
        elif k < 94:
            toks = toks[:i + 1]          # end of file after any token
        else:
            toks[i] = "".join(chr(r.below(256)) for _ in range(1 + r.below(4)))
    return "".join(toks)


IDENT = re.compile(r"[A-Za-z][A-Za-z0-9_]*")
OPTOK = ["+", "-", "=", "~=", "<", "<=", ">", ">=", "and", "or"]


def semantic_mutate(r, toks, idents):
    """edits that keep the program syntactically valid (mostly): mis-kinded / undeclared / redeclared names,
    changed operators, literals and declaration kinds, removed actuals or formals"""
    toks = list(toks)
    for _ in range(1 + r.below(3)):
        k = r.below(100)
        ids = [p for p, t in enumerate(toks) if IDENT.fullmatch(t) and t not in G.KEYWORDS]
        if k < 40 and ids:
            toks[r.choice(ids)] = r.choice(idents + ["undeclared", "main"])
        elif k < 50:
            ps = [p for p, t in enumerate(toks) if t in OPTOK]
            if ps:
                toks[r.choice(ps)] = r.choice(OPTOK)
        elif k < 60:
            ps = [p for p, t in enumerate(toks) if re.fullmatch(r"#?[0-9][0-9A-Fa-f]*", t)]
            if ps:
                toks[r.choice(ps)] = r.choice(["0", "1", "2", "3", "255", "65535", "65536", "2147483647", "2147483648", "4294967295",
                                              "99999999999999999999", "#FFFFFFFF", "#80000000", "'a'", "true", "false", "\"\"", "\"abc\""])
        elif k < 70:
            ps = [p for p, t in enumerate(toks) if t in ("val", "var", "array", "proc", "func")]
            if ps:
                p0 = r.choice(ps)
                toks[p0] = r.choice(["val", "array", "proc", "func"] if toks[p0] in ("proc", "func") or r.chance(1, 2) else ["val", "var"])
        elif k < 82:
            # remove "expr ," or ", expr" up to the next comma / parenthesis: changes an arity
            ps = [p for p, t in enumerate(toks) if t == ","]
            if ps:
                p0 = r.choice(ps)
                q = p0 + 1
                depth = 0
                while q < len(toks) and not (depth == 0 and toks[q] in (",", ")")):
                    depth += toks[q] in ("(", "[")
                    depth -= toks[q] in (")", "]")
                    q += 1
                del toks[p0:q]
        elif k < 90:
            # duplicate a declaration (up to ';')
            ps = [p for p, t in enumerate(toks) if t in ("val", "var", "array")]
            if ps:
                p0 = r.choice(ps)
                q = p0
                while q < len(toks) and toks[q] != ";":
                    q += 1
                if q < len(toks) and q - p0 < 40:
                    toks[p0:p0] = toks[p0:q + 1] + [" "]
        else:
            ps = [p for p, t in enumerate(toks) if t.startswith('"')]
            if ps:
                toks[r.choice(ps)] = r.choice(['""', '"\x80"', '"\xfe\xfd\xfc\xfb\xfa"', '"' + "a" * 300 + '"', '"\\n\\t"'])
    return "".join(toks)


def random_bytes(r):
    n = r.choice([0, 1, 2, 3, 5, 8, 13, 21, 40, 80, 200])
    if r.chance(1, 2):
        return "".join(chr(r.below(256)) for _ in range(n))
    alpha = "abcxyzPQ019_ \n\t()[]{};,+-=<>~:|#'\"\\" + "".join(chr(r.below(256)) for _ in range(4))
    return "".join(r.choice(alpha) for _ in range(n))


def soup(r, idents):
    n = 1 + r.below(40)
    return " ".join(r.choice(KEYWORDS + SYMS + idents + ["0", "1", "42", "#1F", "\"str\"", "'x'", "main", "x", "f"]) for _ in range(n))


def seeds():
    out = []
    d = os.path.join(C.REPO, "tests", "x")
    if os.path.isdir(d):
        for fn in sorted(os.listdir(d)):
            if fn.endswith(".x"):
                src = open(os.path.join(d, fn), encoding="latin1").read()
                if len(src) > 6000:
                    # long programs: whole once, then chunks of procedures
                    parts = re.split(r"(?=\n(?:proc|func) )", src)
                    head = parts[0]
                    out.append(src)
                    for i in range(1, len(parts), 12):
                        out.append(head + "".join(parts[i:i + 3]) + "\nproc main() is skip\n")
                else:
                    out.append(src)
    return out


def failing(obs):
    """is this observation a failing input of C09?"""
    if obs.startswith("fault skipped"):
        return None          # not run (the process had already hung several times in this batch): not evidence of anything
    if obs.startswith("fault"):
        return "crash/sanitizer/hang: " + obs
    if obs.startswith("diag") and obs.rstrip().endswith("image=1"):
        return "diagnostic and an emitted image: " + obs
    if not (obs.startswith("ok ") or obs.startswith("diag ")):
        return "unexpected observation: " + obs[:80]
    return None


def observe(h, sources, action="bin"):
    lines = [f"x {action} {s.encode('latin1', 'replace').hex() or '-'}" for s in sources]
    env = dict(os.environ)
    env["ASAN_OPTIONS"] = "detect_leaks=0:" + env.get("ASAN_OPTIONS", "")
    return C.drive_parallel(h, lines, workdir=True, env=env, timeout_per_case=30.0)


def shrink_text(h, src, action, max_rounds=30):
    def bad(s):
        return failing(observe(h, [s], action)[0]) is not None
    cur = src
    t0 = time.time()
    hang = "hang" in observe(h, [src], action)[0]
    for _ in range(max_rounds if not hang else 3):
        if time.time() - t0 > 90:
            break                      # the unshrunk input is a replay too; do not spend minutes on a smaller one
        toks = tokenize(cur)
        cands = []
        n = len(toks)
        step = max(1, n // 2)
        while step >= 1:
            for i in range(0, n, step):
                c = "".join(toks[:i] + toks[i + step:])
                if c != cur and len(c) < len(cur):
                    cands.append(c)
            step //= 2
        cands = list(dict.fromkeys(cands))[:300 if not hang else 12]
        if not cands:
            break
        obs = observe(h, cands, action)
        nxt = next((c for c, o in sorted(zip(cands, obs), key=lambda x: len(x[0])) if failing(o)), None)
        if nxt is None:
            break
        cur = nxt
    return cur


def model_lines(drv, sources):
    return C.drive_parallel(drv, ["lex " + (s.encode("latin1", "replace").hex() or "-") for s in sources]), \
        C.drive_parallel(drv, ["parse " + (s.encode("latin1", "replace").hex() or "-") for s in sources])


TREE_STRIP = re.compile(r" \[(?:loc|const)=[^\]]*\]")
LEX_CLASSES = {"CharConstError", "TokenError"}
PARSE_CLASSES = {"UnexpectedTokenError", "ExpectedNameError", "ParserTokenError"}


def tree_of(text):
    """indentation tree of an AstPrinter listing: nodes [label, is_const, children]"""
    root = ["", False, []]
    stack = [(-1, root)]
    for ln in text.split("\n"):
        if not ln.strip(" "):
            continue
        ind = (len(ln) - len(ln.lstrip(" "))) // 2
        const = "[const=" in ln
        node = [TREE_STRIP.sub("", ln).lstrip(" "), const, []]
        while stack and stack[-1][0] >= ind:
            stack.pop()
        stack[-1][1][2].append(node)
        stack.append((ind, node))
    return root


def same_tree(real, model):
    """real vs model node. The real printer does not descend below an annotated operator node, and
    prints calls whose name is a constant val as system calls (ConstProp ran before printing)."""
    rl, ml = real[0], model[0]
    if rl != ml:
        ok = (rl.startswith("syscall ") and ml.startswith("call ")) or (rl.startswith("syscallstmt ") and ml == "callstmt ")
        if not ok:
            return False
    if real[1] and (rl.startswith("binaryop ") or rl.startswith("unaryop ")):
        return True
    if len(real[2]) != len(model[2]):
        return False
    return all(same_tree(a, b) for a, b in zip(real[2], model[2]))


def first_diff_text(a, b):
    k = next((j for j in range(min(len(a), len(b))) if a[j] != b[j]), min(len(a), len(b)))
    return f"at char {k}: ...{a[max(0, k - 30):k + 30]}... vs ...{b[max(0, k - 30):k + 30]}..."


def diag_of(obs):
    f = obs.split(" ")
    return (f[1].split("::")[-1], f[2]) if len(f) >= 3 else ("?", "?")


def run(tier, seed, replay=None):
    rep = C.Report(PID, "other", tier, seed)
    t0 = time.time()
    have_model = os.path.exists(os.path.join(C.LEAN, "HexVerif", "Properties", "C09.lean"))
    info, problems = C.prove(PID, ["HexVerif.Properties.C09"]) if have_model else ({}, [])
    h = C.build_harness("h_xcmp", extra_srcs=["hex.cpp"])
    drv = C.driver_exe("xfrontdriver") if have_model else None
    r = C.Rng(seed)

    if replay:
        sources = [bytes.fromhex(json.load(open(replay))["source_hex"]).decode("latin1")]
        kinds = ["replay"]
    else:
        rd = os.path.join(C.ROOT, "replays")
        if os.path.isdir(rd):
            for fn in os.listdir(rd):
                if fn.startswith(PID + "-"):
                    os.unlink(os.path.join(rd, fn))
        n = 3000 if tier == "quick" else 300000
        if os.environ.get("C09_N"):
            n = int(os.environ["C09_N"])
        base = seeds()
        gen = []
        for i in range(60 if tier == "quick" else 2000):
            prog, _ = G.generate(C.Rng(r.next()), [0.5, 1.0, 1.6][i % 3])
            gen.append(G.to_source(prog))
        pool = [(s, tokenize(s)) for s in base + gen]
        sources = list(ODD) + base + gen[:20]
        kinds = ["odd"] * len(ODD) + ["seed"] * (len(base) + len(gen[:20]))
        for i in range(n):
            k = i % 10
            if k == 0:
                sources.append(random_bytes(r)); kinds.append("bytes")
            elif k == 1:
                src, toks = r.choice(pool)
                ids = sorted({t for t in toks if re.fullmatch(r"[A-Za-z][A-Za-z0-9_]*", t) and t not in G.KEYWORDS}) or ["x"]
                sources.append(soup(r, ids)); kinds.append("soup")
            else:
                src, toks = r.choice(pool)
                ids = sorted({t for t in toks if re.fullmatch(r"[A-Za-z][A-Za-z0-9_]*", t) and t not in G.KEYWORDS}) or ["x"]
                if len(toks) > 600:
                    a = r.below(len(toks) - 500)
                    toks = toks[:40] + toks[a:a + 400]
                if k >= 5:
                    sources.append(semantic_mutate(r, toks, ids)); kinds.append("semantic")
                else:
                    sources.append(mutate(r, toks, ids)); kinds.append("mutation")

    if not replay:
        # every lexical / syntactic diagnostic with the offending character first on a line, alone in the file, after blank
        # lines, in mid-line and at the very end (the echo of the source line in main's catch site depends on the layout)
        for ch in ["@", "?", "%", "$", "`", "\x80", "'ab'", "\"abc", "#", ")", "]", "then"]:
            for tmpl in ("{c}", "\n{c}", "val a = 1;\n{c} proc main() is skip\n", "proc main() is skip\n{c}", "proc main() is {c}",
                         " {c}\n", "proc main() is\n{c}\n skip", "\n\n\t{c}", "proc main() is 0(1) {c}"):
                sources.append(tmpl.replace("{c}", ch)); kinds.append("layout")

    obs = {a: observe(h, sources, a) for a in ACTIONS}
    cls = Counter()
    bad = []
    for i, s in enumerate(sources):
        o = obs["bin"][i]
        cls[kinds[i] + ":" + (" ".join(o.split(" ")[:2]) if not o.startswith("ok") else "ok")] += 1
        for a in ACTIONS:
            why = failing(obs[a][i])
            if why:
                bad.append((i, a, why))
                break

    # use of an uninitialised value is invisible to ASan/UBSan: the hand-written and seed sources are compiled again in the
    # opposite order, in processes with another allocator fill and another stack position; an observation that changes
    # depends on indeterminate memory (the C11 detector, applied to C09's own inputs)
    nprobe = 0
    if True:
        sub = [i for i, k in enumerate(kinds) if k in ("odd", "seed", "replay")]
        if replay:
            # a single source has no history: compile a literal-bearing program first, so that stale state has a value to show
            sources = ["proc main() is 0(12345)"] + sources
            kinds = ["replay-prefix"] + kinds
            obs = {a: observe(h, sources, a) for a in ACTIONS}
            sub = [0, 1]
        nprobe = len(sub)
        env2 = dict(os.environ)
        env2["ASAN_OPTIONS"] = "detect_leaks=0:malloc_fill_byte=165:max_malloc_fill_size=1048576"
        for k in range(64):
            env2[f"HEXVERIF_PAD_{k}"] = "x" * 1000
        for a in ("asm", "bin"):
            rev = list(reversed(sub))
            lines = [f"x {a} {sources[i].encode('latin1', 'replace').hex() or '-'}" for i in rev]
            again = C.drive_parallel(h, lines, workdir=True, env=env2, timeout_per_case=30.0)
            for i, o2 in zip(rev, again):
                if o2 != obs[a][i] and not failing(obs[a][i]) and not failing(o2) and not any(b[0] == i for b in bad):
                    bad.append((i, a, "observation depends on indeterminate memory (uninitialised value): " + first_diff_text(obs[a][i], o2)))

    # the EXECUTABLE (xcmp.cpp main with its catch sites, built by the repository's CMake) on the hand-written and seed
    # sources: status 0 with the binary written, or status 1 with a diagnostic and nothing written - no signal, abort or hang
    exe_n = 0
    exe_classes = Counter()
    if not any(k == "replay-prefix" for k in kinds) or True:
        import c14
        tools = c14.build_tools()
        exe = os.path.join(tools, "xcmp")
        workroot = os.path.join(C.BUILD, "work")
        os.makedirs(workroot, exist_ok=True)
        sub_exe = [i for i, k in enumerate(kinds) if k in ("odd", "seed", "replay")][:600] + [i for i, k in enumerate(kinds) if k == "layout"]

        def run_exe(i):
            d = tempfile.mkdtemp(prefix="c09x-", dir=workroot)
            try:
                with open(os.path.join(d, "p.x"), "wb") as f:
                    f.write(sources[i].encode("latin1", "replace"))
                try:
                    pr = subprocess.run([exe, "p.x", "-o", "o.bin"], cwd=d, stdin=subprocess.DEVNULL, stdout=subprocess.PIPE,
                                        stderr=subprocess.PIPE, timeout=30)
                    rc, err = pr.returncode, (pr.stderr + pr.stdout)[:600].decode("latin1")
                except subprocess.TimeoutExpired:
                    rc, err = "timeout", ""
                return rc, err, os.path.exists(os.path.join(d, "o.bin"))
            finally:
                import shutil
                shutil.rmtree(d, ignore_errors=True)

        with cf.ThreadPoolExecutor(max_workers=C.NPROC) as ex:
            res = list(ex.map(run_exe, sub_exe))
        exe_n = len(sub_exe)
        for i, (rc, err, left) in zip(sub_exe, res):
            exe_classes[str(rc) + ("+file" if left else "")] += 1
            if (rc == 0 and left) or (rc == 1 and not left and err.strip()):
                continue
            why = ("executable: hang" if rc == "timeout" else "executable: killed by signal %d" % -rc if isinstance(rc, int) and rc < 0 else
                   "executable: diagnostic with an output file left behind" if rc == 1 and left else
                   "executable: unexpected exit status %s (%s)" % (rc, err[:120].replace("\n", " ")))
            if not any(b[0] == i for b in bad):
                bad.append((i, "exe", why))

    # model tie: tokens, diagnostics of the front end, trees
    tie_bad = []
    tie_checked = 0
    trees_same = trees_skipped = 0
    pipe = Counter()
    pipe_bytes = 0
    if drv:
        lex, par = model_lines(drv, sources)
        runl = C.drive_parallel(drv, ["run " + (s.encode("latin1", "replace").hex() or "-") for s in sources], timeout_per_case=60.0)
        for i, s in enumerate(sources):
            if any(b[0] == i for b in bad):
                continue
            tie_checked += 1
            rt, rb, rtree = obs["tokens"][i], obs["bin"][i], obs["tree"][i]
            ml, mp = lex[i], par[i]
            # 1. token stream / lexical diagnostic of --tokens
            if ml.startswith("tok "):
                want = "ok out=" + ml[4:] + " bin=-"
                if rt != want:
                    tie_bad.append((i, "tokens", rt[:200], want[:200]))
                    continue
            elif ml.startswith("diag "):
                if not rt.startswith("diag") or diag_of(rt) != tuple(ml.split(" ")[1:3]):
                    tie_bad.append((i, "tokens-diag", rt[:200], ml[:200]))
                    continue
            # 2. parse outcome
            if mp.startswith("diag "):
                if not rb.startswith("diag") or diag_of(rb) != tuple(mp.split(" ")[1:3]):
                    tie_bad.append((i, "parse-diag", rb[:200], mp[:200]))
            elif mp.startswith("tree "):
                if rb.startswith("diag") and diag_of(rb)[0] in LEX_CLASSES | PARSE_CLASSES:
                    tie_bad.append((i, "parse-accept", rb[:200], mp[:80]))
                elif rtree.startswith("ok out="):
                    real_tree = bytes.fromhex(rtree.split(" ")[1][4:].replace("-", "")).decode("latin1")
                    model_tree = bytes.fromhex(mp.split(" ")[1].replace("-", "")).decode("latin1")
                    if mp.endswith("nl=1"):
                        trees_skipped += 1        # a string literal containing a line break: the listing is not line-structured
                    elif not same_tree(tree_of(real_tree), tree_of(model_tree)):
                        tie_bad.append((i, "tree", TREE_STRIP.sub("", real_tree)[:400], model_tree[:400]))
                    else:
                        trees_same += 1
            elif mp.startswith("fuel"):
                tie_bad.append((i, "model-out-of-fuel", rb[:100], mp))
            # 3. the WHOLE compiler model from the source bytes (Xcmp.runSrc, theorem C09_pipeline_partial): the file image
            #    byte for byte, or the class of the semantic diagnostic
            mr = runl[i]
            pipe[mr.split(" ")[0]] += 1
            if mr.startswith("image "):
                real_bin = next((x[4:] for x in rb.split(" ") if x.startswith("bin=")), None) if rb.startswith("ok ") else None
                if real_bin != mr[6:]:
                    tie_bad.append((i, "pipeline-image", rb[:300], mr[:300]))
                else:
                    pipe_bytes += len(real_bin) // 2
            elif mr.startswith("compile "):
                if not rb.startswith("diag") or diag_of(rb)[0] != mr.split(" ")[1].split("::")[-1]:
                    tie_bad.append((i, "pipeline-diag", rb[:200], mr[:200]))
            elif mr.startswith("anomaly"):
                tie_bad.append((i, "pipeline-anomaly", rb[:200], mr[:200]))
            elif mr.startswith("front"):
                if not (rb.startswith("diag") and diag_of(rb)[0] in LEX_CLASSES | PARSE_CLASSES):
                    tie_bad.append((i, "pipeline-front", rb[:200], mr[:200]))
            else:
                tie_bad.append((i, "pipeline-driver", rb[:200], mr[:200]))

    reported = 0
    seen_why = Counter()
    for i, a, why in bad:
        key = re.sub(r"[0-9]+", "N", why)[:70]
        seen_why[key] += 1
        if seen_why[key] > 1 or reported >= 6:
            continue
        if a == "exe":
            rep.violation(f"input{reported}", {"property": PID, "seed": seed, "action": "xcmp executable", "source_hex": sources[i].encode("latin1", "replace").hex(),
                                               "source": sources[i][:2000], "why": why, "kind": kinds[i], "rerun": "./check C09 --replay <this file>"})
            reported += 1
            continue
        small = shrink_text(h, sources[i], a)
        o = observe(h, [small], a)[0]
        rep.violation(f"input{reported}", {"property": PID, "seed": seed, "action": a, "source_hex": small.encode("latin1", "replace").hex(),
                                           "source": small[:2000], "implementation": o[:400], "why": failing(o) or why,
                                           "kind": kinds[i], "rerun": "./check C09 --replay <this file>"})
        reported += 1
    if tie_bad and not bad:
        i, what, a, b = tie_bad[0]
        rep.violation("correspondence", {"property": PID, "what": what, "source_hex": sources[i].encode("latin1", "replace").hex(),
                                         "source": sources[i][:1000], "implementation": a, "model": b, "count": len(tie_bad),
                                         "broken": "front-end model (Xcmp/Lexer.lean, Xcmp/Parser.lean) or whole compiler model "
                                                   "(Xcmp.runSrc, Properties/C09.lean) vs xcmp.hpp"}, no_input=True)
    if problems:
        rep.violation("proof", {"broken": problems}, no_input=not bad)
    if replay:
        for a in ACTIONS:
            print(a, ":", obs[a][0][:300])

    rep.coverage.update({
        "explanation": "sanitizer-instrumented real compiler on random bytes, token mutations and semantically odd programs, with the "
                       "modelled front end (lexer + parser in Lean, total and fault-free by theorem) tied to the real token streams, "
                       "diagnostic classes/locations and trees; the stages after the parser are exercised, not modelled",
        "evaluations": len(sources) * len(ACTIONS), "inputs": len(sources),
        "distinct_nontrivial": len({s for s in sources if len(s) > 3}),
        "rule": "streams: odd (hand-written semantically odd programs), seed (tests/x/*.x and generated programs), bytes (random), soup "
                "(random token sequences), mutation (token-level edits, identifier swaps, truncation); each input is compiled with "
                "the actions bin/asm/tokens/tree; non-trivial = longer than 3 bytes; distinct by content",
        "samples": [sources[len(ODD) + 3][:200] if len(sources) > len(ODD) + 3 else sources[0], sources[-1][:300], sources[-2][:300]],
        "outcome_classes": dict(cls.most_common(60)), "failing_inputs": len(bad), "failure_classes": dict(seen_why),
        "uninitialised_value_probe_sources": nprobe, "executable_runs": exe_n, "executable_outcomes": dict(exe_classes), "model_tie_checked": tie_checked, "model_vs_impl_mismatches": len(tie_bad),
        "tie_mismatch_kinds": dict(Counter(t[1] for t in tie_bad)), "trees_identical": trees_same, "trees_skipped": trees_skipped,
        "pipeline_model_outcomes": dict(pipe), "pipeline_image_bytes_identical": pipe_bytes,
        "traces_validated_against_impl": tie_checked - len(tie_bad), "lean": info, "wall_run_s": round(time.time() - t0, 1),
    })
    rep.assumptions += ["ASan/UBSan/_GLIBCXX_ASSERTIONS are the detector of undefined behaviour in the real code",
                        "isspace/isalpha/isalnum/isdigit on negative char values: glibc table lookup (not flagged)",
                        "inputs up to a few kilobytes"]
    return rep.finish()
