"""C15: trace and debug symbols report what is actually executing.
Proof: Properties/C15.lean — (a) symbol table = FUNC/PROC labels with the offset of their first
       instruction, ascending; (b) lookupSymbol soundness/completeness; (c) each -t line reports the
       count, address, mnemonic and operand of the instruction C02_step executes.  (d) call-sequence
       equality depends on C01 and is NOT proved (differential only, with the C01 programs).
Tie:   real hexasm debug section judged by the ISA walk (check15); real hexsim -t leading columns vs
       the model's trace lines on programs with symbol tables."""
import json
import re
from collections import Counter

import common as C
import asm_common as A
import gen_asm as G
import gen_isa as GI

PID = "C15"
MN = {"LDAM", "LDBM", "STAM", "LDAC", "LDBC", "LDAP", "LDAI", "LDBI", "STAI", "BR", "BRZ", "BRN", "OPR", "PFIX", "NFIX", "UNKNOWN"}


def parse_trace(stdout_hex):
    if stdout_hex == "-":
        return []
    txt = bytes.fromhex(stdout_hex).decode("latin1")
    out = []
    for line in txt.split("\n"):
        t = line.split()
        if len(t) < 4 or not t[0].isdigit() or not t[1].isdigit():
            continue
        if t[2] in MN:
            out.append(f"{t[0]},{t[1]},-,{t[2]},{t[3]}")
        elif len(t) >= 5 and t[3] in MN:
            out.append(f"{t[0]},{t[1]},{t[2]},{t[3]},{t[4]}")
    return out


def run(tier, seed, replay=None):
    rep = C.Report(PID, "proof", tier, seed)
    info, problems = C.prove(PID, ["HexVerif.Properties.C15"])
    h, drv = A.tools()
    hs = C.build_harness("h_sim", extra_srcs=["hex.cpp"])
    sdrv = C.driver_exe("simdriver")
    r = C.Rng(seed)
    # (1) symbol tables of assembled programs
    nsym = 400 if tier == "quick" else 20000
    sources = G.shipped_sources()
    for _ in range(nsym):
        lines = G.random_program(r)
        # make sure there are procedures
        k = r.below(4) if not r.chance(1, 25) else r.choice([255, 256, 257, 320])   # also symbol tables beyond 8-bit indices
        for i in range(k):
            pos = r.below(len(lines) + 1)
            # names of every length: the trace label is "<name>+<offset>" whatever its width
            name = r.choice([f"p{i}", f"p{i}", f"procedure_with_a_long_name_{i}", f"q{i}" + "x" * r.below(48), f"f{i}_" + "ab" * r.below(9)])
            lines.insert(pos, r.choice(["FUNC", "PROC"]) + " " + name)
        sources.append(G.render(r, lines))
    recs = A.assemble_all(h, drv, sources)
    chk_in, idx = [], []
    for i, rec in enumerate(recs):
        if rec["real"].startswith("ok "):
            chk_in.append(f"check15 {A.hx(rec['src'])} {rec['real'].split(' ')[1]}")
            idx.append(i)
    chk = C.drive_parallel(drv, chk_in, timeout_per_case=30.0)
    sym_bad, nsyms = [], Counter()
    for i, c in zip(idx, chk):
        m = re.match(r"chk symbols=(\w+) n=(\d+)", c)
        if not m or m.group(1) != "true":
            sym_bad.append((recs[i], c))
        else:
            nsyms[min(int(m.group(2)), 5)] += 1
    mism = [rec for rec in recs if rec["real"] != rec["model"]]
    # (2) trace lines
    ntr = 150 if tier == "quick" else 5000
    tl = [GI.run_case(C.Rng(r.next()), tracing=1, max_cycles=0, trunc="1", stdout_writes=False, debug=(i % 4 != 0))
          for i in range(ntr)]
    # images larger than 200000 BYTES (memory has 200000 words = 800000 bytes): procedures that start beyond byte 200000
    for target in (200004, 262148, 400000 + 4 * r.below(1000)):
        hop = GI.enc(0x9, target - 4)            # BR, padded to a fixed 8 bytes by leading PFIX 0 (0xE0 keeps oreg at 0)
        hop = [0xE0] * (8 - len(hop)) + hop
        hop = GI.enc(0x9, target - 8) if len(GI.enc(0x9, target - 8)) == 8 else [0xE0] * (8 - len(GI.enc(0x9, target - 8))) + GI.enc(0x9, target - 8)
        # set the stack pointer word, run a few instructions inside the high procedure, then exit(0)
        tail = GI.enc(0x3, 150000) + [0x21, 0x30, 0x41, 0xD1, 0x11, 0x30, 0x82, 0x30, 0xD3]
        code = hop + [0x30] * (target - 8) + tail
        while len(code) % 4:
            code.append(0)
        # word 1 is read by LDBM 1 as the stack pointer: bytes 4..7 are part of the hop (non-zero garbage would be an address) -
        # keep the exit simple instead: LDAC 0; SVC with sp = mem[1] in range only matters for the exit VALUE, not for the trace
        dbg = [("main", 0), ("low_proc", 8), ("high_proc_beyond_200000_bytes", target), ("after", target + 4)]
        f = GI.image_file(code, dbg)
        tl.append(f"run 0 1 1 400 0 {''.join(format(x, '02x') for x in f)} - -")
    treal = C.drive_parallel(hs, tl, workdir=True)
    tmodel = C.drive_parallel(sdrv, tl)
    tr_bad, nlines = [], 0
    for l, a, b in zip(tl, treal, tmodel):
        fa = a.split(" ")
        if fa[0] not in ("ret", "fuel"):
            continue
        got = parse_trace(fa[8])
        m = re.search(r" T=(.*)$", b)
        want = m.group(1).split(";") if m and m.group(1) else []
        nlines += len(got)
        if got != want:
            k = next((j for j in range(min(len(got), len(want))) if got[j] != want[j]), min(len(got), len(want)))
            tr_bad.append({"input": l, "first_diff_line": k, "impl": got[k:k + 2], "model": want[k:k + 2]})
    # (d) trace entries vs the call sequence of the source (differential only; not proved)
    import c15d
    cs = c15d.call_sequence_check(tier, seed, C.Rng(seed * 31 + 7))
    rep.coverage.update({
        "obligations": info.get("obligations", 0), "discharged": info.get("discharged", 0),
        "checker_cmd": "cd lean && lake build HexVerif.Properties.C15 && #print axioms",
        "trusted_base": ["Lean 4.33.0 kernel", "axioms: " + json.dumps(info.get("axioms", {})),
                         "trace text parsed by column (runner/c15.py parse_trace)",
                         "clause (d) (entries = call sequence) NOT proved: depends on C01",
                         "modelled not verified: hexasm.hpp / hexsim.hpp C++ text"],
        "evaluations": len(sources) + len(tl), "distinct_nontrivial": sum(v for k, v in nsyms.items() if k > 0) + len(tl),
        "rule": "(1) shipped + generated assembly programs with FUNC/PROC labels: real debug section vs ISA walk of the real "
                "image; (2) structured ISA programs with symbol tables run under -t: every trace line's leading columns vs "
                "model; non-trivial = program with at least one symbol / traced program",
        "samples": [sources[6].decode("latin1")[:200], tl[0][:200]],
        "symbols_per_program_histogram": {str(k): v for k, v in sorted(nsyms.items())},
        "trace_lines_compared": nlines, "symbol_table_failures": len(sym_bad), "trace_mismatches": len(tr_bad),
        "model_vs_impl_mismatches": len(mism),
        "call_sequence_check": {k: v for k, v in cs.items() if k not in ("mismatches", "symbol_table_mismatches")},
    })
    if cs.get("mismatches"):
        rep.violation("calls", dict(cs["mismatches"][0], seed=seed, clause="(d) trace entries = call sequence"))
    if cs.get("symbol_table_mismatches"):
        rep.violation("xsymbols", dict(cs["symbol_table_mismatches"][0], count=len(cs["symbol_table_mismatches"]),
                                       clause="(a) the table of an xcmp binary lists every procedure of the source once"))
    if sym_bad:
        rec, c = sym_bad[0]
        rep.violation("symbols", {"source_hex": rec["src"].hex(), "source": rec["src"].decode("latin1"), "oracle": c,
                                  "implementation": rec["real"][:600], "seed": seed})
    elif tr_bad:
        rep.violation("trace", dict(tr_bad[0], seed=seed, note="model trace lines are proved to describe the executed instruction (C15_line)"))
    elif mism:
        rec = mism[0]
        rep.violation("correspondence", {"source_hex": rec["src"].hex(), "implementation": rec["real"][:600], "model": rec["model"][:600],
                                         "broken": "Asm model vs hexasm.hpp"}, no_input=True)
    if problems:
        rep.violation("proof", {"broken": problems}, no_input=not (sym_bad or tr_bad))
    return rep.finish()
