"""C11: compilation and assembly are deterministic functions of the source.

Every source is compiled (xcmp: binary, -S listing, lowered / optimised instruction listings, tree;
hexasm: file bytes and listing) under a matrix of process states:
  * heap contents: glibc malloc with MALLOC_PERTURB_ unset / 0x55 / 0xAA / 0xFF (non-sanitizer build),
    and the ASan allocator with malloc_fill_byte 0x00 / 0xA5 (sanitizer build);
  * environment size: padded with 0 / 4 KiB / 64 KiB of junk variables (moves the stack);
  * address-space layout: a fresh process per configuration, ASLR on;
  * history: as the k-th compilation of a process, after different other sources in different orders
    (ascending, descending, shuffled), and as the very first compilation of a fresh process.
All observations of one (source, action) must be byte-identical; a difference is a failing input of
C11, reported with the two configurations.  Diagnostics must agree in class and location too.

Lean side: Properties/C11.lean - the front-end models read the members the C++ constructors leave
uninitialised (`Lexer::value`) only after writing them: results are independent of an explicit junk
initial value; and the models thread no state from one compilation to the next.
"""
import json
import os
import time
from collections import Counter

import common as C
import gen_x as G
import gen_asm as GA
import c09

PID = "C11"
X_ACTIONS = ["bin", "asm", "lowered", "optimised", "tree"]


def x_lines(sources):
    return [(i, a, f"x {a} {s.encode('latin1', 'replace').hex() or '-'}") for i, s in enumerate(sources) for a in X_ACTIONS]


def asm_lines(sources):
    return [(i, "asm", "asm " + (s.hex() or "-")) for i, s in enumerate(sources)]


def run_config(exe, jobs, order, env_extra, pad, rng_seed):
    """one fresh process: the jobs in the given order; returns {(i, action): observation}"""
    env = dict(os.environ)
    env.pop("MALLOC_PERTURB_", None)
    env.update(env_extra)
    if "ASAN_OPTIONS" in env_extra or "fsanitize" in exe:
        env["ASAN_OPTIONS"] = "detect_leaks=0:" + env_extra.get("ASAN_OPTIONS", "")
    for k in range(pad // 1024):
        env[f"HEXVERIF_PAD_{k}"] = "x" * 1000
    js = list(jobs)
    if order == "desc":
        js.reverse()
    elif order == "shuffle":
        C.Rng(rng_seed).shuffle(js)
    out = C.drive(exe, [j[2] for j in js], workdir=True, env=env, timeout_per_case=30.0)
    return {(j[0], j[1]): o for j, o in zip(js, out)}


def canon(o):
    # cycles / timings never appear in these observations; keep everything
    return o


def check_tool(name, exe_plain, exe_san, jobs, nsrc, seed, singles):
    configs = [
        ("plain asc", exe_plain, "asc", {}, 0),
        ("plain desc", exe_plain, "desc", {}, 0),
        ("plain shuffle perturb=0x55", exe_plain, "shuffle", {"MALLOC_PERTURB_": "85"}, 0),
        ("plain asc perturb=0xAA env+4k", exe_plain, "asc", {"MALLOC_PERTURB_": "170"}, 4096),
        ("plain desc perturb=0xFF env+64k", exe_plain, "desc", {"MALLOC_PERTURB_": "255"}, 65536),
        ("asan shuffle fill=0x00", exe_san, "shuffle", {"ASAN_OPTIONS": "malloc_fill_byte=0:max_malloc_fill_size=1048576"}, 0),
        ("asan asc fill=0xA5 env+4k", exe_san, "asc", {"ASAN_OPTIONS": "malloc_fill_byte=165:max_malloc_fill_size=1048576"}, 4096),
    ]
    results = []
    for k, (label, exe, order, env, pad) in enumerate(configs):
        results.append((label, run_config(exe, jobs, order, env, pad, seed * 100 + k)))
    # every source alone as the first compilation of a fresh process (subset)
    for i in singles:
        mine = [j for j in jobs if j[0] == i]
        results.append((f"plain fresh process source {i} perturb=0x5A", run_config(exe_plain, mine, "asc", {"MALLOC_PERTURB_": "90"}, 0, 0)))
    base_label, base = results[0]
    diffs = []
    classes = Counter()
    for key, o in base.items():
        classes[name + ":" + (" ".join(o.split(" ")[:2]) if not o.startswith("ok") else "ok")] += 1
        for label, res in results[1:]:
            if key in res and canon(res[key]) != canon(o):
                diffs.append((key, base_label, o, label, res[key]))
    nobs = sum(len(r) for _, r in results)
    return diffs, classes, nobs, [c[0] for c in configs]


def run(tier, seed, replay=None):
    rep = C.Report(PID, "other", tier, seed)
    t0 = time.time()
    have_lean = os.path.exists(os.path.join(C.LEAN, "HexVerif", "Properties", "C11.lean"))
    info, problems = C.prove(PID, ["HexVerif.Properties.C11"]) if have_lean else ({}, [])
    hx_san = C.build_harness("h_xcmp", extra_srcs=["hex.cpp"])
    plain_flags = ["-std=c++17", "-O1", "-g", "-DHEX_VERIF", "-Wno-deprecated-declarations", "-pthread"]
    hx_plain = C.build_harness("h_xcmp_plain", extra_srcs=["hex.cpp"], flags=plain_flags)
    ha_san = C.build_harness("h_asm", extra_srcs=["hex.cpp"], flags=C.SAN_FLAGS + ["-DNDEBUG"])
    ha_plain = C.build_harness("h_asm_plain", extra_srcs=["hex.cpp"], flags=plain_flags + ["-DNDEBUG"])
    r = C.Rng(seed)

    if replay:
        case = json.load(open(replay))
        if case["tool"] == "xcmp":
            xs, asms = [bytes.fromhex(case["source_hex"]).decode("latin1")] + [bytes.fromhex(h).decode("latin1") for h in case.get("others_hex", [])], []
        else:
            xs, asms = [], [bytes.fromhex(case["source_hex"])] + [bytes.fromhex(h) for h in case.get("others_hex", [])]
    else:
        rd = os.path.join(C.ROOT, "replays")
        if os.path.isdir(rd):
            for fn in os.listdir(rd):
                if fn.startswith(PID + "-"):
                    os.unlink(os.path.join(rd, fn))
        nx = 150 if tier == "quick" else 6000
        na = 150 if tier == "quick" else 6000
        xs = [s for s in c09.seeds() if len(s) < 20000] + [
            "var g; val v = g; proc main() is 0(v)", "val a = b; val b = 1; proc main() is 0(a)",
            "val t = 0; proc p() is val t = t + 2; 1(t, 0) proc main() is p()", "proc main() is 0(\"\")", "proc main() is skip",
            "proc p() is skip proc p() is skip proc main() is p()", "proc main() is 0(x)",
            # accepted by xcmp although meaningless in X: every symbol kind as an assignment target / operand
            "proc main() is val v = 3; { v := 4; 0(v) }", "val g = 1; proc main() is { g := 2; 0(g) }",
            "proc f(val x) is x := 1 proc main() is f(2)", "proc main() is val v = 1; var w; { w := 2; v := w; w := v; 0(w) }",
            "proc p() is val a = 1; val b = 2; var c; { a := b; b := a; c := a + b; 0(c) } proc main() is p()",
            "func f(val n) is val k = 5; { k := n; return k } proc main() is 0(f(3))",
            "array a[3]; proc main() is val i = 1; { i := 2; a[i] := 7; 0(a[i]) }",
            "proc main() is var x; val y = 2; { x := y; y := x; 0(y) }",
            # literals that do not fit in 32 bits / have no digits (the lexers' conversion must not leave `value` stale)
            "val big = 4294967298; proc main() is 0(big)", "proc main() is 0(99999999999999999999)", "val h = #; proc main() is 0(h)",
            "val a = 7; val b = 4294967296; proc main() is 0(a + b)", "proc main() is 1(#FFFFFFFFFF, 0)"]
        pool = [(s, c09.tokenize(s)) for s in xs[:12]]
        for i in range(nx):
            k = i % 5
            if k < 3:
                prog, _ = G.generate(C.Rng(r.next()), [0.5, 1.0, 1.6][i % 3])
                xs.append(G.to_source(prog))
            else:
                src, toks = r.choice(pool)
                ids = sorted({t for t in toks if c09.IDENT.fullmatch(t) and t not in G.KEYWORDS}) or ["x"]
                xs.append(c09.semantic_mutate(r, toks, ids) if k == 3 else c09.mutate(r, toks, ids))
        asms = GA.shipped_sources() + [b"DATA 99999999999\n", b"DATA 7\nDATA 4294967296\n", b"LDAC 18446744073709551616\n", b"BR x\nDATA 9\nx\nLDAC 99999999999999999999999\n"]
        for i in range(na):
            if i % 4 == 3:
                asms.append(GA.malformed(r, asms[:4]))
            else:
                asms.append(GA.render(r, GA.random_program(r, allow_bad=(i % 4 == 2))))

    xdiffs, xcls, xobs, cfgs = check_tool("xcmp", hx_plain, hx_san, x_lines(xs), len(xs), seed,
                                          list(range(0, len(xs), max(1, len(xs) // 12)))) if xs else ([], Counter(), 0, [])
    adiffs, acls, aobs, _ = check_tool("hexasm", ha_plain, ha_san, asm_lines(asms), len(asms), seed,
                                       list(range(0, len(asms), max(1, len(asms) // 12)))) if asms else ([], Counter(), 0, [])

    nrep = 0
    seen = set()
    for tool, diffs, srcs in (("xcmp", xdiffs, xs), ("hexasm", adiffs, asms)):
        for (i, action), la, oa, lb, ob in diffs:
            if (tool, i) in seen or nrep >= 6:
                continue
            seen.add((tool, i))
            src = srcs[i]
            shex = src.encode("latin1", "replace").hex() if isinstance(src, str) else src.hex()
            rep.violation(f"{tool}{nrep}", {"property": PID, "seed": seed, "tool": tool, "action": action, "source_hex": shex,
                                            "source": (src if isinstance(src, str) else src.decode("latin1"))[:1500],
                                            "configuration_a": la, "observation_a": oa[:600],
                                            "configuration_b": lb, "observation_b": ob[:600],
                                            "rerun": "./check C11 --replay <this file>"})
            nrep += 1
    if problems:
        rep.violation("proof", {"broken": problems}, no_input=not (xdiffs or adiffs))
    model_corr = C.compiler_model_tie(rep, PID, tier, seed + 2000, bool(xdiffs or adiffs)) if have_lean and not replay else {}
    if replay:
        print("xcmp differences:", xdiffs[:3]); print("hexasm differences:", adiffs[:3])

    cls = Counter(); cls.update(xcls); cls.update(acls)
    rep.coverage.update({
        "explanation": "perturbation matrix on the real compiler and assembler (heap fill, environment size, ASLR, position in the "
                       "process, order) with byte-identical outputs required, plus Lean theorems that the modelled front ends do not "
                       "depend on the uninitialised lexer member and carry no state between compilations",
        "evaluations": xobs + aobs, "sources_xcmp": len(xs), "sources_hexasm": len(asms), "configurations": cfgs + ["fresh process per source (subset)"],
        "distinct_nontrivial": len({s for s in xs if len(s) > 3}) + len({s for s in asms if len(s) > 3}),
        "rule": "xcmp: tests/x/*.x, D13-style sources, generated programs and their mutations x actions bin/asm/lowered/optimised/tree; "
                "hexasm: tests/asm/*.S, generated and malformed programs; each (source, action) observed in every configuration; "
                "non-trivial = source longer than 3 bytes; distinct by content",
        "samples": [xs[-1][:300] if xs else "", (asms[-1][:200].decode("latin1") if asms else "")],
        "outcome_classes": dict(cls.most_common(40)), "differences_xcmp": len(xdiffs), "differences_hexasm": len(adiffs),
        "traces_validated_against_impl": xobs + aobs - len(xdiffs) - len(adiffs), "lean": info,
        "compiler_model_correspondence": model_corr,
    })
    rep.assumptions += ["uninitialised reads are exhibited by perturbation, not detected directly (no MSan-instrumented libstdc++)",
                        "MALLOC_PERTURB_ acts on the non-sanitizer build; the ASan build is perturbed with malloc_fill_byte"]
    return rep.finish()
