#!/bin/bash
# Builds /repo's current working tree with the HEX_VERIF guard OFF in a scratch directory,
# runs the pinned unit-test suite (the 129 Boost tests of tests/unit), prints a summary,
# removes the scratch directory.  Exit 0 iff every test case passed.
set -u
SRC=${1:-/repo}
D=$(mktemp -d /var/tmp/hexbase.XXXXXX)
trap 'rm -rf "$D"' EXIT
cmake -G Ninja -S "$SRC" -B "$D" -DCMAKE_BUILD_TYPE=RelWithDebInfo -DUSE_VERILATOR=${USE_VERILATOR:-NO} -DCMAKE_CXX_FLAGS=-Wno-error >"$D/cfg.log" 2>&1 || { tail -20 "$D/cfg.log"; exit 2; }
cmake --build "$D" -j16 >"$D/build.log" 2>&1 || { grep -E "error|Error" "$D/build.log" | head -20; exit 2; }
cd "$D/tests/unit" && ./UnitTests --log_level=test_suite >"$D/ut.log" 2>&1
rc=$?
pass=$(grep -c 'Leaving test case' "$D/ut.log")
fail=$(grep -c 'error: in "' "$D/ut.log")
echo "UnitTests exit=$rc test_cases=$pass failing_assertions=$fail"
grep 'error: in "' "$D/ut.log" | head -10
tail -3 "$D/ut.log"
exit $rc
