"""C05: every label reference assembles to the address of its label (see asm_layout.py)."""
import asm_layout


def run(tier, seed, replay=None):
    return asm_layout.run_pid("C05", tier, seed, replay)
