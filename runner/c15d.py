"""C15 clause (d): the sequence of procedure entries in a `hexsim -t` trace equals the call sequence
of the source program.

For generated X programs (runner/gen_x.py) x inputs on which the reference semantics `X.run` is
defined: the REAL xcmp compiles the source to the file xcmp -o writes (image + debug symbols), the
REAL hexsim executes it with tracing on (harness/h_sim.cpp `run` with tracing=1), and the names of the
trace lines whose symbol column is `name+0` are compared, in order, with the call log of `X.run`
(every procedure or function instance entered, `main` first).  The order of the log is demanded only
where X fixes it: statements, `and`/`or`, and a callee inside an actual before the call it feeds.  Calls
made while evaluating the operands of one diadic operator, the actuals of one list, or subscript and
value of `a[i] := e` may come in any order of those positions (X leaves it open, and for pure callees
the C01 oracle keeps such programs defined): `X.run` emits the log with grouping marks (`ctree=` of
xsemdriver, `X.mark`), and the trace must be one of the linearisations the marks allow.

Decisions (all checked against xcmp.hpp as it stands, not assumed):
  * `main` IS part of both sequences (the start stub reaches it with `BR main`, first `+0` line).
  * The start/exit stub lies before the first procedure: hexsim prints no symbol for it, so it never
    contributes an entry.  System calls are `OPR SVC` inside a procedure: no entry either.
  * Recursion: every instance is a `BR name` to the PROC/FUNC label, hence one `+0` line each; xcmp has
    no tail-call optimisation.
  * Could a `+0` line be something other than an entry?  The PROC/FUNC label precedes the prologue
    (`LDBM 1; STAI 0; ...`), every loop label of the body is generated after it, and `LDBM 1` is a
    single byte, so in xcmp output offset 0 of a procedure is executed exactly once per entry.  The
    checker nevertheless does not rely on this: if the two sequences differ it also reports the list
    with immediately repeated `+0` lines of one procedure collapsed, so that a loop at offset 0 (which
    would be a finding about clause (d) itself) is told apart from a wrong call sequence.
  * The program's own output shares the stream with the trace.  A trace line is only accepted if it
    starts at a line start and its cycle column continues the count (previous + 1); a byte written by
    `put` is always followed by hexsim's own "write .. to simout(..)" text on the same line, so it
    cannot hide a trace line.
"""
import json

import common as C
import c01
import gen_x as G

SEM_FUEL = 4000          # keep traces small: reference runs of at most 4000 evaluation steps
SIM_FUEL = 120000        # cycle watchdog of the traced run


def entries_of(stdout_hex):
    """(names of `name+0` trace lines in order, number of trace lines)"""
    if stdout_hex == "-":
        return [], 0
    txt = bytes.fromhex(stdout_hex).decode("latin1")
    names, n, last = [], 0, None
    for line in txt.split("\n"):
        t = line.split()
        if len(t) < 4 or not t[0].isdigit() or not t[1].isdigit():
            continue
        cyc = int(t[0])
        if last is not None and cyc != last + 1:
            continue                      # not a trace line (program output that looks like one)
        if last is None and cyc != 0:
            continue
        last = cyc
        n += 1
        sym = t[2]
        if sym.endswith("+0") and len(sym) > 2:
            names.append(sym[:-2])
    return names, n


def parse_tree(tokens):
    """structured call log of X.run -> nested sequence: an item is a name or ('g', [branch, ...]) where
    each branch is a sequence.  "(" opens a group of positions whose evaluation order X leaves open
    (operands of a diadic operator other than and/or, an actual list, subscript and value of
    `a[i] := e`), "|" separates the positions, ")" closes it."""
    def seq(i):
        items = []
        while i < len(tokens) and tokens[i] not in ("|", ")"):
            if tokens[i] == "(":
                branches = []
                i += 1
                while True:
                    b, i = seq(i)
                    branches.append(b)
                    if i >= len(tokens):
                        break
                    if tokens[i] == "|":
                        i += 1
                        continue
                    i += 1          # ")"
                    break
                items.append(("g", branches))
            else:
                items.append(tokens[i])
                i += 1
        return items, i
    return seq(0)[0]


def count_names(items):
    return sum(1 if isinstance(x, str) else sum(count_names(b) for b in x[1]) for x in items)


def ends(items, flat, starts):
    """positions of `flat` reachable after matching the sequence `items` from any position in `starts`:
    names in order, the branches of a group in any order (each branch contiguous)."""
    import itertools
    cur = set(starts)
    for it in items:
        if not cur:
            return cur
        if isinstance(it, str):
            cur = {p + 1 for p in cur if p < len(flat) and flat[p] == it}
        else:
            br = [b for b in it[1] if count_names(b) > 0]
            if len(br) <= 1:
                cur = ends(br[0], flat, cur) if br else cur
            else:
                res = set()
                for perm in itertools.permutations(br[:6]):
                    c = cur
                    for b in perm:
                        c = ends(b, flat, c)
                        if not c:
                            break
                    res |= c
                cur = res
    return cur


def open_groups(items):
    """number of groups in which two or more positions contain calls"""
    n = 0
    for it in items:
        if not isinstance(it, str):
            if len([b for b in it[1] if count_names(b) > 0]) > 1:
                n += 1
            n += sum(open_groups(b) for b in it[1])
    return n


def collapse(names):
    out = []
    for x in names:
        if not out or out[-1] != x:
            out.append(x)
    return out


def symbols_of_file(filehex):
    """[(name, byte offset)] of the debug section of a binary file (length word, image, string table, symbol table)"""
    b = bytes.fromhex(filehex)
    if len(b) < 4:
        return None
    n = int.from_bytes(b[0:4], "little") * 4
    d = b[4 + n:]
    if len(d) < 4:
        return []
    ns = int.from_bytes(d[0:4], "little")
    pos = 4
    names = []
    for _ in range(ns):
        e = d.find(b"\0", pos)
        if e < 0:
            return None
        names.append(d[pos:e].decode("latin1"))
        pos = e + 1
    if pos + 4 > len(d):
        return None
    nsym = int.from_bytes(d[pos:pos + 4], "little")
    pos += 4
    out = []
    for _ in range(nsym):
        if pos + 8 > len(d):
            return None
        si = int.from_bytes(d[pos:pos + 4], "little")
        off = int.from_bytes(d[pos + 4:pos + 8], "little")
        pos += 8
        if si >= len(names):
            return None
        out.append((names[si], off))
    return out


def call_sequence_check(tier, seed, rng):
    hx = C.build_harness("h_xcmp", extra_srcs=["hex.cpp"])
    hs = C.build_harness("h_sim", extra_srcs=["hex.cpp"])
    drv = C.driver_exe("xsemdriver")
    nprog = 220 if tier == "quick" else 6000
    cases = []
    for i in range(nprog):
        prog, _ = G.generate(C.Rng(rng.next()), [0.5, 0.5, 1.0][i % 3])
        for _ in range(2):
            data, files = G.gen_input(rng)
            cases.append((prog, data, files))
    sexps = [G.to_sexp(p) for p, _, _ in cases]
    refs = c01.sem_drive(drv, [f"{SEM_FUEL}|{d.hex() or '-'}|{f}|{sx}" for sx, (_, d, f) in zip(sexps, cases)])
    idx = [i for i, r in enumerate(refs) if r.startswith("ok ")]
    # compile each distinct program once
    srcs = {}
    for i in idx:
        srcs.setdefault(sexps[i], G.to_source(cases[i][0]))
    keys = list(srcs)
    comp = C.drive_parallel(hx, [f"x bin {srcs[k].encode('latin1').hex()}" for k in keys], workdir=True)
    binhex = {}
    for k, o in zip(keys, comp):
        f = o.split(" ")
        if f[0] == "ok" and len(f) >= 3 and f[2].startswith("bin=") and f[2] != "bin=-":
            binhex[k] = f[2][4:]
    # clause (a) on compiler output: the table of the file lists EVERY procedure and function of the source once
    # (called or not), in ascending offsets
    table_checked = 0
    table_bad = []
    first_case = {}
    for i in idx:
        first_case.setdefault(sexps[i], i)
    for k, hx_ in binhex.items():
        prog = cases[first_case[k]][0]
        want_names = sorted(p["name"] for p in prog["procs"])
        tab = symbols_of_file(hx_)
        table_checked += 1
        offs = [o for _, o in tab] if tab is not None else []
        if tab is None or sorted(n for n, _ in tab) != want_names or offs != sorted(offs):
            table_bad.append({"property": "C15", "clause": "a", "seed": seed, "source": srcs[k][:3000], "program": prog,
                              "procedures_of_the_source": want_names, "symbol_table_of_the_file": tab,
                              "note": "the symbol table written into the binary must list every procedure and function once"})
    todo = [i for i in idx if sexps[i] in binhex]
    lines = [f"run 0 1 1 {SIM_FUEL} 00 {binhex[sexps[i]]} {cases[i][1].hex() or '-'} {cases[i][2]}" for i in todo]
    sims = C.drive_parallel(hs, lines, workdir=True, timeout_per_case=60.0)
    checked = entries = tracelines = recursive = order_open_cases = reordered = 0
    mismatches = []
    skipped = 0
    for i, o in zip(todo, sims):
        f = o.split(" ")
        if f[0] != "ret" or len(f) < 9:
            skipped += 1               # watchdog or fault: C01/C02 territory, not a call-sequence verdict
            continue
        ref = refs[i]
        fields = dict(x.split("=", 1) for x in ref.split(" ")[1:] if "=" in x)
        want = [x for x in fields.get("calls", "").split(",") if x]
        if fields.get("tracecheck", "ok") != "ok":
            mismatches.append({"kind": "instrumented reference semantics (X/SemTrace.lean) disagrees with X/Sem.lean",
                               "source": G.to_source(cases[i][0]), "reference": ref})
            continue
        tree = parse_tree([x for x in fields.get("ctree", "").split(",") if x])
        got, n = entries_of(f[8])
        checked += 1
        entries += len(got)
        tracelines += n
        if len(set(want)) < len(want):
            recursive += 1
        og = open_groups(tree)
        order_open_cases += 1 if og else 0
        same = len(got) in ends(tree, got, {0}) and len(got) == len(want)
        if same and got != want:
            reordered += 1
        if not same:
            prog, data, files = cases[i]
            mismatches.append({"property": "C15", "clause": "d", "seed": seed, "source": G.to_source(prog), "program": prog,
                               "stdin_hex": data.hex(), "files": files, "reference_calls": want, "trace_entries": got,
                               "collapsed_equal": collapse(got) == collapse(want), "same_multiset": sorted(got) == sorted(want),
                               "call_tree": fields.get("ctree", ""),
                               "note": "`+0` lines of the real hexsim -t trace vs the call log of X.run"})
    return {"programs": nprog, "cases_defined": len(idx), "compiled": len(binhex), "checked": checked, "skipped_runs": skipped,
            "procedure_entries_compared": entries, "cases_with_order_open_calls": order_open_cases,
            "cases_where_real_order_differs_from_left_to_right": reordered, "trace_lines": tracelines, "cases_with_repeated_callee": recursive,
            "mismatches": mismatches, "symbol_tables_checked": table_checked, "symbol_table_mismatches": table_bad,
            "sample": {"source": G.to_source(cases[todo[0]][0])[:1500], "calls": refs[todo[0]].split("calls=", 1)[-1][:300]} if todo else {}}


if __name__ == "__main__":
    import sys
    seed = int(sys.argv[1]) if len(sys.argv) > 1 else 1
    res = call_sequence_check(sys.argv[2] if len(sys.argv) > 2 else "quick", seed, C.Rng(seed))
    mm = res.pop("mismatches")
    print(json.dumps(res, indent=1)[:3000])
    print("mismatches:", len(mm))
    for m in mm[:3]:
        print(m["source"]); print(m["reference_calls"]); print(m["trace_entries"])
