#!/bin/bash
# usage: seedtest.sh <patch.diff> <check ids...>   — applies a seeded change to /repo, runs checks, reverts.
set -u
PATCH=$1; shift
cd /repo || exit 2
if ! git diff --quiet; then echo "repo dirty"; exit 2; fi
git apply "$PATCH" || { echo "patch does not apply"; exit 2; }
for id in "$@"; do
  out=$(cd /verif && timeout 3000 ./check $id ${SEEDTIER:+--tier $SEEDTIER} 2>/dev/null | grep -E "VIOLATION|^OK|KNOWN" | head -3 | tr '\n' ' ')
  echo "$id: $out"
done
git checkout -- . 
(cd /verif && python3 -c "import sys; sys.path.insert(0,'runner'); import rtl_common as R; R.regenerate()" >/dev/null 2>&1)
(cd /verif && git checkout -- evidence/ 2>/dev/null)   # evidence written while the seeded change was applied is not evidence
git status --short | grep -v _build
