"""C02: hexsim executes every instruction exactly as the Hex ISA defines.
Proof: Properties/C02.lean (Sim model = ISA spec, for all bytes, states and run lengths).
Tie:   real hexsim::Processor (harness/h_sim.cpp, through the HEX_VERIF friend hook) vs the Lean
       model (Drivers/SimDriver.lean) on planted single steps and whole runs; the ISA spec itself
       is evaluated as the oracle on every case."""
import json
import os
import sys
from collections import Counter

import common as C
import gen_isa as G

PID = "C02"


def classify_step(line):
    f = line.split(" ")
    return f


def run(tier, seed, replay=None):
    rep = C.Report(PID, "proof", tier, seed)
    info, problems = C.prove(PID, ["HexVerif.Properties.C02"])
    h = C.build_harness("h_sim", extra_srcs=["hex.cpp"])
    drv = C.driver_exe("simdriver")

    if replay:
        case = json.load(open(replay))
        lines = [case["input"]]
    else:
        r = C.Rng(seed)
        per_byte = 40 if tier == "quick" else 1500
        nruns = 300 if tier == "quick" else 6000
        lines = []
        # corpus first
        cdir = os.path.join(C.ROOT, "corpus", "C02")
        if os.path.isdir(cdir):
            for fn in sorted(os.listdir(cdir)):
                lines += [l.strip() for l in open(os.path.join(cdir, fn)) if l.strip()]
        for byte in range(256):
            for _ in range(per_byte):
                lines.append(G.step_case(r, byte))
        nmulti = 3000 if tier == "quick" else 150000
        for _ in range(nmulti):
            lines.append(G.steps_case(r))
        for i in range(nruns):
            lines.append(G.run_case(r, tracing=0, max_cycles=0, trunc="1" if i % 8 else "0",
                                    allow_undefined=(i % 10 == 0)))
    real = C.drive_parallel(h, lines, workdir=True)
    model = C.drive_parallel(drv, lines)
    oracle_in = [("isa" + l) if l.startswith("step") else l for l in lines]
    oracle = C.drive_parallel(drv, oracle_in)

    classes = Counter()
    nontrivial = set()
    mismatches = []
    genuine = []
    for l, a, b, o in zip(lines, real, model, oracle):
        kind = l.split(" ", 1)[0]
        is_step = kind in ("step", "steps")
        trunc = (l.split(" ")[5] if kind == "step" else l.split(" ")[6]) if is_step else l.split(" ")[3]
        if is_step:
            byte_ok = True
            cls = (a.split(" ")[0:2])
            classes["step:" + " ".join(cls)] += 1
            if a.startswith("ok"):
                nontrivial.add(l)
            in_domain = o.startswith("ok") and trunc == "1"
            if in_domain and a != o:
                genuine.append((l, a, o))
        else:
            classes["run:" + a.split(" ")[0]] += 1
            if a.startswith("ret"):
                nontrivial.add(l)
            in_domain = b.startswith("ret") and trunc == "1"
            if in_domain and a != b:
                genuine.append((l, a, b))
        if a != b:
            mismatches.append((l, a, b))

    rep.coverage.update({
        "obligations": info.get("obligations", 0), "discharged": info.get("discharged", 0),
        "checker_cmd": "cd lean && lake build HexVerif.Properties.C02 && lake env lean <#print axioms of every theorem>",
        "trusted_base": ["Lean 4.33.0 kernel", "axioms: " + json.dumps(info.get("axioms", {})),
                         "Isa/Spec.lean as transliteration of hexb.pdf pp.7-10",
                         "correspondence harness h_sim.cpp + g++ ASan/UBSan/_GLIBCXX_ASSERTIONS",
                         "modelled not verified: hexsim.hpp/hexsimio.hpp C++ text, libstdc++ streams"],
        "evaluations": len(lines), "distinct_nontrivial": len(nontrivial),
        "rule": "256 instruction bytes x planted corner/random states (one real Processor::run() iteration each, "
                "via friend hook) + planted multi-step cases (stores and READ results landing in the word being executed, "
                "prefix chains across words) + structured whole programs with all three system calls; non-trivial = the "
                "real step/run completed without throw/fault; distinct by input line",
        "samples": lines[:2] + lines[-1:],
        "traces_validated_against_impl": len(lines) - len(mismatches),
        "outcome_classes": dict(classes),
        "model_vs_impl_mismatches": len(mismatches),
        "oracle_violations": len(genuine),
    })
    rep.assumptions += ["ISA meaning = Isa/Spec.lean", "file streams modelled as byte lists",
                        "size_t cycle counter does not overflow"]

    if genuine:
        l, a, o = genuine[0]
        rep.violation("step" if l.startswith("step") else "run",
                      {"input": l, "implementation": a, "isa_spec": o, "seed": seed,
                       "rerun": f"./check {PID} --replay <this file>"})
    elif mismatches:
        l, a, b = mismatches[0]
        rep.violation("correspondence", {"input": l, "implementation": a, "model": b, "seed": seed,
                      "broken": "correspondence Sim.Model vs hexsim.hpp (no ISA-defined failing input among them)",
                      "count": len(mismatches)}, no_input=True)
    if problems:
        rep.violation("proof", {"broken": problems, "note": "no failing input: proof obligations are independent of /repo"},
                      no_input=not genuine)
    if replay:
        for l, a, b, o in zip(lines, real, model, oracle):
            print("input :", l[:400]); print("impl  :", a); print("model :", b); print("oracle:", o)
    return rep.finish()
