"""Shared machinery of the RTL checks C03 and C16: translator, Verilator builds, case
generators, observation comparison."""
import concurrent.futures as cf
import os
import re
import shutil
import subprocess
import sys
import tempfile
import time

import common as C

TRANSLATOR = os.path.join(C.ROOT, "translator", "sv2lean.py")
GEN_DIR = os.path.join(C.LEAN, "HexVerif", "Rtl", "Gen")
HARNESS = os.path.join(C.ROOT, "harness", "h_rtl.cpp")

# design -> (processor source relative to the repo, lenient verilator flags)
DESIGNS = {
    "sv": ("verilog/processor.sv", False),
    "v": ("verilog/processor.v", True),
    "synthv": ("synth/processor.v", True),
}
COMMON_SRCS = ["verilog/hex_pkg.sv", "verilog/hex.sv"]
MEMORY_SRC = "verilog/memory.sv"


def design_files(design):
    proc, _ = DESIGNS[design]
    return [os.path.join(C.REPO, p) for p in COMMON_SRCS + [proc, MEMORY_SRC]]


def regenerate():
    """Re-run the translator on $HEX_REPO into lean/HexVerif/Rtl/Gen.  Returns (ok, text)."""
    os.makedirs(C.BUILD, exist_ok=True)
    work = tempfile.mkdtemp(prefix="sv2lean-", dir=C.BUILD)
    try:
        r = C.sh([sys.executable, TRANSLATOR, "--repo", C.REPO, "--out", GEN_DIR, "--work", work], timeout=300)
    finally:
        shutil.rmtree(work, ignore_errors=True)
    return r.returncode == 0, (r.stdout + r.stderr).strip()


def build_rtl_harness(design):
    """Verilate hex.sv + processor.{sv,v} + memory.sv from $HEX_REPO together with harness/h_rtl.cpp.
    Cached under build/ by the content hash of the Verilog files and the harness."""
    os.makedirs(C.BUILD, exist_ok=True)
    files = design_files(design)
    lenient = DESIGNS[design][1]
    flags = ["--cc", "--exe", "--build", "-j", "4", "--public-flat-rw", "-fno-inline", "--top-module", "hex", "--prefix", "Vhex",
             "-CFLAGS", "-O1 -std=c++17", "-Wno-fatal"] + (["-Wno-WIDTH"] if lenient else [])
    key = C.file_hash(files + [HARNESS], " ".join(flags) + design)
    name = f"h_rtl_{design}"
    exe = os.path.join(C.BUILD, f"{name}-{key}")
    if os.path.exists(exe):
        return exe
    for old in os.listdir(C.BUILD):
        if old.startswith(name + "-"):
            p = os.path.join(C.BUILD, old)
            shutil.rmtree(p, ignore_errors=True) if os.path.isdir(p) else os.unlink(p)
    obj = os.path.join(C.BUILD, f"{name}-{key}.obj")
    shutil.rmtree(obj, ignore_errors=True)
    t = time.time()
    cmd = ["verilator"] + flags + ["-Mdir", obj, "-o", exe + ".tmp"] + files + [HARNESS]
    r = C.sh(cmd, timeout=1200)
    shutil.rmtree(obj, ignore_errors=True)
    if r.returncode != 0 or not os.path.exists(exe + ".tmp"):
        raise C.BuildError(f"Verilator build of design '{design}' failed:\n" + (r.stdout + r.stderr)[-4000:])
    os.replace(exe + ".tmp", exe)
    C.log(f"[build] {name} in {time.time()-t:.1f}s")
    return exe


def build_all(designs, lean_drivers=("rtldriver", "rtloracle")):
    """Verilator builds in parallel threads.  Returns {design: exe or BuildError}."""
    out = {}
    with cf.ThreadPoolExecutor(max_workers=len(designs)) as ex:
        futs = {d: ex.submit(build_rtl_harness, d) for d in designs}
        for d, f in futs.items():
            try:
                out[d] = f.result()
            except C.BuildError as e:
                out[d] = e
    return out


# ------------------------------------------------------------------------------------------
# case generation

CORNER_WORDS = [0, 1, 2, 3, 4, 15, 16, 0x7FFFFFFF, 0x80000000, 0xFFFFFFFF, 0xFFFFFFF0, 199999, 200000,
                799999, 800000, 0x7FFFF, 0x80000, 0x1FFFFF, 0x200000, 0xFFFFFF00]
CORNER_PCS = [0, 1, 2, 3, 4, 5, 7, 799996, 799997, 799998, 799999, 0x7FFFF, 0x80000, 800000, 0x1FFFFF, 1000]
CORNER_OREGS = [0, 0, 0, 0x10, 0x20, 0xF0, 0x100, 0xFFFFFFF0, 0xFFFFFF00, 0xFFFFFF10, 0x30D30, 0x30D40,
                0xC3500, 0xC34F0, 0x1FFFF0, 0x200000, 0x7FFFFFF0, 0x80000000]


def rand_word(r):
    k = r.below(10)
    if k < 3:
        return r.choice(CORNER_WORDS)
    if k < 5:
        return r.below(64)
    if k < 7:
        return r.below(200000)
    if k < 8:
        return (0xFFFFFFFF - r.below(64)) & 0xFFFFFFFF
    return r.word()


def rand_oreg(r, aligned=True):
    k = r.below(10)
    if k < 4:
        v = r.choice(CORNER_OREGS)
    elif k < 7:
        v = r.below(4096) << 4
    elif k < 8:
        v = (0xFFFFFFFF - r.below(4096)) << 4
    else:
        v = r.word() << 4
    v &= 0xFFFFFFFF
    if not aligned:
        v |= 1 + r.below(15)
    return v


def rand_pc(r):
    k = r.below(10)
    if k < 3:
        return r.choice(CORNER_PCS)
    if k < 6:
        return r.below(4096)
    if k < 9:
        return r.below(800000)
    return r.below(1 << 21)


def eff_addr(byte, a, b, o):
    opc = byte >> 4
    o2 = o | (byte & 15)
    if opc == 6:
        return (a + o2) & 0xFFFFFFFF
    if opc in (7, 8):
        return (b + o2) & 0xFFFFFFFF
    return o2


def step_case(r, byte, mode):
    """One `step` line.  mode: 'in' aims at the property's domain (aligned oreg, small effective
    addresses, branch targets in range), 'any' is unconstrained (translator validation and C16)."""
    pc = rand_pc(r)
    if mode == "in" and pc >= 800000:
        pc = r.below(800000)
    a, b = rand_word(r), rand_word(r)
    aligned = mode == "in" or r.chance(1, 2)
    o = rand_oreg(r, aligned)
    opc = byte >> 4
    if mode == "in":
        # steer into range: small operands for memory ops and branches most of the time
        if opc in (0, 1, 2) and r.chance(3, 4):
            o = (r.below(12000) << 4) & 0xFFFFFFFF
        if opc == 6 and r.chance(3, 4):
            a = r.below(190000)
            o = r.below(600) << 4
        if opc in (7, 8) and r.chance(3, 4):
            b = r.below(190000)
            o = r.below(600) << 4
        if opc == 6 and r.chance(1, 4):          # negative operand, in-range sum
            a = 1000 + r.below(190000)
            o = (0xFFFFFFFF - r.below(60)) << 4 & 0xFFFFFFFF
        if opc in (5, 9, 10, 11) and r.chance(3, 4):
            if r.chance(1, 2):
                o = r.below(2000) << 4
            else:
                o = ((0xFFFFFFFF - r.below(2000)) << 4) & 0xFFFFFFFF
                pc = max(pc, 40000) % 800000
        if opc == 10 and r.chance(1, 2):
            a = 0
        if opc == 11 and r.chance(1, 2):
            a |= 0x80000000
        if opc == 13 and r.chance(3, 4):
            o = 0
            if byte & 15 == 0 and r.chance(3, 4):
                b = r.below(800000)
    mem = {}
    wa = pc >> 2
    w = r.word()
    lane = pc & 3
    w = (w & ~(0xFF << (8 * lane))) | (byte << (8 * lane))
    mem[wa & 0x7FFFF] = w & 0xFFFFFFFF
    ea = eff_addr(byte, a, b, o)
    if opc in (0, 1, 2, 6, 7, 8) and (ea & 0x7FFFF) not in mem:
        mem[ea & 0x7FFFF] = r.word()
    for _ in range(r.below(3)):
        k = r.below(200000) if r.chance(3, 4) else r.below(1 << 19)
        mem.setdefault(k, r.word())
    ms = ",".join(f"{k:x}={v:x}" for k, v in mem.items())
    return f"step {pc:x} {a:x} {b:x} {o:x} {ms}"


def enc(opc, operand):
    """Minimal prefix encoding of instruction `opc` with 32-bit operand (for sequence generation)."""
    operand &= 0xFFFFFFFF
    if operand < 16:
        return [(opc << 4) | operand]
    if operand >= 0xFFFFFF00:
        # NFIX head
        n = operand
        return [0xF0 | ((n >> 4) & 15), (opc << 4) | (n & 15)]
    out = [(opc << 4) | (operand & 15)]
    operand >>= 4
    pre = []
    while operand:
        pre.append(0xE0 | (operand & 15))
        operand >>= 4
    return list(reversed(pre)) + out


def seq_case(r, n):
    """A random program from reset: mostly in-range instruction mix in the first words of memory."""
    bs = []
    nins = 8 + r.below(40)
    for _ in range(nins):
        k = r.below(20)
        if k < 3:
            bs += enc(3, rand_small(r))                     # LDAC
        elif k < 5:
            bs += enc(4, rand_small(r))                     # LDBC
        elif k < 7:
            bs += enc(r.choice([0, 1]), 64 + r.below(64))   # LDAM/LDBM data area
        elif k < 9:
            bs += enc(2, 64 + r.below(64))                  # STAM
        elif k < 10:
            bs += enc(5, r.below(32))                       # LDAP
        elif k < 12:
            bs += enc(r.choice([6, 7]), r.below(16)) if r.chance(1, 2) else enc(8, r.below(16))
        elif k < 15:
            bs += [0xD0 | r.choice([1, 1, 2, 2, 3])]         # ADD SUB SVC
        elif k < 17:
            bs += enc(r.choice([9, 10, 11]), r.below(6))     # short forward branches
        elif k < 18:
            bs += enc(r.choice([10, 11]), (-r.below(8) - 2) & 0xFFFFFFFF)  # short backward conditional
        elif k < 19:
            bs += [r.below(256)]                             # any byte
        else:
            bs += enc(4, 64 + r.below(32)) + enc(7, r.below(8))  # LDBC base; LDBI
    while len(bs) % 4:
        bs.append(0x30)
    mem = {}
    for i in range(0, len(bs), 4):
        mem[i // 4] = bs[i] | (bs[i + 1] << 8) | (bs[i + 2] << 16) | (bs[i + 3] << 24)
    for k in range(64, 64 + 128):
        if r.chance(1, 3):
            mem.setdefault(k, rand_word(r))
    ms = ",".join(f"{k:x}={v:x}" for k, v in mem.items())
    if r.chance(1, 2):
        # junk in the registers at power-on: the reset has to wipe it (the ISA oracle starts from the reset state)
        return f"seq {n} {ms} {r.word() & 0x1FFFFF:x},{rand_word(r):x},{rand_word(r):x},{r.choice([0, 0xF0, 0x10, r.word()]):x}"
    return f"seq {n} {ms}"


def rand_small(r):
    k = r.below(6)
    if k < 3:
        return r.below(300)
    if k < 4:
        return (0xFFFFFFFF - r.below(300)) & 0xFFFFFFFF
    if k < 5:
        return 64 + r.below(100)
    return r.word()


def gen_cases(r, per_byte_in, per_byte_any, nseq, seqlen):
    lines = []
    for byte in range(256):
        for _ in range(per_byte_in):
            lines.append(step_case(r, byte, "in"))
        for _ in range(per_byte_any):
            lines.append(step_case(r, byte, "any"))
    # spread the (much more expensive) sequences evenly so that parallel chunks are balanced
    seqs = [seq_case(r, seqlen) for _ in range(nseq)]
    if not seqs:
        return lines
    out = []
    every = max(1, len(lines) // len(seqs))
    k = 0
    for i, l in enumerate(lines):
        out.append(l)
        if (i + 1) % every == 0 and k < len(seqs):
            out.append(seqs[k])
            k += 1
    out += seqs[k:]
    return out


def corpus(pid):
    out = []
    cdir = os.path.join(C.ROOT, "corpus", pid)
    if os.path.isdir(cdir):
        for fn in sorted(os.listdir(cdir)):
            out += [l.strip() for l in open(os.path.join(cdir, fn)) if l.strip() and not l.startswith("#")]
    return out


# ------------------------------------------------------------------------------------------
# observations

def arch_projection(line, obs):
    """Project a harness/driver observation to what the ISA oracle prints: `pc a b o sv sc mw`."""
    if line.startswith("step"):
        f = obs.split(" ")
        if len(f) != 12:
            return obs
        return " ".join(f[0:6] + [f[11]])
    return obs


def oracle_verdict(line, real, oracle):
    """-> ('skip', why) | ('ok', n_steps_compared) | ('bad', detail)"""
    if line.startswith("step"):
        if oracle.startswith("skip"):
            return ("skip", oracle[5:])
        if real.startswith("fault") or real == "bad-op":
            return ("bad", "implementation gave " + real)
        return ("ok", 1) if arch_projection(line, real) == oracle else ("bad", "single step differs")
    # sequences: compare cycle by cycle up to the oracle's stop
    rp, op = real.split("|"), oracle.split("|")
    if not rp or not rp[0].startswith("rst="):
        return ("bad", "implementation gave " + real[:60])
    if rp[0] != "rst=-":
        # C03_reset_mem: "started from reset on the same memory image"
        return ("bad", "the reset edge itself modified memory: " + rp[0])
    n = 0
    for k in range(1, len(op)):
        if op[k].startswith("stop"):
            break
        if k >= len(rp) or rp[k] != op[k]:
            return ("bad", f"cycle {k} differs: rtl '{rp[k] if k < len(rp) else '<missing>'}' isa '{op[k]}'")
        n += 1
    return ("ok", n) if n else ("skip", op[1] if len(op) > 1 else "empty")


def copies_text_identical():
    """verilog/processor.v vs synth/processor.v modulo comments and blank lines."""
    def norm(p):
        try:
            s = open(p).read()
        except OSError:
            return None
        s = re.sub(r"/\*.*?\*/", "", s, flags=re.S)
        s = re.sub(r"//[^\n]*", "", s)
        return [l.strip() for l in s.splitlines() if l.strip()]
    a = norm(os.path.join(C.REPO, "verilog", "processor.v"))
    b = norm(os.path.join(C.REPO, "synth", "processor.v"))
    return a is not None and a == b


def axioms_list(info):
    ax = set()
    for t, l in (info.get("axioms") or {}).items():
        for a in l or []:
            ax.add(a)
    return sorted(ax)
