#!/usr/bin/env python3
"""sv2lean.py -- Verilator `--xml-only` AST  ->  Lean 4 (BitVec functions).

For every requested module the translator emits, in its own Lean namespace,

  structure X      one `BitVec 1` field per `1'bx` constant of the source (two-state reading:
                   theorems quantify over every value of every x)
  structure In     the input ports
  structure Regs   every variable assigned by a non-blocking assignment in a clocked `always`
                   (packed vectors = `BitVec n`, the unpacked memory = `BitVec k -> BitVec n`)
  structure Wires  every combinationally driven variable (output ports included)
  def comb : X -> In -> Regs -> Wires
                   continuous assigns and `always_comb` blocks, evaluated in dependency order;
                   blocking assignments become successive `let`s, `if`/`case` become
                   `if c = 1#1 then .. else ..` merges per assigned variable (case items in
                   source order, default last)
  def ff   : X -> In -> Regs -> Regs
                   the bodies of all clocked `always` blocks, executed once with the given
                   input values (non-blocking: every right-hand side reads the OLD registers).
                   The reset arm is `ff` with the reset input high, the clocked arm `ff` with
                   it low (Rtl/Sem.lean: `resetEdge`, `cycle`).
  def sens         the (edge, signal) sensitivity list shared by all clocked blocks
  def outputs      names of the output ports (documentation)

The top module is additionally *flattened*: every instance is inlined with its variables
prefixed `<instance>__`, port connections become assignments, and all combinational blocks of
the whole hierarchy are ordered together.

Anything outside the vocabulary below is REFUSED: the translator exits with status 3 and prints
`REFUSED: <construct> ...`.  Nothing is ever skipped silently.

Usage:
  sv2lean.py --repo /repo --out lean/HexVerif/Rtl/Gen [--work DIR]
      regenerates Sv.lean (hex.sv+processor.sv+memory.sv), V.lean (verilog/processor.v
      substituted), SynthV.lean (synth/processor.v substituted)
  sv2lean.py --xml F.xml --top hex --ns Hex.Rtl.Gen.Sv --emit processor:Processor,memory:Memory \
             --flat Hex -o Out.lean
"""
import argparse
import os
import re
import shutil
import subprocess
import sys
import tempfile
import xml.etree.ElementTree as ET


class Refuse(Exception):
    pass


def refuse(what, node=None):
    loc = ""
    if node is not None and node.get("loc"):
        loc = " at " + node.get("loc")
    raise Refuse(f"{what}{loc}")


LEAN_KEYWORDS = set("""at axiom by class def deriving do else end example extends from fun have if in
import inductive infix instance let local macro match mutual namespace notation open opaque private
protected section set_option show structure syntax then theorem universe using variable where with
Type Prop Sort calc for unless return try catch finally mut partial unsafe abbrev attribute export
prefix postfix infixl infixr noncomputable omit include nomatch nofun""".split())


def ident(name):
    if not re.fullmatch(r"[A-Za-z_][A-Za-z0-9_]*", name):
        refuse(f"identifier '{name}' is not a plain name")
    if name in LEAN_KEYWORDS:
        return "«" + name + "»"
    return name


# ------------------------------------------------------------------------------------------
# types

class Types:
    def __init__(self, tt):
        self.raw = {e.get("id"): e for e in tt}

    def get(self, tid, node=None):
        """('bv', width, right) | ('arr', idxwidth, elemwidth)"""
        e = self.raw.get(tid)
        if e is None:
            refuse(f"unknown dtype id {tid}", node)
        tag = e.tag
        if tag == "basicdtype":
            nm = e.get("name")
            if nm not in ("logic", "bit", "integer", "int", "reg", "wire"):
                refuse(f"data type '{nm}'", node)
            if e.get("left") is None:
                if nm in ("integer", "int"):
                    return ("bv", 32, 0)
                return ("bv", 1, 0)
            l, r = int(e.get("left")), int(e.get("right"))
            if l < r:
                refuse("ascending packed range", node)
            return ("bv", l - r + 1, r)
        if tag in ("refdtype", "enumdtype", "memberdtype"):
            return self.get(e.get("sub_dtype_id"), node)
        if tag == "structdtype":
            w = 0
            for m in e:
                t = self.get(m.get("sub_dtype_id") or m.get("id"), node)
                if t[0] != "bv":
                    refuse("struct with unpacked member", node)
                w += t[1]
            return ("bv", w, 0)
        if tag == "unpackarraydtype":
            sub = self.get(e.get("sub_dtype_id"), node)
            if sub[0] != "bv":
                refuse("multi-dimensional unpacked array", node)
            rng = e.find("range")
            a, b = [const_value(c)[1] for c in rng]
            hi, lo = max(a, b), min(a, b)
            n = hi - lo + 1
            if lo != 0 or n & (n - 1):
                refuse("unpacked array whose range is not [2^k-1:0]", node)
            return ("arr", n.bit_length() - 1, sub[1])
        refuse(f"dtype <{tag}>", node)

    def width(self, tid, node=None):
        t = self.get(tid, node)
        if t[0] != "bv":
            refuse("unpacked array used as a value", node)
        return t[1]


def const_value(node):
    """-> (width, value) for a const without x/z; value None when it has x/z (caller decides)."""
    s = node.get("name")
    m = re.fullmatch(r"(\d+)'(s?)([hbdo])([0-9a-fA-FxXzZ?_]+)", s)
    if not m:
        refuse(f"constant '{s}'", node)
    w = int(m.group(1))
    base = {"h": 16, "b": 2, "d": 10, "o": 8}[m.group(3)]
    digits = m.group(4).replace("_", "")
    if re.search(r"[xXzZ?]", digits):
        return (w, None)
    return (w, int(digits, base) & ((1 << w) - 1))


def lean_const(w, v):
    return f"({v}#{w})" if v < 1024 else f"(0x{v:X}#{w})"


def lean_ty(t):
    if t[0] == "bv":
        return f"BitVec {t[1]}"
    return f"BitVec {t[1]} → BitVec {t[2]}"


# ------------------------------------------------------------------------------------------
# elaboration of one (possibly flattened) design

IGNORED_IN_INITIAL = {"display", "sformatf", "time", "dumpctl", "testplusargs", "const", "begin", "if",
                      "neq", "eq", "finish", "stop"}


KNOWN_TAGS = {
    # statements
    "always", "sentree", "senitem", "begin", "if", "case", "caseitem", "assign", "assigndly", "contassign",
    # expressions
    "varref", "const", "add", "sub", "and", "or", "xor", "mul", "logand", "logor", "not", "negate", "lognot",
    "eq", "neq", "eqcase", "neqcase", "eqwild", "neqwild", "lt", "lte", "gt", "gte", "lts", "ltes", "gts", "gtes",
    "redor", "redand", "extend", "extends", "concat", "replicate", "shiftl", "shiftr", "shiftrs", "sel", "cond",
    "arraysel", "funcref", "arg",
}


def prescan(node):
    """Refuse any construct outside the vocabulary before anything else looks at the block."""
    for e in node.iter():
        if e.tag not in KNOWN_TAGS:
            refuse(f"<{e.tag}> (construct outside the translator's vocabulary)", e)


class Block:
    """A combinational block (continuous assign, always_comb, port connection, initial constant)."""

    def __init__(self, kind, scope, node, items, label):
        self.kind, self.scope, self.node, self.items, self.label = kind, scope, node, items, label
        self.lines = []
        self.writes = {}     # flat var -> final SSA name
        self.reads = set()   # flat vars read from outside


class Scope:
    def __init__(self, prefix, module):
        self.prefix, self.module = prefix, module
        self.params = {}
        self.funcs = {}

    def flat(self, name):
        return self.prefix + name


class Elab:
    def __init__(self, design, topname, flatten):
        self.d = design
        self.T = design.types
        self.vars = {}        # flat name -> dict(ty, kind) kind in input|var
        self.order = []       # declaration order of flat names
        self.outputs = []
        self.comb_blocks = []
        self.ff_blocks = []   # (scope, node-of-always)
        self.xcount = 0
        self.counter = {}
        self.sens = None
        self.alias_in = {}    # flat input-port var of an instance -> top-level input it is tied to
        top = design.mods.get(topname)
        if top is None:
            refuse(f"module '{topname}' not found")
        self.flatten = flatten
        self.walk(top, "", True)

    # -- structure -------------------------------------------------------------------------
    def walk(self, mod, prefix, is_top):
        sc = Scope(prefix, mod)
        for ch in mod:
            tag = ch.tag
            if tag == "var":
                nm = ch.get("name")
                if ch.get("param") == "true" or ch.get("localparam") == "true":
                    c = ch.find("const")
                    if c is None:
                        refuse(f"parameter '{nm}' without constant value", ch)
                    sc.params[nm] = c
                    continue
                ty = self.T.get(ch.get("dtype_id"), ch)
                d = ch.get("dir")
                if d == "inout":
                    refuse("inout port", ch)
                kind = "input" if (d == "input" and is_top) else "var"
                fl = sc.flat(nm)
                if fl in self.vars:
                    refuse(f"duplicate variable '{fl}'", ch)
                ident(fl)
                self.vars[fl] = {"ty": ty, "kind": kind, "dir": d, "node": ch}
                self.order.append(fl)
                if d == "output" and is_top:
                    self.outputs.append(fl)
            elif tag == "func":
                sc.funcs[ch.get("name")] = ch
            elif tag in ("typedef",):
                pass
        for ch in mod:
            tag = ch.tag
            if tag in ("var", "func", "typedef"):
                continue
            if tag in ("contassign", "always"):
                prescan(ch)
            if tag == "contassign":
                self.comb_blocks.append(Block("assign", sc, ch, [ch], f"assign {self.lhs_name(ch, sc)}"))
            elif tag == "always":
                if ch.find("sentree") is not None:
                    self.ff_blocks.append((sc, ch))
                else:
                    items = [c for c in ch]
                    self.comb_blocks.append(Block("always", sc, ch, items, "always_comb"))
            elif tag == "initial":
                self.initial(ch, sc)
            elif tag == "instance":
                if not self.flatten:
                    refuse("instance inside a module translated stand-alone", ch)
                self.instance(ch, sc)
            else:
                refuse(f"module item <{tag}>", ch)

    def lhs_name(self, assign, sc):
        l = list(assign)[1]
        while l.tag in ("sel", "arraysel"):
            l = list(l)[0]
        return sc.flat(l.get("name", "?"))

    def initial(self, node, sc):
        # only constant drivers (`assign o = 1'b1` is folded into an initial by Verilator) and
        # simulation-only system tasks are accepted
        kids = list(node)
        if len(kids) == 1 and kids[0].tag == "assign":
            a = kids[0]
            rhs, lhs = list(a)
            if rhs.tag == "const" and lhs.tag == "varref":
                self.comb_blocks.append(Block("assign", sc, a, [a], f"initial-constant {sc.flat(lhs.get('name'))}"))
                return
        for e in node.iter():
            if e is node:
                continue
            if e.tag in ("assign", "assigndly", "varref"):
                refuse("initial block that assigns or reads design variables", e)
            if e.tag not in IGNORED_IN_INITIAL:
                refuse(f"<{e.tag}> inside initial block", e)

    def instance(self, node, sc):
        sub = self.d.mods.get(node.get("defName"))
        if sub is None:
            refuse(f"instance of unknown module '{node.get('defName')}'", node)
        pfx = sc.prefix + node.get("name") + "__"
        self.walk(sub, pfx, False)
        subports = {v.get("name"): v for v in sub.findall("var") if v.get("dir")}
        seen = set()
        for p in node.findall("port"):
            pn = p.get("name")
            seen.add(pn)
            if pn not in subports:
                refuse(f"connection to unknown port '{pn}'", p)
            kids = list(p)
            if len(kids) != 1:
                refuse(f"unconnected or malformed port '{pn}'", p)
            e = kids[0]
            d = subports[pn].get("dir")
            if d == "input":
                self.comb_blocks.append(Block("portin", sc, p, [(pfx + pn, e)], f"port {pfx}{pn}"))
                if e.tag == "varref" and self.vars.get(sc.flat(e.get("name")), {}).get("kind") == "input":
                    self.alias_in[pfx + pn] = sc.flat(e.get("name"))
                elif e.tag == "varref" and sc.flat(e.get("name")) in self.alias_in:
                    self.alias_in[pfx + pn] = self.alias_in[sc.flat(e.get("name"))]
            elif d == "output":
                if e.tag != "varref":
                    refuse(f"output port '{pn}' connected to an expression", p)
                self.comb_blocks.append(Block("portout", sc, p, [(sc.flat(e.get("name")), pfx + pn)],
                                              f"port {pfx}{pn}"))
            else:
                refuse(f"port direction '{d}'", p)
        for pn in subports:
            if pn not in seen:
                refuse(f"port '{pn}' of instance '{node.get('name')}' left unconnected", node)

    # -- names -----------------------------------------------------------------------------
    def fresh(self, base):
        k = self.counter.get(base, 0) + 1
        self.counter[base] = k
        return f"{base}_{k}"


class Ctx:
    """Translation context of one block."""

    def __init__(self, el, sc, mode, genv, block=None):
        self.el, self.sc, self.mode, self.genv, self.block = el, sc, mode, genv, block
        self.lines = []
        self.local = {}      # flat var -> SSA name (blocking-assigned in this block)
        self.funcenv = None  # name -> SSA name while inlining a function
        self.depth = 0
        self.reads = set()

    @property
    def T(self):
        return self.el.T

    def emit(self, name, ty, expr):
        self.lines.append(f"  let {name} : {lean_ty(ty)} := {expr}")

    # ---- expressions ---------------------------------------------------------------------
    def width_of(self, node):
        return self.T.width(node.get("dtype_id"), node)

    def var_read(self, node):
        nm = node.get("name")
        if self.funcenv is not None:
            if nm in self.funcenv:
                return self.funcenv[nm]
            refuse(f"function body reads non-local '{nm}'", node)
        if nm in self.sc.params:
            return self.expr(self.sc.params[nm])
        fl = self.sc.flat(nm)
        v = self.el.vars.get(fl)
        if v is None:
            refuse(f"reference to undeclared variable '{nm}'", node)
        ty = v["ty"]
        if v["kind"] == "input":
            return (f"i.{ident(fl)}", ty)
        if fl in self.el.regs:
            return (f"r.{ident(fl)}", ty)
        # combinational variable
        if self.mode == "ff":
            if fl not in self.el.wires:
                refuse(f"variable '{fl}' is read but never driven", node)
            return (f"w.{ident(fl)}", ty)
        if fl in self.local:
            return (self.local[fl], ty)
        if self.block is not None and fl in self.block.will_write:
            refuse(f"'{fl}' is read before it is assigned in the same combinational block (latch or loop)", node)
        self.reads.add(fl)
        if self.genv is not None:
            if fl not in self.genv:
                refuse(f"variable '{fl}' is read but never driven", node)
            return (self.genv[fl], ty)
        return ("?" + fl, ty)   # dependency-discovery pass

    def bv(self, node):
        e, ty = self.expr(node)
        if ty[0] != "bv":
            refuse("unpacked array used as a value", node)
        return e, ty[1]

    def expr(self, node):
        """-> (lean expression string, type)"""
        tag = node.tag
        kids = list(node)
        if tag == "varref":
            return self.var_read(node)
        if tag == "const":
            w, v = const_value(node)
            dw = self.width_of(node)
            if v is None:
                if node.get("name") in ("1'bx", "1'bX") and dw == 1:
                    k = self.el.xcount
                    self.el.xcount += 1
                    return (f"x.x{k}", ("bv", 1, 0))
                refuse(f"constant with x/z digits '{node.get('name')}'", node)
            if w != dw:
                refuse(f"constant '{node.get('name')}' whose dtype has width {dw}", node)
            return (lean_const(w, v), ("bv", w, 0))
        W = None
        if node.get("dtype_id") is not None:
            W = self.width_of(node)
        R = lambda s, w=None: (s, ("bv", W if w is None else w, 0))

        def same(a, b):
            if a[1] != b[1]:
                refuse(f"<{tag}> with operand widths {a[1]} and {b[1]}", node)

        if tag in ("add", "sub", "and", "or", "xor", "mul"):
            a, b = self.bv(kids[0]), self.bv(kids[1])
            same(a, b)
            if a[1] != W:
                refuse(f"<{tag}> result width {W} differs from operand width {a[1]}", node)
            if tag == "mul":
                refuse("multiplication", node)
            op = {"add": "+", "sub": "-", "and": "&&&", "or": "|||", "xor": "^^^"}[tag]
            return R(f"({a[0]} {op} {b[0]})")
        if tag in ("logand", "logor"):
            a, b = self.bv(kids[0]), self.bv(kids[1])
            if a[1] != 1 or b[1] != 1 or W != 1:
                refuse(f"<{tag}> on operands wider than one bit", node)
            return R(f"({a[0]} {'&&&' if tag == 'logand' else '|||'} {b[0]})")
        if tag in ("not", "negate"):
            a = self.bv(kids[0])
            if a[1] != W:
                refuse(f"<{tag}> changes width", node)
            return R(f"(~~~{a[0]})" if tag == "not" else f"(-{a[0]})")
        if tag == "lognot":
            a = self.bv(kids[0])
            if a[1] != 1 or W != 1:
                refuse("<lognot> on operand wider than one bit", node)
            return R(f"(~~~{a[0]})")
        if tag in ("eq", "neq", "eqcase", "neqcase", "eqwild", "neqwild"):
            if tag in ("eqwild", "neqwild") and kids[1].tag == "const" and const_value(kids[1])[1] is None:
                refuse("wildcard equality with x/z/? digits", node)
            a, b = self.bv(kids[0]), self.bv(kids[1])
            same(a, b)
            if W != 1:
                refuse(f"<{tag}> result wider than one bit", node)
            op = "!=" if tag.startswith("neq") else "=="
            return R(f"(BitVec.ofBool ({a[0]} {op} {b[0]}))")
        if tag in ("lt", "lte", "gt", "gte", "lts", "ltes", "gts", "gtes"):
            a, b = self.bv(kids[0]), self.bv(kids[1])
            same(a, b)
            if W != 1:
                refuse(f"<{tag}> result wider than one bit", node)
            signed = tag.endswith("s")
            base = tag[:-1] if signed else tag
            if base in ("gt", "gte"):
                a, b = b, a
            fn = ("BitVec.slt" if signed else "BitVec.ult") if base in ("lt", "gt") else \
                 ("BitVec.sle" if signed else "BitVec.ule")
            return R(f"(BitVec.ofBool ({fn} {a[0]} {b[0]}))")
        if tag in ("redor", "redand"):
            a = self.bv(kids[0])
            if W != 1:
                refuse(f"<{tag}> result wider than one bit", node)
            if tag == "redor":
                return R(f"(BitVec.ofBool ({a[0]} != {lean_const(a[1], 0)}))")
            return R(f"(BitVec.ofBool ({a[0]} == {lean_const(a[1], (1 << a[1]) - 1)}))")
        if tag in ("extend", "extends"):
            a = self.bv(kids[0])
            if W < a[1]:
                refuse("<extend> that narrows", node)
            return R(f"(BitVec.setWidth {W} {a[0]})" if tag == "extend" else f"(BitVec.signExtend {W} {a[0]})")
        if tag == "concat":
            a, b = self.bv(kids[0]), self.bv(kids[1])
            if a[1] + b[1] != W:
                refuse("<concat> width mismatch", node)
            return R(f"(({a[0]} ++ {b[0]}) : BitVec {W})")
        if tag == "replicate":
            a = self.bv(kids[0])
            if kids[1].tag != "const":
                refuse("<replicate> with non-constant count", node)
            n = const_value(kids[1])[1]
            if n is None or a[1] * n != W:
                refuse("<replicate> width mismatch", node)
            return R(f"((BitVec.replicate {n} {a[0]}) : BitVec {W})")
        if tag in ("shiftl", "shiftr", "shiftrs"):
            a = self.bv(kids[0])
            if a[1] != W:
                refuse(f"<{tag}> changes width", node)
            op = {"shiftl": "<<<", "shiftr": ">>>"}.get(tag)
            if kids[1].tag == "const":
                n = const_value(kids[1])[1]
                if n is None:
                    refuse("shift by x/z", node)
                if tag == "shiftrs":
                    return R(f"(BitVec.sshiftRight {a[0]} {n})")
                return R(f"({a[0]} {op} {n})")
            b = self.bv(kids[1])
            if tag == "shiftrs":
                return R(f"(BitVec.sshiftRight {a[0]} ({b[0]}).toNat)")
            return R(f"({a[0]} {op} {b[0]})")
        if tag == "sel":
            src = kids[0]
            if src.get("dtype_id") is not None:
                st = self.T.get(src.get("dtype_id"), src)
                if st[0] == "bv" and st[2] != 0:
                    refuse("bit select from a vector whose range does not end at 0", node)
            a = self.bv(src)
            if kids[2].tag != "const":
                refuse("<sel> with non-constant width", node)
            w = const_value(kids[2])[1]
            if w != W:
                refuse(f"<sel> of width {w} typed as width {W}", node)
            if kids[1].tag == "const":
                lsb = const_value(kids[1])[1]
                if lsb is None or lsb + w > a[1]:
                    refuse("<sel> outside its operand", node)
                return R(f"(BitVec.extractLsb' {lsb} {w} {a[0]})")
            if self.maxval(kids[1]) + w > a[1]:
                refuse("<sel> with variable offset that may reach outside its operand", node)
            b = self.bv(kids[1])
            return R(f"(BitVec.setWidth {w} ({a[0]} >>> {b[0]}))")
        if tag == "cond":
            c = self.bv(kids[0])
            if c[1] != 1:
                refuse("<cond> whose condition is wider than one bit", node)
            a, b = self.bv(kids[1]), self.bv(kids[2])
            same(a, b)
            if a[1] != W:
                refuse("<cond> width mismatch", node)
            return R(f"(if {c[0]} = 1#1 then {a[0]} else {b[0]})")
        if tag == "arraysel":
            m, mt = self.expr(kids[0])
            if mt[0] != "arr":
                refuse("<arraysel> on a packed value", node)
            ix = self.bv(kids[1])
            if ix[1] != mt[1]:
                refuse(f"<arraysel> index of width {ix[1]} into an array of depth 2^{mt[1]}", node)
            if W != mt[2]:
                refuse("<arraysel> element width mismatch", node)
            return R(f"({m} {ix[0]})")
        if tag == "funcref":
            return self.funcref(node)
        refuse(f"expression <{tag}>", node)

    def maxval(self, node):
        tag = node.tag
        kids = list(node)
        w = self.width_of(node)
        top = (1 << w) - 1
        if tag == "const":
            v = const_value(node)[1]
            return top if v is None else v
        if tag == "extend":
            return min(top, self.maxval(kids[0]))
        if tag == "shiftl" and kids[1].tag == "const":
            n = const_value(kids[1])[1]
            if n is not None:
                return min(top, self.maxval(kids[0]) << n)
        if tag == "sel" and kids[2].tag == "const":
            return top
        if tag == "varref" and self.funcenv is None:
            # a wire with a single continuous driver is bounded by its driver
            drv = self.el.simple_drivers.get(self.sc.flat(node.get("name")))
            if drv is not None and self.depth < 8:
                sub = Ctx(self.el, drv[0], self.mode, self.genv)
                sub.depth = self.depth + 1
                return min(top, sub.maxval(drv[1]))
        return top

    def funcref(self, node):
        f = self.sc.funcs.get(node.get("name"))
        if f is None:
            refuse(f"call of unknown function '{node.get('name')}'", node)
        if self.funcenv is not None:
            refuse("nested function call inside a function body", node)
        fname = f.get("name")
        formals = [v for v in f.findall("var") if v.get("dir") == "input"]
        localsv = [v for v in f.findall("var")]
        args = [self.bv(list(a)[0]) for a in node.findall("arg")]
        if len(args) != len(formals):
            refuse(f"call of '{fname}' with {len(args)} arguments for {len(formals)} formals", node)
        env = {}
        for fv, (ae, aw) in zip(formals, args):
            fw = self.T.width(fv.get("dtype_id"), fv)
            if fw != aw:
                refuse(f"argument width {aw} for formal '{fv.get('name')}' of width {fw}", node)
            env[fv.get("name")] = (ae, ("bv", fw, 0))
        names = {v.get("name") for v in localsv}
        saved_local, saved_block = self.local, self.block
        self.funcenv = env
        try:
            for st in f:
                if st.tag == "var":
                    continue
                if st.tag != "assign":
                    refuse(f"<{st.tag}> in function body (only straight-line assignments are inlined)", st)
                rhs, lhs = list(st)
                if lhs.tag != "varref" or lhs.get("name") not in names:
                    refuse("function assigns to a non-local", st)
                e, w = self.bv(rhs)
                lw = self.T.width(lhs.get("dtype_id"), lhs)
                if lw != w:
                    refuse("assignment width mismatch in function body", st)
                env[lhs.get("name")] = (e, ("bv", w, 0))
        finally:
            self.funcenv = None
            self.local, self.block = saved_local, saved_block
        if fname not in env:
            refuse(f"function '{fname}' never assigns its result", f)
        rw = self.T.width(f.get("dtype_id"), f)
        if env[fname][1][1] != rw or rw != self.width_of(node):
            refuse(f"result width of function '{fname}'", node)
        return env[fname]

    # ---- statements ----------------------------------------------------------------------
    def assign_target(self, lhs, node):
        """-> (flat var, index-or-None)"""
        if lhs.tag == "varref":
            nm = lhs.get("name")
            if nm in self.sc.params:
                refuse("assignment to a parameter", node)
            return self.sc.flat(nm), None
        if lhs.tag == "arraysel":
            base, ix = list(lhs)
            if base.tag != "varref":
                refuse("assignment through nested select", node)
            return self.sc.flat(base.get("name")), ix
        if lhs.tag == "sel":
            refuse("assignment to a bit/part select", node)
        refuse(f"assignment target <{lhs.tag}>", node)

    def stmts(self, nodes, env):
        for n in nodes:
            self.stmt(n, env)

    def cur(self, env, fl, node):
        """Current value of flat var `fl` in statement environment env."""
        if fl in env:
            return env[fl]
        if self.mode == "ff":
            return f"r.{ident(fl)}"
        refuse(f"'{fl}' is assigned only on some paths of a combinational block (latch)", node)

    def stmt(self, n, env):
        tag = n.tag
        if tag == "begin":
            self.stmts(list(n), env)
            return
        if tag in ("assign", "assigndly", "contassign"):
            if tag == "assigndly" and self.mode != "ff":
                refuse("non-blocking assignment in a combinational block", n)
            if tag != "assigndly" and self.mode == "ff":
                refuse("blocking assignment in a clocked block", n)
            rhs, lhs = list(n)
            fl, ix = self.assign_target(lhs, n)
            v = self.el.vars.get(fl)
            if v is None:
                refuse(f"assignment to undeclared '{fl}'", n)
            if v["kind"] == "input":
                refuse(f"assignment to input '{fl}'", n)
            ty = v["ty"]
            if ix is None:
                e, et = self.expr(rhs)
                if et[:2] != ty[:2] or (ty[0] == "arr"):
                    refuse(f"assignment of width {et[1]} to '{fl}' of type {lean_ty(ty)}", n)
                new = self.el.fresh(fl)
                self.emit(new, ty, e)
            else:
                if ty[0] != "arr":
                    refuse("indexed assignment to a packed variable", n)
                e, w = self.bv(rhs)
                i, iw = self.bv(ix)
                if w != ty[2] or iw != ty[1]:
                    refuse("indexed assignment width mismatch", n)
                old = self.cur(env, fl, n)
                new = self.el.fresh(fl)
                self.emit(new, ty, f"Hex.Rtl.upd {old} {i} {e}")
            env[fl] = new
            if self.mode != "ff":
                self.local[fl] = new
            return
        if tag == "if":
            kids = list(n)
            c, cw = self.bv(kids[0])
            if cw != 1:
                refuse("<if> whose condition is wider than one bit", n)
            cn = self.el.fresh("c")
            self.emit(cn, ("bv", 1, 0), c)
            self.branch(n, env, [(cn, kids[1:2])], kids[2:3])
            return
        if tag == "case":
            kids = list(n)
            sel, sw = self.bv(kids[0])
            sn = self.el.fresh("sel")
            self.emit(sn, ("bv", sw, 0), sel)
            arms, default = [], None
            for it in kids[1:]:
                if it.tag != "caseitem":
                    refuse(f"<{it.tag}> inside case", it)
                conds, body = [], []
                for k in it:
                    if k.tag in ("assign", "assigndly", "begin", "if", "case"):
                        body.append(k)
                    elif body:
                        refuse("case item expression after statement", k)
                    else:
                        conds.append(k)
                if not conds:
                    if default is not None:
                        refuse("case with two default items", it)
                    default = body
                    continue
                parts = []
                for k in conds:
                    if k.tag == "const" and const_value(k)[1] is None:
                        refuse(f"case item with wildcard digits '{k.get('name')}' (casez/casex)", k)
                    e, w = self.bv(k)
                    if w != sw:
                        refuse("case item width differs from selector", k)
                    parts.append(f"(BitVec.ofBool ({sn} == {e}))")
                cn = self.el.fresh("c")
                self.emit(cn, ("bv", 1, 0), " ||| ".join(parts))
                arms.append((cn, body))
            self.branch(n, env, arms, default or [])
            return
        refuse(f"statement <{tag}>", n)

    def branch(self, node, env, arms, default):
        """arms: [(condname, [stmts])] tested in order; default: [stmts]."""
        envs = []
        saved_local = dict(self.local)
        for cn, body in arms:
            e = dict(env)
            self.local = dict(saved_local)
            self.stmts(body, e)
            envs.append((cn, e))
        de = dict(env)
        self.local = dict(saved_local)
        self.stmts(default, de)
        touched = []
        for _, e in envs + [(None, de)]:
            for k in e:
                if e[k] != env.get(k) and k not in touched:
                    touched.append(k)
        self.local = saved_local
        for fl in touched:
            ty = self.el.vars[fl]["ty"]
            acc = self.cur(de, fl, node)
            for cn, e in reversed(envs):
                val = self.cur(e, fl, node)
                if val != acc:
                    acc = f"(if {cn} = 1#1 then {val} else {acc})"
            new = self.el.fresh(fl)
            self.emit(new, ty, acc)
            env[fl] = new
            if self.mode != "ff":
                self.local[fl] = new


def collect_writes(el, blk):
    """Flat names assigned anywhere in the block (syntactic)."""
    out = []
    if blk.kind in ("portin", "portout"):
        return [blk.items[0][0]]
    for it in blk.items:
        for a in it.iter():
            if a.tag in ("assign", "assigndly", "contassign"):
                lhs = list(a)[1]
                while lhs.tag in ("sel", "arraysel"):
                    lhs = list(lhs)[0]
                if lhs.tag == "varref":
                    fl = blk.scope.flat(lhs.get("name"))
                    if fl not in out:
                        out.append(fl)
    return out


def translate_block(el, blk, genv):
    cx = Ctx(el, blk.scope, "comb", genv, blk)
    env = {}
    if blk.kind == "portin":
        fl, e = blk.items[0]
        ex, ty = cx.expr(e)
        if ty[:2] != el.vars[fl]["ty"][:2]:
            refuse(f"port '{fl}' connected to an expression of different width", blk.node)
        new = el.fresh(fl)
        cx.emit(new, ty, ex)
        env[fl] = new
    elif blk.kind == "portout":
        fl, src = blk.items[0]
        cx2 = Ctx(el, Scope("", None), "comb", genv, blk)
        ex, ty = cx2.var_read(ET.Element("varref", {"name": src}))
        cx.reads |= cx2.reads
        if ty[:2] != el.vars[fl]["ty"][:2]:
            refuse(f"port connection '{fl}' width mismatch", blk.node)
        new = el.fresh(fl)
        cx.emit(new, ty, ex)
        env[fl] = new
    else:
        cx.stmts(blk.items, env)
    blk.lines, blk.writes, blk.reads = cx.lines, env, cx.reads


def elaborate(design, top, flatten):
    el = Elab(design, top, flatten)
    # registers: targets of non-blocking assignments in clocked blocks
    el.regs = []
    for sc, node in el.ff_blocks:
        for a in node.iter("assigndly"):
            lhs = list(a)[1]
            while lhs.tag in ("sel", "arraysel"):
                lhs = list(lhs)[0]
            fl = sc.flat(lhs.get("name"))
            if fl not in el.regs:
                el.regs.append(fl)
    el.simple_drivers = {}
    for b in el.comb_blocks:
        b.will_write = collect_writes(el, b)
        if b.kind == "assign":
            rhs, lhs = list(b.items[0])
            if lhs.tag == "varref":
                el.simple_drivers[b.scope.flat(lhs.get("name"))] = (b.scope, rhs)
    el.wires = []
    drivers = {}
    for b in el.comb_blocks:
        for fl in b.will_write:
            if fl in drivers:
                refuse(f"variable '{fl}' has more than one driver ({drivers[fl].label}; {b.label})", b.node)
            if fl in el.regs:
                refuse(f"'{fl}' is driven both by a clocked and a combinational block", b.node)
            if fl not in el.vars:
                refuse(f"assignment to undeclared '{fl}'", b.node)
            if el.vars[fl]["kind"] == "input":
                refuse(f"assignment to input '{fl}'", b.node)
            drivers[fl] = b
            el.wires.append(fl)
    # dependency discovery pass (genv=None), then topological order
    save = (dict(el.counter), el.xcount)
    for b in el.comb_blocks:
        translate_block(el, b, None)
    el.counter, el.xcount = save
    indeg = {id(b): 0 for b in el.comb_blocks}
    succ = {id(b): [] for b in el.comb_blocks}
    for b in el.comb_blocks:
        for fl in sorted(b.reads):
            if fl not in drivers:
                refuse(f"variable '{fl}' is read ({b.label}) but never driven", b.node)
            a = drivers[fl]
            if a is b:
                refuse(f"combinational loop through '{fl}'", b.node)
            succ[id(a)].append(b)
            indeg[id(b)] += 1
    ready = [b for b in el.comb_blocks if indeg[id(b)] == 0]
    order = []
    while ready:
        b = ready.pop(0)
        order.append(b)
        for c in succ[id(b)]:
            indeg[id(c)] -= 1
            if indeg[id(c)] == 0:
                ready.append(c)
    if len(order) != len(el.comb_blocks):
        left = [b.label for b in el.comb_blocks if b not in order]
        refuse("combinational loop among: " + ", ".join(left))
    genv = {}
    el.comb_lines = []
    for b in order:
        translate_block(el, b, genv)
        el.comb_lines.append(f"  -- {b.label}")
        el.comb_lines += b.lines
        for fl, nm in b.writes.items():
            genv[fl] = nm
    el.genv = genv
    # wires in declaration order
    el.wires = [fl for fl in el.order if fl in drivers]
    # clocked blocks
    el.ff_lines = []
    el.ff_env = {}
    sens_all = []
    for sc, node in el.ff_blocks:
        st = node.find("sentree")
        sens = []
        for it in st:
            if it.tag != "senitem":
                refuse(f"<{it.tag}> in sensitivity list", it)
            et = it.get("edgeType")
            if et not in ("POS", "NEG"):
                refuse(f"sensitivity edge type '{et}'", it)
            kids = list(it)
            if len(kids) != 1 or kids[0].tag != "varref":
                refuse("sensitivity item that is not a plain signal", it)
            fl = sc.flat(kids[0].get("name"))
            fl = el.alias_in.get(fl, fl)
            if el.vars.get(fl, {}).get("kind") != "input":
                refuse(f"clock/reset '{fl}' is not (tied directly to) a top-level input", it)
            sens.append((et, fl))
        sens_all.append(sens)
        cx = Ctx(el, sc, "ff", None)
        env = {}
        body = [c for c in node if c.tag != "sentree"]
        cx.stmts(body, env)
        for fl in env:
            if fl in el.ff_env:
                refuse(f"register '{fl}' assigned in two clocked blocks", node)
        el.ff_env.update(env)
        el.ff_lines.append(f"  -- always @({' or '.join(e.lower() + 'edge ' + s for e, s in sens)})")
        el.ff_lines += cx.lines
    for s in sens_all[1:]:
        if s != sens_all[0]:
            refuse("clocked blocks with differing sensitivity lists: " + repr(sens_all))
    el.sens = sens_all[0] if sens_all else []
    el.regs = [fl for fl in el.order if fl in el.regs]
    el.inputs = [fl for fl in el.order if el.vars[fl]["kind"] == "input"]
    # every declared variable must be accounted for
    for fl in el.order:
        v = el.vars[fl]
        if v["kind"] == "var" and fl not in drivers and fl not in el.regs:
            v["undriven"] = True
    return el


def emit_module(el, ns, title):
    L = []
    L.append(f"namespace {ns}")
    L.append(f"/-! {title} -/")
    L.append("")
    L.append("structure X where")
    for k in range(el.xcount):
        L.append(f"  x{k} : BitVec 1")
    L.append("")
    L.append("structure In where")
    for fl in el.inputs:
        L.append(f"  {ident(fl)} : {lean_ty(el.vars[fl]['ty'])}")
    L.append("")
    L.append("structure Regs where")
    for fl in el.regs:
        L.append(f"  {ident(fl)} : {lean_ty(el.vars[fl]['ty'])}")
    L.append("")
    L.append("structure Wires where")
    for fl in el.wires:
        L.append(f"  {ident(fl)} : {lean_ty(el.vars[fl]['ty'])}")
    L.append("")
    und = [fl for fl in el.order if el.vars[fl].get("undriven")]
    if und:
        L.append("-- declared but neither driven nor read: " + ", ".join(und))
    L.append("def comb (x : X) (i : In) (r : Regs) : Wires :=")
    L += el.comb_lines
    L.append("  { " + ", ".join(f"{ident(fl)} := {el.genv[fl]}" for fl in el.wires) + " }")
    L.append("")
    L.append("def ff (x : X) (i : In) (r : Regs) : Regs :=")
    L.append("  let w := comb x i r")
    L += el.ff_lines
    L.append("  { " + ", ".join(f"{ident(fl)} := {el.ff_env.get(fl, 'r.' + ident(fl))}" for fl in el.regs) + " }")
    L.append("")
    L.append("/-- Sensitivity list shared by every clocked block. -/")
    L.append("def sens : List (String × String) := [" +
             ", ".join(f'("{e}", "{s}")' for e, s in el.sens) + "]")
    L.append("def outputs : List String := [" + ", ".join(f'"{o}"' for o in el.outputs) + "]")
    L.append("def inputNames : List String := [" + ", ".join(f'"{o}"' for o in el.inputs) + "]")
    L.append("def regNames : List String := [" + ", ".join(f'"{o}"' for o in el.regs) + "]")
    L.append("")
    L.append(f"end {ns}")
    L.append("")
    return L


class Design:
    def __init__(self, xmlpath):
        root = ET.parse(xmlpath).getroot()
        nl = root.find("netlist")
        self.mods = {}
        for m in nl:
            if m.tag == "module":
                self.mods[m.get("name")] = m
            elif m.tag in ("package", "typetable"):
                pass
            else:
                refuse(f"netlist item <{m.tag}>", m)
        self.types = Types(nl.find("typetable"))


HEADER = """/-
  GENERATED by translator/sv2lean.py from {srcs}
  (Verilator {ver} --xml-only -O0).  DO NOT EDIT: regenerated from $HEX_REPO on every check run.
-/
import HexVerif.Rtl.Prelude
set_option linter.unusedVariables false
"""


def translate_xml(xmlpath, ns, emits, flat, srcs, ver):
    d = Design(xmlpath)
    out = [HEADER.format(srcs=srcs, ver=ver)]
    for mod, name in emits:
        el = elaborate(d, mod, False)
        out += emit_module(el, f"{ns}.{name}", f"module `{mod}` stand-alone (inputs free)")
    if flat:
        top, name = flat
        el = elaborate(d, top, True)
        out += emit_module(el, f"{ns}.{name}", f"module `{top}` with every instance inlined (flattened)")
    return "\n".join(out)


def run_verilator(files, top, workdir, lenient):
    cmd = ["verilator", "--xml-only", "-O0", "--top-module", top, "-Mdir", workdir]
    # lint warnings never stop the translation (the AST is width-resolved either way); errors do
    cmd += ["-Wno-fatal"]
    if lenient:
        cmd += ["-Wno-WIDTH"]
    cmd += files
    r = subprocess.run(cmd, stdout=subprocess.PIPE, stderr=subprocess.STDOUT, text=True)
    if r.returncode != 0:
        raise Refuse("verilator front end rejects the source: " + r.stdout.strip()[-1500:])
    return os.path.join(workdir, f"V{top}.xml")


def verilator_version():
    try:
        r = subprocess.run(["verilator", "--version"], stdout=subprocess.PIPE, text=True)
        return r.stdout.split()[1]
    except Exception:
        return "?"


def regenerate(repo, outdir, work):
    vdir = os.path.join(repo, "verilog")
    common = [os.path.join(vdir, "hex_pkg.sv"), os.path.join(vdir, "hex.sv")]
    mem = os.path.join(vdir, "memory.sv")
    designs = [
        ("Sv", os.path.join(vdir, "processor.sv"), False),
        ("V", os.path.join(vdir, "processor.v"), True),
        ("SynthV", os.path.join(repo, "synth", "processor.v"), True),
    ]
    ver = verilator_version()
    os.makedirs(outdir, exist_ok=True)
    results = {}
    for name, proc, lenient in designs:
        for f in common + [proc, mem]:
            if not os.path.exists(f):
                raise Refuse(f"source file missing: {f}")
        wd = os.path.join(work, name)
        os.makedirs(wd, exist_ok=True)
        xmlp = run_verilator(common + [proc, mem], "hex", wd, lenient)
        rel = ", ".join(os.path.relpath(f, repo) for f in common + [proc, mem])
        try:
            text = translate_xml(xmlp, f"Hex.Rtl.Gen.{name}", [("processor", "Processor"), ("memory", "Memory")],
                                 ("hex", "Hex"), rel, ver)
        except Refuse as e:
            raise Refuse(f"[{name}: {os.path.relpath(proc, repo)}] {e}")
        path = os.path.join(outdir, name + ".lean")
        old = open(path).read() if os.path.exists(path) else None
        if old != text:
            with open(path, "w") as f:
                f.write(text)
        results[name] = {"file": path, "changed": old != text}
    return results


def main():
    ap = argparse.ArgumentParser()
    ap.add_argument("--repo")
    ap.add_argument("--out")
    ap.add_argument("--work")
    ap.add_argument("--xml")
    ap.add_argument("--top")
    ap.add_argument("--ns", default="Hex.Rtl.Gen.Test")
    ap.add_argument("--emit", default="")
    ap.add_argument("--flat", default="")
    ap.add_argument("-o")
    a = ap.parse_args()
    try:
        if a.xml:
            emits = [tuple(p.split(":")) for p in a.emit.split(",") if p]
            flat = (a.top, a.flat) if a.flat else None
            text = translate_xml(a.xml, a.ns, emits, flat, a.xml, verilator_version())
            if a.o:
                open(a.o, "w").write(text)
            else:
                sys.stdout.write(text)
            return 0
        work = a.work or tempfile.mkdtemp(prefix="sv2lean-")
        try:
            res = regenerate(a.repo, a.out, work)
        finally:
            if not a.work:
                shutil.rmtree(work, ignore_errors=True)
        for k, v in res.items():
            print(f"generated {v['file']}" + (" (changed)" if v["changed"] else " (unchanged)"))
        return 0
    except Refuse as e:
        print(f"REFUSED: {e}")
        return 3


if __name__ == "__main__":
    sys.exit(main())
