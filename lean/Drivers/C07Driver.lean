import HexVerif.Xcmp.ConstFold
import Drivers.Util
/-!
  Line-protocol driver for the model of xcmp's constant folding / generated-code values (C07).

  input : `<env: - or comma separated hex words>|<tree>`
          tree = (num H) | (leaf I) | (un neg|not t) | (bin plus|minus|eq|ne|ls|le|gr|ge|and|or t t)
  output: `const=<hex|none> code=<hex> run=<hex> d23=<0|1> bool=<0|1>`
          const = annotation ConstProp computes (value of `val v = tree`), code = value of the code
          generated after folding and rewriting, run = value with every operator evaluated at run time,
          d23 = the tree contains an ordering comparison of two constant operands whose difference
          overflows (finding D23), bool = every operand of and/or/~ is Boolean-valued at run time.
-/
open Hex Hex.Xcmp Hex.Drv Hex.X

inductive SExp where
  | atom (s : String)
  | list (xs : List SExp)
  deriving Inhabited

def tokenize (s : String) : List String := Id.run do
  let mut toks : Array String := #[]
  let mut cur : String := ""
  for c in s.toList do
    if c == '(' || c == ')' then
      if !cur.isEmpty then toks := toks.push cur; cur := ""
      toks := toks.push (String.singleton c)
    else if c == ' ' then
      if !cur.isEmpty then toks := toks.push cur; cur := ""
    else cur := cur.push c
  if !cur.isEmpty then toks := toks.push cur
  return toks.toList

mutual
partial def parseSExp : List String → Option (SExp × List String)
  | "(" :: rest => match parseList rest [] with
    | some (xs, rest') => some (.list xs, rest')
    | none => none
  | ")" :: _ => none
  | a :: rest => some (.atom a, rest)
  | [] => none
partial def parseList : List String → List SExp → Option (List SExp × List String)
  | ")" :: rest, acc => some (acc.reverse, rest)
  | [], _ => none
  | toks, acc => match parseSExp toks with
    | some (x, rest) => parseList rest (x :: acc)
    | none => none
end

def binOpOf : String → Option BinOp
  | "plus" => some .plus | "minus" => some .minus | "eq" => some .eq | "ne" => some .ne
  | "ls" => some .ls | "le" => some .le | "gr" => some .gr | "ge" => some .ge
  | "and" => some .and | "or" => some .or | _ => none

partial def toCExpr : SExp → Option CExpr
  | .list [.atom "num", .atom h] => some (.num (word h))
  | .list [.atom "leaf", .atom i] => some (.leaf i.toNat!)
  | .list [.atom "un", .atom "neg", e] => (toCExpr e).map (.un .neg)
  | .list [.atom "un", .atom "not", e] => (toCExpr e).map (.un .not)
  | .list [.atom "bin", .atom op, l, r] =>
    match binOpOf op, toCExpr l, toCExpr r with
    | some o, some a, some b => some (.bin o a b)
    | _, _, _ => none
  | _ => none

def fits (a b : Word) : Bool := decide (DiffFits a b)

/-- Finding D23 as a predicate on the input: a folded ordering comparison with overflowing difference. -/
def hasD23 : CExpr → Bool
  | .num _ | .leaf _ => false
  | .un _ e => hasD23 e
  | .bin op l r =>
    hasD23 l || hasD23 r ||
    (ordering op && match constVal l, constVal r with
      | some a, some b => !(fits a b && fits b a)
      | _, _ => false)

def isB (w : Word) : Bool := w == 0 || w == 1

/-- Boolean typing of the operands of and/or/~ (the property's restriction), by run-time values. -/
def boolTyped (ρ : Nat → Word) : CExpr → Bool
  | .num _ | .leaf _ => true
  | .un .not e => boolTyped ρ e && isB (runVal ρ e)
  | .un .neg e => boolTyped ρ e
  | .bin op l r =>
    boolTyped ρ l && boolTyped ρ r && (!logical op || (isB (runVal ρ l) && isB (runVal ρ r)))

def handle (line : String) : String :=
  match line.splitOn "|" with
  | [env, tree] =>
    let vals : Array Word := if env = "-" then #[] else ((env.splitOn ",").map word).toArray
    let ρ : Nat → Word := fun i => vals.getD i 0
    match parseSExp (tokenize tree) with
    | some (x, []) =>
      match toCExpr x with
      | some e =>
        let c := match constVal e with | some v => natToHex v.toNat | none => "none"
        s!"const={c} code={natToHex (codeVal ρ e).toNat} run={natToHex (runVal ρ e).toNat} d23={if hasD23 e then 1 else 0} bool={if boolTyped ρ e then 1 else 0}"
      | none => "bad-input tree"
    | _ => "bad-input sexp"
  | _ => "bad-input fields"

def main : IO Unit := do
  let stdin ← IO.getStdin
  let stdout ← IO.getStdout
  readLines stdin fun l => do
    stdout.putStrLn (handle l)
    stdout.flush
