import HexVerif.Asm.Check
import HexVerif.Isa.Spec
import HexVerif.Sim.Model
import Drivers.Util
/-! Line-protocol driver for the hexasm model; mirrors harness/h_asm.cpp. -/
open Hex Hex.Asm Hex.Drv

def le32 (bs : List Byte) : Word :=
  match bs with
  | a :: b :: c :: d :: _ => wordOfBytes a b c d
  | _ => 0


def strBytes (s : String) : List Byte := s.toUTF8.toList.map fun b => BitVec.ofNat 8 b.toNat

def padRight (s : String) (n : Nat) : String := s ++ String.ofList (List.replicate (n - s.length) ' ')

def hex8 (n : Nat) : String :=
  -- boost::format("%#08x"): "0x" prefix, zero padded to width 8; zero prints as 00000000
  if n = 0 then "00000000" else
  let ds := String.ofList (Nat.toDigits 16 n)
  "0x" ++ String.ofList (List.replicate (6 - ds.length) '0') ++ ds

def listingText (l : List (Nat × String × Nat)) : String :=
  let lines := l.map fun (o, t, s) => s!"{hex8 o} {padRight t 20} ({s} bytes)\n"
  let total := l.foldl (fun acc e => acc + e.2.2) 0
  String.join lines ++ s!"{total} bytes\n"

def diagText : Diag → String
  | .unrecognisedToken loc _ => s!"diag UnrecognisedTokenError line {loc.line}:{loc.col}"
  | .unexpectedToken loc _ => s!"diag UnexpectedTokenError line {loc.line}:{loc.col}"
  | .invalidOpr loc _ => s!"diag InvalidOprError line {loc.line}:{loc.col}"
  | .unknownLabel loc _ => s!"diag UnknownLabelError line {loc.line}:{loc.col}"
  | .unalignedLabel loc _ => s!"diag UnalignedLabelError line {loc.line}:{loc.col}"

def tokText (ts : List LTok) : String :=
  String.join (ts.map fun t =>
    match t.tok with
    | .IDENTIFIER => s!"IDENTIFIER {t.ident}\n"
    | .NUMBER => s!"NUMBER {t.value}\n"
    | .END_OF_FILE => "EOF\n"
    | k => k.str ++ "\n")

/-- Decode the image from byte offset `pc` with a clear operand register: returns the opcode,
    the operand delivered and the address after the instruction (the C04/C05 oracle, evaluated
    with the ISA's own PFIX/NFIX rules on bytes the REAL assembler produced). -/
def decodeAt (img : Array Byte) (pc : Nat) : Option (Nat × Word × Nat) := Id.run do
  let mut o : Word := 0
  let mut p := pc
  for _ in [0:9] do
    if h : p < img.size then
      let b := img[p]
      let opc := (b >>> 4).toNat
      o := o ||| (b &&& 0xF).zeroExtend 32
      p := p + 1
      if opc = 0xE then o := o <<< 4
      else if opc = 0xF then o := 0xFFFFFF00 ||| (o <<< 4)
      else return some (opc, o, p)
    else return none
  return none

def bytesStr (bs : List Byte) : String := String.ofList (bs.map fun b => Char.ofNat b.toNat)

/-- Parse one line of `emitProgramText` output back into (offset, text, size). -/
def parseListingLine (l : String) : Option (Nat × String × Nat) :=
  match l.splitOn " " with
  | offS :: _ =>
    let off := if offS.startsWith "0x" then hexToNat (offS.drop 2).toString else hexToNat offS
    let body := (l.drop (offS.length + 1)).toString
    match (body.splitOn "(").reverse with
    | last :: revInit =>
      let text := ("(".intercalate revInit.reverse).trimAsciiEnd.toString
      let size := ((last.splitOn " ").headD "0").toNat!
      some (off, text, size)
    | [] => none
  | [] => none

def parseListing (txt : String) : List (Nat × String × Nat) :=
  let lines := (txt.splitOn "\n").filter (fun l => !l.isEmpty)
  -- the last line is the "<n> bytes" total, the one before it the PADDING line
  (lines.dropLast.filterMap parseListingLine)

def handle (line : String) : String :=
  match line.splitOn " " with
  | ["tok", src] => "tok " ++ tohex (strBytes (tokText (tokenize (unhex src))))
  | ["asm", src] =>
    match Asm.run (unhex src) with
    | .diag d => diagText d
    | .fuel => "model-out-of-fuel"
    | .ok img p => s!"ok {tohex (fileBytes img)} {tohex (strBytes (listingText (listing p img)))}"
  | ["check", src, file, lst] =>
    -- the ORACLE on artefacts produced by the real assembler
    match parseProgram (tokenize (unhex src)) with
    | .error _ => "chk unparsable"
    | .ok p =>
      let dirs := p.map (·.1)
      let fileB := unhex file
      let image := (fileB.drop 4)
      let hdr := (le32 fileB).toNat
      let img := image.take (4 * hdr)
      let l := parseListing (bytesStr (unhex lst))
      -- drop the trailing PADDING line
      let l' := l.dropLast
      s!"chk image={checkImage dirs img} header={checkHeader fileB && decide (4 * hdr ≤ image.length)} listing={checkListing dirs img l'}"
  | ["check04", opc, v, file] =>
    -- C04 oracle: the image is exactly one instruction `opc` delivering `v` (mod 2^32)
    let fileB := unhex file
    let hdr := (le32 fileB).toNat
    let img := (fileB.drop 4).take (4 * hdr)
    let vi : Int := (BitVec.ofNat 32 (hexToNat v)).toInt
    s!"chk image={checkImage [.imm (hexToNat opc) vi] img} header={checkHeader fileB}"
  | ["check15", src, file] =>
    -- C15 oracle on the REAL file: the debug section lists every FUNC/PROC once, in order, with
    -- the offset at which the ISA walk over the real image reaches the label
    match parseProgram (tokenize (unhex src)) with
    | .error _ => "chk unparsable"
    | .ok p =>
      let dirs := p.map (·.1)
      let fileB := unhex file
      let hdr := (le32 fileB).toNat
      let img := (fileB.drop 4).take (4 * hdr)
      let dbg := (fileB.drop 4).drop (4 * hdr)
      match Hex.Sim.loadParts Mem.zero fileB with
      | none => "chk symbols=false (table unreadable)"
      | some (_, tbl) =>
        -- expected: labels of kind func/proc with the position of the walk
        let rec go (ds : List Dir) (pos : Nat) (bs : List Byte) (fuel : Nat) : List (String × Nat) :=
          match fuel, ds with
          | 0, _ => []
          | _, [] => []
          | fuel + 1, d :: rest =>
            match d with
            | .label k n => (if k = .plain then [] else [(n, pos)]) ++ go rest pos bs fuel
            | .data _ => let pad := align4 pos - pos; go rest (pos + pad + 4) (bs.drop (pad + 4)) fuel
            | .opr _ => go rest (pos + 1) (bs.drop 1) fuel
            | _ => match decodeInstr bs with
                   | some (_, _, n, bs') => go rest (pos + n) bs' fuel
                   | none => []
        let expect := go dirs 0 img (dirs.length + 1)
        let got := tbl.map fun e => (e.1, e.2.toNat)
        s!"chk symbols={decide (expect = got)} n={got.length} dbgbytes={dbg.length}"
  | ["decode", img, pc] =>
    -- oracle: decode real bytes
    match decodeAt (unhex img).toArray (hexToNat pc) with
    | some (opc, o, p) => s!"dec {natToHex opc} {natToHex o.toNat} {natToHex p}"
    | none => "dec none"
  | _ => "bad-op"

def main : IO Unit := do
  let stdin ← IO.getStdin
  let stdout ← IO.getStdout
  readLines stdin fun l => do
    stdout.putStrLn (handle l)
    stdout.flush
