import HexVerif.Xcmp.AstPrint
import HexVerif.Properties.C09
import Drivers.Util
/-!
  Line-protocol driver for the model of xcmp's front end (C09, C11).
    lex <srchex>    -> `tok <hex of the text xcmp --tokens prints>` | `diag <Class> line_L:C`
    run <srchex>    -> the whole compiler model `Xcmp.runSrc` (C09_pipeline_partial): `image <hex of the file>` |
                       `front` | `compile <exception class>` | `anomaly <what>`
    parse <srchex>  -> `tree <hex of the undecorated --tree text> nl=<0|1>` | `diag <Class> line_L:C` | `fuel`
-/
open Hex Hex.Xcmp Hex.Drv

def locStr (l : Loc) : String := s!"line_{l.line}:{l.col}"

def lexErrStr (e : LexErr) : String :=
  (match e.kind with | .charConst => "diag CharConstError " | .token => "diag TokenError ") ++ locStr e.loc

/-! A string literal containing a line break makes the listing ambiguous for a line-based reader: the
    tie skips the tree comparison for such programs (`nl=1`). -/
mutual
def exprNl : X.Expr → Bool
  | .str bs => bs.any fun b => b = 10 || b = 13
  | .sub _ i => exprNl i
  | .call _ args => exprsNl args
  | .syscall _ args => exprsNl args
  | .un _ e => exprNl e
  | .bin _ l r => exprNl l || exprNl r
  | _ => false
def exprsNl : List X.Expr → Bool
  | [] => false
  | e :: es => exprNl e || exprsNl es
end

mutual
def stmtNl : X.Stmt → Bool
  | .ret e => exprNl e
  | .ite c t e => exprNl c || stmtNl t || stmtNl e
  | .while c b => exprNl c || stmtNl b
  | .seq ss => stmtsNl ss
  | .assign _ e => exprNl e
  | .assignSub _ i e => exprNl i || exprNl e
  | .call _ args => exprsNl args
  | .syscall _ args => exprsNl args
  | _ => false
def stmtsNl : List X.Stmt → Bool
  | [] => false
  | s :: ss => stmtNl s || stmtsNl ss
end

def declNl : X.Decl → Bool
  | .val _ e => exprNl e
  | .array _ e => exprNl e
  | _ => false

def progNl (P : X.Program) : Bool :=
  P.globals.any declNl || P.procs.any fun p => p.locals.any declNl || stmtNl p.body

def handle (line : String) : String :=
  match line.splitOn " " with
  | ["lex", src] =>
    match tokensOutput (unhex src) with
    | .ok bs => "tok " ++ tohex bs
    | .error e => lexErrStr e
  | ["parse", src] =>
    match Xcmp.parse (unhex src) with
    | .ok P => "tree " ++ tohex (printProgram P) ++ (if progNl P then " nl=1" else " nl=0")
    | .error .fuel => "fuel"
    | .error (.fault w) => "fault " ++ w
    | .error (.diag d) =>
      let cls := match d.kind with
        | .charConst => "CharConstError" | .token => "TokenError" | .unexpectedToken => "UnexpectedTokenError"
        | .expectedName => "ExpectedNameError" | .parserToken => "ParserTokenError"
      s!"diag {cls} {locStr d.loc}"
  | ["run", src] =>
    match Xcmp.runSrc (unhex src) with
    | .image bs => "image " ++ tohex bs
    | .frontDiag _ => "front"
    | .compileDiag d => "compile " ++ d.className
    | .anomaly w => "anomaly " ++ w.replace " " "_"
  | _ => "bad-op"

def main : IO Unit := do
  let stdin ← IO.getStdin
  let stdout ← IO.getStdout
  readLines stdin fun l => do
    stdout.putStrLn (handle l)
    stdout.flush
