import HexVerif.X.Sem
import HexVerif.X.SemTrace
import Drivers.Util
/-!
  Line-protocol driver for the X reference semantics (`X.run`); mirrors harness/h_xcmp.cpp.

  input : `<fuel>|<stdin hex or ->|<files: - or k=hex;k=hex>|<program as s-expression>`
  output: `ok exit=<hex> out=<hex|-> in=<consumed> files=<-|k=hex;..> end=<return|exit> calls=<a,b,..>`
        | `undefined <reason>` | `bad-input <why>`

  S-expression syntax of programs (what runner/gen_x.py serialises):
    prog   = (prog (decl*) (proc*))
    decl   = (val N e) | (var N) | (array N e)
    proc   = (proc N (formal*) (decl*) s) | (func N (formal*) (decl*) s)
    formal = (val N) | (array N) | (proc N) | (func N)
    s      = (skip) | (stop) | (ret e) | (if e s s) | (while e s) | (seq s+) | (assign N e)
           | (assignsub N e e) | (call N e*) | (syscall K e*)
    e      = (num K) | (bool 0|1) | (str HEX|-) | (name N) | (sub N e) | (call N e*) | (syscall K e*)
           | (un neg|not e) | (bin plus|minus|eq|ne|ls|le|gr|ge|and|or e e)
-/
open Hex Hex.X Hex.Drv

inductive SExp where
  | atom (s : String)
  | list (xs : List SExp)
  deriving Inhabited

def tokenize (s : String) : List String := Id.run do
  let mut toks : Array String := #[]
  let mut cur : String := ""
  for c in s.toList do
    if c == '(' || c == ')' then
      if !cur.isEmpty then toks := toks.push cur; cur := ""
      toks := toks.push (String.singleton c)
    else if c == ' ' then
      if !cur.isEmpty then toks := toks.push cur; cur := ""
    else cur := cur.push c
  if !cur.isEmpty then toks := toks.push cur
  return toks.toList

mutual
partial def parseSExp : List String → Option (SExp × List String)
  | "(" :: rest => match parseList rest [] with
    | some (xs, rest') => some (.list xs, rest')
    | none => none
  | ")" :: _ => none
  | a :: rest => some (.atom a, rest)
  | [] => none
partial def parseList : List String → List SExp → Option (List SExp × List String)
  | ")" :: rest, acc => some (acc.reverse, rest)
  | [], _ => none
  | toks, acc => match parseSExp toks with
    | some (x, rest) => parseList rest (x :: acc)
    | none => none
end

def binOpOf : String → Option BinOp
  | "plus" => some .plus | "minus" => some .minus | "eq" => some .eq | "ne" => some .ne
  | "ls" => some .ls | "le" => some .le | "gr" => some .gr | "ge" => some .ge
  | "and" => some .and | "or" => some .or | _ => none

partial def toExpr : SExp → Except String Expr
  | .list [.atom "num", .atom k] => .ok (.num (BitVec.ofNat 32 k.toNat!))
  | .list [.atom "bool", .atom k] => .ok (.bool (k == "1"))
  | .list [.atom "str", .atom h] => .ok (.str (unhex h))
  | .list [.atom "name", .atom n] => .ok (.name n)
  | .list [.atom "sub", .atom n, i] => do .ok (.sub n (← toExpr i))
  | .list (.atom "call" :: .atom f :: args) => do .ok (.call f (← args.mapM toExpr))
  | .list (.atom "syscall" :: .atom k :: args) => do .ok (.syscall k.toNat! (← args.mapM toExpr))
  | .list [.atom "un", .atom "neg", e] => do .ok (.un .neg (← toExpr e))
  | .list [.atom "un", .atom "not", e] => do .ok (.un .not (← toExpr e))
  | .list [.atom "bin", .atom op, l, r] => do
    match binOpOf op with
    | some o => .ok (.bin o (← toExpr l) (← toExpr r))
    | none => .error ("bad operator " ++ op)
  | _ => .error "bad expression"

partial def toStmt : SExp → Except String Stmt
  | .list [.atom "skip"] => .ok .skip
  | .list [.atom "stop"] => .ok .stop
  | .list [.atom "ret", e] => do .ok (.ret (← toExpr e))
  | .list [.atom "if", c, t, e] => do .ok (.ite (← toExpr c) (← toStmt t) (← toStmt e))
  | .list [.atom "while", c, b] => do .ok (.while (← toExpr c) (← toStmt b))
  | .list (.atom "seq" :: ss) => do .ok (.seq (← ss.mapM toStmt))
  | .list [.atom "assign", .atom n, e] => do .ok (.assign n (← toExpr e))
  | .list [.atom "assignsub", .atom n, i, e] => do .ok (.assignSub n (← toExpr i) (← toExpr e))
  | .list (.atom "call" :: .atom f :: args) => do .ok (.call f (← args.mapM toExpr))
  | .list (.atom "syscall" :: .atom k :: args) => do .ok (.syscall k.toNat! (← args.mapM toExpr))
  | _ => .error "bad statement"

def toDecl : SExp → Except String Decl
  | .list [.atom "val", .atom n, e] => do .ok (.val n (← toExpr e))
  | .list [.atom "var", .atom n] => .ok (.var n)
  | .list [.atom "array", .atom n, e] => do .ok (.array n (← toExpr e))
  | _ => .error "bad declaration"

def toFormal : SExp → Except String Formal
  | .list [.atom "val", .atom n] => .ok (.val n)
  | .list [.atom "array", .atom n] => .ok (.array n)
  | .list [.atom "proc", .atom n] => .ok (.proc n)
  | .list [.atom "func", .atom n] => .ok (.func n)
  | _ => .error "bad formal"

def toProc : SExp → Except String Proc
  | .list [.atom kind, .atom n, .list fs, .list ds, body] => do
    if kind != "proc" && kind != "func" then throw "bad procedure"
    .ok { isFunc := kind == "func", name := n, formals := ← fs.mapM toFormal,
          locals := ← ds.mapM toDecl, body := ← toStmt body }
  | _ => .error "bad procedure"

def toProgram : SExp → Except String Program
  | .list [.atom "prog", .list gs, .list ps] => do
    .ok { globals := ← gs.mapM toDecl, procs := ← ps.mapM toProc }
  | _ => .error "bad program"

def parseProgram (s : String) : Except String Program :=
  match parseSExp (tokenize s) with
  | some (x, []) => toProgram x
  | some (_, _) => .error "trailing tokens"
  | none => .error "unbalanced s-expression"

def parseFiles (spec : String) : Fin 8 → List Byte :=
  if spec = "-" then fun _ => [] else
  let entries := (spec.splitOn ";").filterMap fun kv =>
    match kv.splitOn "=" with
    | [k, v] => some (k.toNat!, unhex v)
    | _ => none
  fun j => match entries.find? (fun e => e.1 = j.val) with
    | some e => e.2
    | none => []

def fmtBehaviour (b : Behaviour) : String :=
  let out := b.events.filterMap fun e => match e with | .out none x => some x | _ => none
  let files := (List.finRange 8).filterMap fun k =>
    let bs := b.events.filterMap fun e => match e with
      | .out (some j) x => if j = k then some x else none
      | _ => none
    if bs.isEmpty then none else some (toString k.val ++ "=" ++ tohex bs)
  let fs := if files.isEmpty then "-" else ";".intercalate files
  s!"ok exit={natToHex b.exit.toNat} out={tohex out} in={b.stdinConsumed} files={fs} end={if b.returned then "return" else "exit"} calls={",".intercalate b.calls}"

def handle (line : String) : String :=
  match line.splitOn "|" with
  | [fuel, stdin, files, prog] =>
    match parseProgram prog with
    | .error w => "bad-input " ++ w
    | .ok P =>
      match X.run P { stdin := unhex stdin, files := parseFiles files } fuel.toNat! with
      | .defined b =>
        -- the call tree comes from the instrumented copy (X/SemTrace.lean); its plain observations must
        -- coincide with those of the reference semantics proper
        let (ctree, chk) :=
          match XT.run P { stdin := unhex stdin, files := parseFiles files } fuel.toNat! with
          | .defined t =>
            (",".intercalate t.callTree,
             if t.exit = b.exit && t.calls == b.calls && t.stdinConsumed == b.stdinConsumed && t.returned == b.returned
                && t.events.length == b.events.length then "ok" else "DIFF")
          | .undefined _ => ("", "DIFF")
        fmtBehaviour b ++ s!" ctree={ctree} tracecheck={chk}"
      | .undefined why => "undefined " ++ why
  | _ => "bad-input fields"

def main : IO Unit := do
  let stdin ← IO.getStdin
  let stdout ← IO.getStdout
  readLines stdin fun l => do
    stdout.putStrLn (handle l)
    stdout.flush
