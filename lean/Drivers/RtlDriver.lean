import HexVerif.Rtl.Sem
import Drivers.Util
/-!
  Line-protocol driver that EXECUTES the generated RTL models (Rtl/Gen/*.lean).  Same input lines
  and output format as harness/h_rtl.cpp.  (The ISA oracle is a separate executable,
  Drivers/RtlOracle.lean, which does not depend on the generated files.)

    rtldriver sv            generated model of hex.sv + processor.sv + memory.sv
    rtldriver v  <x>        ... with verilog/processor.v; every 1'bx constant = <x> (0 or 1)
    rtldriver synthv <x>    ... with synth/processor.v
-/
open Hex Hex.Drv Hex.Rtl Hex.Rtl.Gen

abbrev MemF := BitVec 19 → Word

/-- What one clock shows. -/
structure Obs where
  pc : Nat
  a : Nat
  b : Nat
  o : Nat
  sv : Nat
  sc : Nat
  f : Nat
  dv : Nat
  we : Nat
  da : Nat
  dd : Nat
  mem : MemF

/-- A design as the driver sees it: reset event and clock event on (pc,a,b,o,mem). -/
structure Design where
  clock : BitVec 21 → Word → Word → Word → MemF → Obs
  reset : BitVec 21 → Word → Word → Word → MemF → (BitVec 21 × Word × Word × Word × MemF)

def svDesign : Design where
  clock pc a b o m :=
    let r : Sv.Hex.Regs := ⟨pc, a, b, o, m⟩
    let w := Sv.Hex.comb ⟨⟩ { i_clk := 0, i_rst := 0 } r
    let n := Sv.Hex.ff ⟨⟩ { i_clk := 1, i_rst := 0 } r
    { pc := n.u_processor__pc_q.toNat, a := n.u_processor__areg_q.toNat, b := n.u_processor__breg_q.toNat,
      o := n.u_processor__oreg_q.toNat, sv := w.o_syscall_valid.toNat, sc := w.o_syscall.toNat,
      f := w.u_processor__instr.toNat, dv := w.req_d_valid.toNat, we := w.req_d_we.toNat,
      da := w.req_d_addr.toNat, dd := w.req_d_data.toNat, mem := n.u_memory__memory_q }
  reset pc a b o m :=
    let n := Sv.Hex.ff ⟨⟩ { i_clk := 1, i_rst := 1 } ⟨pc, a, b, o, m⟩
    (n.u_processor__pc_q, n.u_processor__areg_q, n.u_processor__breg_q, n.u_processor__oreg_q, n.u_memory__memory_q)

def vDesign (x : BitVec 1) : Design where
  clock pc a b o m :=
    let xs : V.Hex.X := ⟨x, x, x, x, x, x, x, x⟩
    let r : V.Hex.Regs := ⟨pc, a, b, o, m⟩
    let w := V.Hex.comb xs { i_clk := 0, i_rst := 0 } r
    let n := V.Hex.ff xs { i_clk := 1, i_rst := 0 } r
    { pc := n.u_processor__pc_q.toNat, a := n.u_processor__areg_q.toNat, b := n.u_processor__breg_q.toNat,
      o := n.u_processor__oreg_q.toNat, sv := w.o_syscall_valid.toNat, sc := w.o_syscall.toNat,
      f := w.u_processor__instr.toNat, dv := w.req_d_valid.toNat, we := w.req_d_we.toNat,
      da := w.req_d_addr.toNat, dd := w.req_d_data.toNat, mem := n.u_memory__memory_q }
  reset pc a b o m :=
    let xs : V.Hex.X := ⟨x, x, x, x, x, x, x, x⟩
    let n := V.Hex.ff xs { i_clk := 1, i_rst := 1 } ⟨pc, a, b, o, m⟩
    (n.u_processor__pc_q, n.u_processor__areg_q, n.u_processor__breg_q, n.u_processor__oreg_q, n.u_memory__memory_q)

def synthDesign (x : BitVec 1) : Design where
  clock pc a b o m :=
    let xs : SynthV.Hex.X := ⟨x, x, x, x, x, x, x, x⟩
    let r : SynthV.Hex.Regs := ⟨pc, a, b, o, m⟩
    let w := SynthV.Hex.comb xs { i_clk := 0, i_rst := 0 } r
    let n := SynthV.Hex.ff xs { i_clk := 1, i_rst := 0 } r
    { pc := n.u_processor__pc_q.toNat, a := n.u_processor__areg_q.toNat, b := n.u_processor__breg_q.toNat,
      o := n.u_processor__oreg_q.toNat, sv := w.o_syscall_valid.toNat, sc := w.o_syscall.toNat,
      f := w.u_processor__instr.toNat, dv := w.req_d_valid.toNat, we := w.req_d_we.toNat,
      da := w.req_d_addr.toNat, dd := w.req_d_data.toNat, mem := n.u_memory__memory_q }
  reset pc a b o m :=
    let xs : SynthV.Hex.X := ⟨x, x, x, x, x, x, x, x⟩
    let n := SynthV.Hex.ff xs { i_clk := 1, i_rst := 1 } ⟨pc, a, b, o, m⟩
    (n.u_processor__pc_q, n.u_processor__areg_q, n.u_processor__breg_q, n.u_processor__oreg_q, n.u_memory__memory_q)

def parseSparse (s : String) : List (Nat × Word) :=
  if s = "-" then [] else
  (s.splitOn ",").filterMap fun kv =>
    match kv.splitOn "=" with
    | [k, v] => some (hexToNat k % 524288, word v)
    | _ => none

def memOfSparse (l : List (Nat × Word)) : MemF := fun k =>
  -- later entries win, as in the harness (planted in order)
  match l.reverse.find? (fun p => p.1 = k.toNat) with
  | some p => p.2
  | none => 0

def insertSorted (x : Nat) : List Nat → List Nat
  | [] => [x]
  | y :: ys => if x < y then x :: y :: ys else if x = y then y :: ys else y :: insertSorted x ys

def sortDedup (l : List Nat) : List Nat := l.foldl (fun acc x => insertSorted x acc) []

/-- `-` or `addr=val,...` for the candidate addresses whose word differs between `old` and `new`. -/
def diffAt (cands : List Nat) (old new : MemF) : String :=
  let parts := (sortDedup cands).filterMap fun k =>
    let kk := BitVec.ofNat 19 k
    if new kk != old kk then some (natToHex k ++ "=" ++ natToHex (new kk).toNat) else none
  if parts.isEmpty then "-" else ",".intercalate parts

def h (n : Nat) : String := natToHex n

def runRtl (d : Design) (line : String) : String :=
  match line.splitOn " " with
  | ["step", pc, a, b, o, mem] =>
    let sp := parseSparse mem
    let m := memOfSparse sp
    let ob := d.clock (BitVec.ofNat 21 (hexToNat pc)) (word a) (word b) (word o) m
    let mw := diffAt (ob.da :: sp.map (·.1)) m ob.mem
    s!"{h ob.pc} {h ob.a} {h ob.b} {h ob.o} {h ob.sv} {h ob.sc} {h ob.f} {h ob.dv} {h ob.we} {h ob.da} {h ob.dd} {mw}"
  | ["seq", n, mem] =>
    let sp := parseSparse mem
    let m0 := memOfSparse sp
    -- the harness produces two events with reset high (posedge i_rst, then posedge i_clk)
    let (pc1, a1, b1, o1, m1) := d.reset 0 0 0 0 m0
    let da0 := (d.clock 0 0 0 0 m0).da
    let (pc2, a2, b2, o2, m2) := d.reset pc1 a1 b1 o1 m1
    let da1 := (d.clock pc1 a1 b1 o1 m1).da
    let rst := diffAt (da0 :: da1 :: sp.map (·.1)) m0 m2
    let rec go (k : Nat) (pc : BitVec 21) (a b o : Word) (m : MemF) (acc : List String) : List String :=
      match k with
      | 0 => acc.reverse
      | k + 1 =>
        let ob := d.clock pc a b o m
        let mw := diffAt [ob.da] m ob.mem
        go k (BitVec.ofNat 21 ob.pc) (BitVec.ofNat 32 ob.a) (BitVec.ofNat 32 ob.b) (BitVec.ofNat 32 ob.o) ob.mem
          (s!"{h ob.pc} {h ob.a} {h ob.b} {h ob.o} {h ob.sv} {h ob.sc} {mw}" :: acc)
    "|".intercalate (("rst=" ++ rst) :: go n.toNat! pc2 a2 b2 o2 m2 [])
  | ["seq", n, mem, pw] =>
    let sp := parseSparse mem
    let m0 := memOfSparse sp
    -- the harness produces two events with reset high (posedge i_rst, then posedge i_clk)
    let (p0, pa, pb, po) := match pw.splitOn "," with
      | [x0, x1, x2, x3] => (BitVec.ofNat 21 (hexToNat x0), word x1, word x2, word x3)
      | _ => (0, 0, 0, 0)
    let (pc1, a1, b1, o1, m1) := d.reset p0 pa pb po m0
    let da0 := (d.clock p0 pa pb po m0).da
    let (pc2, a2, b2, o2, m2) := d.reset pc1 a1 b1 o1 m1
    let da1 := (d.clock pc1 a1 b1 o1 m1).da
    let rst := diffAt (da0 :: da1 :: sp.map (·.1)) m0 m2
    let rec goP (k : Nat) (pc : BitVec 21) (a b o : Word) (m : MemF) (acc : List String) : List String :=
      match k with
      | 0 => acc.reverse
      | k + 1 =>
        let ob := d.clock pc a b o m
        let mw := diffAt [ob.da] m ob.mem
        goP k (BitVec.ofNat 21 ob.pc) (BitVec.ofNat 32 ob.a) (BitVec.ofNat 32 ob.b) (BitVec.ofNat 32 ob.o) ob.mem
          (s!"{h ob.pc} {h ob.a} {h ob.b} {h ob.o} {h ob.sv} {h ob.sc} {mw}" :: acc)
    "|".intercalate (("rst=" ++ rst) :: goP n.toNat! pc2 a2 b2 o2 m2 [])
  | _ => "bad-op"

def main (args : List String) : IO Unit := do
  let stdin ← IO.getStdin
  let stdout ← IO.getStdout
  let xbit (l : List String) : BitVec 1 := match l with | "1" :: _ => 1#1 | _ => 0#1
  let f : String → String ← match args with
    | "sv" :: _ => pure (runRtl svDesign)
    | "v" :: r => pure (runRtl (vDesign (xbit r)))
    | "synthv" :: r => pure (runRtl (synthDesign (xbit r)))
    | _ => throw (IO.userError "usage: rtldriver sv|v <x>|synthv <x>")
  readLines stdin fun l => do
    stdout.putStrLn (f l)
    stdout.flush
