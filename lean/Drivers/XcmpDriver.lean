import HexVerif.Xcmp.Compile
import HexVerif.Lemmas.XcmpV1
import HexVerif.Lemmas.XcmpV2
import HexVerif.Lemmas.IsaAccess
import HexVerif.Properties.C09
import HexVerif.Lemmas.SimLoadFile
import Drivers.Util
/-!
  Line-protocol driver for the Lean model of xcmp (`Xcmp.stages`, `Xcmp.compile`); mirrors
  harness/h_xcmp2.cpp.

  input : `<program as s-expression>` (the syntax of Drivers/XSemDriver.lean, whose reader is
          copied below)
  output: `I=<x> L=<x> O=<x> S=<x> B=<x>`: the intermediate, lowered and optimised directive
          listings, the assembly listing and the binary file, each as hex of the emitted bytes
          ("-" when empty) or `!<exception class>`; then `V=<x>`: `-` when the program is outside the
          class V1 (`C01s.isV1`), else 1/0 = the reflective check `C01s.v1Ok` of the whole-program
          theorem `C01_v1_partial` passes / fails.  Listings are printed one directive per line
          without the column padding and blank lines of the C++ (the runner strips those from the
          real output); assembly listing lines are `<offset> <text> (<n> bytes)` with a decimal offset.
-/
open Hex Hex.X Hex.Drv

namespace XcmpDrv

inductive SExp where
  | atom (s : String)
  | list (xs : List SExp)
  deriving Inhabited

def tokenize (s : String) : List String := Id.run do
  let mut toks : Array String := #[]
  let mut cur : String := ""
  for c in s.toList do
    if c == '(' || c == ')' then
      if !cur.isEmpty then toks := toks.push cur; cur := ""
      toks := toks.push (String.singleton c)
    else if c == ' ' then
      if !cur.isEmpty then toks := toks.push cur; cur := ""
    else cur := cur.push c
  if !cur.isEmpty then toks := toks.push cur
  return toks.toList

mutual
partial def parseSExp : List String → Option (SExp × List String)
  | "(" :: rest => match parseList rest [] with
    | some (xs, rest') => some (.list xs, rest')
    | none => none
  | ")" :: _ => none
  | a :: rest => some (.atom a, rest)
  | [] => none
partial def parseList : List String → List SExp → Option (List SExp × List String)
  | ")" :: rest, acc => some (acc.reverse, rest)
  | [], _ => none
  | toks, acc => match parseSExp toks with
    | some (x, rest) => parseList rest (x :: acc)
    | none => none
end

def binOpOf : String → Option BinOp
  | "plus" => some .plus | "minus" => some .minus | "eq" => some .eq | "ne" => some .ne
  | "ls" => some .ls | "le" => some .le | "gr" => some .gr | "ge" => some .ge
  | "and" => some .and | "or" => some .or | _ => none

partial def toExpr : SExp → Except String Expr
  | .list [.atom "num", .atom k] => .ok (.num (BitVec.ofNat 32 k.toNat!))
  | .list [.atom "bool", .atom k] => .ok (.bool (k == "1"))
  | .list [.atom "str", .atom h] => .ok (.str (unhex h))
  | .list [.atom "name", .atom n] => .ok (.name n)
  | .list [.atom "sub", .atom n, i] => do .ok (.sub n (← toExpr i))
  | .list (.atom "call" :: .atom f :: args) => do .ok (.call f (← args.mapM toExpr))
  | .list (.atom "syscall" :: .atom k :: args) => do .ok (.syscall k.toNat! (← args.mapM toExpr))
  | .list [.atom "un", .atom "neg", e] => do .ok (.un .neg (← toExpr e))
  | .list [.atom "un", .atom "not", e] => do .ok (.un .not (← toExpr e))
  | .list [.atom "bin", .atom op, l, r] => do
    match binOpOf op with
    | some o => .ok (.bin o (← toExpr l) (← toExpr r))
    | none => .error ("bad operator " ++ op)
  | _ => .error "bad expression"

partial def toStmt : SExp → Except String Stmt
  | .list [.atom "skip"] => .ok .skip
  | .list [.atom "stop"] => .ok .stop
  | .list [.atom "ret", e] => do .ok (.ret (← toExpr e))
  | .list [.atom "if", c, t, e] => do .ok (.ite (← toExpr c) (← toStmt t) (← toStmt e))
  | .list [.atom "while", c, b] => do .ok (.while (← toExpr c) (← toStmt b))
  | .list (.atom "seq" :: ss) => do .ok (.seq (← ss.mapM toStmt))
  | .list [.atom "assign", .atom n, e] => do .ok (.assign n (← toExpr e))
  | .list [.atom "assignsub", .atom n, i, e] => do .ok (.assignSub n (← toExpr i) (← toExpr e))
  | .list (.atom "call" :: .atom f :: args) => do .ok (.call f (← args.mapM toExpr))
  | .list (.atom "syscall" :: .atom k :: args) => do .ok (.syscall k.toNat! (← args.mapM toExpr))
  | _ => .error "bad statement"

def toDecl : SExp → Except String Decl
  | .list [.atom "val", .atom n, e] => do .ok (.val n (← toExpr e))
  | .list [.atom "var", .atom n] => .ok (.var n)
  | .list [.atom "array", .atom n, e] => do .ok (.array n (← toExpr e))
  | _ => .error "bad declaration"

def toFormal : SExp → Except String Formal
  | .list [.atom "val", .atom n] => .ok (.val n)
  | .list [.atom "array", .atom n] => .ok (.array n)
  | .list [.atom "proc", .atom n] => .ok (.proc n)
  | .list [.atom "func", .atom n] => .ok (.func n)
  | _ => .error "bad formal"

def toProc : SExp → Except String Proc
  | .list [.atom kind, .atom n, .list fs, .list ds, body] => do
    if kind != "proc" && kind != "func" then throw "bad procedure"
    .ok { isFunc := kind == "func", name := n, formals := ← fs.mapM toFormal,
          locals := ← ds.mapM toDecl, body := ← toStmt body }
  | _ => .error "bad procedure"

def toProgram : SExp → Except String Program
  | .list [.atom "prog", .list gs, .list ps] => do
    .ok { globals := ← gs.mapM toDecl, procs := ← ps.mapM toProc }
  | _ => .error "bad program"

def parseProgram (s : String) : Except String Program :=
  match parseSExp (tokenize s) with
  | some (x, []) => toProgram x
  | some (_, _) => .error "trailing tokens"
  | none => .error "unbalanced s-expression"


open Hex.Xcmp Hex.Asm

def fbName : FbKind → String
  | .ldai => "LDAI_FB" | .ldbi => "LDBI_FB" | .stai => "STAI_FB"

/-- `Directive::toString()` before assembly. -/
def dirTextPre (d : Dir) : String :=
  match d with
  | .ref opc n _ => s!"{opcName opc} {n}"
  | d => dirText d 0

def idirLines (data : List Dir) : IDir → List String
  | .dir d => [dirTextPre d]
  | .spValue => "SP_VALUE" :: data.map dirTextPre
  | .prologue n => ["PROLOGUE " ++ n]
  | .epilogue n => ["EPILOGUE " ++ n]
  | .fb k _ off => [s!"{fbName k} {off}"]

def hexOfString (s : String) : String :=
  tohex (s.toUTF8.toList.map fun b => BitVec.ofNat 8 b.toNat)

def joinLines (ls : List String) : String := String.join (ls.map (· ++ "\n"))

def asmListing (ds : List Dir) (img : Image) : String :=
  let ls := listing (withLoc ds) img
  let total := ls.foldl (fun acc l => acc + l.2.2) 0
  joinLines (ls.map (fun l => s!"{l.1} {l.2.1} ({l.2.2} bytes)") ++ [s!"{total} bytes"])

def v1Field (P : X.Program) : String :=
  if C01s.isV1 P then (if C01s.v1Ok P then "1" else "0") else "-"

/-- `W=`: the same for the class V2 (several procedures; `C01s.isV2` / `C01s.v2Ok`, theorem `C01_v2_partial`). -/
def v2Field (P : X.Program) : String :=
  if C01s.isV2 P then (if C01s.v2Ok P then "1" else "0") else "-"

/-- `X=`: the same for the class V3 (calls of pure functions in operands; theorem `C01_v3_partial`). -/
def v3Field (P : X.Program) : String :=
  if C01s.isV3 P then (if C01s.v3Ok P then "1" else "0") else "-"

def parseFiles (spec : String) : Fin 8 → List Byte :=
  if spec = "-" then fun _ => [] else
  let entries := (spec.splitOn ";").filterMap fun kv =>
    match kv.splitOn "=" with
    | [k, v] => some (k.toNat!, unhex v)
    | _ => none
  fun j => match entries.find? (fun e => e.1 = j.val) with
    | some e => e.2
    | none => []

/-- `acc|fuel|stdin|files|sexp`: the access log (`Isa.runAccesses`, as its digest) of the ISA run of the image the
    compiler MODEL produces; compared by `./check C08` with the observer on the real binary running on the real hexsim. -/
def handleAcc (fuel stdin files prog : String) : String :=
  match parseProgram prog with
  | .error w => "bad-input " ++ w
  | .ok P =>
    match compile P with
    | .error e => "acc !" ++ e.className
    | .ok img =>
      let io0 := Isa.IOSt.init (if stdin = "-" then [] else unhex stdin) (parseFiles files)
      let (e, k, d, _) := Isa.runDigest fuel.toNat! (Am.boot img) io0 0 {}
      let st := match e with
        | .exited c => s!"ok exit={natToHex c.toNat}"
        | .undef .outOfRange => "undef-outOfRange exit=0"
        | .undef _ => "undef-other exit=0"
        | .fuel => "fuel exit=0"
      s!"acc {st} cycles={k} maxfetch={natToHex d.maxfetch} maxload={natToHex d.maxload} maxstore={natToHex d.maxstore} oob={d.oob} nfetch={d.nfetch} nload={d.nload} nstore={d.nstore}"

/-- `R=`: is the program inside the residual of `C09_pipeline_partial` (a compile stage ends in an outcome without a
    C++ counterpart, or the directive list fails `dirsOkB`)?  Expected: always 0. -/
def residualField (P : X.Program) : String :=
  match stages P with
  | .error e => if Xcmp.CDiag.named e then "0" else "1"
  | .ok st => if Xcmp.dirsOkB st.optimised then "0" else "1"

/-- `H=`: the side conditions of `C01_v3_on_hexsim` / `Sim.loadParts_fileBytes` on the image (fewer than 2^31 symbols,
    no NUL byte inside a name).  Expected: 1 for every compiled program. -/
def hexsimSideField (P : X.Program) : String :=
  match compile P with
  | .ok img => if decide (img.debug.length < 2 ^ 31) && img.debug.all (fun e => !(Sim.nameBytes e.1).contains 0) then "1" else "0"
  | .error _ => "-"

def handle (line : String) : String :=
  match (if line.startsWith "acc|" then line.splitOn "|" else []) with
  | [_, fuel, stdin, files, prog] => handleAcc fuel stdin files prog
  | _ =>
  match parseProgram line with
  | .error w => "bad-input " ++ w
  | .ok P =>
    (fun r => r ++ " V=" ++ v1Field P ++ " W=" ++ v2Field P ++ " X=" ++ v3Field P ++ " R=" ++ residualField P ++ " H=" ++ hexsimSideField P) <|
    match stages P with
    | .error e => let c := "!" ++ e.className; s!"I={c} L={c} O={c} S={c} B={c}"
    | .ok s =>
      let i := hexOfString (joinLines (s.cg.instrs.flatMap (idirLines s.cg.data)))
      let l := hexOfString (joinLines (s.lowered.map dirTextPre))
      let o := hexOfString (joinLines (s.optimised.map dirTextPre))
      match assembleDirs s.optimised with
      | .error e => let c := "!" ++ e.className; s!"I={i} L={l} O={o} S={c} B={c}"
      | .ok img =>
        s!"I={i} L={l} O={o} S={hexOfString (asmListing s.optimised img)} B={tohex (fileBytes img)}"

end XcmpDrv

def main : IO Unit := do
  let stdin ← IO.getStdin
  let stdout ← IO.getStdout
  readLines stdin fun l => do
    stdout.putStrLn (XcmpDrv.handle l)
    stdout.flush
