import HexVerif.Cli.Model
import HexVerif.Cli.Pinned
import Drivers.Util
/-!
  Line-protocol driver for the command-line models (C14).  One invocation per input line:

    <tool> <variant> <argv> <fs> <unwritable> <srcTable> <simTable> <probe>

  * tool      hexasm | xcmp | xrun | hexsim
  * variant   fixed | pinned            (Cli/Model.lean or Cli/Pinned.lean)
  * argv      `-` or comma-separated arguments, each `x<hex of its bytes>`
  * fs        `-` or comma-separated `x<hexname>=x<hexcontent>`: the readable files
  * unwritable `-` or comma-separated `x<hexname>`: names that cannot be opened for writing
  * srcTable  `-` or comma-separated `x<hexcontent>/<lex>/<full>`: outcome of the lexing stage and
              of the whole translation for a source with that content; outcomes are
              `ok.x<heximage>` | `errL` | `errU` | `exn`; unlisted contents give `errL`
  * simTable  `-` or comma-separated `x<heximage>/exit.<hexword>[/<limit>]` or `…/threw`; unlisted: `threw`
  * probe     `-` or comma-separated `x<hexname>`: the names whose content is printed afterwards

  Output: `<status> <stderr 0|1> <stdout none|usage|text|program> <fs'>` with fs' in the `fs` format
  restricted to the probe names, in probe order.
-/
open Hex Hex.Cli Hex.Drv

def hx (s : String) : List Byte := unhex (s.drop 1).toString

def bytesToString (bs : List Byte) : String :=
  String.ofList (bs.map fun b => Char.ofNat b.toNat)

def strToHex (s : String) : String :=
  "x" ++ String.join (s.toList.map fun c => hexByte c.toNat)

def bytesToHex (bs : List Byte) : String :=
  "x" ++ String.join (bs.map fun b => hexByte b.toNat)

def parseList (s : String) : List String := if s = "-" then [] else s.splitOn ","

/-- Names are compared as byte strings. -/
def parseName (s : String) : String := bytesToString (hx s)

def parseOutcome (s : String) : Core Bytes :=
  if s.startsWith "ok." then .ok (hx (s.drop 3).toString)
  else if s = "errL" then .error true
  else if s = "errU" then .error false
  else .exn

def unitOutcome : Core Bytes → Core Unit
  | .ok _ => .ok ()
  | .error l => .error l
  | .exn => .exn

def fmtStdout : Stdout → String
  | .none => "none" | .usage => "usage" | .text => "text" | .program => "program"

def handle (line : String) : String :=
  match line.splitOn " " with
  | [tool, variant, argvS, fsS, unwS, srcS, simS, probeS] =>
    let argv := (parseList argvS).map parseName
    let filesL : List (String × Bytes) := (parseList fsS).filterMap fun e =>
      match e.splitOn "=" with
      | [n, c] => some (parseName n, hx c)
      | _ => none
    let unw := (parseList unwS).map parseName
    let fs : Fs :=
      { read := fun n => (filesL.find? (fun e => e.1 = n)).map (·.2),
        canWrite := fun n => !(unw.contains n) }
    let srcT : List (Bytes × Core Bytes × Core Bytes) := (parseList srcS).filterMap fun e =>
      match e.splitOn "/" with
      | [c, l, f] => some (hx c, parseOutcome l, parseOutcome f)
      | _ => none
    let lexOf (src : Bytes) : Core Bytes :=
      match srcT.find? (fun e => e.1 = src) with | some e => e.2.1 | none => .error true
    let fullOf (src : Bytes) : Core Bytes :=
      match srcT.find? (fun e => e.1 = src) with | some e => e.2.2 | none => .error true
    -- `x<img>/exit.<v>` holds for every cycle limit; `x<img>/exit.<v>/<n>` is the outcome under `--max-cycles n` only
    let simT : List (Bytes × Option Nat × SimOutcome) := (parseList simS).filterMap fun e =>
      let oc (o : String) : SimOutcome := if o.startsWith "exit." then .exited (word (o.drop 5).toString) else .threw
      match e.splitOn "/" with
      | [c, o] => some (hx c, none, oc o)
      | [c, o, n] => some (hx c, some n.toNat!, oc o)
      | _ => none
    let core : AsmCore := { lex := fun s => unitOutcome (lexOf s), assemble := fullOf }
    let xc : XcmpCore := { compile := fun a _ s => if a = .tokens then lexOf s else fullOf s }
    let sim : SimCore :=
      { run := fun _ mc img =>
          match simT.find? (fun e => e.1 = img ∧ e.2.1 = some mc) with
          | some e => e.2.2
          | none => match simT.find? (fun e => e.1 = img ∧ e.2.1 = none) with | some e => e.2.2 | none => .threw }
    let pinned := variant = "pinned"
    let r : Option Result :=
      if tool = "hexasm" then some (if pinned then Pinned.hexasmMain core argv fs else hexasmMain core argv fs)
      else if tool = "xcmp" then some (if pinned then Pinned.xcmpMain xc argv fs else xcmpMain xc argv fs)
      else if tool = "xrun" then some (if pinned then Pinned.xrunMain xc sim [] argv fs else xrunMain xc sim argv fs)
      else if tool = "hexsim" then some (if pinned then Pinned.hexsimMain sim [] argv fs else hexsimMain sim argv fs)
      else none
    match r with
    | none => "bad-tool"
    | some r =>
      let probes := (parseList probeS).map parseName
      let after := probes.filterMap fun n =>
        match r.fs.read n with
        | some b => some (strToHex n ++ "=" ++ bytesToHex b)
        | none => none
      s!"{r.status} {if r.stderr then 1 else 0} {fmtStdout r.stdout} {if after.isEmpty then "-" else ",".intercalate after}"
  | _ => "bad-line"

def main : IO Unit := do
  let stdin ← IO.getStdin
  let stdout ← IO.getStdout
  readLines stdin fun l => do
    stdout.putStrLn (handle l)
    stdout.flush
