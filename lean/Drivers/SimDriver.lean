import HexVerif.Sim.Model
import Drivers.Util
/-! Line-protocol driver for the hexsim model; mirrors harness/h_sim.cpp. -/
open Hex Hex.Sim Hex.Drv

def parseMem (spec : String) (m : Mem) : Mem :=
  if spec = "-" then m else
  (spec.splitOn ",").foldl (fun m kv =>
    match kv.splitOn "=" with
    | [a, v] => let ad := hexToNat a; if ad < memWords then m.write ad (word v) else m
    | _ => m) m

def parseFiles (spec : String) : Fin 8 → List Byte :=
  if spec = "-" then fun _ => [] else
  let entries := (spec.splitOn ";").filterMap fun kv =>
    match kv.splitOn "=" with
    | [k, v] => some (k.toNat!, unhex v)
    | _ => none
  fun j => match entries.find? (fun e => e.1 = j.val) with
    | some e => e.2
    | none => []

def stdoutOf (io : Isa.IOSt) : List Byte :=
  io.log.reverse.filterMap fun e => match e with | .out none b => some b | _ => none

def outFiles (io : Isa.IOSt) : String :=
  let parts := (List.finRange 8).filterMap fun k =>
    if io.conn k = .forOut then
      let bs := io.log.reverse.filterMap fun e => match e with
        | .out (some j) b => if j = k then some b else none
        | _ => none
      some (toString k.val ++ "=" ++ tohex bs)
    else none
  if parts.isEmpty then "-" else ";".intercalate parts

def memDiff (base m : Mem) : String := Id.run do
  let mut parts : Array String := #[]
  for i in [0:memWords] do
    let a := m.read i
    if a != base.read i then parts := parts.push (natToHex i ++ "=" ++ natToHex a.toNat)
  if parts.isEmpty then "-" else ",".intercalate parts.toList

def memDigest (m : Mem) : String := Id.run do
  let mut h : UInt64 := 1469598103934665603
  for i in [0:memWords] do
    h := (h ^^^ (m.read i).toNat.toUInt64) * 1099511628211
  let ds := Nat.toDigits 16 h.toNat
  String.ofList (List.replicate (16 - ds.length) '0' ++ ds)

def throwKind (m : String) : String :=
  if m = "invalid OPR" then "badOpr" else if m = "invalid syscall" then "badSvc"
  else if m = "invalid instruction" then "badOpcode" else "other:" ++ m

def fmtProc (q : Proc) : String :=
  s!"{natToHex q.pc.toNat} {natToHex q.areg.toNat} {natToHex q.breg.toNat} {natToHex q.oreg.toNat}"

def junk0 : Junk := { instr := 0, mem := Mem.zero, exitCode := 0, instrEnum := 0 }

def handleSteps (k : Nat) (pc a b o trunc mem stdin : String) (rest : List String) : String :=
    let inBytes := unhex stdin
    let files := match rest with | f :: _ => parseFiles f | [] => fun _ => []
    let io := Isa.IOSt.init inBytes files
    let base := parseMem mem Mem.zero
    let p : Proc := { Proc.mk' junk0 io k with
      pc := word pc, areg := word a, breg := word b, oreg := word o, memory := base,
      truncateInputs := trunc = "1", cycles := 1 }
    match Sim.run (k + 2) p with
    | .returned c q =>
      s!"ok {if q.running then "run" else "exit"} {fmtProc q} {natToHex c.toNat} {q.cycles} {memDiff base q.memory} {tohex (stdoutOf q.io)} {inBytes.length - q.io.stdin.length} {outFiles q.io}"
    | .threw m _ => s!"throw {throwKind m} -"
    | .faulted _ _ => "fault oob"
    | .outOfFuel _ => "model-out-of-fuel"

/-- The ISA itself run for `k` instructions from a planted state (oracle for `steps`). -/
def isaSteps (k : Nat) (pc a b o mem stdin : String) (rest : List String) : String :=
    let inBytes := unhex stdin
    let files := match rest with | f :: _ => parseFiles f | [] => fun _ => []
    let io := Isa.IOSt.init inBytes files
    let base := parseMem mem Mem.zero
    let s : Isa.St := { pc := word pc, a := word a, b := word b, o := word o, mem := base }
    let fmt (kind : String) (c : Word) (n : Nat) (s' : Isa.St) (io' : Isa.IOSt) : String :=
      s!"ok {kind} {natToHex s'.pc.toNat} {natToHex s'.a.toNat} {natToHex s'.b.toNat} {natToHex s'.o.toNat} {natToHex c.toNat} {n + 1} {memDiff base s'.mem} {tohex (stdoutOf io')} {inBytes.length - io'.stdin.length} {outFiles io'}"
    match Isa.run k s io with
    | .outOfFuel s' io' => fmt "run" 0 k s' io'
    | .exited c n s' io' => fmt "exit" c n s' io'
    | .undef .outOfRange _ => "undef outOfRange"
    | .undef .badOpcode _ => "undef badOpcode"
    | .undef .badOpr _ => "undef badOpr"
    | .undef .badSvc _ => "undef badSvc"

def handle (line : String) : String :=
  match line.splitOn " " with
  | "steps" :: k :: pc :: a :: b :: o :: trunc :: mem :: stdin :: rest =>
    handleSteps k.toNat! pc a b o trunc mem stdin rest
  | "isasteps" :: k :: pc :: a :: b :: o :: _trunc :: mem :: stdin :: rest =>
    isaSteps k.toNat! pc a b o mem stdin rest
  | "step" :: pc :: a :: b :: o :: trunc :: mem :: stdin :: rest =>
    let inBytes := unhex stdin
    let files := match rest with | f :: _ => parseFiles f | [] => fun _ => []
    let io := Isa.IOSt.init inBytes files
    let base := parseMem mem Mem.zero
    let p : Proc := { Proc.mk' junk0 io 1 with
      pc := word pc, areg := word a, breg := word b, oreg := word o, memory := base,
      truncateInputs := trunc = "1", cycles := 1 }
    match Sim.run 3 p with
    | .returned c q =>
      s!"ok {if q.running then "run" else "exit"} {fmtProc q} {natToHex c.toNat} {q.cycles} {memDiff base q.memory} {tohex (stdoutOf q.io)} {inBytes.length - q.io.stdin.length} {outFiles q.io}"
    | .threw m _ => s!"throw {throwKind m} -"
    | .faulted _ _ => "fault oob"
    | .outOfFuel _ => "model-out-of-fuel"
  | "isastep" :: pc :: a :: b :: o :: _trunc :: mem :: stdin :: rest =>
    -- the ORACLE: the ISA specification itself, printed in the same format as `step`
    let inBytes := unhex stdin
    let files := match rest with | f :: _ => parseFiles f | [] => fun _ => []
    let io := Isa.IOSt.init inBytes files
    let base := parseMem mem Mem.zero
    let s : Isa.St := { pc := word pc, a := word a, b := word b, o := word o, mem := base }
    let fmt (kind : String) (c : Word) (s' : Isa.St) (io' : Isa.IOSt) : String :=
      s!"ok {kind} {natToHex s'.pc.toNat} {natToHex s'.a.toNat} {natToHex s'.b.toNat} {natToHex s'.o.toNat} {natToHex c.toNat} 2 {memDiff base s'.mem} {tohex (stdoutOf io')} {inBytes.length - io'.stdin.length} {outFiles io'}"
    match Isa.step s io with
    | .running s' io' => fmt "run" 0 s' io'
    | .exited c s' io' => fmt "exit" c s' io'
    | .undef .outOfRange => "undef outOfRange"
    | .undef .badOpcode => "undef badOpcode"
    | .undef .badOpr => "undef badOpr"
    | .undef .badSvc => "undef badSvc"
  | ["run", maxCycles, tracing, trunc, fuel, _fill, file, stdin, files] =>
    let inBytes := unhex stdin
    let io := Isa.IOSt.init inBytes (parseFiles files)
    let mc := maxCycles.toNat!
    let fuelN := fuel.toNat!
    let p0 : Proc := { Proc.mk' junk0 io mc with tracing := tracing = "1", truncateInputs := trunc = "1" }
    match Sim.load p0 (unhex file) with
    | none => "load-precondition"
    | some p =>
      let traceTxt (q : Proc) : String :=
        if tracing = "1" then
          " T=" ++ ";".intercalate (q.traceLog.reverse.map fun l =>
            let sym := match l.symbol with | some (n, o) => s!"{n}+{o.toNat}" | none => "-"
            s!"{l.cycles},{l.pc.toNat},{sym},{l.mnemonic},{l.operand}")
        else ""
      let fin (kind : String) (c : Word) (q : Proc) : String :=
        s!"{kind} {natToHex c.toNat} {fmtProc q} {q.cycles} {memDigest q.memory} {tohex (stdoutOf q.io)} {inBytes.length - q.io.stdin.length} {outFiles q.io}{traceTxt q}"
      match Sim.run (if mc = 0 then fuelN else mc + 2) p with
      | .returned c q => fin "ret" c q
      | .outOfFuel q => fin "fuel" q.exitCode q
      | .threw m q => s!"throw {throwKind m} {outFiles q.io}"
      | .faulted _ _ => "fault oob"
  | _ => "bad-op"

def main : IO Unit := do
  let stdin ← IO.getStdin
  let stdout ← IO.getStdout
  readLines stdin fun l => do
    stdout.putStrLn (handle l)
    stdout.flush
