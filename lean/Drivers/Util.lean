import HexVerif.Basic
/-! Parsing/printing helpers shared by the line-protocol drivers. -/
namespace Hex.Drv

def hexDigit (c : Char) : Nat :=
  if '0' ≤ c ∧ c ≤ '9' then c.toNat - '0'.toNat
  else if 'a' ≤ c ∧ c ≤ 'f' then c.toNat - 'a'.toNat + 10
  else if 'A' ≤ c ∧ c ≤ 'F' then c.toNat - 'A'.toNat + 10
  else 0

def hexToNat (s : String) : Nat := s.foldl (fun acc c => acc * 16 + hexDigit c) 0

def natToHex (n : Nat) : String :=
  if n = 0 then "0" else String.ofList (Nat.toDigits 16 n)

def hexByte (b : Nat) : String :=
  let ds := Nat.toDigits 16 (b % 256)
  String.ofList (if ds.length < 2 then '0' :: ds else ds)

/-- "-" or hex pairs → bytes. -/
def unhex (s : String) : List Byte :=
  if s = "-" then [] else
  let rec go : List Char → List Byte
    | a :: b :: rest => BitVec.ofNat 8 (hexDigit a * 16 + hexDigit b) :: go rest
    | _ => []
  go s.toList

def tohex (bs : List Byte) : String :=
  if bs.isEmpty then "-" else String.join (bs.map fun b => hexByte b.toNat)

def word (s : String) : Word := BitVec.ofNat 32 (hexToNat s)

def splitOn (s : String) (sep : String) : List String := s.splitOn sep

partial def readLines (h : IO.FS.Stream) (f : String → IO Unit) : IO Unit := do
  let line ← h.getLine
  if line.isEmpty then return ()
  let l := line.trimAscii.toString
  if !l.isEmpty then f l
  readLines h f

end Hex.Drv
