import HexVerif.Rtl.IsaCore
import Drivers.Util
/-!
  The ISA oracle of the RTL checks: `Isa.step` itself (Isa/Spec.lean), evaluated on the same
  input lines as harness/h_rtl.cpp, restricted to the property's domain
  (OregAligned ∧ Defined ∧ InRange; prints `skip <why>` outside) with SVC reduced to its
  register part (what the design does on its own; the rest is the test bench's).
  Prints `pc a b o sv sc mw`.  Depends on nothing generated, so it still builds when the
  translator refuses or the generated models change shape.
-/
open Hex Hex.Drv Hex.Rtl

def parseSparse (s : String) : List (Nat × Word) :=
  if s = "-" then [] else
  (s.splitOn ",").filterMap fun kv =>
    match kv.splitOn "=" with
    | [k, v] => some (hexToNat k % 524288, word v)
    | _ => none

def insertSorted (x : Nat) : List Nat → List Nat
  | [] => [x]
  | y :: ys => if x < y then x :: y :: ys else if x = y then y :: ys else y :: insertSorted x ys

def sortDedup (l : List Nat) : List Nat := l.foldl (fun acc x => insertSorted x acc) []

def h (n : Nat) : String := natToHex n

def memOfSparseIsa (l : List (Nat × Word)) : Mem :=
  l.foldl (fun m p => m.write p.1 p.2) Mem.zero

def diffIsa (cands : List Nat) (old new : Mem) : String :=
  let parts := (sortDedup cands).filterMap fun k =>
    if new.read k != old.read k then some (natToHex k ++ "=" ++ natToHex (new.read k).toNat) else none
  if parts.isEmpty then "-" else ",".intercalate parts

/-- One oracle step: `inl reason` outside the property's domain, else the expected observation
    `pc a b o sv sc mw` and the successor state. -/
def isaObs (s : Isa.St) (cands : List Nat) : Except String (String × Isa.St) :=
  if s.o &&& 15#32 != 0#32 then .error "unaligned-oreg" else
  match Isa.fetch s.mem s.pc with
  | none => .error "fetch-out-of-range"
  | some f =>
    if ¬ Isa.Defined s.o f then .error "undefined-byte" else
    if ¬ InRangeRegs s.regs f then .error "out-of-range" else
    let sc := (s.a &&& 3#32).toNat
    if Isa.IsSvc s.o f then
      let s' := { Isa.svcEntry s f with o := 0#32 }
      .ok (s!"{h s'.pc.toNat} {h s'.a.toNat} {h s'.b.toNat} {h s'.o.toNat} 1 {h sc} -", s')
    else
      match Isa.step s (Isa.IOSt.init []) with
      | .running s' _ =>
        let ea := (Isa.effAddr s.a s.b s.o f).toNat
        .ok (s!"{h s'.pc.toNat} {h s'.a.toNat} {h s'.b.toNat} {h s'.o.toNat} 0 {h sc} {diffIsa (ea :: cands) s.mem s'.mem}", s')
      | _ => .error "isa-undefined"

def runIsa (line : String) : String :=
  match line.splitOn " " with
  | ["step", pc, a, b, o, mem] =>
    let sp := (parseSparse mem).filter (·.1 < memWords)
    -- words planted at or above 200000 do not exist in the ISA's memory; an in-range RTL step must not see them
    let s : Isa.St := { pc := word pc, a := word a, b := word b, o := word o, mem := memOfSparseIsa sp }
    match isaObs s (sp.map (·.1)) with
    | .ok (l, _) => l
    | .error e => "skip " ++ e
  | ["seq", n, mem] =>
    let sp := (parseSparse mem).filter (·.1 < memWords)
    let s0 : Isa.St := { pc := 0, a := 0, b := 0, o := 0, mem := memOfSparseIsa sp }
    let rec go (k : Nat) (s : Isa.St) (acc : List String) : List String :=
      match k with
      | 0 => acc.reverse
      | k + 1 =>
        match isaObs s [] with
        | .ok (l, s') => go k s' (l :: acc)
        | .error e => (("stop " ++ e) :: acc).reverse
    "|".intercalate ("rst=-" :: go n.toNat! s0 [])
  | ["seq", n, mem, _poweron] =>   -- the ISA starts from the reset state whatever the registers held before
    let sp := (parseSparse mem).filter (·.1 < memWords)
    let s0 : Isa.St := { pc := 0, a := 0, b := 0, o := 0, mem := memOfSparseIsa sp }
    let rec goP (k : Nat) (s : Isa.St) (acc : List String) : List String :=
      match k with
      | 0 => acc.reverse
      | k + 1 =>
        match isaObs s [] with
        | .ok (l, s') => goP k s' (l :: acc)
        | .error e => (("stop " ++ e) :: acc).reverse
    "|".intercalate ("rst=-" :: goP n.toNat! s0 [])
  | _ => "bad-op"

def main : IO Unit := do
  let stdin ← IO.getStdin
  let stdout ← IO.getStdout
  readLines stdin fun l => do
    stdout.putStrLn (runIsa l)
    stdout.flush
