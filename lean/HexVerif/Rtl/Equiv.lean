import HexVerif.Rtl.Sem
import Std.Tactic.BVDecide
/-
  Proofs behind Properties/C16.lean: the three generated processor modules
  (`Gen.Sv.Processor` from verilog/processor.sv, `Gen.V.Processor` from verilog/processor.v,
  `Gen.SynthV.Processor` from synth/processor.v) are the same Mealy machine.

  Each generated module has its own `Regs`/`In`/`Wires`/`X` structures; the conversions below are
  field-by-field copies (a register or port added to only one of the designs breaks them).
  `X` holds one bit per `1'bx` constant of the sv2v output; every theorem quantifies over it.
-/
namespace Hex.Rtl
open Hex Hex.Rtl.Gen

set_option linter.unusedSimpArgs false

/-- The values at the output ports of the processor. -/
structure ProcOut where
  o_f_valid : BitVec 1
  o_f_addr : BitVec 21
  o_d_valid : BitVec 1
  o_d_we : BitVec 1
  o_d_addr : BitVec 19
  o_d_data : BitVec 32
  o_syscall_valid : BitVec 1
  o_syscall : BitVec 2
  deriving DecidableEq, Repr

/-- Input port values common to the three designs. -/
structure ProcIn where
  i_rst : BitVec 1
  i_clk : BitVec 1
  i_f_data : BitVec 8
  i_d_data : BitVec 32

/-- Register values common to the three designs. -/
structure ProcRegs where
  pc_q : BitVec 21
  areg_q : BitVec 32
  breg_q : BitVec 32
  oreg_q : BitVec 32
  deriving DecidableEq, Repr

/-- Values of the `1'bx` constants of processor.v (the same count in both copies, else the
    conversions below do not type-check). -/
abbrev XBits := V.Processor.X

namespace SvP
def inp (i : ProcIn) : Sv.Processor.In := ⟨i.i_rst, i.i_clk, i.i_f_data, i.i_d_data⟩
def regs (r : ProcRegs) : Sv.Processor.Regs := ⟨r.pc_q, r.areg_q, r.breg_q, r.oreg_q⟩
def out (i : ProcIn) (r : ProcRegs) : ProcOut :=
  let w := Sv.Processor.comb ⟨⟩ (inp i) (regs r)
  ⟨w.o_f_valid, w.o_f_addr, w.o_d_valid, w.o_d_we, w.o_d_addr, w.o_d_data, w.o_syscall_valid, w.o_syscall⟩
/-- Next state at an event (rising `i_clk` or `i_rst`) with input values `i`. -/
def next (i : ProcIn) (r : ProcRegs) : ProcRegs :=
  let n := Sv.Processor.ff ⟨⟩ (inp i) (regs r)
  ⟨n.pc_q, n.areg_q, n.breg_q, n.oreg_q⟩
end SvP

namespace VP
def inp (i : ProcIn) : V.Processor.In := ⟨i.i_rst, i.i_clk, i.i_f_data, i.i_d_data⟩
def regs (r : ProcRegs) : V.Processor.Regs := ⟨r.pc_q, r.areg_q, r.breg_q, r.oreg_q⟩
def out (x : XBits) (i : ProcIn) (r : ProcRegs) : ProcOut :=
  let w := V.Processor.comb x (inp i) (regs r)
  ⟨w.o_f_valid, w.o_f_addr, w.o_d_valid, w.o_d_we, w.o_d_addr, w.o_d_data, w.o_syscall_valid, w.o_syscall⟩
def next (x : XBits) (i : ProcIn) (r : ProcRegs) : ProcRegs :=
  let n := V.Processor.ff x (inp i) (regs r)
  ⟨n.pc_q, n.areg_q, n.breg_q, n.oreg_q⟩
end VP

namespace SynthVP
def xs (x : XBits) : SynthV.Processor.X := ⟨x.x0, x.x1, x.x2, x.x3, x.x4, x.x5, x.x6, x.x7⟩
def inp (i : ProcIn) : SynthV.Processor.In := ⟨i.i_rst, i.i_clk, i.i_f_data, i.i_d_data⟩
def regs (r : ProcRegs) : SynthV.Processor.Regs := ⟨r.pc_q, r.areg_q, r.breg_q, r.oreg_q⟩
def out (x : XBits) (i : ProcIn) (r : ProcRegs) : ProcOut :=
  let w := SynthV.Processor.comb (xs x) (inp i) (regs r)
  ⟨w.o_f_valid, w.o_f_addr, w.o_d_valid, w.o_d_we, w.o_d_addr, w.o_d_data, w.o_syscall_valid, w.o_syscall⟩
def next (x : XBits) (i : ProcIn) (r : ProcRegs) : ProcRegs :=
  let n := SynthV.Processor.ff (xs x) (inp i) (regs r)
  ⟨n.pc_q, n.areg_q, n.breg_q, n.oreg_q⟩
end SynthVP

/-- processor.v = processor.sv: all eight outputs, for every input, state and x-bit. -/
theorem v_out_eq (x : XBits) (i : ProcIn) (r : ProcRegs) : VP.out x i r = SvP.out i r := by
  rcases x with ⟨x0, x1, x2, x3, x4, x5, x6, x7⟩
  rcases i with ⟨rst, clk, f, d⟩
  rcases r with ⟨pc, a, b, o⟩
  unfold VP.out SvP.out V.Processor.comb Sv.Processor.comb VP.inp VP.regs SvP.inp SvP.regs
  dsimp only
  congr 1 <;> first | rfl | bv_decide

/-- processor.v = processor.sv: all four next-state registers, reset arm and clocked arm
    (`i_rst` is one of the quantified inputs). -/
theorem v_next_eq (x : XBits) (i : ProcIn) (r : ProcRegs) : VP.next x i r = SvP.next i r := by
  rcases x with ⟨x0, x1, x2, x3, x4, x5, x6, x7⟩
  rcases i with ⟨rst, clk, f, d⟩
  rcases r with ⟨pc, a, b, o⟩
  unfold VP.next SvP.next V.Processor.ff Sv.Processor.ff V.Processor.comb Sv.Processor.comb
    VP.inp VP.regs SvP.inp SvP.regs
  dsimp only
  congr 1 <;> first | rfl | bv_decide

/-- synth/processor.v = verilog/processor.v (outputs). -/
theorem synth_out_eq (x : XBits) (i : ProcIn) (r : ProcRegs) : SynthVP.out x i r = VP.out x i r := by
  first
    | rfl
    | (rcases x with ⟨x0, x1, x2, x3, x4, x5, x6, x7⟩
       rcases i with ⟨rst, clk, f, d⟩
       rcases r with ⟨pc, a, b, o⟩
       unfold SynthVP.out VP.out SynthV.Processor.comb V.Processor.comb SynthVP.inp SynthVP.regs
         SynthVP.xs VP.inp VP.regs
       dsimp only
       congr 1 <;> first | rfl | bv_decide)

/-- synth/processor.v = verilog/processor.v (next state). -/
theorem synth_next_eq (x : XBits) (i : ProcIn) (r : ProcRegs) : SynthVP.next x i r = VP.next x i r := by
  first
    | rfl
    | (rcases x with ⟨x0, x1, x2, x3, x4, x5, x6, x7⟩
       rcases i with ⟨rst, clk, f, d⟩
       rcases r with ⟨pc, a, b, o⟩
       unfold SynthVP.next VP.next SynthV.Processor.ff V.Processor.ff SynthV.Processor.comb
         V.Processor.comb SynthVP.inp SynthVP.regs SynthVP.xs VP.inp VP.regs
       dsimp only
       congr 1 <;> first | rfl | bv_decide)

/-! ### Sequences: the designs as Mealy machines over a stream of events -/

/-- Run a machine given by `out`/`next` over a list of (x-bits, inputs); returns the outputs seen
    before each event and the final registers. -/
def runMachine (out : XBits → ProcIn → ProcRegs → ProcOut) (next : XBits → ProcIn → ProcRegs → ProcRegs) :
    List (XBits × ProcIn) → ProcRegs → List ProcOut × ProcRegs
  | [], r => ([], r)
  | (x, i) :: rest, r =>
    let (os, r') := runMachine out next rest (next x i r)
    (out x i r :: os, r')

def svRun := runMachine (fun _ => SvP.out) (fun _ => SvP.next)
def vRun := runMachine VP.out VP.next
def synthRun := runMachine SynthVP.out SynthVP.next

theorem runMachine_congr (o₁ o₂ n₁ n₂) (ho : ∀ x i r, o₁ x i r = o₂ x i r) (hn : ∀ x i r, n₁ x i r = n₂ x i r) :
    ∀ tr r, runMachine o₁ n₁ tr r = runMachine o₂ n₂ tr r := by
  intro tr
  induction tr with
  | nil => intro r; rfl
  | cons h t ih =>
    intro r
    rcases h with ⟨x, i⟩
    simp only [runMachine, ho, hn, ih]

theorem v_run_eq (tr : List (XBits × ProcIn)) (r : ProcRegs) : vRun tr r = svRun tr r :=
  runMachine_congr _ _ _ _ v_out_eq v_next_eq tr r

theorem synth_run_eq (tr : List (XBits × ProcIn)) (r : ProcRegs) : synthRun tr r = vRun tr r :=
  runMachine_congr _ _ _ _ synth_out_eq synth_next_eq tr r

end Hex.Rtl
