import HexVerif.Rtl.Sem
import Std.Tactic.BVDecide
/-
  Proofs behind Properties/C16.lean: the three generated processor modules
  (`Gen.Sv.Processor` from verilog/processor.sv, `Gen.V.Processor` from verilog/processor.v,
  `Gen.SynthV.Processor` from synth/processor.v) are the same Mealy machine.

  Each generated module has its own `Regs`/`In`/`Wires`/`X` structures; the conversions below are
  field-by-field copies (a register or port added to only one of the designs breaks them).
  `X` holds one bit per `1'bx` constant of the sv2v output; every theorem quantifies over it.
-/
namespace Hex.Rtl
open Hex Hex.Rtl.Gen

set_option linter.unusedSimpArgs false

/-- The values at the output ports of the processor. -/
structure ProcOut where
  o_f_valid : BitVec 1
  o_f_addr : BitVec 21
  o_d_valid : BitVec 1
  o_d_we : BitVec 1
  o_d_addr : BitVec 19
  o_d_data : BitVec 32
  o_syscall_valid : BitVec 1
  o_syscall : BitVec 2
  deriving DecidableEq, Repr

/-- Input port values common to the three designs. -/
structure ProcIn where
  i_rst : BitVec 1
  i_clk : BitVec 1
  i_f_data : BitVec 8
  i_d_data : BitVec 32

/-- Register values common to the three designs. -/
structure ProcRegs where
  pc_q : BitVec 21
  areg_q : BitVec 32
  breg_q : BitVec 32
  oreg_q : BitVec 32
  deriving DecidableEq, Repr

/-- Values of the `1'bx` constants of processor.v (the same count in both copies, else the
    conversions below do not type-check). -/
abbrev XBits := V.Processor.X

namespace SvP
def inp (i : ProcIn) : Sv.Processor.In := ⟨i.i_rst, i.i_clk, i.i_f_data, i.i_d_data⟩
def regs (r : ProcRegs) : Sv.Processor.Regs := ⟨r.pc_q, r.areg_q, r.breg_q, r.oreg_q⟩
def out (i : ProcIn) (r : ProcRegs) : ProcOut :=
  let w := Sv.Processor.comb ⟨⟩ (inp i) (regs r)
  ⟨w.o_f_valid, w.o_f_addr, w.o_d_valid, w.o_d_we, w.o_d_addr, w.o_d_data, w.o_syscall_valid, w.o_syscall⟩
/-- Next state at an event (rising `i_clk` or `i_rst`) with input values `i`. -/
def next (i : ProcIn) (r : ProcRegs) : ProcRegs :=
  let n := Sv.Processor.ff ⟨⟩ (inp i) (regs r)
  ⟨n.pc_q, n.areg_q, n.breg_q, n.oreg_q⟩
end SvP

namespace VP
def inp (i : ProcIn) : V.Processor.In := ⟨i.i_rst, i.i_clk, i.i_f_data, i.i_d_data⟩
def regs (r : ProcRegs) : V.Processor.Regs := ⟨r.pc_q, r.areg_q, r.breg_q, r.oreg_q⟩
def out (x : XBits) (i : ProcIn) (r : ProcRegs) : ProcOut :=
  let w := V.Processor.comb x (inp i) (regs r)
  ⟨w.o_f_valid, w.o_f_addr, w.o_d_valid, w.o_d_we, w.o_d_addr, w.o_d_data, w.o_syscall_valid, w.o_syscall⟩
def next (x : XBits) (i : ProcIn) (r : ProcRegs) : ProcRegs :=
  let n := V.Processor.ff x (inp i) (regs r)
  ⟨n.pc_q, n.areg_q, n.breg_q, n.oreg_q⟩
end VP

namespace SynthVP
def xs (x : XBits) : SynthV.Processor.X := ⟨x.x0, x.x1, x.x2, x.x3, x.x4, x.x5, x.x6, x.x7⟩
def inp (i : ProcIn) : SynthV.Processor.In := ⟨i.i_rst, i.i_clk, i.i_f_data, i.i_d_data⟩
def regs (r : ProcRegs) : SynthV.Processor.Regs := ⟨r.pc_q, r.areg_q, r.breg_q, r.oreg_q⟩
def out (x : XBits) (i : ProcIn) (r : ProcRegs) : ProcOut :=
  let w := SynthV.Processor.comb (xs x) (inp i) (regs r)
  ⟨w.o_f_valid, w.o_f_addr, w.o_d_valid, w.o_d_we, w.o_d_addr, w.o_d_data, w.o_syscall_valid, w.o_syscall⟩
def next (x : XBits) (i : ProcIn) (r : ProcRegs) : ProcRegs :=
  let n := SynthV.Processor.ff (xs x) (inp i) (regs r)
  ⟨n.pc_q, n.areg_q, n.breg_q, n.oreg_q⟩
end SynthVP

/-- processor.v = processor.sv: all eight outputs, for every input, state and x-bit. -/
theorem v_out_eq (x : XBits) (i : ProcIn) (r : ProcRegs) : VP.out x i r = SvP.out i r := by
  rcases x with ⟨x0, x1, x2, x3, x4, x5, x6, x7⟩
  rcases i with ⟨rst, clk, f, d⟩
  rcases r with ⟨pc, a, b, o⟩
  unfold VP.out SvP.out V.Processor.comb Sv.Processor.comb VP.inp VP.regs SvP.inp SvP.regs
  dsimp only
  congr 1 <;> first | rfl | bv_decide

/-- processor.v = processor.sv: all four next-state registers, reset arm and clocked arm
    (`i_rst` is one of the quantified inputs). -/
theorem v_next_eq (x : XBits) (i : ProcIn) (r : ProcRegs) : VP.next x i r = SvP.next i r := by
  rcases x with ⟨x0, x1, x2, x3, x4, x5, x6, x7⟩
  rcases i with ⟨rst, clk, f, d⟩
  rcases r with ⟨pc, a, b, o⟩
  unfold VP.next SvP.next V.Processor.ff Sv.Processor.ff V.Processor.comb Sv.Processor.comb
    VP.inp VP.regs SvP.inp SvP.regs
  dsimp only
  congr 1 <;> first | rfl | bv_decide

/-- synth/processor.v = verilog/processor.v (outputs). -/
theorem synth_out_eq (x : XBits) (i : ProcIn) (r : ProcRegs) : SynthVP.out x i r = VP.out x i r := by
  first
    | rfl
    | (rcases x with ⟨x0, x1, x2, x3, x4, x5, x6, x7⟩
       rcases i with ⟨rst, clk, f, d⟩
       rcases r with ⟨pc, a, b, o⟩
       unfold SynthVP.out VP.out SynthV.Processor.comb V.Processor.comb SynthVP.inp SynthVP.regs
         SynthVP.xs VP.inp VP.regs
       dsimp only
       congr 1 <;> first | rfl | bv_decide)

/-- synth/processor.v = verilog/processor.v (next state). -/
theorem synth_next_eq (x : XBits) (i : ProcIn) (r : ProcRegs) : SynthVP.next x i r = VP.next x i r := by
  first
    | rfl
    | (rcases x with ⟨x0, x1, x2, x3, x4, x5, x6, x7⟩
       rcases i with ⟨rst, clk, f, d⟩
       rcases r with ⟨pc, a, b, o⟩
       unfold SynthVP.next VP.next SynthV.Processor.ff V.Processor.ff SynthV.Processor.comb
         V.Processor.comb SynthVP.inp SynthVP.regs SynthVP.xs VP.inp VP.regs
       dsimp only
       congr 1 <;> first | rfl | bv_decide)

/-! ### Sequences: the designs as Mealy machines over a stream of events -/

/-- Run a machine given by `out`/`next` over a list of (x-bits, inputs); returns the outputs seen
    before each event and the final registers. -/
def runMachine (out : XBits → ProcIn → ProcRegs → ProcOut) (next : XBits → ProcIn → ProcRegs → ProcRegs) :
    List (XBits × ProcIn) → ProcRegs → List ProcOut × ProcRegs
  | [], r => ([], r)
  | (x, i) :: rest, r =>
    let (os, r') := runMachine out next rest (next x i r)
    (out x i r :: os, r')

def svRun := runMachine (fun _ => SvP.out) (fun _ => SvP.next)
def vRun := runMachine VP.out VP.next
def synthRun := runMachine SynthVP.out SynthVP.next

theorem runMachine_congr (o₁ o₂ n₁ n₂) (ho : ∀ x i r, o₁ x i r = o₂ x i r) (hn : ∀ x i r, n₁ x i r = n₂ x i r) :
    ∀ tr r, runMachine o₁ n₁ tr r = runMachine o₂ n₂ tr r := by
  intro tr
  induction tr with
  | nil => intro r; rfl
  | cons h t ih =>
    intro r
    rcases h with ⟨x, i⟩
    simp only [runMachine, ho, hn, ih]

theorem v_run_eq (tr : List (XBits × ProcIn)) (r : ProcRegs) : vRun tr r = svRun tr r :=
  runMachine_congr _ _ _ _ v_out_eq v_next_eq tr r

theorem synth_run_eq (tr : List (XBits × ProcIn)) (r : ProcRegs) : synthRun tr r = vRun tr r :=
  runMachine_congr _ _ _ _ synth_out_eq synth_next_eq tr r

/-! ### The whole design: `hex.sv` + `memory.sv` with processor.v substituted for processor.sv

  `Gen.V.Hex` / `Gen.SynthV.Hex` are generated from hex.sv + processor.v + memory.sv flattened, `Gen.Sv.Hex`
  from hex.sv + processor.sv + memory.sv.  The flattened designs decompose (`rfl`) into their
  processor fed by their memory; the processors agree (`v_out_eq`, `v_next_eq`), the data address
  does not depend on the read data, and memory.sv is the same file. -/

/-- Register and memory state common to the flattened designs. -/
structure HexRegs where
  pc : BitVec 21
  a : BitVec 32
  b : BitVec 32
  o : BitVec 32
  mem : BitVec 19 → BitVec 32

structure HexIn where
  i_clk : BitVec 1
  i_rst : BitVec 1

structure HexOut where
  o_syscall_valid : BitVec 1
  o_syscall : BitVec 2
  deriving DecidableEq

namespace SvH
def regs (r : HexRegs) : Sv.Hex.Regs := ⟨r.pc, r.a, r.b, r.o, r.mem⟩
def inp (i : HexIn) : Sv.Hex.In := ⟨i.i_clk, i.i_rst⟩
def wires (i : HexIn) (r : HexRegs) := Sv.Hex.comb ⟨⟩ (inp i) (regs r)
def out (i : HexIn) (r : HexRegs) : HexOut := ⟨(wires i r).o_syscall_valid, (wires i r).o_syscall⟩
def next (i : HexIn) (r : HexRegs) : HexRegs :=
  let n := Sv.Hex.ff ⟨⟩ (inp i) (regs r)
  ⟨n.u_processor__pc_q, n.u_processor__areg_q, n.u_processor__breg_q, n.u_processor__oreg_q, n.u_memory__memory_q⟩
end SvH

namespace VH
def xs (x : XBits) : V.Hex.X := ⟨x.x0, x.x1, x.x2, x.x3, x.x4, x.x5, x.x6, x.x7⟩
def regs (r : HexRegs) : V.Hex.Regs := ⟨r.pc, r.a, r.b, r.o, r.mem⟩
def inp (i : HexIn) : V.Hex.In := ⟨i.i_clk, i.i_rst⟩
def wires (x : XBits) (i : HexIn) (r : HexRegs) := V.Hex.comb (xs x) (inp i) (regs r)
def out (x : XBits) (i : HexIn) (r : HexRegs) : HexOut := ⟨(wires x i r).o_syscall_valid, (wires x i r).o_syscall⟩
def next (x : XBits) (i : HexIn) (r : HexRegs) : HexRegs :=
  let n := V.Hex.ff (xs x) (inp i) (regs r)
  ⟨n.u_processor__pc_q, n.u_processor__areg_q, n.u_processor__breg_q, n.u_processor__oreg_q, n.u_memory__memory_q⟩
end VH

def pregs (r : HexRegs) : ProcRegs := ⟨r.pc, r.a, r.b, r.o⟩

/-- what the flattened designs feed their processor with -/
theorem sv_flat_out (i : HexIn) (r : HexRegs) :
    let w := SvH.wires i r
    (⟨w.req_f_valid, w.req_f_addr, w.req_d_valid, w.req_d_we, w.req_d_addr, w.req_d_data, w.o_syscall_valid, w.o_syscall⟩ : ProcOut)
      = SvP.out ⟨i.i_rst, i.i_clk, w.res_f_data, w.res_d_data⟩ (pregs r) := rfl

theorem v_flat_out (x : XBits) (i : HexIn) (r : HexRegs) :
    let w := VH.wires x i r
    (⟨w.req_f_valid, w.req_f_addr, w.req_d_valid, w.req_d_we, w.req_d_addr, w.req_d_data, w.o_syscall_valid, w.o_syscall⟩ : ProcOut)
      = VP.out x ⟨i.i_rst, i.i_clk, w.res_f_data, w.res_d_data⟩ (pregs r) := rfl

theorem fetch_same (x : XBits) (i : HexIn) (r : HexRegs) :
    (VH.wires x i r).res_f_data = (SvH.wires i r).res_f_data := rfl

theorem rd_sv (i : HexIn) (r : HexRegs) : (SvH.wires i r).res_d_data = r.mem (SvH.wires i r).req_d_addr := rfl
theorem rd_v (x : XBits) (i : HexIn) (r : HexRegs) : (VH.wires x i r).res_d_data = r.mem (VH.wires x i r).req_d_addr := rfl

/-- The data address does not depend on the read data (no combinational loop through memory). -/
theorem sv_addr_indep (rst clk : BitVec 1) (f : BitVec 8) (d d' : BitVec 32) (p : ProcRegs) :
    (SvP.out ⟨rst, clk, f, d⟩ p).o_d_addr = (SvP.out ⟨rst, clk, f, d'⟩ p).o_d_addr := rfl

theorem daddr_same (x : XBits) (i : HexIn) (r : HexRegs) :
    (VH.wires x i r).req_d_addr = (SvH.wires i r).req_d_addr := by
  have hv := congrArg ProcOut.o_d_addr (v_flat_out x i r)
  have hs := congrArg ProcOut.o_d_addr (sv_flat_out i r)
  simp only at hv hs
  rw [hv, hs, v_out_eq, fetch_same]
  exact sv_addr_indep _ _ _ _ _ _

theorem rd_same (x : XBits) (i : HexIn) (r : HexRegs) :
    (VH.wires x i r).res_d_data = (SvH.wires i r).res_d_data := by
  rw [rd_v, rd_sv, daddr_same]

theorem flat_out_same (x : XBits) (i : HexIn) (r : HexRegs) :
    let wv := VH.wires x i r
    let ws := SvH.wires i r
    (⟨wv.req_f_valid, wv.req_f_addr, wv.req_d_valid, wv.req_d_we, wv.req_d_addr, wv.req_d_data, wv.o_syscall_valid, wv.o_syscall⟩ : ProcOut)
    = ⟨ws.req_f_valid, ws.req_f_addr, ws.req_d_valid, ws.req_d_we, ws.req_d_addr, ws.req_d_data, ws.o_syscall_valid, ws.o_syscall⟩ := by
  intro wv ws
  have hv := v_flat_out x i r
  have hs := sv_flat_out i r
  simp only at hv hs
  rw [hv, hs, v_out_eq, fetch_same, rd_same]

theorem v_next_regs (x : XBits) (i : HexIn) (r : HexRegs) :
    pregs (VH.next x i r) = VP.next x ⟨i.i_rst, i.i_clk, (VH.wires x i r).res_f_data, (VH.wires x i r).res_d_data⟩ (pregs r) := rfl
theorem sv_next_regs (i : HexIn) (r : HexRegs) :
    pregs (SvH.next i r) = SvP.next ⟨i.i_rst, i.i_clk, (SvH.wires i r).res_f_data, (SvH.wires i r).res_d_data⟩ (pregs r) := rfl

theorem next_regs_same (x : XBits) (i : HexIn) (r : HexRegs) : pregs (VH.next x i r) = pregs (SvH.next i r) := by
  rw [v_next_regs, sv_next_regs, v_next_eq, fetch_same, rd_same]

/-- memory.sv is the same file in both designs -/
theorem v_next_mem (x : XBits) (i : HexIn) (r : HexRegs) :
    (VH.next x i r).mem =
      (Sv.Memory.ff ⟨⟩ ⟨i.i_rst, i.i_clk, (VH.wires x i r).req_f_valid, (VH.wires x i r).req_f_addr, (VH.wires x i r).req_d_valid,
        (VH.wires x i r).req_d_we, (VH.wires x i r).req_d_addr, (VH.wires x i r).req_d_data⟩ ⟨r.mem⟩).memory_q := rfl
theorem sv_next_mem (i : HexIn) (r : HexRegs) :
    (SvH.next i r).mem =
      (Sv.Memory.ff ⟨⟩ ⟨i.i_rst, i.i_clk, (SvH.wires i r).req_f_valid, (SvH.wires i r).req_f_addr, (SvH.wires i r).req_d_valid,
        (SvH.wires i r).req_d_we, (SvH.wires i r).req_d_addr, (SvH.wires i r).req_d_data⟩ ⟨r.mem⟩).memory_q := rfl

theorem next_mem_same (x : XBits) (i : HexIn) (r : HexRegs) : (VH.next x i r).mem = (SvH.next i r).mem := by
  have h := flat_out_same x i r
  simp only [ProcOut.mk.injEq] at h
  obtain ⟨h1, h2, h3, h4, h5, h6, _, _⟩ := h
  rw [v_next_mem, sv_next_mem, h1, h2, h3, h4, h5, h6]

theorem hex_next_same (x : XBits) (i : HexIn) (r : HexRegs) : VH.next x i r = SvH.next i r := by
  have h1 := next_regs_same x i r
  have h2 := next_mem_same x i r
  cases hv : VH.next x i r
  cases hs : SvH.next i r
  rw [hv, hs] at h1 h2
  simp only [pregs, ProcRegs.mk.injEq] at h1 h2
  obtain ⟨a, b, c, d⟩ := h1
  simp only [a, b, c, d, h2]

theorem hex_out_same (x : XBits) (i : HexIn) (r : HexRegs) : VH.out x i r = SvH.out i r := by
  have h := flat_out_same x i r
  simp only [ProcOut.mk.injEq] at h
  obtain ⟨_, _, _, _, _, _, h7, h8⟩ := h
  unfold VH.out SvH.out
  rw [h7, h8]

namespace SynthVH
def xs (x : XBits) : SynthV.Hex.X := ⟨x.x0, x.x1, x.x2, x.x3, x.x4, x.x5, x.x6, x.x7⟩
def regs (r : HexRegs) : SynthV.Hex.Regs := ⟨r.pc, r.a, r.b, r.o, r.mem⟩
def inp (i : HexIn) : SynthV.Hex.In := ⟨i.i_clk, i.i_rst⟩
def wires (x : XBits) (i : HexIn) (r : HexRegs) := SynthV.Hex.comb (xs x) (inp i) (regs r)
def out (x : XBits) (i : HexIn) (r : HexRegs) : HexOut := ⟨(wires x i r).o_syscall_valid, (wires x i r).o_syscall⟩
def next (x : XBits) (i : HexIn) (r : HexRegs) : HexRegs :=
  let n := SynthV.Hex.ff (xs x) (inp i) (regs r)
  ⟨n.u_processor__pc_q, n.u_processor__areg_q, n.u_processor__breg_q, n.u_processor__oreg_q, n.u_memory__memory_q⟩
end SynthVH

theorem synth_sv_out_eq (x : XBits) (i : ProcIn) (r : ProcRegs) : SynthVP.out x i r = SvP.out i r :=
  (synth_out_eq x i r).trans (v_out_eq x i r)
theorem synth_sv_next_eq (x : XBits) (i : ProcIn) (r : ProcRegs) : SynthVP.next x i r = SvP.next i r :=
  (synth_next_eq x i r).trans (v_next_eq x i r)

/-! The same chain for the design with synth/processor.v (kept separate from the verilog copy so
    that a harmless textual difference between the copies does not break it). -/

theorem synth_v_flat_out (x : XBits) (i : HexIn) (r : HexRegs) :
    let w := SynthVH.wires x i r
    (⟨w.req_f_valid, w.req_f_addr, w.req_d_valid, w.req_d_we, w.req_d_addr, w.req_d_data, w.o_syscall_valid, w.o_syscall⟩ : ProcOut)
      = SynthVP.out x ⟨i.i_rst, i.i_clk, w.res_f_data, w.res_d_data⟩ (pregs r) := rfl

theorem synth_fetch_same (x : XBits) (i : HexIn) (r : HexRegs) :
    (SynthVH.wires x i r).res_f_data = (SvH.wires i r).res_f_data := rfl

theorem synth_rd_v (x : XBits) (i : HexIn) (r : HexRegs) : (SynthVH.wires x i r).res_d_data = r.mem (SynthVH.wires x i r).req_d_addr := rfl

theorem synth_daddr_same (x : XBits) (i : HexIn) (r : HexRegs) :
    (SynthVH.wires x i r).req_d_addr = (SvH.wires i r).req_d_addr := by
  have hv := congrArg ProcOut.o_d_addr (synth_v_flat_out x i r)
  have hs := congrArg ProcOut.o_d_addr (sv_flat_out i r)
  simp only at hv hs
  rw [hv, hs, synth_sv_out_eq, synth_fetch_same]
  exact sv_addr_indep _ _ _ _ _ _

theorem synth_rd_same (x : XBits) (i : HexIn) (r : HexRegs) :
    (SynthVH.wires x i r).res_d_data = (SvH.wires i r).res_d_data := by
  rw [synth_rd_v, rd_sv, synth_daddr_same]

theorem synth_flat_out_same (x : XBits) (i : HexIn) (r : HexRegs) :
    let wv := SynthVH.wires x i r
    let ws := SvH.wires i r
    (⟨wv.req_f_valid, wv.req_f_addr, wv.req_d_valid, wv.req_d_we, wv.req_d_addr, wv.req_d_data, wv.o_syscall_valid, wv.o_syscall⟩ : ProcOut)
    = ⟨ws.req_f_valid, ws.req_f_addr, ws.req_d_valid, ws.req_d_we, ws.req_d_addr, ws.req_d_data, ws.o_syscall_valid, ws.o_syscall⟩ := by
  intro wv ws
  have hv := synth_v_flat_out x i r
  have hs := sv_flat_out i r
  simp only at hv hs
  rw [hv, hs, synth_sv_out_eq, synth_fetch_same, synth_rd_same]

theorem synth_v_next_regs (x : XBits) (i : HexIn) (r : HexRegs) :
    pregs (SynthVH.next x i r) = SynthVP.next x ⟨i.i_rst, i.i_clk, (SynthVH.wires x i r).res_f_data, (SynthVH.wires x i r).res_d_data⟩ (pregs r) := rfl
theorem synth_next_regs_same (x : XBits) (i : HexIn) (r : HexRegs) : pregs (SynthVH.next x i r) = pregs (SvH.next i r) := by
  rw [synth_v_next_regs, sv_next_regs, synth_sv_next_eq, synth_fetch_same, synth_rd_same]

/-- memory.sv is the same file in both designs -/
theorem synth_v_next_mem (x : XBits) (i : HexIn) (r : HexRegs) :
    (SynthVH.next x i r).mem =
      (Sv.Memory.ff ⟨⟩ ⟨i.i_rst, i.i_clk, (SynthVH.wires x i r).req_f_valid, (SynthVH.wires x i r).req_f_addr, (SynthVH.wires x i r).req_d_valid,
        (SynthVH.wires x i r).req_d_we, (SynthVH.wires x i r).req_d_addr, (SynthVH.wires x i r).req_d_data⟩ ⟨r.mem⟩).memory_q := rfl
theorem synth_next_mem_same (x : XBits) (i : HexIn) (r : HexRegs) : (SynthVH.next x i r).mem = (SvH.next i r).mem := by
  have h := synth_flat_out_same x i r
  simp only [ProcOut.mk.injEq] at h
  obtain ⟨h1, h2, h3, h4, h5, h6, _, _⟩ := h
  rw [synth_v_next_mem, sv_next_mem, h1, h2, h3, h4, h5, h6]

theorem synth_hex_next_same (x : XBits) (i : HexIn) (r : HexRegs) : SynthVH.next x i r = SvH.next i r := by
  have h1 := synth_next_regs_same x i r
  have h2 := synth_next_mem_same x i r
  cases hv : SynthVH.next x i r
  cases hs : SvH.next i r
  rw [hv, hs] at h1 h2
  simp only [pregs, ProcRegs.mk.injEq] at h1 h2
  obtain ⟨a, b, c, d⟩ := h1
  simp only [a, b, c, d, h2]

theorem synth_hex_out_same (x : XBits) (i : HexIn) (r : HexRegs) : SynthVH.out x i r = SvH.out i r := by
  have h := synth_flat_out_same x i r
  simp only [ProcOut.mk.injEq] at h
  obtain ⟨_, _, _, _, _, _, h7, h8⟩ := h
  unfold SynthVH.out SvH.out
  rw [h7, h8]



/-- `n` events of a whole design. -/
def iterHex (next : XBits → HexIn → HexRegs → HexRegs) : List (XBits × HexIn) → HexRegs → HexRegs
  | [], r => r
  | (x, i) :: rest, r => iterHex next rest (next x i r)

theorem iterHex_congr (n₁ n₂ : XBits → HexIn → HexRegs → HexRegs) (h : ∀ x i r, n₁ x i r = n₂ x i r) :
    ∀ tr r, iterHex n₁ tr r = iterHex n₂ tr r := by
  intro tr
  induction tr with
  | nil => intro r; rfl
  | cons hd t ih => intro r; rcases hd with ⟨x, i⟩; simp only [iterHex, h, ih]


end Hex.Rtl
