import HexVerif.Isa.Spec
/-
  A bit-vector-only reading of one ISA step (`Isa.step` of Isa/Spec.lean) for the bytes that
  are defined and are not SVC: the register effect as a function of the fetched byte and the
  loaded word, the effective data address, and whether the byte loads or stores.

  `step_eq_core` proves that this reading IS `Isa.step` (16-way case split, no SAT).  It is a
  statement about the specification only; the RTL is then compared with `coreRegs`/`effAddr`
  by closed bit-vector goals (Rtl/Lemmas.lean), where `match`-on-`Nat` and `Option` of the
  specification would be in the way.  Core Lean only.
-/
namespace Hex.Isa

/-- `oreg | (inst & 0xf)`. -/
def opnd (o : Word) (f : Byte) : Word := o ||| (f &&& 0xF#8).zeroExtend 32

/-- `(inst >> 4) & 0xf`. -/
def opc (f : Byte) : Byte := f >>> 4

def isLoad (f : Byte) : Bool := opc f == 0#8 || opc f == 1#8 || opc f == 6#8 || opc f == 7#8
def isStore (f : Byte) : Bool := opc f == 2#8 || opc f == 8#8
def isMem (f : Byte) : Bool := isLoad f || isStore f

/-- Effective word address of LDAM/LDBM/STAM (`oreg`), LDAI (`areg+oreg`), LDBI/STAI (`breg+oreg`). -/
def effAddr (a b o : Word) (f : Byte) : Word :=
  if opc f = 6#8 then a + opnd o f
  else if opc f = 7#8 ∨ opc f = 8#8 then b + opnd o f
  else opnd o f

/-- The four architectural registers. -/
structure RegFile where
  pc : Word
  a : Word
  b : Word
  o : Word
  deriving DecidableEq, Repr

/-- The byte has a meaning in the ISA in a state whose operand register is `o`:
    opcode 0xC has none, OPR needs `oreg | operand ≤ 3`. -/
def Defined (o : Word) (f : Byte) : Prop :=
  opc f ≠ 12#8 ∧ (opc f = 13#8 → opnd o f = 0#32 ∨ opnd o f = 1#32 ∨ opnd o f = 2#32 ∨ opnd o f = 3#32)

instance (o : Word) (f : Byte) : Decidable (Defined o f) := by unfold Defined; infer_instance

/-- The byte is `OPR SVC` in a state whose operand register is `o`. -/
def IsSvc (o : Word) (f : Byte) : Prop := opc f = 13#8 ∧ opnd o f = 3#32

instance (o : Word) (f : Byte) : Decidable (IsSvc o f) := by unfold IsSvc; infer_instance

/-- Register effect of a defined non-SVC byte `f`; `ld` is the word at `effAddr` (used by loads). -/
def coreRegs (s : RegFile) (f : Byte) (ld : Word) : RegFile :=
  let o' := opnd s.o f
  let pc1 := s.pc + 1#32
  let k := opc f
  { pc := if k = 9#8 then pc1 + o'
          else if k = 10#8 then (if s.a = 0#32 then pc1 + o' else pc1)
          else if k = 11#8 then (if BitVec.slt s.a 0#32 then pc1 + o' else pc1)
          else if k = 13#8 ∧ o' = 0#32 then s.b
          else pc1,
    a := if k = 0#8 ∨ k = 6#8 then ld
         else if k = 3#8 then o'
         else if k = 5#8 then pc1 + o'
         else if k = 13#8 ∧ o' = 1#32 then s.a + s.b
         else if k = 13#8 ∧ o' = 2#32 then s.a - s.b
         else s.a,
    b := if k = 1#8 ∨ k = 7#8 then ld
         else if k = 4#8 then o'
         else s.b,
    o := if k = 14#8 then o' <<< 4
         else if k = 15#8 then 0xFFFFFF00#32 ||| (o' <<< 4)
         else 0#32 }

def St.regs (s : St) : RegFile := { pc := s.pc, a := s.a, b := s.b, o := s.o }

/-- Successor state of a defined non-SVC byte: registers by `coreRegs`, one word stored by
    STAM/STAI. -/
def coreNext (s : St) (f : Byte) : St :=
  let ea := (effAddr s.a s.b s.o f).toNat
  let r := coreRegs s.regs f (s.mem.read ea)
  { pc := r.pc, a := r.a, b := r.b, o := r.o,
    mem := if isStore f then s.mem.write ea s.a else s.mem }

/-- State handed to `svc` by `OPR SVC`: `pc` advanced, `oreg = 3` (cleared by `svc` itself). -/
def svcEntry (s : St) (f : Byte) : St := { s with pc := s.pc + 1#32, o := opnd s.o f }

theorem opc_toNat_lt (f : Byte) : (opc f).toNat < 16 := by
  unfold opc
  rw [BitVec.toNat_ushiftRight, Nat.shiftRight_eq_div_pow]
  have := f.isLt
  omega

theorem opc_cases (f : Byte) :
    opc f = 0#8 ∨ opc f = 1#8 ∨ opc f = 2#8 ∨ opc f = 3#8 ∨ opc f = 4#8 ∨ opc f = 5#8 ∨ opc f = 6#8 ∨
    opc f = 7#8 ∨ opc f = 8#8 ∨ opc f = 9#8 ∨ opc f = 10#8 ∨ opc f = 11#8 ∨ opc f = 12#8 ∨ opc f = 13#8 ∨
    opc f = 14#8 ∨ opc f = 15#8 := by
  have h := opc_toNat_lt f
  have e : ∀ n, n < 256 → (opc f).toNat = n → opc f = BitVec.ofNat 8 n := by
    intro n hn hh
    apply BitVec.eq_of_toNat_eq
    simp [hh, Nat.mod_eq_of_lt hn]
  generalize hk : (opc f).toNat = k at h e
  have : k = 0 ∨ k = 1 ∨ k = 2 ∨ k = 3 ∨ k = 4 ∨ k = 5 ∨ k = 6 ∨ k = 7 ∨ k = 8 ∨ k = 9 ∨ k = 10 ∨
      k = 11 ∨ k = 12 ∨ k = 13 ∨ k = 14 ∨ k = 15 := by omega
  rcases this with h | h | h | h | h | h | h | h | h | h | h | h | h | h | h | h <;> subst h <;>
    simp [e _ (by decide) rfl]

theorem slt_zero_iff (a : Word) : a.toInt < 0 ↔ BitVec.slt a 0#32 = true := by
  simp [BitVec.slt]

/-- **The bit-vector reading is the specification.**  For a fetched byte that is defined, is not
    SVC, and whose effective address (if it accesses memory) is inside `mem[200000]`, `Isa.step`
    is `coreNext` and the I/O state is untouched. -/
theorem step_eq_core (s : St) (io : IOSt) (f : Byte)
    (hf : fetch s.mem s.pc = some f) (hd : Defined s.o f) (hs : ¬ IsSvc s.o f)
    (hm : isMem f = true → (effAddr s.a s.b s.o f).toNat < memWords) :
    step s io = .running (coreNext s f) io := by
  unfold step
  rw [hf]
  simp only
  have hopnd : s.o ||| (f &&& 0xF).zeroExtend 32 = opnd s.o f := rfl
  have hopc : (f >>> 4).toNat = (opc f).toNat := rfl
  rw [hopnd, hopc]
  unfold Defined at hd
  unfold IsSvc at hs
  rcases opc_cases f with h | h | h | h | h | h | h | h | h | h | h | h | h | h | h | h <;>
    simp only [h, isMem, isLoad, isStore, effAddr] at hd hs hm <;>
    simp only [h, dispatch, coreNext, coreRegs, effAddr, isStore, St.regs, ld, stw] <;>
    simp (config := { decide := true }) at hd hs hm ⊢
  all_goals first
    | (simp [hm]; done)
    | rfl
    | (simp only [slt_zero_iff]; rfl)
    | (rcases hd with h0 | h0 | h0 | h0 <;> simp_all (config := { decide := true }))

/-- `OPR SVC` hands `svcEntry` to `svc`. -/
theorem step_svc (s : St) (io : IOSt) (f : Byte)
    (hf : fetch s.mem s.pc = some f) (hs : IsSvc s.o f) :
    step s io = svc (svcEntry s f) io := by
  unfold step
  rw [hf]
  simp only
  have hopnd : s.o ||| (f &&& 0xF).zeroExtend 32 = opnd s.o f := rfl
  have hopc : (f >>> 4).toNat = (opc f).toNat := rfl
  rw [hopnd, hopc]
  unfold IsSvc at hs
  simp only [hs.1, hs.2, dispatch, svcEntry]
  simp (config := { decide := true })

end Hex.Isa

namespace Hex.Rtl
open Hex

/-- The property's side condition "addresses lie in the range both implementations provide",
    for register file `s` about to execute byte `f`:
    the fetch address and every branch target actually taken are byte addresses below 800000,
    the LDAP result is a byte address below 800000, every data access is to a word below 200000.
    Outside it the 21-bit `pc`/19-bit data address of the RTL and the 32-bit ISA differ. -/
def InRangeRegs (s : Isa.RegFile) (f : Byte) : Prop :=
  let o' := Isa.opnd s.o f
  let k := Isa.opc f
  let t := s.pc + 1#32 + o'
  s.pc < 800000#32 ∧
  (Isa.isMem f = true → Isa.effAddr s.a s.b s.o f < 200000#32) ∧
  (k = 5#8 → t < 800000#32) ∧
  (k = 9#8 → t < 800000#32) ∧
  (k = 10#8 → s.a = 0#32 → t < 800000#32) ∧
  (k = 11#8 → BitVec.slt s.a 0#32 = true → t < 800000#32) ∧
  (k = 13#8 → o' = 0#32 → s.b < 800000#32)

instance (s : Isa.RegFile) (f : Byte) : Decidable (InRangeRegs s f) := by
  unfold InRangeRegs; infer_instance

end Hex.Rtl
