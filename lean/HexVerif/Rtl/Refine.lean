import HexVerif.Rtl.Lemmas
/-
  Assembly of the C03 theorems from the lemmas of Rtl/Lemmas.lean: one clock of the flattened
  design refines one `Isa.step` through `abs`; the SVC cycle; runs of the system (RTL + test
  bench) against `Isa.step` iterated.
-/
namespace Hex.Rtl
open Hex Hex.Rtl.Gen

set_option linter.unusedSimpArgs false

theorem InRange.mem {r : RtlSt} (hr : InRange r) (hm : Isa.isMem (fetchByte r) = true) :
    Isa.effAddr r.areg r.breg r.oreg (fetchByte r) < 200000#32 := hr.2.1 hm

/-- The data address the processor drives is the ISA's effective address. -/
theorem dAddr_eq (r : RtlSt) (hr : InRange r) (hm : Isa.isMem (fetchByte r) = true) :
    dAddr r = (Isa.effAddr r.areg r.breg r.oreg (fetchByte r)).setWidth 19 := by
  rw [dAddr_proc]
  exact proc_addr _ _ _ _ _ _ hm (hr.mem hm)

/-- The word the memory returns is the ISA's `mem[effAddr]` of the abstracted state. -/
theorem rdData_abs (r : RtlSt) (hr : InRange r) (hm : Isa.isMem (fetchByte r) = true) :
    rdData r = (abs r).mem.read (Isa.effAddr r.areg r.breg r.oreg (fetchByte r)).toNat := by
  rw [rdData_memory, mem_read]
  show r.mem (dAddr r) = _
  rw [dAddr_eq r hr hm]
  simp only [abs]
  rw [absMem_read _ _ (lt_memWords _ (hr.mem hm)), ofNat_toNat_setWidth]

theorem isMem_of_load {f : Byte} (h : Isa.isLoad f = true) : Isa.isMem f = true := by
  simp [Isa.isMem, h]

theorem isMem_of_store {f : Byte} (h : Isa.isStore f = true) : Isa.isMem f = true := by
  simp [Isa.isMem, h]

/-- Registers after one clock, through `abs`. -/
theorem regs_cycle (r : RtlSt) (ha : OregAligned r) (hd : DefinedByte r) (hr : InRange r) :
    absRegs (cycle r) = Isa.coreRegs (absRegs r) (fetchByte r)
      ((abs r).mem.read (Isa.effAddr r.areg r.breg r.oreg (fetchByte r)).toNat) := by
  have h1 : absRegs (cycle r) = Isa.coreRegs (absRegs r) (fetchByte r) (rdData r) :=
    proc_regs (fetchByte r) (rdData r) r.pc r.areg r.breg r.oreg ha hd hr
  rw [h1]
  by_cases hl : Isa.isLoad (fetchByte r) = true
  · rw [rdData_abs r hr (isMem_of_load hl)]
  · exact coreRegs_ld _ _ _ _ (by simpa using hl)

/-- Memory after one clock, through `abs`: one word stored by STAM/STAI, else unchanged. -/
theorem mem_cycle (r : RtlSt) (hr : InRange r) :
    absMem (cycle r).mem =
      if Isa.isStore (fetchByte r) then
        (absMem r.mem).write (Isa.effAddr r.areg r.breg r.oreg (fetchByte r)).toNat r.areg
      else absMem r.mem := by
  rw [cycle_memory, mem_write _ _ rfl]
  have hs := (proc_strobes (fetchByte r) (rdData r) r.pc r.areg r.breg r.oreg).1
  have hdat : dData r = r.areg := (proc_strobes (fetchByte r) (rdData r) r.pc r.areg r.breg r.oreg).2.2.1
  show absMem (if dValid r &&& dWe r = 1#1 then upd r.mem (dAddr r) (dData r) else r.mem) = _
  by_cases hst : Isa.isStore (fetchByte r) = true
  · have hc : dValid r &&& dWe r = 1#1 := hs.2 hst
    have hm := isMem_of_store hst
    rw [if_pos hc, if_pos hst, dAddr_eq r hr hm, hdat]
    have hlt := lt_memWords _ (hr.mem hm)
    rw [absMem_upd _ _ _ (by rw [setWidth_toNat_small _ hlt]; exact hlt), setWidth_toNat_small _ hlt]
  · have hc : ¬ (dValid r &&& dWe r = 1#1) := fun h => hst (hs.1 h)
    rw [if_neg hc, if_neg hst]

/-- `abs` of the state after one clock is the ISA successor `coreNext`. -/
theorem coreNext_abs (r : RtlSt) (ha : OregAligned r) (hd : DefinedByte r) (hr : InRange r) :
    abs (cycle r) = Isa.coreNext (abs r) (fetchByte r) := by
  have hR := regs_cycle r ha hd hr
  have hM := mem_cycle r hr
  unfold Isa.coreNext
  simp only [abs, Isa.St.regs] at hR hM ⊢
  simp only [absRegs] at hR
  rw [← hM]
  have e1 := congrArg Isa.RegFile.pc hR
  have e2 := congrArg Isa.RegFile.a hR
  have e3 := congrArg Isa.RegFile.b hR
  have e4 := congrArg Isa.RegFile.o hR
  simp only at e1 e2 e3 e4
  rw [← e1, ← e2, ← e3, ← e4]

/-- **One clock = one ISA step** (non-SVC defined byte, in range, aligned `oreg`). -/
theorem step_refines (r : RtlSt) (io : Isa.IOSt)
    (ha : OregAligned r) (hd : DefinedByte r) (hs : ¬ FetchIsSvc r) (hr : InRange r) :
    Isa.step (abs r) io = .running (abs (cycle r)) io := by
  have hf := fetch_abs r hr.1
  have hm : Isa.isMem (fetchByte r) = true →
      (Isa.effAddr (abs r).a (abs r).b (abs r).o (fetchByte r)).toNat < memWords :=
    fun h => lt_memWords _ (hr.mem h)
  rw [Isa.step_eq_core (abs r) io (fetchByte r) hf hd hs hm, coreNext_abs r ha hd hr]

/-- The memory word written in this cycle is exactly the ISA's store. -/
theorem memWrite_refines (r : RtlSt) (hr : InRange r) :
    memWrite r =
      if Isa.isStore (fetchByte r) then
        some ((Isa.effAddr r.areg r.breg r.oreg (fetchByte r)).setWidth 19, r.areg)
      else none := by
  have hs := (proc_strobes (fetchByte r) (rdData r) r.pc r.areg r.breg r.oreg).1
  have hdat : dData r = r.areg := (proc_strobes (fetchByte r) (rdData r) r.pc r.areg r.breg r.oreg).2.2.1
  unfold memWrite
  by_cases hst : Isa.isStore (fetchByte r) = true
  · have hc : dValid r &&& dWe r = 1#1 := hs.2 hst
    rw [if_pos hc, if_pos hst, dAddr_eq r hr (isMem_of_store hst), hdat]
  · have hc : ¬ (dValid r &&& dWe r = 1#1) := fun h => hst (hs.1 h)
    rw [if_neg hc, if_neg hst]

/-! ### Invariant -/

theorem aligned_cycle (r : RtlSt) (ha : OregAligned r) : OregAligned (cycle r) :=
  proc_aligned 0#1 (fetchByte r) (rdData r) r.pc r.areg r.breg r.oreg ha

theorem reset_regs (r : RtlSt) : procRegs (resetEdge r) = ⟨0#21, 0#32, 0#32, 0#32⟩ := by
  rw [reset_proc]
  exact proc_reset _ _ _

theorem aligned_reset (r : RtlSt) : OregAligned (resetEdge r) := by
  have h := congrArg Sv.Processor.Regs.oreg_q (reset_regs r)
  simp only [procRegs] at h
  unfold OregAligned
  rw [h]
  rfl

/-! ### System calls -/

theorem sysValid_iff (r : RtlSt) : sysValid r = 1#1 ↔ fetchByte r = 0xD3#8 := by
  rw [sysValid_proc]
  exact (proc_svc (fetchByte r) (rdData r) r.pc r.areg r.breg r.oreg).1

theorem sysValid_iff_svc (r : RtlSt) (ha : OregAligned r) (hd : DefinedByte r) :
    sysValid r = 1#1 ↔ FetchIsSvc r := by
  rw [sysValid_iff]
  exact (proc_svc (fetchByte r) (rdData r) r.pc r.areg r.breg r.oreg).2.2 ha hd

theorem sysCall_eq (r : RtlSt) : sysCall r = r.areg.setWidth 2 := by
  rw [sysCall_proc]
  exact (proc_svc (fetchByte r) (rdData r) r.pc r.areg r.breg r.oreg).2.1

/-- SVC is defined as far as the byte is concerned. -/
theorem defined_of_svc {o : Word} {f : Byte} (h : Isa.IsSvc o f) : Isa.Defined o f := by
  unfold Isa.IsSvc at h
  unfold Isa.Defined
  refine ⟨?_, fun _ => Or.inr (Or.inr (Or.inr h.2))⟩
  rw [h.1]
  decide

/-- The SVC cycle: the ISA enters `svc` with `pc+1`; the RTL's own effect is `pc+1`, `oreg = 0`,
    nothing stored. -/
theorem svc_cycle (r : RtlSt) (io : Isa.IOSt) (ha : OregAligned r) (hs : FetchIsSvc r)
    (hr : InRange r) :
    Isa.step (abs r) io = Isa.svc (Isa.svcEntry (abs r) (fetchByte r)) io ∧
    abs (cycle r) = { Isa.svcEntry (abs r) (fetchByte r) with o := 0#32 } := by
  have hf := fetch_abs r hr.1
  have hd : DefinedByte r := defined_of_svc hs
  constructor
  · exact Isa.step_svc (abs r) io (fetchByte r) hf hs
  · rw [coreNext_abs r ha hd hr]
    have k1 : Isa.opc (fetchByte r) = 13#8 := hs.1
    have k2 : Isa.opnd (abs r).o (fetchByte r) = 3#32 := hs.2
    unfold Isa.coreNext Isa.svcEntry Isa.coreRegs Isa.isStore
    simp only [Isa.St.regs, k1, k2]
    simp (config := { decide := true })

end Hex.Rtl
