import HexVerif.Rtl.Lemmas
/-
  Assembly of the C03 theorems from the lemmas of Rtl/Lemmas.lean: one clock of the flattened
  design refines one `Isa.step` through `abs`; the SVC cycle; runs of the system (RTL + test
  bench) against `Isa.step` iterated.
-/
namespace Hex.Rtl
open Hex Hex.Rtl.Gen

set_option linter.unusedSimpArgs false

theorem InRange.mem {r : RtlSt} (hr : InRange r) (hm : Isa.isMem (fetchByte r) = true) :
    Isa.effAddr r.areg r.breg r.oreg (fetchByte r) < 200000#32 := hr.2.1 hm

/-- The data address the processor drives is the ISA's effective address. -/
theorem dAddr_eq (r : RtlSt) (hr : InRange r) (hm : Isa.isMem (fetchByte r) = true) :
    dAddr r = (Isa.effAddr r.areg r.breg r.oreg (fetchByte r)).setWidth 19 := by
  rw [dAddr_proc]
  exact proc_addr _ _ _ _ _ _ hm (hr.mem hm)

/-- The word the memory returns is the ISA's `mem[effAddr]` of the abstracted state. -/
theorem rdData_abs (r : RtlSt) (hr : InRange r) (hm : Isa.isMem (fetchByte r) = true) :
    rdData r = (abs r).mem.read (Isa.effAddr r.areg r.breg r.oreg (fetchByte r)).toNat := by
  rw [rdData_memory, mem_read]
  show r.mem (dAddr r) = _
  rw [dAddr_eq r hr hm]
  simp only [abs]
  rw [absMem_read _ _ (lt_memWords _ (hr.mem hm)), ofNat_toNat_setWidth]

theorem isMem_of_load {f : Byte} (h : Isa.isLoad f = true) : Isa.isMem f = true := by
  simp [Isa.isMem, h]

theorem isMem_of_store {f : Byte} (h : Isa.isStore f = true) : Isa.isMem f = true := by
  simp [Isa.isMem, h]

/-- Registers after one clock, through `abs`. -/
theorem regs_cycle (r : RtlSt) (ha : OregAligned r) (hd : DefinedByte r) (hr : InRange r) :
    absRegs (cycle r) = Isa.coreRegs (absRegs r) (fetchByte r)
      ((abs r).mem.read (Isa.effAddr r.areg r.breg r.oreg (fetchByte r)).toNat) := by
  have h1 : absRegs (cycle r) = Isa.coreRegs (absRegs r) (fetchByte r) (rdData r) :=
    proc_regs (fetchByte r) (rdData r) r.pc r.areg r.breg r.oreg ha hd hr
  rw [h1]
  by_cases hl : Isa.isLoad (fetchByte r) = true
  · rw [rdData_abs r hr (isMem_of_load hl)]
  · exact coreRegs_ld _ _ _ _ (by simpa using hl)

/-- Memory after one clock, through `abs`: one word stored by STAM/STAI, else unchanged. -/
theorem mem_cycle (r : RtlSt) (hr : InRange r) :
    absMem (cycle r).mem =
      if Isa.isStore (fetchByte r) then
        (absMem r.mem).write (Isa.effAddr r.areg r.breg r.oreg (fetchByte r)).toNat r.areg
      else absMem r.mem := by
  rw [cycle_memory, mem_write _ _ rfl]
  have hs := (proc_strobes (fetchByte r) (rdData r) r.pc r.areg r.breg r.oreg).1
  have hdat : dData r = r.areg := (proc_strobes (fetchByte r) (rdData r) r.pc r.areg r.breg r.oreg).2.2.1
  show absMem (if dValid r &&& dWe r = 1#1 then upd r.mem (dAddr r) (dData r) else r.mem) = _
  by_cases hst : Isa.isStore (fetchByte r) = true
  · have hc : dValid r &&& dWe r = 1#1 := hs.2 hst
    have hm := isMem_of_store hst
    rw [if_pos hc, if_pos hst, dAddr_eq r hr hm, hdat]
    have hlt := lt_memWords _ (hr.mem hm)
    rw [absMem_upd _ _ _ (by rw [setWidth_toNat_small _ hlt]; exact hlt), setWidth_toNat_small _ hlt]
  · have hc : ¬ (dValid r &&& dWe r = 1#1) := fun h => hst (hs.1 h)
    rw [if_neg hc, if_neg hst]

/-- `abs` of the state after one clock is the ISA successor `coreNext`. -/
theorem coreNext_abs (r : RtlSt) (ha : OregAligned r) (hd : DefinedByte r) (hr : InRange r) :
    abs (cycle r) = Isa.coreNext (abs r) (fetchByte r) := by
  have hR := regs_cycle r ha hd hr
  have hM := mem_cycle r hr
  unfold Isa.coreNext
  simp only [abs, Isa.St.regs] at hR hM ⊢
  simp only [absRegs] at hR
  rw [← hM]
  have e1 := congrArg Isa.RegFile.pc hR
  have e2 := congrArg Isa.RegFile.a hR
  have e3 := congrArg Isa.RegFile.b hR
  have e4 := congrArg Isa.RegFile.o hR
  simp only at e1 e2 e3 e4
  rw [← e1, ← e2, ← e3, ← e4]

/-- **One clock = one ISA step** (non-SVC defined byte, in range, aligned `oreg`). -/
theorem step_refines (r : RtlSt) (io : Isa.IOSt)
    (ha : OregAligned r) (hd : DefinedByte r) (hs : ¬ FetchIsSvc r) (hr : InRange r) :
    Isa.step (abs r) io = .running (abs (cycle r)) io := by
  have hf := fetch_abs r hr.1
  have hm : Isa.isMem (fetchByte r) = true →
      (Isa.effAddr (abs r).a (abs r).b (abs r).o (fetchByte r)).toNat < memWords :=
    fun h => lt_memWords _ (hr.mem h)
  rw [Isa.step_eq_core (abs r) io (fetchByte r) hf hd hs hm, coreNext_abs r ha hd hr]

/-- The memory word written in this cycle is exactly the ISA's store. -/
theorem memWrite_refines (r : RtlSt) (hr : InRange r) :
    memWrite r =
      if Isa.isStore (fetchByte r) then
        some ((Isa.effAddr r.areg r.breg r.oreg (fetchByte r)).setWidth 19, r.areg)
      else none := by
  have hs := (proc_strobes (fetchByte r) (rdData r) r.pc r.areg r.breg r.oreg).1
  have hdat : dData r = r.areg := (proc_strobes (fetchByte r) (rdData r) r.pc r.areg r.breg r.oreg).2.2.1
  unfold memWrite
  by_cases hst : Isa.isStore (fetchByte r) = true
  · have hc : dValid r &&& dWe r = 1#1 := hs.2 hst
    rw [if_pos hc, if_pos hst, dAddr_eq r hr (isMem_of_store hst), hdat]
  · have hc : ¬ (dValid r &&& dWe r = 1#1) := fun h => hst (hs.1 h)
    rw [if_neg hc, if_neg hst]

/-! ### Invariant -/

theorem aligned_cycle (r : RtlSt) (ha : OregAligned r) : OregAligned (cycle r) :=
  proc_aligned 0#1 (fetchByte r) (rdData r) r.pc r.areg r.breg r.oreg ha

theorem reset_regs (r : RtlSt) : procRegs (resetEdge r) = ⟨0#21, 0#32, 0#32, 0#32⟩ := by
  rw [reset_proc]
  exact proc_reset _ _ _

theorem aligned_reset (r : RtlSt) : OregAligned (resetEdge r) := by
  have h := congrArg Sv.Processor.Regs.oreg_q (reset_regs r)
  simp only [procRegs] at h
  unfold OregAligned
  rw [h]
  rfl

/-- Reset leaves the memory image alone. -/
theorem reset_mem (r : RtlSt) : (resetEdge r).mem = r.mem := by
  rw [reset_memory]
  exact mem_reset _ _ rfl

/-! ### System calls -/

theorem sysValid_iff (r : RtlSt) : sysValid r = 1#1 ↔ fetchByte r = 0xD3#8 := by
  rw [sysValid_proc]
  exact (proc_svc (fetchByte r) (rdData r) r.pc r.areg r.breg r.oreg).1

theorem sysValid_iff_svc (r : RtlSt) (ha : OregAligned r) (hd : DefinedByte r) :
    sysValid r = 1#1 ↔ FetchIsSvc r := by
  rw [sysValid_iff]
  exact (proc_svc (fetchByte r) (rdData r) r.pc r.areg r.breg r.oreg).2.2 ha hd

theorem sysCall_eq (r : RtlSt) : sysCall r = r.areg.setWidth 2 := by
  rw [sysCall_proc]
  exact (proc_svc (fetchByte r) (rdData r) r.pc r.areg r.breg r.oreg).2.1

/-- SVC is defined as far as the byte is concerned. -/
theorem defined_of_svc {o : Word} {f : Byte} (h : Isa.IsSvc o f) : Isa.Defined o f := by
  unfold Isa.IsSvc at h
  unfold Isa.Defined
  refine ⟨?_, fun _ => Or.inr (Or.inr (Or.inr h.2))⟩
  rw [h.1]
  decide

/-- The SVC cycle: the ISA enters `svc` with `pc+1`; the RTL's own effect is `pc+1`, `oreg = 0`,
    nothing stored. -/
theorem svc_cycle (r : RtlSt) (io : Isa.IOSt) (ha : OregAligned r) (hs : FetchIsSvc r)
    (hr : InRange r) :
    Isa.step (abs r) io = Isa.svc (Isa.svcEntry (abs r) (fetchByte r)) io ∧
    abs (cycle r) = { Isa.svcEntry (abs r) (fetchByte r) with o := 0#32 } := by
  have hf := fetch_abs r hr.1
  have hd : DefinedByte r := defined_of_svc hs
  constructor
  · exact Isa.step_svc (abs r) io (fetchByte r) hf hs
  · rw [coreNext_abs r ha hd hr]
    have k1 : Isa.opc (fetchByte r) = 13#8 := hs.1
    have k2 : Isa.opnd (abs r).o (fetchByte r) = 3#32 := hs.2
    unfold Isa.coreNext Isa.svcEntry Isa.coreRegs Isa.isStore
    simp only [Isa.St.regs, k1, k2]
    simp (config := { decide := true })

/-! ### Runs -/

/-- The ISA-side range predicate on `abs r` gives the RTL-side hypotheses. -/
theorem of_isaInRange (r : RtlSt) (h : IsaInRange (abs r)) : DefinedByte r ∧ InRange r := by
  unfold IsaInRange at h
  have hpc : (absRegs r).pc < 800000#32 := by
    by_cases hlt : ((abs r).pc >>> 2).toNat < memWords
    · have e : (absRegs r).pc = (abs r).pc := rfl
      rw [e, BitVec.lt_def]
      rw [BitVec.toNat_ushiftRight, Nat.shiftRight_eq_div_pow] at hlt
      unfold memWords at hlt
      have : BitVec.toNat (800000#32) = 800000 := rfl
      rw [this]
      omega
    · simp only [Isa.fetch, hlt, if_false] at h
  rw [fetch_abs r hpc] at h
  exact h

/-- `abs` commutes with replacing the memory. -/
theorem abs_setMem (r : RtlSt) (m : BitVec 19 → Word) :
    abs { r with u_memory__memory_q := m } = { abs r with mem := absMem m } := rfl

/-- **Runs.**  From any state with an aligned `oreg` (in particular the reset state), for every
    bench that services system calls as `Isa.svc` does and every number of clocks `n`: if the
    first `n` ISA instructions from `abs r` are defined and in range, the system after `n`
    clocks abstracts to exactly the ISA outcome after `n` instructions (registers, memory, I/O
    history, exit value). -/
theorem run_refines (tb : Tb) (htb : TbRefines tb) :
    ∀ (n : Nat) (r : RtlSt) (io : Isa.IOSt) (out : Isa.Outcome), OregAligned r →
      isaRun n (abs r) io = some out → absResult (sysRun tb n r io) = out := by
  intro n
  induction n with
  | zero =>
    intro r io out _ h
    simp only [isaRun, Option.some.injEq] at h
    simp only [sysRun, absResult, h]
  | succ n ih =>
    intro r io out ha h
    unfold isaRun at h
    by_cases hir : IsaInRange (abs r)
    · rw [if_pos hir] at h
      obtain ⟨hd, hr⟩ := of_isaInRange r hir
      unfold sysRun sysCycle
      by_cases hs : FetchIsSvc r
      · -- the SVC cycle
        have hv : sysValid r = 1#1 := (sysValid_iff_svc r ha hd).2 hs
        obtain ⟨h1, h2⟩ := svc_cycle r io ha hs hr
        have hmem : (Isa.svcEntry (abs r) (fetchByte r)).mem = absMem (cycle r).mem := by
          exact (congrArg Isa.St.mem h2).symm
        have hA : (Isa.svcEntry (abs r) (fetchByte r)).a = r.areg := rfl
        have ht := htb (cycle r).mem io (Isa.svcEntry (abs r) (fetchByte r)) hmem
        rw [h1] at h
        rw [hA, ← sysCall_eq r] at ht
        simp only [hv, if_true]
        cases hsv : Isa.svc (Isa.svcEntry (abs r) (fetchByte r)) io with
        | running s' io' =>
          rw [hsv] at h ht
          simp only at h ht
          obtain ⟨m', t1, t2⟩ := ht
          rw [t1]
          simp only
          apply ih _ _ _ (show OregAligned { cycle r with u_memory__memory_q := m' } from aligned_cycle r ha)
          rw [abs_setMem, h2, ← h, t2]
          rfl
        | exited c s' io' =>
          rw [hsv] at h ht
          simp only at h ht
          obtain ⟨t1, t2⟩ := ht
          rw [t1]
          simp only [Option.some.injEq] at h
          simp only [absResult, ← h, h2, t2]
          rfl
        | undef w =>
          rw [hsv] at h
          simp only at h
          exact absurd h (by simp)
      · -- an ordinary instruction
        have hv : ¬ (sysValid r = 1#1) := fun hv => hs ((sysValid_iff_svc r ha hd).1 hv)
        rw [step_refines r io ha hd hs hr] at h
        simp only at h
        simp only [hv, if_false]
        exact ih _ _ _ (aligned_cycle r ha) h
    · rw [if_neg hir] at h
      exact absurd h (by simp)

/-! ### The reference bench refines `Isa.svc` -/

theorem ld_abs (m : BitVec 19 → Word) (i : Word) :
    Isa.ld (absMem m) i = if i.toNat < memWords then some (m (i.setWidth 19)) else none := by
  unfold Isa.ld
  by_cases h : i.toNat < memWords
  · rw [if_pos h, if_pos h, absMem_read _ _ h, ofNat_toNat_setWidth]
  · rw [if_neg h, if_neg h]

theorem stw_abs (m : BitVec 19 → Word) (i v : Word) :
    Isa.stw (absMem m) i v = if i.toNat < memWords then some (absMem (upd m (i.setWidth 19) v)) else none := by
  unfold Isa.stw
  by_cases h : i.toNat < memWords
  · rw [if_pos h, if_pos h, absMem_upd _ _ _ (by rw [setWidth_toNat_small _ h]; exact h),
      setWidth_toNat_small _ h]
  · rw [if_neg h, if_neg h]

theorem sp_add (sp : Word) (k : Word) : (sp + k).setWidth 19 = sp.setWidth 19 + k.setWidth 19 := by
  simp only [Word] at *
  bv_decide

/-- The reference bench (hextb.cpp's `handleSyscall` over `memory_q`) services every defined
    system call exactly as `Isa.svc` does. -/
theorem refTb_refines : TbRefines refTb := by
  intro m io s hm
  rcases s with ⟨pc, a, b, o, mem⟩
  simp only at hm
  subst hm
  have h1 : (absMem m).read 1 = m 1#19 := by
    rw [absMem_read _ _ (by unfold memWords; omega)]
  unfold Isa.svc
  simp only [h1, ld_abs, stw_abs, sp_add, BitVec.ofNat_eq_ofNat]
  by_cases a0 : a = 0#32
  · subst a0
    simp only [↓reduceIte]
    by_cases l : (m 1#19 + 2#32).toNat < memWords
    · simp only [l, ↓reduceIte, refTb]
      simp only [BitVec.reduceSetWidth, BitVec.reduceEq, ↓reduceIte, and_true]
    · simp only [l, ↓reduceIte]
  · by_cases a1 : a = 1#32
    · subst a1
      simp only [↓reduceIte, BitVec.reduceEq]
      by_cases l : (m 1#19 + 2#32).toNat < memWords
      · by_cases l3 : (m 1#19 + 3#32).toNat < memWords
        · simp only [l, l3, ↓reduceIte, refTb, BitVec.reduceEq, BitVec.reduceSetWidth]
          exact ⟨m, rfl, rfl⟩
        · simp only [l, l3, ↓reduceIte]
      · by_cases l3 : (m 1#19 + 3#32).toNat < memWords <;>
          simp only [l, l3, ↓reduceIte]
    · by_cases a2 : a = 2#32
      · subst a2
        simp only [↓reduceIte, BitVec.reduceEq]
        by_cases l : (m 1#19 + 2#32).toNat < memWords
        · by_cases l1 : (m 1#19 + 1#32).toNat < memWords
          · simp only [l, l1, ↓reduceIte, refTb, BitVec.reduceEq, BitVec.reduceSetWidth]
            exact ⟨_, rfl, rfl⟩
          · simp only [l, l1, ↓reduceIte]
        · simp only [l, ↓reduceIte]
      · simp only [a0, a1, a2, ↓reduceIte]

end Hex.Rtl
