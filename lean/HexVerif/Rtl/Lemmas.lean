import HexVerif.Rtl.Sem
import Std.Tactic.BVDecide
/-
  Proofs behind Properties/C03.lean.

  Three layers:
  1. *Flattening* (`rfl`): the generated flattened `hex` is the generated stand-alone `processor`
     fed with the generated `memory`'s outputs, and vice versa.  (This also checks the
     translator's inlining against its per-module translation inside Lean.)
  2. *Closed bit-vector goals* about the generated `processor` with free fetch byte `f` and read
     data `d` (`bv_decide`): registers after one clock = `Isa.coreRegs`, data address =
     `Isa.effAddr`, write enable = `Isa.isStore`, syscall request = `Isa.IsSvc`, `OregAligned`
     preserved.
  3. *Memory*: `memory_q` read/written through `abs` (addresses proved equal first, then
     rewritten through the abstraction), and the little-endian byte-lane fetch.
-/
namespace Hex.Rtl
open Hex Hex.Rtl.Gen

set_option linter.unusedSimpArgs false

/-! ## 1. Flattening -/

theorem cycle_proc (r : RtlSt) :
    procRegs (cycle r) = Sv.Processor.ff ⟨⟩ (procIn 0#1 (fetchByte r) (rdData r)) (procRegs r) := rfl

theorem reset_proc (r : RtlSt) :
    procRegs (resetEdge r) =
      Sv.Processor.ff ⟨⟩ (procIn 1#1 (Sv.Hex.comb ⟨⟩ (ev 1#1) r).res_f_data (Sv.Hex.comb ⟨⟩ (ev 1#1) r).res_d_data)
        (procRegs r) := rfl

/-- Processor outputs inside the flattened design = outputs of the stand-alone processor. -/
def procWires (r : RtlSt) : Sv.Processor.Wires :=
  Sv.Processor.comb ⟨⟩ (procIn 0#1 (fetchByte r) (rdData r)) (procRegs r)

theorem dAddr_proc (r : RtlSt) : dAddr r = (procWires r).o_d_addr := rfl
theorem dValid_proc (r : RtlSt) : dValid r = (procWires r).o_d_valid := rfl
theorem dWe_proc (r : RtlSt) : dWe r = (procWires r).o_d_we := rfl
theorem dData_proc (r : RtlSt) : dData r = (procWires r).o_d_data := rfl
theorem sysValid_proc (r : RtlSt) : sysValid r = (procWires r).o_syscall_valid := rfl
theorem sysCall_proc (r : RtlSt) : sysCall r = (procWires r).o_syscall := rfl

/-- Inputs the memory sees inside the flattened design. -/
def memIn (rst : BitVec 1) (r : RtlSt) : Sv.Memory.In :=
  { i_rst := rst, i_clk := 1#1, i_f_valid := (wires r).req_f_valid, i_f_addr := (wires r).req_f_addr,
    i_d_valid := dValid r, i_d_we := dWe r, i_d_addr := dAddr r, i_d_data := dData r }

theorem cycle_memory (r : RtlSt) :
    (cycle r).mem = (Sv.Memory.ff ⟨⟩ (memIn 0#1 r) ⟨r.mem⟩).memory_q := rfl

theorem fetch_memory (r : RtlSt) : fetchByte r = (Sv.Memory.comb ⟨⟩ (memIn 0#1 r) ⟨r.mem⟩).o_f_data := rfl
theorem rdData_memory (r : RtlSt) : rdData r = (Sv.Memory.comb ⟨⟩ (memIn 0#1 r) ⟨r.mem⟩).o_d_data := rfl
theorem fetch_addr (r : RtlSt) : (wires r).req_f_addr = r.pc := rfl

/-! ## 2. The processor against the bit-vector reading of the ISA -/

/-- Registers after one clock (reset low) = `Isa.coreRegs`, for every byte and register file
    with an aligned `oreg`, defined byte, in range.  Covers SVC too (pc+1, oreg cleared). -/
theorem proc_regs (f : Byte) (d : Word) (pc : BitVec 21) (a b o : Word)
    (ha : o &&& 15#32 = 0#32) (hd : Isa.Defined o f) (hr : InRangeRegs (regsOf ⟨pc, a, b, o⟩) f) :
    regsOf (Sv.Processor.ff ⟨⟩ (procIn 0#1 f d) ⟨pc, a, b, o⟩)
      = Isa.coreRegs (regsOf ⟨pc, a, b, o⟩) f d := by
  unfold InRangeRegs Isa.effAddr Isa.isMem Isa.isLoad Isa.isStore regsOf at hr
  unfold Isa.Defined at hd
  unfold regsOf Isa.coreRegs Sv.Processor.ff Sv.Processor.comb procIn
  simp only [Isa.opnd, Isa.opc, Word, Byte] at hr hd ha ⊢
  rcases hr with ⟨h1, h2, h3, h4, h5, h6, h7⟩
  rcases hd with ⟨d1, d2⟩
  congr 1 <;> bv_decide

/-- Data address = the ISA's effective address (truncated to the 19 address bits), for every
    memory-access byte in range. -/
theorem proc_addr (f : Byte) (d : Word) (pc : BitVec 21) (a b o : Word)
    (hm : Isa.isMem f = true) (hr : Isa.effAddr a b o f < 200000#32) :
    (Sv.Processor.comb ⟨⟩ (procIn 0#1 f d) ⟨pc, a, b, o⟩).o_d_addr = (Isa.effAddr a b o f).setWidth 19 := by
  unfold Isa.effAddr at hr ⊢
  unfold Isa.isMem Isa.isLoad Isa.isStore at hm
  unfold Sv.Processor.comb procIn
  simp only [Isa.opnd, Isa.opc, Word, Byte] at hr hm ⊢
  bv_decide

/-- Write strobe = the byte is STAM/STAI; valid strobe = the byte accesses memory; data = areg. -/
theorem proc_strobes (f : Byte) (d : Word) (pc : BitVec 21) (a b o : Word) :
    let w := Sv.Processor.comb ⟨⟩ (procIn 0#1 f d) ⟨pc, a, b, o⟩
    (w.o_d_valid &&& w.o_d_we = 1#1 ↔ Isa.isStore f = true) ∧
    (w.o_d_valid = 1#1 ↔ Isa.isMem f = true) ∧ w.o_d_data = a ∧ w.o_f_addr = pc ∧ w.o_f_valid = 1#1 := by
  unfold Isa.isMem Isa.isLoad Isa.isStore Sv.Processor.comb procIn
  simp only [Isa.opc, Byte]
  refine ⟨?_, ?_, ?_, ?_, ?_⟩ <;> first | trivial | rfl | bv_decide

/-- System-call request: raised exactly for byte 0xD3; with an aligned `oreg` that is exactly
    "the fetched instruction is OPR SVC" of the ISA.  Call number = `areg[1:0]`. -/
theorem proc_svc (f : Byte) (d : Word) (pc : BitVec 21) (a b o : Word) :
    let w := Sv.Processor.comb ⟨⟩ (procIn 0#1 f d) ⟨pc, a, b, o⟩
    (w.o_syscall_valid = 1#1 ↔ f = 0xD3#8) ∧ w.o_syscall = a.setWidth 2 ∧
    (o &&& 15#32 = 0#32 → Isa.Defined o f → (f = 0xD3#8 ↔ Isa.IsSvc o f)) := by
  unfold Isa.IsSvc Isa.Defined Sv.Processor.comb procIn
  simp only [Isa.opnd, Isa.opc, Word, Byte]
  refine ⟨?_, ?_, ?_⟩
  · bv_decide
  · bv_decide
  · intro ha hd
    rcases hd with ⟨d1, d2⟩
    bv_decide

/-- `OregAligned` is preserved by every clock, for every byte (defined or not) and every state. -/
theorem proc_aligned (rst : BitVec 1) (f : Byte) (d : Word) (pc : BitVec 21) (a b o : Word)
    (ha : o &&& 15#32 = 0#32) :
    (Sv.Processor.ff ⟨⟩ (procIn rst f d) ⟨pc, a, b, o⟩).oreg_q &&& 15#32 = 0#32 := by
  unfold Sv.Processor.ff Sv.Processor.comb procIn
  simp only [Word] at ha ⊢
  bv_decide

/-- The reset arm clears all four registers, whatever the state and the inputs. -/
theorem proc_reset (f : Byte) (d : Word) (p : Sv.Processor.Regs) :
    Sv.Processor.ff ⟨⟩ (procIn 1#1 f d) p = ⟨0#21, 0#32, 0#32, 0#32⟩ := by
  unfold Sv.Processor.ff Sv.Processor.comb procIn
  rfl

/-- The load data only matters for loads. -/
theorem coreRegs_ld (s : Isa.RegFile) (f : Byte) (d d' : Word) (h : Isa.isLoad f = false) :
    Isa.coreRegs s f d = Isa.coreRegs s f d' := by
  unfold Isa.isLoad at h
  unfold Isa.coreRegs
  simp only [Isa.opnd, Isa.opc, Word, Byte] at h ⊢
  congr 1 <;> bv_decide

/-! ## 3. Memory through the abstraction -/

theorem ofNat_toNat_setWidth (x : Word) : BitVec.ofNat 19 x.toNat = x.setWidth 19 := by
  apply BitVec.eq_of_toNat_eq
  simp

theorem setWidth_toNat_small (x : Word) (h : x.toNat < memWords) : (x.setWidth 19).toNat = x.toNat := by
  simp only [BitVec.toNat_setWidth]
  unfold memWords at h
  omega

theorem lt_memWords (x : Word) (h : x < 200000#32) : x.toNat < memWords := by
  rw [BitVec.lt_def] at h
  simpa [memWords] using h

theorem absMem_upd (m : BitVec 19 → Word) (a : BitVec 19) (v : Word) (ha : a.toNat < memWords) :
    absMem (upd m a v) = (absMem m).write a.toNat v := by
  apply Mem.ext'
  intro i hi
  rw [absMem_read _ _ hi, Mem.read_write _ _ _ _ ha, absMem_read _ _ hi]
  unfold upd
  by_cases h : a.toNat = i
  · subst h; simp
  · have hne : BitVec.ofNat 19 i ≠ a := by
      intro e
      apply h
      rw [← e]
      simp only [BitVec.toNat_ofNat]
      unfold memWords at hi
      omega
    simp [h, hne]

/-- Byte lane `k` of a word (little-endian), as a closed bit-vector expression. -/
def byteSel (w : Word) (k : BitVec 2) : Byte :=
  if k = 0#2 then w.extractLsb' 0 8 else if k = 1#2 then w.extractLsb' 8 8
  else if k = 2#2 then w.extractLsb' 16 8 else w.extractLsb' 24 8

theorem byteSel_eq (w : Word) (k : BitVec 2) : byteSel w k = byteOfWord w k.toNat := by
  have h4 : k = 0#2 ∨ k = 1#2 ∨ k = 2#2 ∨ k = 3#2 := by
    bv_decide
  unfold byteSel byteOfWord
  rcases h4 with h | h | h | h <;> subst h <;> simp only [Word, Byte] <;> bv_decide

/-- The memory's fetch port returns byte lane `pc[1:0]` of word `pc[20:2]`. -/
theorem mem_fetch (i : Sv.Memory.In) (m : BitVec 19 → Word) :
    (Sv.Memory.comb ⟨⟩ i ⟨m⟩).o_f_data = byteSel (m (i.i_f_addr.extractLsb' 2 19)) (i.i_f_addr.extractLsb' 0 2) := by
  unfold Sv.Memory.comb byteSel
  dsimp only
  generalize m (BitVec.extractLsb' 2 19 i.i_f_addr) = w
  bv_decide

/-- The memory's data port returns word `i_d_addr`. -/
theorem mem_read (i : Sv.Memory.In) (m : BitVec 19 → Word) :
    (Sv.Memory.comb ⟨⟩ i ⟨m⟩).o_d_data = m i.i_d_addr := rfl

set_option linter.unusedVariables false in
/-- The memory's clocked arm: a point update when `valid ∧ we` (reset low), else unchanged. -/
theorem mem_write (i : Sv.Memory.In) (m : BitVec 19 → Word) (hr : i.i_rst = 0#1) :
    (Sv.Memory.ff ⟨⟩ i ⟨m⟩).memory_q =
      if i.i_d_valid &&& i.i_d_we = 1#1 then upd m i.i_d_addr i.i_d_data else m := by
  unfold Sv.Memory.ff Sv.Memory.comb
  first
    | rfl
    | (dsimp only; split <;> split <;> first | rfl | (exfalso; bv_decide))

/-- The memory's reset arm: nothing is written while `i_rst` is high
    (`if (!i_rst && i_d_valid && i_d_we)`; false of the tree before repo commit d715191). -/
theorem mem_reset (i : Sv.Memory.In) (m : BitVec 19 → Word) (hr : i.i_rst = 1#1) :
    (Sv.Memory.ff ⟨⟩ i ⟨m⟩).memory_q = m := by
  unfold Sv.Memory.ff Sv.Memory.comb
  dsimp only
  split
  · exfalso; bv_decide
  · rfl

theorem reset_memory (r : RtlSt) :
    (resetEdge r).mem =
      (Sv.Memory.ff ⟨⟩
        { i_rst := 1#1, i_clk := 1#1, i_f_valid := (Sv.Hex.comb ⟨⟩ (ev 1#1) r).req_f_valid,
          i_f_addr := (Sv.Hex.comb ⟨⟩ (ev 1#1) r).req_f_addr, i_d_valid := (Sv.Hex.comb ⟨⟩ (ev 1#1) r).req_d_valid,
          i_d_we := (Sv.Hex.comb ⟨⟩ (ev 1#1) r).req_d_we, i_d_addr := (Sv.Hex.comb ⟨⟩ (ev 1#1) r).req_d_addr,
          i_d_data := (Sv.Hex.comb ⟨⟩ (ev 1#1) r).req_d_data } ⟨r.mem⟩).memory_q := rfl

theorem fetch_eq (r : RtlSt) :
    fetchByte r = byteOfWord (r.mem (r.pc.extractLsb' 2 19)) (r.pc.extractLsb' 0 2).toNat := by
  rw [fetch_memory, mem_fetch, byteSel_eq]
  rfl

/-- The ISA's `pmem[pc]` on the abstracted state is the byte the RTL memory delivers. -/
theorem fetch_abs (r : RtlSt) (h : (absRegs r).pc < 800000#32) :
    Isa.fetch (abs r).mem (abs r).pc = some (fetchByte r) := by
  have hpc : (r.pc.zeroExtend 32).toNat = r.pc.toNat := by
    simp only [BitVec.zeroExtend, BitVec.toNat_setWidth]
    have := r.pc.isLt
    omega
  have hlt : r.pc.toNat < 800000 := by
    have := h
    rw [BitVec.lt_def] at this
    simp only [absRegs] at this
    rw [hpc] at this
    simpa using this
  have hw : ((r.pc.zeroExtend 32 : Word) >>> 2).toNat = (r.pc.extractLsb' 2 19).toNat := by
    simp only [BitVec.toNat_ushiftRight, hpc, BitVec.extractLsb'_toNat, Nat.shiftRight_eq_div_pow]
    have := r.pc.isLt
    omega
  have hb : ((r.pc.zeroExtend 32 : Word) &&& 3#32).toNat = (r.pc.extractLsb' 0 2).toNat := by
    simp only [BitVec.toNat_and, hpc, BitVec.extractLsb'_toNat, Nat.shiftRight_zero]
    have : BitVec.toNat (3#32) = 2 ^ 2 - 1 := rfl
    rw [this, Nat.and_two_pow_sub_one_eq_mod]
  have hwlt : (r.pc.extractLsb' 2 19).toNat < memWords := by
    rw [← hw]
    simp only [BitVec.toNat_ushiftRight, hpc, Nat.shiftRight_eq_div_pow]
    unfold memWords
    omega
  have hix : BitVec.ofNat 19 (r.pc.extractLsb' 2 19).toNat = r.pc.extractLsb' 2 19 := by
    apply BitVec.eq_of_toNat_eq
    simp
  simp only [Isa.fetch, abs, hw, hwlt, if_true, absMem_read _ _ hwlt, fetch_eq, hix]
  rw [← hb]
  rfl

end Hex.Rtl
