import HexVerif.Rtl.Gen.Sv
import HexVerif.Rtl.Gen.V
import HexVerif.Rtl.Gen.SynthV
import HexVerif.Rtl.IsaCore
/-
  Clock / reset semantics over the GENERATED functions of Rtl/Gen/*.lean, and the abstraction
  from the RTL state to the ISA state.  Hand-written; core Lean only (drivers link against it).

  Every clocked block of the design is `always_ff @(posedge i_clk or posedge i_rst)` (checked:
  `sens_hex` below is `rfl` on the generated sensitivity list, so a change of the list breaks
  the build).  An *event* is a rising edge of either signal; at an event every clocked body is
  executed once on the pre-event registers with the post-edge input values.  Hence

    `cycle`     = rising clock edge while `i_rst = 0`     (`Gen.Sv.Hex.ff` with i_rst := 0)
    `resetEdge` = any event while `i_rst = 1`             (`Gen.Sv.Hex.ff` with i_rst := 1)

  Nothing here mentions the body of `processor.sv`/`memory.sv`; the reset arm and the clocked
  arm are the two specialisations of the generated `ff`.
-/
namespace Hex.Rtl
open Hex Hex.Rtl.Gen

/-- Registers of the flattened design `hex` = processor registers + `memory_q`. -/
abbrev RtlSt := Sv.Hex.Regs

namespace RtlSt
abbrev pc (r : RtlSt) : BitVec 21 := r.u_processor__pc_q
abbrev areg (r : RtlSt) : Word := r.u_processor__areg_q
abbrev breg (r : RtlSt) : Word := r.u_processor__breg_q
abbrev oreg (r : RtlSt) : Word := r.u_processor__oreg_q
abbrev mem (r : RtlSt) : BitVec 19 → Word := r.u_memory__memory_q
end RtlSt

/-- Input values seen by the clocked bodies at an event (the clock has just risen, or reset has). -/
def ev (rst : BitVec 1) : Sv.Hex.In := { i_clk := 1#1, i_rst := rst }

/-- One rising clock edge with reset low. -/
def cycle (r : RtlSt) : RtlSt := Sv.Hex.ff ⟨⟩ (ev 0#1) r

/-- One event with reset high (the reset arm of every clocked block). -/
def resetEdge (r : RtlSt) : RtlSt := Sv.Hex.ff ⟨⟩ (ev 1#1) r

/-- Settled combinational values in state `r` (reset low). -/
def wires (r : RtlSt) : Sv.Hex.Wires := Sv.Hex.comb ⟨⟩ (ev 0#1) r

theorem sens_hex : Sv.Hex.sens = [("POS", "i_clk"), ("POS", "i_rst")] := rfl
theorem sens_processor : Sv.Processor.sens = [("POS", "i_clk"), ("POS", "i_rst")] := rfl
theorem sens_memory : Sv.Memory.sens = [("POS", "i_clk"), ("POS", "i_rst")] := rfl
theorem sens_v : V.Processor.sens = [("POS", "i_clk"), ("POS", "i_rst")] := rfl
theorem sens_synthv : SynthV.Processor.sens = [("POS", "i_clk"), ("POS", "i_rst")] := rfl

/-! ### What the design shows at its ports and internal interfaces in state `r` -/

/-- The instruction byte the memory returns for the current `pc_q` (`res_f_data`). -/
def fetchByte (r : RtlSt) : Byte := (wires r).res_f_data
/-- Data-port word address (`req_d_addr`). -/
def dAddr (r : RtlSt) : BitVec 19 := (wires r).req_d_addr
def dValid (r : RtlSt) : BitVec 1 := (wires r).req_d_valid
def dWe (r : RtlSt) : BitVec 1 := (wires r).req_d_we
def dData (r : RtlSt) : Word := (wires r).req_d_data
/-- Word the memory returns on the data port (`res_d_data`). -/
def rdData (r : RtlSt) : Word := (wires r).res_d_data
/-- `o_syscall_valid`, `o_syscall` of the top level. -/
def sysValid (r : RtlSt) : BitVec 1 := (wires r).o_syscall_valid
def sysCall (r : RtlSt) : BitVec 2 := (wires r).o_syscall

/-- The store the memory performs at the coming clock edge: `some (address, data)`. -/
def memWrite (r : RtlSt) : Option (BitVec 19 × Word) :=
  if dValid r &&& dWe r = 1#1 then some (dAddr r, dData r) else none

/-! ### Abstraction to the ISA state -/

/-- Words `0 .. 199999` of `memory_q` as the ISA's `mem[200000]`, executable form. -/
def absMemImpl (m : BitVec 19 → Word) : Mem :=
  ⟨Array.ofFn (n := memWords) (fun i => m (BitVec.ofNat 19 i.val)), by simp⟩

theorem absMem_exists (m : BitVec 19 → Word) :
    ∃ M : Mem, ∀ i, i < memWords → M.read i = m (BitVec.ofNat 19 i) :=
  ⟨absMemImpl m, by intro i h; simp [absMemImpl, Mem.read, Array.getD, h]⟩

/-- Words `0 .. 199999` of `memory_q` as the ISA's `mem[200000]`.  Characterised by
    `absMem_read` (and unique by `Mem.ext'`, see `absMem_eq_impl`); introduced through
    `Classical.choose` only so that neither the elaborator nor the kernel ever tries to unfold a
    200000-element `Array.ofFn` during a definitional-equality check. -/
noncomputable def absMem (m : BitVec 19 → Word) : Mem := Classical.choose (absMem_exists m)

theorem absMem_read (m : BitVec 19 → Word) (i : Nat) (h : i < memWords) :
    (absMem m).read i = m (BitVec.ofNat 19 i) :=
  Classical.choose_spec (absMem_exists m) i h

theorem absMem_eq_impl (m : BitVec 19 → Word) : absMem m = absMemImpl m := by
  apply Mem.ext'
  intro i h
  rw [absMem_read m i h]
  simp [absMemImpl, Mem.read, Array.getD, h]

/-- Registers: `pc_q` zero-extended from 21 bits, `areg_q`, `breg_q`, `oreg_q` as they are. -/
def absRegs (r : RtlSt) : Isa.RegFile :=
  { pc := r.pc.zeroExtend 32, a := r.areg, b := r.breg, o := r.oreg }

/-- `abs : RtlSt → Isa.St`. -/
noncomputable def abs (r : RtlSt) : Isa.St :=
  { pc := r.pc.zeroExtend 32, a := r.areg, b := r.breg, o := r.oreg, mem := absMem r.mem }

/-- The reachable-state invariant: only PFIX/NFIX make `oreg` non-zero and both shift left by 4.
    (The RTL decodes OPR's sub-opcode from the instruction's own operand nibble, the ISA from the
    whole operand register; they agree exactly when the low nibble of `oreg` is clear.) -/
def OregAligned (r : RtlSt) : Prop := r.oreg &&& 15#32 = 0#32

instance (r : RtlSt) : Decidable (OregAligned r) := by unfold OregAligned; infer_instance

/-- `InRange r`: the state is in range for the byte it is about to execute. -/
def InRange (r : RtlSt) : Prop := InRangeRegs (absRegs r) (fetchByte r)

instance (r : RtlSt) : Decidable (InRange r) := by unfold InRange; infer_instance

/-- The fetched byte has a defined meaning in state `r`. -/
def DefinedByte (r : RtlSt) : Prop := Isa.Defined r.oreg (fetchByte r)
instance (r : RtlSt) : Decidable (DefinedByte r) := by unfold DefinedByte; infer_instance

/-- The fetched byte is `OPR SVC`. -/
def FetchIsSvc (r : RtlSt) : Prop := Isa.IsSvc r.oreg (fetchByte r)
instance (r : RtlSt) : Decidable (FetchIsSvc r) := by unfold FetchIsSvc; infer_instance

/-! ### The processor module on its own (free fetch and read data) -/

/-- Processor registers inside the flattened state. -/
def procRegs (r : RtlSt) : Sv.Processor.Regs :=
  { pc_q := r.pc, areg_q := r.areg, breg_q := r.breg, oreg_q := r.oreg }

def procIn (rst : BitVec 1) (f : Byte) (d : Word) : Sv.Processor.In :=
  { i_rst := rst, i_clk := 1#1, i_f_data := f, i_d_data := d }

def regsOf (p : Sv.Processor.Regs) : Isa.RegFile :=
  { pc := p.pc_q.zeroExtend 32, a := p.areg_q, b := p.breg_q, o := p.oreg_q }

/-! ### The system: RTL plus a test bench that services system calls

  The design only *raises* a request (`o_syscall_valid`, `o_syscall`); the test bench (hextb.cpp
  `handleSyscall`) reads `memory_q`, performs the I/O and, for READ, writes one word of
  `memory_q`.  `Tb` is that behaviour as a parameter: given the call number, the memory and the
  I/O state it returns the new memory and I/O state, or the exit value. -/

inductive TbResult where
  | cont (mem : BitVec 19 → Word) (io : Isa.IOSt)
  | exit (code : Word) (io : Isa.IOSt)

abbrev Tb := BitVec 2 → (BitVec 19 → Word) → Isa.IOSt → TbResult

inductive SysResult where
  | running (r : RtlSt) (io : Isa.IOSt)
  | exited (code : Word) (r : RtlSt) (io : Isa.IOSt)

/-- One clock of the system: the clock edge happens; if the design was requesting a system call
    in that cycle the bench services it on the memory (the processor's own SVC cycle stores
    nothing, so this is the memory before the edge as well).  hextb.cpp services the call
    between the two edges that surround the SVC byte's cycle; the two orders differ only if READ
    overwrites the very word that holds the SVC byte being executed. -/
def sysCycle (tb : Tb) (r : RtlSt) (io : Isa.IOSt) : SysResult :=
  let r' := cycle r
  if sysValid r = 1#1 then
    match tb (sysCall r) r'.mem io with
    | .cont m io' => .running { r' with u_memory__memory_q := m } io'
    | .exit c io' => .exited c r' io'
  else .running r' io

/-- `n` clocks of the system (stops at EXIT). -/
def sysRun (tb : Tb) : Nat → RtlSt → Isa.IOSt → SysResult
  | 0, r, io => .running r io
  | n + 1, r, io =>
    match sysCycle tb r io with
    | .running r' io' => sysRun tb n r' io'
    | .exited c r' io' => .exited c r' io'

/-- ISA state in range for the byte it is about to execute (the ISA-side reading of
    `DefinedByte ∧ InRange`). -/
def IsaInRange (s : Isa.St) : Prop :=
  match Isa.fetch s.mem s.pc with
  | some f => Isa.Defined s.o f ∧ InRangeRegs s.regs f
  | none => False

instance (s : Isa.St) : Decidable (IsaInRange s) := by
  unfold IsaInRange
  split <;> infer_instance

/-- `n` instructions of the ISA, every one of them defined and in range (`none` otherwise);
    stops at exit. -/
def isaRun : Nat → Isa.St → Isa.IOSt → Option Isa.Outcome
  | 0, s, io => some (.running s io)
  | n + 1, s, io =>
    if IsaInRange s then
      match Isa.step s io with
      | .running s' io' => isaRun n s' io'
      | .exited c s' io' => some (.exited c s' io')
      | .undef _ => none
    else none

/-- What a system result looks like through `abs`. -/
noncomputable def absResult : SysResult → Isa.Outcome
  | .running r io => .running (abs r) io
  | .exited c r io => .exited c (abs r) io

/-- The bench does what `Isa.svc` does, seen through `absMem`: whenever the ISA's `svc` is
    defined on a state with `areg = a` and memory `absMem m`, the bench called with `a[1:0]` on
    `m` produces the same I/O, the same exit value, and a memory that abstracts to the ISA's. -/
def TbRefines (tb : Tb) : Prop :=
  ∀ (m : BitVec 19 → Word) (io : Isa.IOSt) (s : Isa.St), s.mem = absMem m →
    match Isa.svc s io with
    | .running s' io' => ∃ m', tb (s.a.setWidth 2) m io = .cont m' io' ∧
                          s' = { s with o := 0#32, mem := absMem m' }
    | .exited c s' io' => tb (s.a.setWidth 2) m io = .exit c io' ∧ s' = { s with o := 0#32 }
    | .undef _ => True

/-- A reference test bench: `handleSyscall` of hextb.cpp over `memory_q`
    (`sp = memory_q[1]`; EXIT returns `memory_q[sp+2]`; WRITE outputs `memory_q[sp+2]` to stream
    `memory_q[sp+3]`; READ stores the input byte at `memory_q[sp+1]`; call 3 is not a call). -/
def refTb : Tb := fun call m io =>
  let sp : BitVec 19 := (m 1#19).setWidth 19
  if call = 0#2 then .exit (m (sp + 2#19)) io
  else if call = 1#2 then .cont m (Isa.simout io (m (sp + 2#19)) (m (sp + 3#19)))
  else
    let (v, io') := Isa.simin io (m (sp + 2#19))
    .cont (upd m (sp + 1#19) v) io'

end Hex.Rtl
