/-
  The only hand-written definition the generated RTL models depend on: point update of an
  unpacked array (`memory_q[a] <= v`).  Core Lean only, so that drivers link.
-/
namespace Hex.Rtl

/-- `m` with element `a` replaced by `v`. -/
@[inline] def upd {n w : Nat} (m : BitVec n → BitVec w) (a : BitVec n) (v : BitVec w) : BitVec n → BitVec w :=
  fun k => if k = a then v else m k

@[simp] theorem upd_same {n w : Nat} (m : BitVec n → BitVec w) (a : BitVec n) (v : BitVec w) :
    upd m a v a = v := by simp [upd]

theorem upd_other {n w : Nat} (m : BitVec n → BitVec w) (a k : BitVec n) (v : BitVec w) (h : k ≠ a) :
    upd m a v k = m k := by simp [upd, h]

end Hex.Rtl
