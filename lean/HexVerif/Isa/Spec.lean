import HexVerif.Basic
/-
  The Hex instruction-set architecture, transliterated from the C reference
  simulator in docs/PDFs/hexb.pdf pp. 7-10 (David May, 2014).

  This file is SPECIFICATION: it is trusted as meaning, it is short, and it
  follows the C text line by line.  Differences from the C text, all explicit:

  * `pmem[pc]` (a byte pointer into the word array on a little-endian host) is
    `byteOfWord (mem[pc >> 2]) (pc & 3)`.
  * Accesses outside `mem[200000]` are undefined in C; here they yield
    `Outcome.undef .outOfRange` (the property's quantifier excludes them).
  * Opcode 0xC, OPR with oreg > 3 and SVC with areg > 2 have no case in the C
    switch.  The properties exclude them ("bytes the ISA leaves undefined");
    here they yield `Outcome.undef`.
  * The reference has no exit value; `exit` delivers `mem[sp+2]` as hexsim,
    hextb and the X runtime convention do (xhexnotes: `0(v)`).
  * Files are modelled as byte lists; the `connected[]` flag shared by `simin`
    and `simout` for one index is kept, because it is observable.
-/
namespace Hex.Isa

/-- Architectural state. -/
structure St where
  pc : Word
  a : Word
  b : Word
  o : Word
  mem : Mem

/-- How file slot `k` (0..7) was first connected. -/
inductive Conn where
  | closed | forOut | forIn
  deriving DecidableEq, Repr, Inhabited

/-- An observable I/O event. `stream = none` is stdin/stdout. -/
inductive Ev where
  | out (file : Option (Fin 8)) (b : Byte)
  | inp (file : Option (Fin 8)) (b : Word)   -- value delivered (after & 0xFF: 0..255)
  deriving DecidableEq, Repr

/-- The world outside the processor. -/
structure IOSt where
  stdin : List Byte                  -- unread bytes of standard input
  files : Fin 8 → List Byte          -- unread bytes of `simin<k>` (empty when missing)
  conn : Fin 8 → Conn
  log : List Ev                      -- events so far, newest first

def IOSt.init (stdin : List Byte) (files : Fin 8 → List Byte := fun _ => []) : IOSt :=
  { stdin, files, conn := fun _ => .closed, log := [] }

/-- `s < 256` on `int s`: negative stream numbers also select stdio. -/
def isStdio (s : Word) : Bool := s.toInt < 256

/-- `(s >> 8) & 7`. -/
def fileIndex (s : Word) : Fin 8 := ⟨((s >>> 8) &&& 7).toNat % 8, Nat.mod_lt _ (by decide)⟩

def setFn {α} (f : Fin 8 → α) (k : Fin 8) (v : α) : Fin 8 → α := fun j => if j = k then v else f j

/-- `simout(b, s)`. Writing to a slot already opened for reading fails silently (fputc on an "r" stream). -/
def simout (io : IOSt) (b : Word) (s : Word) : IOSt :=
  let byte : Byte := b.truncate 8
  if isStdio s then { io with log := .out none byte :: io.log }
  else
    let k := fileIndex s
    match io.conn k with
    | .closed => { io with conn := setFn io.conn k .forOut, log := .out (some k) byte :: io.log }
    | .forOut => { io with log := .out (some k) byte :: io.log }
    | .forIn  => io

/-- Result of `fgetc`/`getchar` and the mask `& 0xFF`: EOF (-1) becomes 255. -/
def getByte : List Byte → Word × List Byte
  | [] => (255, [])
  | b :: rest => (b.zeroExtend 32, rest)

/-- `simin(s) & 0xFF`. Reading from a slot opened for writing yields EOF. -/
def simin (io : IOSt) (s : Word) : Word × IOSt :=
  if isStdio s then
    let (v, rest) := getByte io.stdin
    (v, { io with stdin := rest, log := .inp none v :: io.log })
  else
    let k := fileIndex s
    match io.conn k with
    | .forOut => (255, { io with log := .inp (some k) 255 :: io.log })
    | c =>
      let (v, rest) := getByte (io.files k)
      (v, { io with files := setFn io.files k rest,
                    conn := if c = .closed then setFn io.conn k .forIn else io.conn,
                    log := .inp (some k) v :: io.log })

inductive Undef where
  | outOfRange      -- an effective address outside mem[200000]
  | badOpcode       -- opcode 0xC
  | badOpr          -- OPR with operand register above 3
  | badSvc          -- SVC with areg above 2
  deriving DecidableEq, Repr

inductive Outcome where
  | running (s : St) (io : IOSt)
  | exited (code : Word) (s : St) (io : IOSt)
  | undef (why : Undef)

/-- `mem[i]` with the range guard. -/
@[inline] def ld (m : Mem) (i : Word) : Option Word :=
  if i.toNat < memWords then some (m.read i.toNat) else none

/-- `mem[i] = v` with the range guard. -/
@[inline] def stw (m : Mem) (i : Word) (v : Word) : Option Mem :=
  if i.toNat < memWords then some (m.write i.toNat v) else none

/-- `pmem[pc]`. -/
@[inline] def fetch (m : Mem) (pc : Word) : Option Byte :=
  if (pc >>> 2).toNat < memWords then
    some (byteOfWord (m.read (pc >>> 2).toNat) (pc &&& 3).toNat)
  else none

/-- `svc()`: sp = mem[1]; 0 exit, 1 simout(mem[sp+2], mem[sp+3]), 2 mem[sp+1] = simin(mem[sp+2]) & 0xFF. -/
def svc (s : St) (io : IOSt) : Outcome :=
  -- `s` already has pc advanced; oreg is cleared by the caller's `oreg = 0`.
  let sp := s.mem.read 1
  if s.a = 0 then
    match ld s.mem (sp + 2) with
    | some code => .exited code { s with o := 0 } io
    | none => .undef .outOfRange
  else if s.a = 1 then
    match ld s.mem (sp + 2), ld s.mem (sp + 3) with
    | some v, some str => .running { s with o := 0 } (simout io v str)
    | _, _ => .undef .outOfRange
  else if s.a = 2 then
    match ld s.mem (sp + 2) with
    | some str =>
      let (v, io') := simin io str
      match stw s.mem (sp + 1) v with
      | some m' => .running { s with o := 0, mem := m' } io'
      | none => .undef .outOfRange
    | none => .undef .outOfRange
  else .undef .badSvc

/-- The `switch ((inst >> 4) & 0xf)` of hexb.pdf p.8.  `s.pc` has already been incremented and
    `s.o` already holds `oreg | (inst & 0xf)`, as in the C text. -/
def dispatch (s : St) (io : IOSt) (opc : Nat) : Outcome :=
  let next (s' : St) : Outcome := .running s' io
  match opc with
  | 0x0 => match ld s.mem s.o with                                  -- LDAM
           | some v => next { s with a := v, o := 0 } | none => .undef .outOfRange
  | 0x1 => match ld s.mem s.o with                                  -- LDBM
           | some v => next { s with b := v, o := 0 } | none => .undef .outOfRange
  | 0x2 => match stw s.mem s.o s.a with                             -- STAM
           | some m => next { s with o := 0, mem := m } | none => .undef .outOfRange
  | 0x3 => next { s with a := s.o, o := 0 }                         -- LDAC
  | 0x4 => next { s with b := s.o, o := 0 }                         -- LDBC
  | 0x5 => next { s with a := s.pc + s.o, o := 0 }                  -- LDAP
  | 0x6 => match ld s.mem (s.a + s.o) with                          -- LDAI
           | some v => next { s with a := v, o := 0 } | none => .undef .outOfRange
  | 0x7 => match ld s.mem (s.b + s.o) with                          -- LDBI
           | some v => next { s with b := v, o := 0 } | none => .undef .outOfRange
  | 0x8 => match stw s.mem (s.b + s.o) s.a with                     -- STAI
           | some m => next { s with o := 0, mem := m } | none => .undef .outOfRange
  | 0x9 => next { s with pc := s.pc + s.o, o := 0 }                 -- BR
  | 0xA => next { s with pc := if s.a = 0 then s.pc + s.o else s.pc, o := 0 }        -- BRZ
  | 0xB => next { s with pc := if s.a.toInt < 0 then s.pc + s.o else s.pc, o := 0 }  -- BRN
  | 0xE => next { s with o := s.o <<< 4 }                           -- PFIX
  | 0xF => next { s with o := 0xFFFFFF00 ||| (s.o <<< 4) }          -- NFIX
  | 0xD =>                                                          -- OPR
    if s.o = 0 then next { s with pc := s.b, o := 0 }               -- BRB
    else if s.o = 1 then next { s with a := s.a + s.b, o := 0 }     -- ADD
    else if s.o = 2 then next { s with a := s.a - s.b, o := 0 }     -- SUB
    else if s.o = 3 then svc s io                                   -- SVC
    else .undef .badOpr
  | _ => .undef .badOpcode

/-- One iteration of the `while (running)` loop of hexb.pdf p.8:
    `inst = pmem[pc]; pc = pc + 1; oreg = oreg | (inst & 0xf); switch ((inst >> 4) & 0xf)`. -/
def step (s : St) (io : IOSt) : Outcome :=
  match fetch s.mem s.pc with
  | none => .undef .outOfRange
  | some inst =>
    dispatch { s with pc := s.pc + 1, o := s.o ||| (inst &&& 0xF).zeroExtend 32 } io (inst >>> 4).toNat

/-- Result of a bounded run: the observable behaviour. -/
inductive RunResult where
  | exited (code : Word) (steps : Nat) (s : St) (io : IOSt)
  | undef (why : Undef) (steps : Nat)
  | outOfFuel (s : St) (io : IOSt)

/-- Run for at most `fuel` instructions; `steps` counts instructions executed so far. -/
def run (fuel : Nat) (s : St) (io : IOSt) (steps : Nat := 0) : RunResult :=
  match fuel with
  | 0 => .outOfFuel s io
  | fuel + 1 =>
    match step s io with
    | .running s' io' => run fuel s' io' (steps + 1)
    | .exited c s' io' => .exited c (steps + 1) s' io'
    | .undef w => .undef w steps

/-- The start state of hexb.pdf `main`: `oreg = 0; pc = 0` with the image at word 0
    of a zero-initialised (static) memory.  areg/breg are static, hence zero. -/
def boot (image : List Word) : St :=
  { pc := 0, a := 0, b := 0, o := 0, mem := Mem.zero.loadWords image }

end Hex.Isa
