import HexVerif.Tb.Model
import HexVerif.Rtl.Refine
/-
  Lemmas about the testbench loop (Tb/Model.lean): the reset window, one clock period = one
  `sysCycle`, whole runs, and hextb = ISA from the reset state (through C03's `run_refines`).
-/
namespace Hex.Tb
open Hex Hex.Rtl Hex.Isa


def pend (r : RtlSt) : Option (BitVec 2) := if sysValid r = 1#1 then some (sysCall r) else none

def resetState (r₀ : RtlSt) : RtlSt := resetEdge (resetEdge (resetEdge (resetEdge (resetEdge r₀))))

/-- The first ten half periods: five rising edges, all with reset high; nothing is sampled,
    serviced or stored; at the end reset is low and the request of the first instruction has
    been noted. -/
theorem reset_phase (r₀ : RtlSt) (io : Isa.IOSt) :
    steps 10 (start r₀ io) = .running
      { t := 10, clk := false, rst := false, r := resetState r₀, io, pending := pend (resetState r₀),
        cycles := 5, serviced := 0 } := by
  simp only [steps, halfStep, start, resetEnd, resetState, pend]
  by_cases h : sysValid (resetEdge (resetEdge (resetEdge (resetEdge (resetEdge r₀))))) = 1#1 <;> simp [h]



theorem resetEdge_eq (r : RtlSt) :
    resetEdge r = { u_processor__pc_q := 0#21, u_processor__areg_q := 0#32, u_processor__breg_q := 0#32,
                    u_processor__oreg_q := 0#32, u_memory__memory_q := r.mem } := by
  have h := reset_regs r
  have hm := reset_mem r
  simp only [procRegs, Gen.Sv.Processor.Regs.mk.injEq] at h
  obtain ⟨h1, h2, h3, h4⟩ := h
  cases hr : resetEdge r with
  | mk pc a b o m =>
    rw [hr] at h1 h2 h3 h4 hm
    simp only [RtlSt.pc, RtlSt.areg, RtlSt.breg, RtlSt.oreg, RtlSt.mem] at h1 h2 h3 h4 hm
    subst h1 h2 h3 h4 hm
    rfl

/-- **Reset lemma.**  Whatever the power-on registers were, after the reset window the registers
    are zero and the memory is exactly the memory `load()` left (image intact, everything else
    untouched). -/
theorem resetState_eq (r₀ : RtlSt) :
    resetState r₀ = { u_processor__pc_q := 0#21, u_processor__areg_q := 0#32, u_processor__breg_q := 0#32,
                      u_processor__oreg_q := 0#32, u_memory__memory_q := r₀.mem } := by
  unfold resetState
  rw [resetEdge_eq (resetEdge (resetEdge (resetEdge (resetEdge r₀))))]
  simp only [reset_mem]

/-- The loop state between two clock periods after the reset window. -/
def mid (t : Nat) (r : RtlSt) (io : Isa.IOSt) (cycles serviced : Nat) : TbSt :=
  { t, clk := false, rst := false, r, io, pending := pend r, cycles, serviced }

theorem high_step (t : Nat) (r : RtlSt) (io : Isa.IOSt) (cy sv : Nat) :
    halfStep (mid t r io cy sv) =
      (if sysValid r = 1#1 then
        match refTb (sysCall r) (cycle r).mem io with
        | .cont m io' => .running ⟨t + 1, true, false, { cycle r with u_memory__memory_q := m }, io', none, cy + 1, sv + 1⟩
        | .exit c io' => .exited c ⟨t + 1, true, false, cycle r, io', none, cy + 1, sv + 1⟩
       else .running ⟨t + 1, true, false, cycle r, io, none, cy + 1, sv⟩) := by
  by_cases hv : sysValid r = 1#1
  · simp only [halfStep, mid, pend, hv, if_true]
    simp
    cases refTb (sysCall r) (cycle r).mem io <;> rfl
  · simp only [halfStep, mid, pend, hv, if_false]
    simp

theorem low_step (t : Nat) (ht : resetEnd ≤ t + 1) (r : RtlSt) (io : Isa.IOSt) (cy sv : Nat) :
    halfStep ⟨t, true, false, r, io, none, cy, sv⟩ = .running (mid (t + 1) r io cy sv) := by
  have h10 : ¬ (t + 1 < 10) := by unfold resetEnd at ht; omega
  by_cases hv : sysValid r = 1#1
  · simp [halfStep, mid, pend, hv, resetEnd, h10]
  · simp [halfStep, mid, pend, hv, resetEnd, h10]

/-- One clock period of the loop (two half periods) is one `sysCycle` of the RTL system with the
    reference bench: the edge retires the instruction, then the noted call (if any) is performed
    on the memory after the edge. -/
theorem period_eq (t : Nat) (ht : resetEnd ≤ t) (r : RtlSt) (io : Isa.IOSt) (cy sv : Nat) :
    match sysCycle refTb r io with
    | .running r' io' => ∃ sv', steps 2 (mid t r io cy sv) = .running (mid (t + 2) r' io' (cy + 1) sv')
    | .exited c r' io' => ∃ s', steps 2 (mid t r io cy sv) = .exited c s' ∧ s'.io = io' ∧ s'.r = r' := by
  unfold sysCycle
  simp only [steps, high_step]
  by_cases hv : sysValid r = 1#1
  · simp only [hv, if_true]
    cases htb : refTb (sysCall r) (cycle r).mem io with
    | cont m io' =>
      simp only [low_step (t + 1) (by omega)]
      exact ⟨_, rfl⟩
    | exit c io' => exact ⟨_, rfl, rfl, rfl⟩
  · simp only [hv, if_false, low_step (t + 1) (by omega)]
    exact ⟨_, rfl⟩




theorem steps_add (a b : Nat) (s : TbSt) :
    steps (a + b) s = match steps a s with
      | .running s' => steps b s'
      | .exited c s' => .exited c s' := by
  induction a generalizing s with
  | zero => simp [steps]
  | succ a ih =>
    have : a + 1 + b = (a + b) + 1 := by omega
    rw [this]
    simp only [steps]
    cases halfStep s with
    | running s' => exact ih s'
    | exited c s' => rfl

/-- What the outside world sees of a testbench run: the I/O history and, if the program has
    exited, the exit value `run()` returns. -/
def obs : Res → Option Word × Isa.IOSt
  | .running s => (none, s.io)
  | .exited c s => (some c, s.io)

def obsSys : SysResult → Option Word × Isa.IOSt
  | .running _ io => (none, io)
  | .exited c _ io => (some c, io)

/-- After the reset window, `n` clock periods of hextb's loop are `n` cycles of the RTL system
    with the reference bench. -/
theorem run_eq_sysRun : ∀ (n t : Nat) (r : RtlSt) (io : Isa.IOSt) (cy sv : Nat), resetEnd ≤ t →
    obs (steps (2 * n) (mid t r io cy sv)) = obsSys (sysRun refTb n r io) ∧
    (∀ r' io', sysRun refTb n r io = .running r' io' →
      ∃ cy' sv', steps (2 * n) (mid t r io cy sv) = .running (mid (t + 2 * n) r' io' cy' sv')) := by
  intro n
  induction n with
  | zero => intro t r io cy sv _; exact ⟨rfl, fun r' io' h => by cases h; exact ⟨cy, sv, rfl⟩⟩
  | succ n ih =>
    intro t r io cy sv ht
    have hp := period_eq t ht r io cy sv
    have h2 : 2 * (n + 1) = 2 + 2 * n := by omega
    rw [h2, steps_add]
    simp only [sysRun]
    cases hc : sysCycle refTb r io with
    | running r' io' =>
      rw [hc] at hp
      obtain ⟨sv', hs⟩ := hp
      rw [hs]
      simp only
      obtain ⟨i1, i2⟩ := ih (t + 2) r' io' (cy + 1) sv' (by omega)
      refine ⟨i1, fun r'' io'' h => ?_⟩
      obtain ⟨cy', sv'', h'⟩ := i2 r'' io'' h
      exact ⟨cy', sv'', by rw [h']; congr 2; omega⟩
    | exited c r' io' =>
      rw [hc] at hp
      obtain ⟨s', hs, hio, _⟩ := hp
      rw [hs]
      exact ⟨by simp [obs, obsSys, hio], fun r'' io'' h => by cases h⟩



def obsOutcome : Isa.Outcome → Option Word × Isa.IOSt
  | .running _ io => (none, io)
  | .exited c _ io => (some c, io)
  | .undef _ => (none, Isa.IOSt.init [])

theorem obsSys_abs (x : SysResult) : obsSys x = obsOutcome (absResult x) := by
  cases x <;> rfl

theorem resetState_eq_resetEdge (r₀ : RtlSt) : resetState r₀ = resetEdge r₀ := by
  rw [resetState_eq, resetEdge_eq]

/-- **hextb = ISA from the reset state.** For every power-on state `r₀` (registers and memory as
    `load()` left it): if the first `n` ISA instructions from `pc = areg = breg = oreg = 0` on
    that memory are defined and in range, then after the reset window and `n` clock periods
    hextb has produced exactly the ISA's I/O history and exit value. -/
theorem tb_run_isa (r₀ : RtlSt) (io : Isa.IOSt) (n : Nat) (out : Isa.Outcome)
    (h : isaRun n (abs (resetEdge r₀)) io = some out) :
    obs (steps (10 + 2 * n) (start r₀ io)) = obsOutcome out := by
  have hphase : steps 10 (start r₀ io) = .running (mid 10 (resetState r₀) io 5 0) := reset_phase r₀ io
  rw [steps_add, hphase]
  simp only
  rw [(run_eq_sysRun n 10 (resetState r₀) io 5 0 (Nat.le_refl _)).1, resetState_eq_resetEdge, obsSys_abs,
      run_refines refTb refTb_refines n (resetEdge r₀) io out (aligned_reset r₀) h]

end Hex.Tb
