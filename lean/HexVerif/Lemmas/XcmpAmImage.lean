import HexVerif.Lemmas.XcmpAm
/-!
  Stage (1) of C01, second half: the image the assembler produces, loaded at word 0, contains
  every instruction directive at its layout offset (`loaded (ofImage dirs img) (boot img).mem`).
  Together with `run_refines` this is `Am_refines_Isa`.
-/
namespace Hex.Am
open Hex Hex.Isa Hex.Asm

/-! ### Bytes of a packed word -/

theorem hi8 (x : Byte) (j : Nat) (h : 8 ≤ j) : BitVec.getLsbD x j = false := BitVec.getLsbD_of_ge x j h

theorem byte0 (a b c d : Byte) : byteOfWord (wordOfBytes a b c d) 0 = a := by
  unfold byteOfWord wordOfBytes
  ext i hi
  simp
theorem byte1 (a b c d : Byte) : byteOfWord (wordOfBytes a b c d) 1 = b := by
  unfold byteOfWord wordOfBytes
  ext i hi
  simp [show 8 + i < 32 from by omega, show ¬ (8 + i < 8) from by omega, show 8 + i < 16 from by omega,
    show 8 + i < 24 from by omega, show i < 32 from by omega, BitVec.getLsbD_eq_getElem hi]
theorem byte2 (a b c d : Byte) : byteOfWord (wordOfBytes a b c d) 2 = c := by
  unfold byteOfWord wordOfBytes
  ext i hi
  simp [show 16 + i < 32 from by omega, show ¬ (16 + i < 8) from by omega, show ¬ (16 + i < 16) from by omega,
    show 16 + i < 24 from by omega, show i < 32 from by omega, show 16 + i - 16 = i from by omega,
    hi8 a (16 + i) (by omega), hi8 b (16 + i - 8) (by omega), BitVec.getLsbD_eq_getElem hi]
theorem byte3 (a b c d : Byte) : byteOfWord (wordOfBytes a b c d) 3 = d := by
  unfold byteOfWord wordOfBytes
  ext i hi
  simp [show 24 + i < 32 from by omega, show ¬ (24 + i < 8) from by omega, show ¬ (24 + i < 16) from by omega,
    show ¬ (24 + i < 24) from by omega, show i < 32 from by omega, show 24 + i - 24 = i from by omega,
    hi8 a (24 + i) (by omega), hi8 b (24 + i - 8) (by omega), hi8 c (24 + i - 16) (by omega), BitVec.getLsbD_eq_getElem hi]

theorem wordsOfBytes_length (bs : List Byte) : (wordsOfBytes bs).length = (bs.length + 3) / 4 := by
  fun_induction wordsOfBytes bs <;> simp_all <;> omega

/-- Byte `i` of the packed image is byte `i` of the byte list. -/
theorem wordsOfBytes_byte (bs : List Byte) : ∀ i (h : i < bs.length),
    byteOfWord ((wordsOfBytes bs).getD (i / 4) 0) (i % 4) = bs[i] := by
  fun_induction wordsOfBytes bs with
  | case1 => intro i h; simp at h
  | case2 a =>
    intro i h
    have : i = 0 := by simp at h; omega
    subst this; simp [byte0]
  | case3 a b =>
    intro i h
    have : i = 0 ∨ i = 1 := by simp at h; omega
    rcases this with rfl | rfl <;> simp [byte0, byte1]
  | case4 a b c =>
    intro i h
    have : i = 0 ∨ i = 1 ∨ i = 2 := by simp at h; omega
    rcases this with rfl | rfl | rfl <;> simp [byte0, byte1, byte2]
  | case5 a b c d rest ih =>
    intro i h
    by_cases h4 : i < 4
    · have : i = 0 ∨ i = 1 ∨ i = 2 ∨ i = 3 := by omega
      rcases this with rfl | rfl | rfl | rfl <;> simp [byte0, byte1, byte2, byte3]
    · obtain ⟨j, rfl⟩ : ∃ j, i = j + 4 := ⟨i - 4, by omega⟩
      have hj : j < rest.length := by simp at h; omega
      have h1 : (j + 4) / 4 = j / 4 + 1 := by omega
      have h2 : (j + 4) % 4 = j % 4 := by omega
      rw [h1, h2]
      simp only [List.getD_cons_succ]
      rw [ih j hj]
      simp

/-! ### Loading -/

theorem loadWords_aux : ∀ (ws : List Word) (m : Mem) (k : Nat), k + ws.length ≤ memWords →
    ∀ j, ((ws.foldl (fun (acc : Mem × Nat) w => (acc.1.write acc.2 w, acc.2 + 1)) (m, k)).1).read j
      = if k ≤ j ∧ j < k + ws.length then ws.getD (j - k) 0 else m.read j := by
  intro ws
  induction ws with
  | nil => intro m k _ j; simp; intro h1 h2; omega
  | cons w rest ih =>
    intro m k hk j
    simp only [List.foldl_cons, List.length_cons] at hk ⊢
    rw [ih (m.write k w) (k + 1) (by omega) j]
    by_cases hjk : j = k
    · subst hjk
      have : ¬ (j + 1 ≤ j ∧ j < j + 1 + rest.length) := by omega
      rw [if_neg this, Mem.read_write_same _ _ _ (by omega)]
      simp
    · rw [Mem.read_write_other _ _ _ _ (Ne.symm hjk)]
      by_cases hin : k + 1 ≤ j ∧ j < k + 1 + rest.length
      · rw [if_pos hin, if_pos (by omega)]
        obtain ⟨d, rfl⟩ : ∃ d, j = k + 1 + d := ⟨j - (k + 1), by omega⟩
        have h1 : k + 1 + d - (k + 1) = d := by omega
        have h2 : k + 1 + d - k = d + 1 := by omega
        rw [h1, h2]; simp
      · rw [if_neg hin, if_neg (by omega)]

theorem loadWords_read (ws : List Word) (h : ws.length ≤ memWords) (j : Nat) (hj : j < ws.length) :
    (Mem.zero.loadWords ws).read j = ws.getD j 0 := by
  unfold Mem.loadWords
  rw [loadWords_aux ws Mem.zero 0 (by omega) j]
  simp [hj]

/-- Memory holds the byte list `bytes` from byte address 0. -/
def ImageLoaded (bytes : List Byte) (mem : Mem) : Prop :=
  ∀ i (h : i < bytes.length), Isa.fetch mem (BitVec.ofNat 32 i) = some bytes[i]

theorem fetch_ofNat (mem : Mem) (i : Nat) (hi : i < 4 * memWords) :
    Isa.fetch mem (BitVec.ofNat 32 i) = some (byteOfWord (mem.read (i / 4)) (i % 4)) := by
  unfold Isa.fetch
  have hi32 : i < 2 ^ 32 := by unfold memWords at hi; omega
  have h1 : (BitVec.ofNat 32 i >>> 2).toNat = i / 4 := by
    simp [BitVec.toNat_ushiftRight, Nat.shiftRight_eq_div_pow, Nat.mod_eq_of_lt hi32]
  have h2 : (BitVec.ofNat 32 i &&& 3).toNat = i % 4 := by
    simp only [BitVec.toNat_and, BitVec.toNat_ofNat, Nat.mod_eq_of_lt hi32]
    exact Nat.and_two_pow_sub_one_eq_mod i 2
  rw [h1, h2, if_pos (by omega)]

theorem boot_loaded (bytes : List Byte) (h : bytes.length ≤ 4 * memWords) :
    ImageLoaded bytes (Isa.boot (wordsOfBytes bytes)).mem := by
  intro i hi
  unfold Isa.boot
  simp only
  rw [fetch_ofNat _ i (by omega)]
  have hl := wordsOfBytes_length bytes
  rw [loadWords_read _ (by rw [hl]; omega) _ (by rw [hl]; omega)]
  rw [wordsOfBytes_byte bytes i hi]

theorem fetchList_loaded (bytes : List Byte) (mem : Mem) (hm : ImageLoaded bytes mem) :
    ∀ (n k : Nat), k + n ≤ bytes.length →
      fetchList mem (BitVec.ofNat 32 k) n = some ((bytes.drop k).take n) := by
  intro n
  induction n with
  | zero => intro k _; simp [fetchList]
  | succ n ih =>
    intro k hk
    unfold fetchList
    rw [hm k (by omega)]
    have : BitVec.ofNat 32 k + 1 = BitVec.ofNat 32 (k + 1) := by simp [BitVec.ofNat_add]
    rw [this, ih (k + 1) (by omega)]
    simp only
    rw [List.drop_eq_getElem_cons (by omega : k < bytes.length), List.take_succ_cons]

/-! ### The walk over the image decodes every instruction at its offset -/

theorem decodeChain_take : ∀ (bs : List Byte) (fuel : Nat) (o : Word) (n : Nat) (opc : Nat) (v : Word) (n' : Nat)
    (rest : List Byte), decodeChain fuel o n bs = some (opc, v, n', rest) →
    ∃ m, m ≤ bs.length ∧ n' = n + m ∧ rest = bs.drop m ∧
      decodeChain fuel o n (bs.take m) = some (opc, v, n', []) := by
  intro bs
  induction bs with
  | nil => intro fuel o n opc v n' rest h; simp [decodeChain] at h
  | cons b tl ih =>
    intro fuel o n opc v n' rest h
    unfold decodeChain at h
    simp only at h
    by_cases hE : (b >>> 4).toNat = 0xE
    · rw [if_pos hE] at h
      cases fuel with
      | zero => simp at h
      | succ f =>
        simp only at h
        obtain ⟨m, hm, hn, hr, hd⟩ := ih f _ _ opc v n' rest h
        refine ⟨m + 1, by simp; omega, by omega, by simpa using hr, ?_⟩
        simp only [List.take_succ_cons]
        unfold decodeChain
        simp only
        rw [if_pos hE]
        exact hd
    · rw [if_neg hE] at h
      by_cases hF : (b >>> 4).toNat = 0xF
      · rw [if_pos hF] at h
        cases fuel with
        | zero => simp at h
        | succ f =>
          simp only at h
          obtain ⟨m, hm, hn, hr, hd⟩ := ih f _ _ opc v n' rest h
          refine ⟨m + 1, by simp; omega, by omega, by simpa using hr, ?_⟩
          simp only [List.take_succ_cons]
          unfold decodeChain
          simp only
          rw [if_neg hE, if_pos hF]
          exact hd
      · rw [if_neg hF] at h
        simp only [Option.some.injEq, Prod.mk.injEq] at h
        obtain ⟨h1, h2, h3, h4⟩ := h
        refine ⟨1, by simp, h3.symm, by simpa using h4.symm, ?_⟩
        simp only [List.take_succ_cons, List.take_zero]
        unfold decodeChain
        simp only
        rw [if_neg hE, if_neg hF, h1, h2, h3]

theorem decodeInstr_take (bs : List Byte) (opc : Nat) (v : Word) (n : Nat) (rest : List Byte)
    (h : decodeInstr bs = some (opc, v, n, rest)) :
    n ≤ bs.length ∧ rest = bs.drop n ∧ decodeInstr (bs.take n) = some (opc, v, n, []) := by
  unfold decodeInstr at h ⊢
  obtain ⟨m, hm, hn, hr, hd⟩ := decodeChain_take bs 8 0 0 opc v n rest h
  have : n = m := by omega
  subst this
  exact ⟨hm, hr, hd⟩

theorem opr_decode (k : Nat) (hk : k < 4) :
    decodeInstr [BitVec.ofNat 8 (0xD0 + k)] = some (0xD, BitVec.ofNat 32 k, 1, []) := by
  have : k = 0 ∨ k = 1 ∨ k = 2 ∨ k = 3 := by omega
  rcases this with rfl | rfl | rfl | rfl <;> decide

/-- Where the walk found an instruction, the image decodes to it. -/
theorem walk_entries : ∀ (dirs : List Dir) (bs : List Byte) (pos : Nat) (fs : List Found) (tail : List Byte) (e : Nat),
    ParsedOk dirs → walk dirs bs pos = some (fs, tail, e) →
    ∀ en ∈ entries dirs fs, ∃ k, en.start = pos + k ∧ k + en.size ≤ bs.length ∧
      decodeInstr ((bs.drop k).take en.size) = some (en.opc, en.operand, en.size, []) := by
  intro dirs
  induction dirs with
  | nil => intro bs pos fs tail e _ h en hen; simp [entries] at hen
  | cons d rest ih =>
    intro bs pos fs tail e hp h en hen
    obtain ⟨hd, hrest⟩ := hp
    cases d with
    | label kind name =>
      unfold walk at h
      simp only at h
      cases hw : walk rest bs pos with
      | none => rw [hw] at h; simp at h
      | some r =>
        obtain ⟨fs', tail', e'⟩ := r
        rw [hw] at h
        simp only [Option.some.injEq, Prod.mk.injEq] at h
        obtain ⟨h1, _, _⟩ := h
        subst h1
        simp only [entries, isInstr] at hen
        exact ih bs pos fs' tail' e' hrest hw en (by simpa using hen)
    | data v =>
      unfold walk at h
      simp only at h
      split at h
      · rename_i hc
        cases hw : walk rest (bs.drop (align4 pos - pos + 4)) (pos + (align4 pos - pos) + 4) with
        | none => rw [hw] at h; simp at h
        | some r =>
          obtain ⟨fs', tail', e'⟩ := r
          rw [hw] at h
          simp only [Option.some.injEq, Prod.mk.injEq] at h
          obtain ⟨h1, _, _⟩ := h
          subst h1
          simp only [entries, isInstr] at hen
          obtain ⟨k, hk1, hk2, hk3⟩ := ih _ _ fs' tail' e' hrest hw en (by simpa using hen)
          refine ⟨align4 pos - pos + 4 + k, by omega, ?_, ?_⟩
          · simp only [List.length_drop] at hk2; omega
          · rw [List.drop_drop] at hk3
            exact hk3
      · simp at h
    | imm opc v =>
      unfold walk at h
      simp only at h
      cases hdec : decodeInstr bs with
      | none => rw [hdec] at h; simp at h
      | some r =>
        obtain ⟨opc', o, n, bs1⟩ := r
        rw [hdec] at h
        simp only at h
        split at h
        · rename_i hc
          cases hw : walk rest bs1 (pos + n) with
          | none => rw [hw] at h; simp at h
          | some r =>
            obtain ⟨fs', tail', e'⟩ := r
            rw [hw] at h
            simp only [Option.some.injEq, Prod.mk.injEq] at h
            obtain ⟨h1, _, _⟩ := h
            subst h1
            obtain ⟨hn, hb1, hd0⟩ := decodeInstr_take bs opc' o n bs1 hdec
            simp only [entries, isInstr, if_true, List.mem_cons] at hen
            rcases hen with rfl | hen
            · refine ⟨0, by simp, by simpa using hn, ?_⟩
              simp only [List.drop_zero, opcOf]
              rw [hd0, hc.1]
            · subst hb1
              obtain ⟨k, hk1, hk2, hk3⟩ := ih _ _ fs' tail' e' hrest hw en hen
              refine ⟨n + k, by omega, ?_, ?_⟩
              · simp only [List.length_drop] at hk2; omega
              · rw [List.drop_drop] at hk3
                exact hk3
        · simp at h
    | ref opc name rel =>
      unfold walk at h
      simp only at h
      cases hdec : decodeInstr bs with
      | none => rw [hdec] at h; simp at h
      | some r =>
        obtain ⟨opc', o, n, bs1⟩ := r
        rw [hdec] at h
        simp only at h
        split at h
        · rename_i hc
          cases hw : walk rest bs1 (pos + n) with
          | none => rw [hw] at h; simp at h
          | some r =>
            obtain ⟨fs', tail', e'⟩ := r
            rw [hw] at h
            simp only [Option.some.injEq, Prod.mk.injEq] at h
            obtain ⟨h1, _, _⟩ := h
            subst h1
            obtain ⟨hn, hb1, hd0⟩ := decodeInstr_take bs opc' o n bs1 hdec
            simp only [entries, isInstr, if_true, List.mem_cons] at hen
            rcases hen with rfl | hen
            · refine ⟨0, by simp, by simpa using hn, ?_⟩
              simp only [List.drop_zero, opcOf]
              rw [hd0, hc]
            · subst hb1
              obtain ⟨k, hk1, hk2, hk3⟩ := ih _ _ fs' tail' e' hrest hw en hen
              refine ⟨n + k, by omega, ?_, ?_⟩
              · simp only [List.length_drop] at hk2; omega
              · rw [List.drop_drop] at hk3
                exact hk3
        · simp at h
    | opr k =>
      unfold walk at h
      simp only at h
      cases bs with
      | nil => simp at h
      | cons b bs1 =>
        simp only at h
        split at h
        · rename_i hc
          cases hw : walk rest bs1 (pos + 1) with
          | none => rw [hw] at h; simp at h
          | some r =>
            obtain ⟨fs', tail', e'⟩ := r
            rw [hw] at h
            simp only [Option.some.injEq, Prod.mk.injEq] at h
            obtain ⟨h1, _, _⟩ := h
            subst h1
            simp only [entries, isInstr, if_true, List.mem_cons] at hen
            rcases hen with rfl | hen
            · refine ⟨0, by simp, by simp, ?_⟩
              simp only [List.drop_zero, opcOf, List.take_succ_cons, List.take_zero]
              rw [hc]
              exact opr_decode k hd
            · obtain ⟨j, hj1, hj2, hj3⟩ := ih _ _ fs' tail' e' hrest hw en hen
              refine ⟨1 + j, by omega, by simp; omega, ?_⟩
              have : (b :: bs1).drop (1 + j) = bs1.drop j := by
                rw [Nat.add_comm]; simp
              rw [this]; exact hj3
        · simp at h

theorem map_withLoc (ds : List Dir) : (ds.map fun d => (d, (⟨0, 0⟩ : Loc))).map (·.1) = ds := by
  induction ds with
  | nil => rfl
  | cons d rest ih => simp [List.map_map, Function.comp_def]

/-- **The assembled image contains its program.**  Any memory that holds the image bytes from
    address 0 has every instruction directive of the program intact at its layout offset. -/
theorem assemble_loaded (ds : List Dir) (img : Image) (mem : Mem)
    (hp : ParsedOk ds) (hn : ds.length < 2 ^ 26)
    (h : assemble (ds.map fun d => (d, (⟨0, 0⟩ : Loc))) = .ok (some img))
    (hm : ImageLoaded img.bytes mem) :
    loaded (ofImage ds img) mem = true := by
  have hmap := map_withLoc ds
  obtain ⟨lens0, hl0, hok, h1, h2, h3, hv, hbytes, hsize, hlen, hdbg⟩ :=
    assemble_facts _ img (by rw [hmap]; exact hp) (by simpa using hn) h
  rw [hmap] at hok hbytes
  have hwalk := walk_emit ds lens0 img.resolved.vals 0
    (List.replicate (align4 (layoutEnd ds lens0 0) - layoutEnd ds lens0 0) 0) hok
  rw [← hbytes] at hwalk
  unfold loaded ofImage
  rw [List.all_eq_true, h1]
  intro en hen
  obtain ⟨k, hk1, hk2, hk3⟩ := walk_entries ds img.bytes 0 _ _ _ hp hwalk en hen
  unfold decodesAt
  have hstart : en.start = k := by omega
  rw [hstart, fetchList_loaded img.bytes mem hm en.size k hk2]
  simp only [hk3]
  simp

end Hex.Am
