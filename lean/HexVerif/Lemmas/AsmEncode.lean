import HexVerif.Asm.Check
/-
  Helper lemmas for C04: the prefix bytes `encode` emits are decoded by the ISA's PFIX/NFIX
  rules (`decodeChain`) to exactly the operand, for every sufficient length.
-/
namespace Hex.Asm
open Hex


abbrev W (k : Int) : Word := BitVec.ofInt 32 k

theorem W_shl4 (a : Int) : W a <<< 4 = W (a * 16) := by
  rw [BitVec.shiftLeft_eq_mul_twoPow, W, W, BitVec.ofInt_mul]
  rfl

theorem small_bit (y : Word) (hy : y.toNat < 16) (i : Nat) (hi : i < 32) (h4 : ¬ i < 4) : y[i] = false := by
  rw [← BitVec.getLsbD_eq_getElem, BitVec.getLsbD]
  apply Nat.testBit_lt_two_pow
  calc y.toNat < 16 := hy
    _ = 2^4 := rfl
    _ ≤ 2^i := Nat.pow_le_pow_right (by decide) (by omega)

theorem shl4_and_small (x y : Word) (hy : y.toNat < 16) : (x <<< 4) &&& y = 0 := by
  ext i hi
  simp only [BitVec.getElem_and, BitVec.getElem_shiftLeft]
  by_cases h : i < 4
  · simp [h]
  · simp [small_bit y hy i hi h]

/-- F1 -/
theorem W_or_nib (a n : Int) (h0 : 0 ≤ n) (h1 : n < 16) : W (a * 16) ||| W n = W (a * 16 + n) := by
  have hn : (W n).toNat < 16 := by
    simp only [W, BitVec.toNat_ofInt]
    omega
  have := shl4_and_small (W a) (W n) hn
  rw [W_shl4] at this
  show W (a * 16) ||| W n = BitVec.ofInt 32 (a * 16 + n)
  rw [BitVec.ofInt_add, BitVec.add_eq_or_of_and_eq_zero _ _ this]

theorem toByte_toNat (hi nib : Int) (h0 : 0 ≤ hi) (h1 : hi < 16) (n0 : 0 ≤ nib) (n1 : nib < 16) :
    (toByte (hi * 16 + nib)).toNat = (hi * 16 + nib).toNat := by
  simp only [toByte, BitVec.toNat_ofInt]
  omega

theorem toByte_hi (hi nib : Int) (h0 : 0 ≤ hi) (h1 : hi < 16) (n0 : 0 ≤ nib) (n1 : nib < 16) :
    ((toByte (hi * 16 + nib)) >>> 4).toNat = hi.toNat := by
  rw [BitVec.toNat_ushiftRight, toByte_toNat hi nib h0 h1 n0 n1, Nat.shiftRight_eq_div_pow]
  omega

theorem toByte_lo (hi nib : Int) (h0 : 0 ≤ hi) (h1 : hi < 16) (n0 : 0 ≤ nib) (n1 : nib < 16) :
    ((toByte (hi * 16 + nib)) &&& 15#8).zeroExtend 32 = W nib := by
  apply BitVec.eq_of_toNat_eq
  have h15 : BitVec.toNat (15#8) = 2^4 - 1 := rfl
  simp only [BitVec.zeroExtend, BitVec.toNat_setWidth, BitVec.toNat_and, h15,
    Nat.and_two_pow_sub_one_eq_mod, toByte_toNat hi nib h0 h1 n0 n1, W, BitVec.toNat_ofInt]
  omega


theorem dc_pfix (f : Nat) (o : Word) (n : Nat) (nib : Int) (rest : List Byte) (n0 : 0 ≤ nib) (n1 : nib < 16) :
    decodeChain (f + 1) o n (toByte (0xE * 16 + nib) :: rest) = decodeChain f ((o ||| W nib) <<< 4) (n + 1) rest := by
  have hhi := toByte_hi 0xE nib (by decide) (by decide) n0 n1
  have hlo := toByte_lo 0xE nib (by decide) (by decide) n0 n1
  rw [decodeChain.eq_def]
  simp only [BitVec.ofNat_eq_ofNat, hhi, hlo]
  rfl

theorem dc_nfix (f : Nat) (o : Word) (n : Nat) (nib : Int) (rest : List Byte) (n0 : 0 ≤ nib) (n1 : nib < 16) :
    decodeChain (f + 1) o n (toByte (0xF * 16 + nib) :: rest)
      = decodeChain f (0xFFFFFF00#32 ||| ((o ||| W nib) <<< 4)) (n + 1) rest := by
  have hhi := toByte_hi 0xF nib (by decide) (by decide) n0 n1
  have hlo := toByte_lo 0xF nib (by decide) (by decide) n0 n1
  rw [decodeChain.eq_def]
  simp only [BitVec.ofNat_eq_ofNat, hhi, hlo]
  rfl

theorem dc_last (f : Nat) (o : Word) (n : Nat) (opc : Nat) (hopc : opc < 14) (nib : Int) (rest : List Byte)
    (n0 : 0 ≤ nib) (n1 : nib < 16) :
    decodeChain f o n (toByte (((opc % 16 : Nat) : Int) * 16 + nib) :: rest) = some (opc, o ||| W nib, n + 1, rest) := by
  have h16 : opc % 16 = opc := Nat.mod_eq_of_lt (by omega)
  have hhi := toByte_hi (opc : Int) nib (by omega) (by omega) n0 n1
  have hlo := toByte_lo (opc : Int) nib (by omega) (by omega) n0 n1
  rw [decodeChain.eq_def, h16]
  simp only [BitVec.ofNat_eq_ofNat, hhi, hlo, Int.toNat_natCast]
  have h1 : ¬ opc = 14 := by omega
  have h2 : ¬ opc = 15 := by omega
  simp [h1, h2]


/-- `value >> (4*i)` on a C++ int. -/
def T (v : Int) (i : Nat) : Int := v >>> (i * 4)

theorem nibble_eq (v : Int) (i : Nat) : nibble v i = T v i % 16 := rfl
theorem nibble_nonneg (v : Int) (i : Nat) : 0 ≤ nibble v i := Int.emod_nonneg _ (by decide)
theorem nibble_lt (v : Int) (i : Nat) : nibble v i < 16 := Int.emod_lt_of_pos _ (by decide)

theorem T_zero (v : Int) : T v 0 = v := by simp [T]

theorem T_succ (v : Int) (i : Nat) : T v i = T v (i + 1) * 16 + nibble v i := by
  have h : T v (i + 1) = T v i / 16 := by
    simp only [T]
    have : (i + 1) * 4 = i * 4 + 4 := by omega
    rw [this, Int.shiftRight_add, Int.shiftRight_eq_div_pow (v >>> (i * 4)) 4]
    rfl
  rw [nibble_eq, h]
  omega


theorem middle_chain (v : Int) : ∀ (i f n : Nat) (rest : List Byte), i ≤ f →
    decodeChain f (W (T v (i + 1) * 16)) n (middle v i ++ rest)
      = decodeChain (f - i) (W (T v 1 * 16)) (n + i) rest := by
  intro i
  induction i with
  | zero => intro f n rest _; simp [middle]
  | succ i ih =>
    intro f n rest hf
    obtain ⟨f', rfl⟩ : ∃ f', f = f' + 1 := ⟨f - 1, by omega⟩
    simp only [middle, List.cons_append]
    rw [dc_pfix f' _ n _ _ (nibble_nonneg v (i+1)) (nibble_lt v (i+1))]
    rw [W_or_nib _ _ (nibble_nonneg v (i+1)) (nibble_lt v (i+1)), ← T_succ, W_shl4]
    rw [ih f' (n + 1) rest (by omega)]
    congr 1 <;> omega

/-- `size` bytes suffice for `v`. -/
def fits (v : Int) (size : Nat) : Prop :=
  1 ≤ size ∧ (if v < 0 then 2 ≤ size ∧ -(16 ^ size : Int) ≤ v else v < (16 ^ size : Int))

theorem nfix_const (k : Fin 16) : 0xFFFFFF00#32 ||| W ((k.val : Int) * 16) = W (((k.val : Int) - 16) * 16) := by
  revert k; decide

theorem T_div (v : Int) (i : Nat) : T v i = v / (16 ^ i : Int) := by
  simp only [T, Int.shiftRight_eq_div_pow]
  congr 1
  rw [Nat.mul_comm, Nat.pow_mul]
  norm_cast


theorem T_top_nonneg (v : Int) (size : Nat) (h0 : 0 ≤ v) (h1 : v < (16 ^ (size + 1) : Int)) :
    0 ≤ T v size ∧ T v size < 16 := by
  rw [T_div]
  have hp : (0 : Int) < 16 ^ size := Int.pow_pos (by decide)
  constructor
  · exact Int.ediv_nonneg h0 (Int.le_of_lt hp)
  · apply Int.ediv_lt_of_lt_mul hp
    rw [Int.pow_succ] at h1
    rw [Int.mul_comm]; exact h1

theorem T_top_neg (v : Int) (size : Nat) (h0 : v < 0) (h1 : -(16 ^ (size + 1) : Int) ≤ v) :
    -16 ≤ T v size ∧ T v size < 0 := by
  rw [T_div]
  have hp : (0 : Int) < 16 ^ size := Int.pow_pos (by decide)
  constructor
  · apply Int.le_ediv_of_mul_le hp
    rw [Int.pow_succ] at h1
    have : -16 * (16:Int) ^ size = -(16 ^ size * 16) := by rw [Int.mul_comm]; simp [Int.mul_neg]
    rw [this]; exact h1
  · exact Int.ediv_neg_of_neg_of_pos h0 hp

/-- **Prefix round trip.** The bytes emitted for `(opc, v)` with any sufficient stored length
    decode, by the ISA's own PFIX/NFIX rules and from a clear operand register, to exactly
    `opc` and `v` (mod 2^32), consuming exactly `size` bytes. -/
theorem decode_encode (opc : Nat) (hopc : opc < 14) (v : Int) (size : Nat) (hf : fits v size) (h8 : size ≤ 8)
    (rest : List Byte) :
    decodeInstr (encode opc v size ++ rest) = some (opc, W v, size, rest) := by
  obtain ⟨h1, hfit⟩ := hf
  unfold decodeInstr encode
  by_cases hs1 : size = 1
  · subst hs1
    have hv0 : ¬ v < 0 := by intro h; simp [h] at hfit
    simp only [hv0, if_false] at hfit
    have hT : T v 0 = v := T_zero v
    have hn : nibble v 0 = v := by
      rw [nibble_eq, hT]; omega
    simp only [Nat.lt_irrefl, if_false, List.nil_append, List.cons_append, show ¬ (1 > 2) by decide]
    rw [dc_last 8 0 0 opc hopc _ _ (nibble_nonneg v 0) (nibble_lt v 0), hn]
    simp
  · obtain ⟨k, rfl⟩ : ∃ k, size = k + 2 := ⟨size - 2, by omega⟩
    have hgt1 : k + 2 > 1 := by omega
    simp only [hgt1, if_true, List.cons_append, List.nil_append, List.append_assoc, Nat.add_sub_cancel]
    have hk1 : k + 2 - 1 = k + 1 := by omega
    rw [hk1]
    -- first byte
    have hfirst : decodeChain 8 0 0 (toByte ((if v < 0 then 0xF else 0xE) * 16 + nibble v (k + 1)) ::
        ((if k + 2 > 2 then middle v k else []) ++ (toByte (((opc % 16 : Nat) : Int) * 16 + nibble v 0) :: rest)))
        = decodeChain 7 (W (T v (k + 1) * 16)) 1
            ((if k + 2 > 2 then middle v k else []) ++ (toByte (((opc % 16 : Nat) : Int) * 16 + nibble v 0) :: rest)) := by
      by_cases hneg : v < 0
      · simp only [hneg, if_true] at hfit ⊢
        obtain ⟨hlo, hhi⟩ := T_top_neg v (k + 1) hneg hfit.2
        rw [dc_nfix 7 0 0 _ _ (nibble_nonneg v (k+1)) (nibble_lt v (k+1))]
        have hnib : nibble v (k + 1) = T v (k + 1) + 16 := by rw [nibble_eq]; omega
        have h0or : (0 : Word) ||| W (nibble v (k + 1)) = W (nibble v (k+1)) := by simp
        rw [h0or, W_shl4]
        obtain ⟨j, hj⟩ : ∃ j : Fin 16, (j.val : Int) = nibble v (k + 1) :=
          ⟨⟨(nibble v (k+1)).toNat, by have := nibble_lt v (k+1); have := nibble_nonneg v (k+1); omega⟩,
           by have := nibble_nonneg v (k+1); simp; omega⟩
        rw [← hj, nfix_const j, hj, hnib]
        congr 2; omega
      · simp only [hneg, if_false] at hfit ⊢
        obtain ⟨hlo, hhi⟩ := T_top_nonneg v (k + 1) (by omega) hfit
        rw [dc_pfix 7 0 0 _ _ (nibble_nonneg v (k+1)) (nibble_lt v (k+1))]
        have hnib : nibble v (k + 1) = T v (k + 1) := by rw [nibble_eq]; omega
        have h0or : (0 : Word) ||| W (nibble v (k + 1)) = W (nibble v (k+1)) := by simp
        rw [h0or, W_shl4, hnib]
    rw [hfirst]
    have hmid : decodeChain 7 (W (T v (k + 1) * 16)) 1
            ((if k + 2 > 2 then middle v k else []) ++ (toByte (((opc % 16 : Nat) : Int) * 16 + nibble v 0) :: rest))
        = decodeChain (7 - k) (W (T v 1 * 16)) (1 + k) (toByte (((opc % 16 : Nat) : Int) * 16 + nibble v 0) :: rest) := by
      by_cases hk : k = 0
      · subst hk; simp
      · have : k + 2 > 2 := by omega
        simp only [this, if_true]
        exact middle_chain v k 7 1 _ (by omega)
    rw [hmid, dc_last _ _ _ opc hopc _ _ (nibble_nonneg v 0) (nibble_lt v 0)]
    rw [W_or_nib _ _ (nibble_nonneg v 0) (nibble_lt v 0), ← T_succ, T_zero]
    have : 1 + k + 1 = k + 2 := by omega
    rw [this]


theorem nibLoop_spec (m n : Nat) :
    ∃ k, nibLoop m n = n + k ∧ m < 16 ^ (k + 1) ∧ (k = 0 ∨ 16 ^ k ≤ m) := by
  induction m, n using nibLoop.induct with
  | case1 m n h ih =>
    obtain ⟨k, hk, hlt, _⟩ := ih
    refine ⟨k + 1, ?_, ?_, Or.inr ?_⟩
    · rw [nibLoop, dif_pos h, hk]; omega
    · have : m < 16 * 16 ^ (k + 1) := by
        have := Nat.lt_of_div_lt_div (a := m) (b := 16 * 16 ^ (k+1)) (c := 16) (by
          rw [Nat.mul_div_cancel_left _ (by decide : 0 < 16)]; exact hlt)
        exact this
      rw [Nat.pow_succ, Nat.mul_comm]; exact this
    · rename_i hor
      rcases hor with rfl | hge
      · simp; omega
      · calc 16 ^ (k + 1) = 16 ^ k * 16 := Nat.pow_succ _ _
          _ ≤ (m / 16) * 16 := Nat.mul_le_mul_right _ hge
          _ ≤ m := Nat.div_mul_le_self m 16
  | case2 m n h =>
    refine ⟨0, ?_, ?_, Or.inl rfl⟩
    · rw [nibLoop, dif_neg h]; rfl
    · simp; omega


/-- C++ `int` range. -/
def InInt32 (v : Int) : Prop := -(2:Int)^31 ≤ v ∧ v < (2:Int)^31

theorem fits_mono (v : Int) (a b : Nat) (h : fits v a) (hab : a ≤ b) : fits v b := by
  obtain ⟨h1, h2⟩ := h
  refine ⟨by omega, ?_⟩
  have hpow : (16 : Int) ^ a ≤ 16 ^ b := by
    have : (16 ^ a : Nat) ≤ 16 ^ b := Nat.pow_le_pow_right (by decide) hab
    exact_mod_cast this
  by_cases hv : v < 0
  · simp only [hv, if_true] at h2 ⊢
    exact ⟨by omega, by omega⟩
  · simp only [hv, if_false] at h2 ⊢
    omega

theorem numNibbles_spec (v : Int) :
    1 ≤ numNibbles v ∧ (v.natAbs : Int) < 16 ^ numNibbles v ∧
    (v < 0 → 2 ≤ numNibbles v) ∧ (v.natAbs < 2 ^ 32 → numNibbles v ≤ 8) := by
  unfold numNibbles
  by_cases h0 : v = 0
  · subst h0; simp
  · simp only [h0, if_false]
    by_cases hsmall : v < 0 ∧ v.natAbs < 16
    · simp only [hsmall, and_self, if_true]
      refine ⟨by decide, by omega, fun _ => Nat.le_refl _, fun _ => by decide⟩
    · simp only [hsmall, if_false]
      obtain ⟨k, hk, hlt, hge⟩ := nibLoop_spec v.natAbs 1
      rw [hk]
      refine ⟨by omega, ?_, ?_, ?_⟩
      · have : 1 + k = k + 1 := by omega
        rw [this]; exact_mod_cast hlt
      · intro hneg
        rcases hge with rfl | hge
        · exfalso; apply hsmall; exact ⟨hneg, by simpa using hlt⟩
        · cases k with
          | zero => exfalso; apply hsmall; exact ⟨hneg, by simpa using hlt⟩
          | succ k => omega
      · intro hb
        rcases hge with rfl | hge
        · omega
        · have : 16 ^ k < 16 ^ 8 := by
            calc 16 ^ k ≤ v.natAbs := hge
              _ < 2 ^ 32 := hb
              _ = 16 ^ 8 := by decide
          have := (Nat.pow_lt_pow_iff_right (by decide : 1 < 16)).mp this
          omega

theorem instrLen_spec (v : Int) (hv : InInt32 v) : fits v (instrLen v) ∧ instrLen v ≤ 8 := by
  obtain ⟨h1, habs, hneg, h8⟩ := numNibbles_spec v
  have hb : v.natAbs < 2 ^ 32 := by unfold InInt32 at hv; omega
  unfold instrLen
  by_cases hc : v < 0 ∧ numNibbles v = 1
  · exfalso; have := hneg hc.1; omega
  · simp only [hc, if_false]
    refine ⟨⟨h1, ?_⟩, h8 hb⟩
    by_cases hv0 : v < 0
    · simp only [hv0, if_true]
      exact ⟨hneg hv0, by omega⟩
    · simp only [hv0, if_false]; omega

end Hex.Asm
