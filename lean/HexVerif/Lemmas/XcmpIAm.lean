import HexVerif.Am.Indexed
import HexVerif.Lemmas.XcmpAmImage
/-!
  Stage (1b) of C01: the indexed machine `IAm` (program counter = directive index, labels by
  name) is refined by `Am` - hence by the ISA on the bytes - for the environment `envOf ds img`
  of an assembled image.

  Side condition `Separated ds`: an instruction that can fall through is never directly followed
  by a DATA word (or a label naming one); in xcmp's output the only data block sits behind the
  unconditional `BR _start`.
-/
namespace Hex.IAm
open Hex Hex.Isa Hex.Asm Hex.Am

/-! ### Facts about `expected` / `entries` -/

theorem expected_length : ∀ (ds : List Dir) (lens : List Nat) (vals : List I32) (pos : Nat),
    (expected ds lens vals pos).length = ds.length := by
  intro ds
  induction ds with
  | nil => intros; rfl
  | cons d rest ih => intro lens vals pos; cases d <;> simp [expected, ih]

/-- The first directive of `ds` is a DATA word or a label naming one. -/
def startsData : List Dir → Bool
  | .data _ :: _ => true
  | .label _ _ :: rest => namesData rest
  | _ => false

/-- Can the directive fall through to the next one? -/
def fallsThrough : Dir → Bool
  | .ref 0x9 _ _ => false      -- BR
  | .opr 0 => false            -- BRB
  | .imm _ _ | .ref _ _ _ | .opr _ => true
  | _ => false

def Separated : List Dir → Bool
  | [] => true
  | d :: rest => (!(fallsThrough d && startsData rest)) && Separated rest

/-- Start of the first directive of `ds` when laid out from `pos` (the end offset if none). -/
theorem head_start (ds : List Dir) (lens : List Nat) (vals : List I32) (pos : Nat) :
    addrOf (expected ds lens vals pos) (layoutEnd ds lens pos) 0
      = if startsData ds then align4 pos else pos := by
  cases ds with
  | nil => simp [addrOf, expected, startsData]
  | cons d rest =>
    cases d <;> simp [addrOf, expected, startsData] <;> rfl

theorem addrOf_succ (f : Found) (fs : List Found) (e i : Nat) : addrOf (f :: fs) e (i + 1) = addrOf fs e i := by
  simp [addrOf]

/-- What `expected` records for the head directive. -/
def headFound (d : Dir) (rest : List Dir) (lens : List Nat) (vals : List I32) (pos : Nat) : Found :=
  match d with
  | .label _ _ => ⟨if namesData rest then align4 pos else pos, 0, 0⟩
  | .data v => ⟨align4 pos, 4, BitVec.ofInt 32 v⟩
  | .imm _ v => ⟨pos, instrLen v, W v⟩
  | .ref _ _ _ => ⟨pos, lens.headD 0, W (vals.headD 0)⟩
  | .opr k => ⟨pos, 1, BitVec.ofNat 32 k⟩

/-- Offset at which the layout continues after the head directive. -/
def nextPos (d : Dir) (lens : List Nat) (pos : Nat) : Nat :=
  match d with
  | .label _ _ => pos
  | .data _ => align4 pos + 4
  | .imm _ v => pos + instrLen v
  | .ref _ _ _ => pos + lens.headD 0
  | .opr _ => pos + 1

theorem head_facts (d : Dir) (rest : List Dir) (lens : List Nat) (vals : List I32) (pos : Nat)
    (h : DirOk d (lens.headD 0) (vals.headD 0)) (hi : isInstr d = true) :
    0 < (headFound d rest lens vals pos).size ∧ (headFound d rest lens vals pos).start = pos ∧
      nextPos d lens pos = pos + (headFound d rest lens vals pos).size := by
  cases d with
  | imm o v => exact ⟨instrLen_ge1 v, rfl, rfl⟩
  | ref o n r => simp only [DirOk] at h; exact ⟨h.2.1.1, rfl, rfl⟩
  | opr k => exact ⟨by simp [headFound], rfl, rfl⟩
  | data v => simp [isInstr] at hi
  | label k n => simp [isInstr] at hi

theorem expected_cons (d : Dir) (rest : List Dir) (lens : List Nat) (vals : List I32) (pos : Nat) :
    expected (d :: rest) lens vals pos
      = headFound d rest lens vals pos :: expected rest lens.tail vals.tail (nextPos d lens pos) := by
  cases d <;> rfl

theorem layoutEnd_cons (d : Dir) (rest : List Dir) (lens : List Nat) (pos : Nat) :
    layoutEnd (d :: rest) lens pos = layoutEnd rest lens.tail (nextPos d lens pos) := by
  cases d <;> rfl

theorem entries_start_ge : ∀ (ds : List Dir) (lens : List Nat) (vals : List I32) (pos : Nat),
    ∀ en ∈ entries ds (expected ds lens vals pos), pos ≤ en.start := by
  intro ds
  induction ds with
  | nil => intro lens vals pos en h; simp [entries] at h
  | cons d rest ih =>
    intro lens vals pos en h
    rw [expected_cons] at h
    unfold entries at h
    have hnp : pos ≤ nextPos d lens pos := by
      cases d <;> simp [nextPos] <;> (try have := align4_ge pos) <;> omega
    by_cases hi : isInstr d = true
    · rw [if_pos hi] at h
      simp only [List.mem_cons] at h
      rcases h with rfl | h
      · cases d <;> simp [headFound, isInstr] at hi ⊢
      · have := ih _ _ _ en h; omega
    · rw [if_neg hi] at h
      have := ih _ _ _ en h; omega

/-- The entry of instruction directive `i`, found by its start address; its size is positive
    and the next directive starts right behind it unless that is data. -/
theorem instr_facts : ∀ (ds : List Dir) (lens : List Nat) (vals : List I32) (pos : Nat) (i : Nat) (d : Dir),
    AllOk ds lens vals → ds[i]? = some d → isInstr d = true →
    ∃ f, (expected ds lens vals pos)[i]? = some f ∧
      instrAt (entries ds (expected ds lens vals pos)) f.start = some ⟨opcOf d, f.start, f.size, f.operand⟩ ∧
      0 < f.size ∧
      (startsData (ds.drop (i + 1)) = false →
        addrOf (expected ds lens vals pos) (layoutEnd ds lens pos) (i + 1) = f.start + f.size) := by
  intro ds
  induction ds with
  | nil => intro lens vals pos i d _ h; simp at h
  | cons d0 rest ih =>
    intro lens vals pos i d hok hd hi
    obtain ⟨hd0, hrest⟩ := hok
    rw [expected_cons, layoutEnd_cons]
    cases i with
    | zero =>
      simp only [List.getElem?_cons_zero, Option.some.injEq] at hd
      subst hd
      refine ⟨headFound d0 rest lens vals pos, by simp, ?_, ?_, ?_⟩
      · unfold entries instrAt
        rw [if_pos hi]
        simp
      · exact (head_facts d0 rest lens vals pos hd0 hi).1
      · intro hsd
        simp only [Nat.zero_add, List.drop_succ_cons, List.drop_zero] at hsd
        rw [addrOf_succ, head_start, hsd]
        obtain ⟨_, h2, h3⟩ := head_facts d0 rest lens vals pos hd0 hi
        simp only [Bool.false_eq_true, if_false]
        rw [h3, h2]
    | succ j =>
      simp only [List.getElem?_cons_succ] at hd
      obtain ⟨f, hf, hat, hsz, hnext⟩ := ih lens.tail vals.tail (nextPos d0 lens pos) j d hrest hd hi
      refine ⟨f, by simpa using hf, ?_, hsz, ?_⟩
      · unfold entries
        by_cases hi0 : isInstr d0 = true
        · rw [if_pos hi0]
          unfold instrAt
          rw [List.find?_cons_of_neg]
          · exact hat
          · -- the head entry starts strictly before `f`
            have hmem : (⟨opcOf d, f.start, f.size, f.operand⟩ : Entry) ∈
                entries rest (expected rest lens.tail vals.tail (nextPos d0 lens pos)) := by
              unfold instrAt at hat
              exact List.mem_of_find?_eq_some hat
            have hge := entries_start_ge rest _ _ _ _ hmem
            obtain ⟨h1, h2, h3⟩ := head_facts d0 rest lens vals pos hd0 hi0
            simp only at hge
            simp only [h2, beq_iff_eq]
            omega
        · rw [if_neg hi0]; exact hat
      · intro hsd
        rw [addrOf_succ]
        exact hnext (by simpa using hsd)

/-- A label starts where the next directive starts. -/
theorem label_facts : ∀ (ds : List Dir) (lens : List Nat) (vals : List I32) (pos : Nat) (i : Nat) (k : LabelKind) (n : String),
    ds[i]? = some (.label k n) →
    addrOf (expected ds lens vals pos) (layoutEnd ds lens pos) (i + 1)
      = addrOf (expected ds lens vals pos) (layoutEnd ds lens pos) i := by
  intro ds
  induction ds with
  | nil => intro lens vals pos i k n h; simp at h
  | cons d0 rest ih =>
    intro lens vals pos i k n hd
    rw [expected_cons, layoutEnd_cons]
    cases i with
    | zero =>
      simp only [List.getElem?_cons_zero, Option.some.injEq] at hd
      subst hd
      rw [addrOf_succ, head_start]
      simp only [addrOf, List.getElem?_cons_zero, headFound, nextPos]
      cases rest with
      | nil => simp [startsData, namesData]
      | cons d1 r1 => cases d1 <;> simp [startsData, namesData] <;> first | rfl | (split <;> rfl)
    | succ j =>
      simp only [List.getElem?_cons_succ] at hd
      rw [addrOf_succ, addrOf_succ]
      exact ih _ _ _ j k n hd

/-! ### Label references -/

theorem lookupLabel_cons (name : String) (e : String × Nat) (L : List (String × Nat)) :
    lookupLabel name (e :: L) =
      match lookupLabel name L with
      | some l => some l
      | none => if e.1 == name then some e.2 else none := by
  unfold lookupLabel
  simp only [List.reverse_cons, List.find?_append]
  cases h : L.reverse.find? (fun e => e.1 == name) with
  | some x => simp
  | none =>
    simp only [Option.none_or, List.find?_cons, List.find?_nil]
    by_cases he : (e.1 == name) = true
    · simp [he]
    · simp [he]

/-- The label the assembler resolves a name to is the last label directive with that name. -/
theorem lookup_labelIdx : ∀ (ds : List Dir) (lens : List Nat) (vals : List I32) (pos : Nat) (k : Nat) (name : String) (j : Nat),
    labelIdxFrom ds k name = some j →
    k ≤ j ∧ ∃ f, (expected ds lens vals pos)[j - k]? = some f ∧
      lookupLabel name (foundLabels ds (expected ds lens vals pos)) = some f.start := by
  intro ds
  induction ds with
  | nil => intro lens vals pos k name j h; simp [labelIdxFrom] at h
  | cons d rest ih =>
    intro lens vals pos k name j h
    rw [expected_cons]
    unfold labelIdxFrom at h
    cases hr : labelIdxFrom rest (k + 1) name with
    | some j' =>
      rw [hr] at h
      simp only [Option.some.injEq] at h
      subst h
      obtain ⟨hk, f, hf, hl⟩ := ih lens.tail vals.tail (nextPos d lens pos) (k + 1) name j' hr
      refine ⟨by omega, f, ?_, ?_⟩
      · have : j' - k = (j' - (k + 1)) + 1 := by omega
        rw [this]; simpa using hf
      · cases d with
        | label kind n =>
          simp only [foundLabels]
          rw [lookupLabel_cons, hl]
        | data v => simpa [foundLabels] using hl
        | imm o v => simpa [foundLabels] using hl
        | ref o n r => simpa [foundLabels] using hl
        | opr o => simpa [foundLabels] using hl
    | none =>
      rw [hr] at h
      cases d with
      | label kind n =>
        simp only at h
        by_cases hn : n = name
        · rw [if_pos hn] at h
          simp only [Option.some.injEq] at h
          subst h
          refine ⟨by omega, headFound (.label kind n) rest lens vals pos, by simp, ?_⟩
          simp only [foundLabels]
          rw [lookupLabel_cons]
          -- no later label has this name
          have hnone : lookupLabel name (foundLabels rest (expected rest lens.tail vals.tail (nextPos (.label kind n) lens pos))) = none := by
            clear ih
            generalize nextPos (Dir.label kind n) lens pos = p
            generalize lens.tail = ls
            generalize vals.tail = vs
            generalize k + 1 = k' at hr
            induction rest generalizing ls vs p k' with
            | nil => simp [foundLabels, lookupLabel]
            | cons d1 r1 ih1 =>
              rw [expected_cons]
              unfold labelIdxFrom at hr
              cases hr1 : labelIdxFrom r1 (k' + 1) name with
              | some x => rw [hr1] at hr; simp at hr
              | none =>
                rw [hr1] at hr
                have := ih1 (ls := ls.tail) (vs := vs.tail) (p := nextPos d1 ls p) (k' := k' + 1) hr1
                cases d1 with
                | label kind1 n1 =>
                  simp only at hr
                  simp only [foundLabels]
                  rw [lookupLabel_cons, this]
                  by_cases hn1 : n1 = name
                  · rw [if_pos hn1] at hr; simp at hr
                  · simp [hn1]
                | data v => simpa [foundLabels] using this
                | imm o v => simpa [foundLabels] using this
                | ref o n r => simpa [foundLabels] using this
                | opr o => simpa [foundLabels] using this
          rw [hnone]
          simp [hn, headFound]
        · rw [if_neg hn] at h; simp at h
      | data v => simp at h
      | imm o v => simp at h
      | ref o n r => simp at h
      | opr o => simp at h

theorem refsOk_at (L : List (String × Nat)) : ∀ (ds : List Dir) (fs : List Found) (i : Nat) (opc : Nat) (name : String)
    (rel : Bool) (f : Found), refsOk L ds fs = true → ds[i]? = some (.ref opc name rel) → fs[i]? = some f →
    ∃ l, lookupLabel name L = some l ∧
      (if rel then BitVec.ofNat 32 (f.start + f.size) + f.operand = BitVec.ofNat 32 l
       else l % 4 = 0 ∧ f.operand = BitVec.ofNat 32 (l / 4)) := by
  intro ds
  induction ds with
  | nil => intro fs i opc name rel f _ h; simp at h
  | cons d rest ih =>
    intro fs i opc name rel f hr hd hf
    cases fs with
    | nil => simp at hf
    | cons f0 fs' =>
      cases i with
      | zero =>
        simp only [List.getElem?_cons_zero, Option.some.injEq] at hd hf
        subst hd; subst hf
        unfold refsOk at hr
        simp only [Bool.and_eq_true] at hr
        obtain ⟨h1, _⟩ := hr
        cases hl : lookupLabel name L with
        | none => rw [hl] at h1; simp at h1
        | some l =>
          rw [hl] at h1
          refine ⟨l, rfl, ?_⟩
          by_cases hrel : rel = true
          · simp only [hrel, if_true] at h1 ⊢; simpa using h1
          · simp only [hrel] at h1 ⊢; simpa using h1
      | succ j =>
        simp only [List.getElem?_cons_succ] at hd hf
        have hr' : refsOk L rest fs' = true := by
          cases d with
          | ref o n r =>
            unfold refsOk at hr
            simp only [Bool.and_eq_true] at hr
            exact hr.2
          | label k n => simpa [refsOk] using hr
          | data v => simpa [refsOk] using hr
          | imm o v => simpa [refsOk] using hr
          | opr o => simpa [refsOk] using hr
        exact ih fs' j opc name rel f hr' hd hf

/-! ### Stores outside the code keep the program loaded -/

theorem fetchList_congr (m1 m2 : Mem) : ∀ (n : Nat) (pc : Word),
    (∀ k, k < n → Isa.fetch m1 (pc + BitVec.ofNat 32 k) = Isa.fetch m2 (pc + BitVec.ofNat 32 k)) →
    fetchList m1 pc n = fetchList m2 pc n := by
  intro n
  induction n with
  | zero => intros; rfl
  | succ n ih =>
    intro pc h
    unfold fetchList
    have h0 := h 0 (by omega)
    simp only [BitVec.ofNat_eq_ofNat, BitVec.add_zero] at h0
    rw [h0, ih (pc + 1)]
    intro k hk
    have := h (k + 1) (by omega)
    have e : pc + 1 + BitVec.ofNat 32 k = pc + BitVec.ofNat 32 (k + 1) := ofNat_succ pc k
    rw [e]; exact this

theorem fetch_write_other (mem : Mem) (w : Nat) (v : Word) (i : Nat) (hi : i < 4 * memWords) (hne : i / 4 ≠ w) :
    Isa.fetch (mem.write w v) (BitVec.ofNat 32 i) = Isa.fetch mem (BitVec.ofNat 32 i) := by
  rw [fetch_ofNat _ i hi, fetch_ofNat _ i hi, Mem.read_write_other _ _ _ _ (Ne.symm hne)]

theorem decodesAt_write (mem : Mem) (e : Entry) (w : Nat) (v : Word)
    (hb : e.start + e.size ≤ 4 * memWords)
    (hw : ¬ (e.start / 4 ≤ w ∧ w ≤ (e.start + e.size - 1) / 4)) :
    decodesAt (mem.write w v) e = decodesAt mem e := by
  unfold decodesAt
  rw [fetchList_congr (mem.write w v) mem e.size (BitVec.ofNat 32 e.start)]
  intro k hk
  have : BitVec.ofNat 32 e.start + BitVec.ofNat 32 k = BitVec.ofNat 32 (e.start + k) := by
    simp [BitVec.ofNat_add]
  rw [this]
  apply fetch_write_other _ _ _ _ (by omega)
  intro heq
  apply hw
  subst heq
  constructor
  · exact Nat.div_le_div_right (by omega)
  · exact Nat.div_le_div_right (by omega)

theorem loaded_write (P : Prog) (mem : Mem) (w : Nat) (v : Word)
    (hb : ∀ e ∈ P, e.start + e.size ≤ 4 * memWords)
    (hl : loaded P mem = true) (hw : isCodeWord P w = false) : loaded P (mem.write w v) = true := by
  unfold loaded at hl ⊢
  rw [List.all_eq_true] at hl ⊢
  intro e he
  rw [decodesAt_write mem e w v (hb e he)]
  · exact hl e he
  · intro hc
    unfold isCodeWord at hw
    have : (P.any fun e => decide (e.start / 4 ≤ w ∧ w ≤ (e.start + e.size - 1) / 4)) = true := by
      rw [List.any_eq_true]
      exact ⟨e, he, by simpa using hc⟩
    rw [this] at hw; simp at hw

theorem store_loaded (env : Env) (P : Prog) (mem m' : Mem) (w v : Word)
    (hb : ∀ e ∈ P, e.start + e.size ≤ 4 * memWords) (henv : env.isCode = isCodeWord P)
    (hl : loaded P mem = true) (hs : store env mem w v = some m') :
    Isa.stw mem w v = some m' ∧ loaded P m' = true := by
  unfold store at hs
  split at hs
  · rename_i hc
    simp only [Option.some.injEq] at hs
    subst hs
    refine ⟨by unfold Isa.stw; rw [if_pos hc.1], ?_⟩
    exact loaded_write P mem _ v hb hl (by rw [← henv]; exact hc.2)
  · simp at hs

/-! ### The simulation -/

/-- An assembled image and the facts about it that the simulation uses. -/
structure Good (ds : List Dir) (img : Image) : Prop where
  hp : ParsedOk ds
  hn : ds.length < 2 ^ 26
  hasm : assemble (ds.map fun d => (d, (⟨0, 0⟩ : Loc))) = .ok (some img)
  hfit : img.bytes.length ≤ 4 * memWords
  hsep : Separated ds = true

/-- The `Am`/ISA state of an `IAm` configuration. -/
def toSt (env : Env) (c : Cfg) : Isa.St :=
  { pc := BitVec.ofNat 32 (env.addr c.i), a := c.a, b := c.b, o := 0, mem := c.mem }

/-- Everything derived once from `Good`. -/
structure Facts (ds : List Dir) (img : Image) : Prop where
  allOk : AllOk ds img.resolved.lens img.resolved.vals
  refs : refsOk (foundLabels ds (expected ds img.resolved.lens img.resolved.vals 0)) ds
          (expected ds img.resolved.lens img.resolved.vals 0) = true
  bound : ∀ e ∈ ofImage ds img, e.start + e.size ≤ img.bytes.length
  pos : ∀ e ∈ ofImage ds img, 0 < e.size
  hwalk : ∃ tail e, walk ds img.bytes 0 = some (expected ds img.resolved.lens img.resolved.vals 0, tail, e)
  len4 : img.bytes.length % 4 = 0

theorem facts_of_good (ds : List Dir) (img : Image) (g : Good ds img) : Facts ds img := by
  have hmap := map_withLoc ds
  obtain ⟨lens0, hl0, hok, h1, h2, h3, hv, hbytes, hsize, hlen, hdbg⟩ :=
    assemble_facts _ img (by rw [hmap]; exact g.hp) (by simpa using g.hn) g.hasm
  rw [hmap] at hok hbytes
  have hwalk := walk_emit ds lens0 img.resolved.vals 0
    (List.replicate (align4 (layoutEnd ds lens0 0) - layoutEnd ds lens0 0) 0) hok
  rw [← hbytes] at hwalk
  have hchk := assemble_checkImage _ img (by rw [hmap]; exact g.hp) (by simpa using g.hn) g.hasm
  rw [hmap] at hchk
  unfold checkImage at hchk
  rw [hwalk] at hchk
  simp only [Bool.and_eq_true] at hchk
  refine ⟨by rw [h1]; exact hok, by rw [h1]; exact hchk.1.1.1.1, ?_, ?_, ⟨_, _, by rw [h1]; exact hwalk⟩,
    (assemble_size _ img (by rw [hmap]; exact g.hp) (by simpa using g.hn) g.hasm).2⟩
  · intro e he
    unfold ofImage at he
    rw [h1] at he
    obtain ⟨k, hk1, hk2, _⟩ := walk_entries ds img.bytes 0 _ _ _ g.hp hwalk e he
    omega
  · intro e he
    unfold ofImage at he
    rw [h1] at he
    obtain ⟨k, _, _, hk3⟩ := walk_entries ds img.bytes 0 _ _ _ g.hp hwalk e he
    cases hsz : e.size with
    | zero => rw [hsz] at hk3; simp [decodeInstr, decodeChain] at hk3
    | succ n => omega

theorem sep_at : ∀ (ds : List Dir) (i : Nat) (d : Dir), Separated ds = true → ds[i]? = some d →
    fallsThrough d = true → startsData (ds.drop (i + 1)) = false := by
  intro ds
  induction ds with
  | nil => intro i d _ h; simp at h
  | cons d0 rest ih =>
    intro i d hs hd hf
    unfold Separated at hs
    simp only [Bool.and_eq_true, Bool.not_eq_true'] at hs
    cases i with
    | zero =>
      simp only [List.getElem?_cons_zero, Option.some.injEq] at hd
      subst hd
      simpa [hf] using hs.1
    | succ j =>
      simp only [List.getElem?_cons_succ] at hd
      simpa using ih j d hs.2 hd hf

theorem found_operand : ∀ (ds : List Dir) (lens : List Nat) (vals : List I32) (pos : Nat) (i : Nat) (d : Dir) (f : Found),
    ds[i]? = some d → (expected ds lens vals pos)[i]? = some f →
    match d with
    | .imm _ v => f.operand = W v
    | .opr k => f.operand = BitVec.ofNat 32 k
    | _ => True := by
  intro ds
  induction ds with
  | nil => intro lens vals pos i d f h; simp at h
  | cons d0 rest ih =>
    intro lens vals pos i d f hd hf
    rw [expected_cons] at hf
    cases i with
    | zero =>
      simp only [List.getElem?_cons_zero, Option.some.injEq] at hd hf
      subst hd; subst hf
      cases d0 <;> simp [headFound, W, Asm.W]
    | succ j =>
      simp only [List.getElem?_cons_succ] at hd hf
      exact ih _ _ _ j d f hd hf

section Sim
variable {ds : List Dir} {img : Image}

/-- The layout record of directive `i`. -/
def foundAt (ds : List Dir) (img : Image) (i : Nat) : Option Found :=
  (expected ds img.resolved.lens img.resolved.vals 0)[i]?

theorem addr_of_found (i : Nat) (f : Found) (h : foundAt ds img i = some f) : (envOf ds img).addr i = f.start := by
  unfold foundAt at h
  simp [envOf, addrOf, h]

/-- The `Am` step at an instruction directive, in terms of the ISA's `dispatch`. -/
theorem am_step_instr (g : Good ds img) (F : Facts ds img) (c : Cfg) (io : IOSt) (d : Dir)
    (hd : ds[c.i]? = some d) (hi : isInstr d = true) :
    ∃ f, foundAt ds img c.i = some f ∧ f.start + f.size ≤ img.bytes.length ∧
      (fallsThrough d = true → (envOf ds img).addr (c.i + 1) = f.start + f.size) ∧
      Am.step (ofImage ds img) (toSt (envOf ds img) c) io =
        match Isa.dispatch { pc := BitVec.ofNat 32 (f.start + f.size), a := c.a, b := c.b, o := f.operand, mem := c.mem }
                io (opcOf d) with
        | .running s' io' => if loaded (ofImage ds img) s'.mem then .ok (.running s' io') else .error .codeStore
        | out => .ok out := by
  obtain ⟨f, hf, hat, hsz, hnext⟩ := instr_facts ds img.resolved.lens img.resolved.vals 0 c.i d F.allOk hd hi
  have hmem : (⟨opcOf d, f.start, f.size, f.operand⟩ : Entry) ∈ ofImage ds img := by
    unfold instrAt at hat
    exact List.mem_of_find?_eq_some hat
  have hb := F.bound _ hmem
  simp only at hb
  have hfit := g.hfit
  refine ⟨f, hf, hb, ?_, ?_⟩
  · intro hft
    have := hnext (sep_at ds c.i d g.hsep hd hft)
    simpa [envOf] using this
  · unfold Am.step
    have haddr := addr_of_found c.i f hf
    have hpc : (toSt (envOf ds img) c).pc.toNat = f.start := by
      simp only [toSt, haddr, BitVec.toNat_ofNat]
      unfold memWords at hfit
      omega
    rw [hpc]
    unfold ofImage
    rw [hat]
    simp only [toSt, haddr]
    rw [← BitVec.ofNat_add]
    rfl

theorem ref_facts (F : Facts ds img) (i opc : Nat) (name : String) (rel : Bool) (f : Found) (j : Nat)
    (hd : ds[i]? = some (.ref opc name rel)) (hf : foundAt ds img i = some f) (hj : labelIdx ds name = some j) :
    if rel then BitVec.ofNat 32 (f.start + f.size) + f.operand = BitVec.ofNat 32 ((envOf ds img).addr j)
    else (envOf ds img).addr j % 4 = 0 ∧ f.operand = BitVec.ofNat 32 ((envOf ds img).addr j / 4) := by
  obtain ⟨_, f', hf', hl'⟩ := lookup_labelIdx ds img.resolved.lens img.resolved.vals 0 0 name j hj
  obtain ⟨l, hl, hc⟩ := refsOk_at _ ds _ i opc name rel f F.refs hd hf
  rw [hl'] at hl
  simp only [Option.some.injEq] at hl
  have haddr : (envOf ds img).addr j = l := by
    rw [← hl]
    exact addr_of_found j f' (by simpa [foundAt] using hf')
  rw [haddr]; exact hc

theorem d_ldam (s : St) (io : IOSt) : Isa.dispatch s io 0x0 =
    match ld s.mem s.o with | some v => .running { s with a := v, o := 0 } io | none => .undef .outOfRange := rfl
theorem d_ldbm (s : St) (io : IOSt) : Isa.dispatch s io 0x1 =
    match ld s.mem s.o with | some v => .running { s with b := v, o := 0 } io | none => .undef .outOfRange := rfl
theorem d_stam (s : St) (io : IOSt) : Isa.dispatch s io 0x2 =
    match stw s.mem s.o s.a with | some m => .running { s with o := 0, mem := m } io | none => .undef .outOfRange := rfl
theorem d_ldac (s : St) (io : IOSt) : Isa.dispatch s io 0x3 = .running { s with a := s.o, o := 0 } io := rfl
theorem d_ldbc (s : St) (io : IOSt) : Isa.dispatch s io 0x4 = .running { s with b := s.o, o := 0 } io := rfl
theorem d_ldap (s : St) (io : IOSt) : Isa.dispatch s io 0x5 = .running { s with a := s.pc + s.o, o := 0 } io := rfl
theorem d_ldai (s : St) (io : IOSt) : Isa.dispatch s io 0x6 =
    match ld s.mem (s.a + s.o) with | some v => .running { s with a := v, o := 0 } io | none => .undef .outOfRange := rfl
theorem d_ldbi (s : St) (io : IOSt) : Isa.dispatch s io 0x7 =
    match ld s.mem (s.b + s.o) with | some v => .running { s with b := v, o := 0 } io | none => .undef .outOfRange := rfl
theorem d_stai (s : St) (io : IOSt) : Isa.dispatch s io 0x8 =
    match stw s.mem (s.b + s.o) s.a with | some m => .running { s with o := 0, mem := m } io | none => .undef .outOfRange := rfl
theorem d_br (s : St) (io : IOSt) : Isa.dispatch s io 0x9 = .running { s with pc := s.pc + s.o, o := 0 } io := rfl
theorem d_brz (s : St) (io : IOSt) : Isa.dispatch s io 0xA =
    .running { s with pc := if s.a = 0 then s.pc + s.o else s.pc, o := 0 } io := rfl
theorem d_brn (s : St) (io : IOSt) : Isa.dispatch s io 0xB =
    .running { s with pc := if s.a.toInt < 0 then s.pc + s.o else s.pc, o := 0 } io := rfl
theorem d_opr (s : St) (io : IOSt) : Isa.dispatch s io 0xD =
    if s.o = 0 then .running { s with pc := s.b, o := 0 } io
    else if s.o = 1 then .running { s with a := s.a + s.b, o := 0 } io
    else if s.o = 2 then .running { s with a := s.a - s.b, o := 0 } io
    else if s.o = 3 then Isa.svc s io
    else .undef .badOpr := rfl

/-- **Every `IAm` step is at most one `Am` step** with the same effect on registers, memory and I/O. -/
theorem step_sim (g : Good ds img) (F : Facts ds img) (c : Cfg) (io : IOSt) (c' : Cfg) (io' : IOSt)
    (hl : loaded (ofImage ds img) c.mem = true) (h : Step (envOf ds img) c io c' io') :
    (toSt (envOf ds img) c' = toSt (envOf ds img) c ∧ io' = io ∧ c'.mem = c.mem) ∨
    Am.step (ofImage ds img) (toSt (envOf ds img) c) io = .ok (.running (toSt (envOf ds img) c') io') := by
  have hbnd : ∀ e ∈ ofImage ds img, e.start + e.size ≤ 4 * memWords := fun e he => by
    have := F.bound e he; have := g.hfit; omega
  cases h with
  | label k n hd =>
    left
    refine ⟨?_, rfl, rfl⟩
    have := label_facts ds img.resolved.lens img.resolved.vals 0 c.i k n hd
    simp only [toSt, envOf]
    rw [this]
  | ldam v x hd hld =>
    right
    obtain ⟨f, hf, hb, hft, hstep⟩ := am_step_instr g F c io _ hd rfl
    have hop := found_operand ds _ _ 0 c.i _ f hd hf
    simp only at hop
    rw [hstep, hop]
    simp only [opcOf, d_ldam, hld, hl, if_true, toSt, hft rfl]
  | ldbm v x hd hld =>
    right
    obtain ⟨f, hf, hb, hft, hstep⟩ := am_step_instr g F c io _ hd rfl
    have hop := found_operand ds _ _ 0 c.i _ f hd hf
    simp only at hop
    rw [hstep, hop]
    simp only [opcOf, d_ldbm, hld, hl, if_true, toSt, hft rfl]
  | stam v m' hd hst =>
    right
    obtain ⟨f, hf, hb, hft, hstep⟩ := am_step_instr g F c io _ hd rfl
    have hop := found_operand ds _ _ 0 c.i _ f hd hf
    simp only at hop
    obtain ⟨hs1, hs2⟩ := store_loaded _ _ _ _ _ _ hbnd rfl hl hst
    rw [hstep, hop]
    simp only [opcOf, d_stam, hs1, hs2, if_true, toSt, hft rfl]
  | ldac v hd =>
    right
    obtain ⟨f, hf, hb, hft, hstep⟩ := am_step_instr g F c io _ hd rfl
    have hop := found_operand ds _ _ 0 c.i _ f hd hf
    simp only at hop
    rw [hstep, hop]
    simp only [opcOf, d_ldac, hl, if_true, toSt, hft rfl]
  | ldbc v hd =>
    right
    obtain ⟨f, hf, hb, hft, hstep⟩ := am_step_instr g F c io _ hd rfl
    have hop := found_operand ds _ _ 0 c.i _ f hd hf
    simp only at hop
    rw [hstep, hop]
    simp only [opcOf, d_ldbc, hl, if_true, toSt, hft rfl]
  | ldai v x hd hld =>
    right
    obtain ⟨f, hf, hb, hft, hstep⟩ := am_step_instr g F c io _ hd rfl
    have hop := found_operand ds _ _ 0 c.i _ f hd hf
    simp only at hop
    rw [hstep, hop]
    simp only [opcOf, d_ldai, hld, hl, if_true, toSt, hft rfl]
  | ldbi v x hd hld =>
    right
    obtain ⟨f, hf, hb, hft, hstep⟩ := am_step_instr g F c io _ hd rfl
    have hop := found_operand ds _ _ 0 c.i _ f hd hf
    simp only at hop
    rw [hstep, hop]
    simp only [opcOf, d_ldbi, hld, hl, if_true, toSt, hft rfl]
  | stai v m' hd hst _ =>
    right
    obtain ⟨f, hf, hb, hft, hstep⟩ := am_step_instr g F c io _ hd rfl
    have hop := found_operand ds _ _ 0 c.i _ f hd hf
    simp only at hop
    obtain ⟨hs1, hs2⟩ := store_loaded _ _ _ _ _ _ hbnd rfl hl hst
    rw [hstep, hop]
    simp only [opcOf, d_stai, hs1, hs2, if_true, toSt, hft rfl]
  | ldamL l j x hd hj hal hld =>
    right
    obtain ⟨f, hf, hb, hft, hstep⟩ := am_step_instr g F c io _ hd rfl
    have hr := ref_facts F c.i _ l false f j hd hf hj
    simp only [Bool.false_eq_true, if_false] at hr
    rw [hstep, hr.2]
    simp only [opcOf, d_ldam, hld, hl, if_true, toSt, hft rfl]
  | ldbmL l j x hd hj hal hld =>
    right
    obtain ⟨f, hf, hb, hft, hstep⟩ := am_step_instr g F c io _ hd rfl
    have hr := ref_facts F c.i _ l false f j hd hf hj
    simp only [Bool.false_eq_true, if_false] at hr
    rw [hstep, hr.2]
    simp only [opcOf, d_ldbm, hld, hl, if_true, toSt, hft rfl]
  | stamL l j m' hd hj hal hst =>
    right
    obtain ⟨f, hf, hb, hft, hstep⟩ := am_step_instr g F c io _ hd rfl
    have hr := ref_facts F c.i _ l false f j hd hf hj
    simp only [Bool.false_eq_true, if_false] at hr
    obtain ⟨hs1, hs2⟩ := store_loaded _ _ _ _ _ _ hbnd rfl hl hst
    rw [hstep, hr.2]
    simp only [opcOf, d_stam, hs1, hs2, if_true, toSt, hft rfl]
  | ldacL l j hd hj hal =>
    right
    obtain ⟨f, hf, hb, hft, hstep⟩ := am_step_instr g F c io _ hd rfl
    have hr := ref_facts F c.i _ l false f j hd hf hj
    simp only [Bool.false_eq_true, if_false] at hr
    rw [hstep, hr.2]
    simp only [opcOf, d_ldac, hl, if_true, toSt, hft rfl]
  | ldapL l j hd hj =>
    right
    obtain ⟨f, hf, hb, hft, hstep⟩ := am_step_instr g F c io _ hd rfl
    have hr := ref_facts F c.i _ l true f j hd hf hj
    simp only [if_true] at hr
    rw [hstep]
    simp only [opcOf, d_ldap, hl, if_true, toSt, hft rfl, hr]
  | br l j hd hj =>
    right
    obtain ⟨f, hf, hb, hft, hstep⟩ := am_step_instr g F c io _ hd rfl
    have hr := ref_facts F c.i _ l true f j hd hf hj
    simp only [if_true] at hr
    rw [hstep]
    simp only [opcOf, d_br, hl, if_true, toSt, hr]
  | brz l j hd hj =>
    right
    obtain ⟨f, hf, hb, hft, hstep⟩ := am_step_instr g F c io _ hd rfl
    have hr := ref_facts F c.i _ l true f j hd hf hj
    simp only [if_true] at hr
    rw [hstep]
    simp only [opcOf, d_brz, hl, if_true, toSt, hr]
    by_cases ha : c.a = 0
    · simp [ha]
    · rw [if_neg ha, if_neg ha, hft rfl]
  | brn l j hd hj =>
    right
    obtain ⟨f, hf, hb, hft, hstep⟩ := am_step_instr g F c io _ hd rfl
    have hr := ref_facts F c.i _ l true f j hd hf hj
    simp only [if_true] at hr
    rw [hstep]
    simp only [opcOf, d_brn, hl, if_true, toSt, hr]
    by_cases ha : c.a.toInt < 0
    · simp [ha]
    · rw [if_neg ha, if_neg ha, hft rfl]
  | brb k kind n hd hk hadr =>
    right
    obtain ⟨f, hf, hb, hft, hstep⟩ := am_step_instr g F c io _ hd rfl
    have hop := found_operand ds _ _ 0 c.i _ f hd hf
    simp only at hop
    rw [hstep, hop]
    simp only [opcOf, d_opr, hl, if_true, toSt]
    have : BitVec.ofNat 32 ((envOf ds img).addr k) = c.b := by rw [hadr]; simp
    simp [this, hl]
  | add hd =>
    right
    obtain ⟨f, hf, hb, hft, hstep⟩ := am_step_instr g F c io _ hd rfl
    have hop := found_operand ds _ _ 0 c.i _ f hd hf
    simp only at hop
    rw [hstep, hop]
    simp only [opcOf, d_opr, toSt, hft rfl]
    simp [hl]
  | sub hd =>
    right
    obtain ⟨f, hf, hb, hft, hstep⟩ := am_step_instr g F c io _ hd rfl
    have hop := found_operand ds _ _ 0 c.i _ f hd hf
    simp only at hop
    rw [hstep, hop]
    simp only [opcOf, d_opr, toSt, hft rfl]
    simp [hl]
  | svcPut v s hd ha hv hs =>
    right
    obtain ⟨f, hf, hb, hft, hstep⟩ := am_step_instr g F c io _ hd rfl
    have hop := found_operand ds _ _ 0 c.i _ f hd hf
    simp only at hop
    rw [hstep, hop]
    simp only [opcOf, d_opr, toSt, hft rfl, Isa.svc, ha]
    rw [hv, hs]
    simp [hl]
  | svcGet s m' hd ha hs hst =>
    right
    obtain ⟨f, hf, hb, hft, hstep⟩ := am_step_instr g F c io _ hd rfl
    have hop := found_operand ds _ _ 0 c.i _ f hd hf
    simp only at hop
    obtain ⟨hs1, hs2⟩ := store_loaded _ _ _ _ _ _ hbnd rfl hl hst
    rw [hstep, hop]
    simp only [opcOf, d_opr, toSt, hft rfl, Isa.svc, ha]
    rw [hs]
    simp only
    rw [hs1]
    simp [hs2]

theorem exit_sim_mem (g : Good ds img) (F : Facts ds img) (c : Cfg) (io : IOSt) (code : Word)
    (h : Exit (envOf ds img) c io code) :
    ∃ s', Am.step (ofImage ds img) (toSt (envOf ds img) c) io = .ok (.exited code s' io) ∧ s'.mem = c.mem := by
  cases h with
  | svcExit hd ha hc =>
    obtain ⟨f, hf, hb, hft, hstep⟩ := am_step_instr g F c io _ hd rfl
    have hop := found_operand ds _ _ 0 c.i _ f hd hf
    simp only at hop
    rw [hstep, hop]
    simp only [opcOf, d_opr, Isa.svc, ha]
    rw [hc]
    refine ⟨{ pc := BitVec.ofNat 32 (f.start + f.size), a := 0#32, b := c.b, o := 0#32, mem := c.mem }, by simp, rfl⟩

theorem exit_sim (g : Good ds img) (F : Facts ds img) (c : Cfg) (io : IOSt) (code : Word)
    (h : Exit (envOf ds img) c io code) :
    ∃ s', Am.step (ofImage ds img) (toSt (envOf ds img) c) io = .ok (.exited code s' io) := by
  obtain ⟨s', h1, _⟩ := exit_sim_mem g F c io code h
  exact ⟨s', h1⟩

theorem am_step_loaded (P : Prog) (s : St) (io : IOSt) (s' : St) (io' : IOSt)
    (h : Am.step P s io = .ok (.running s' io')) : loaded P s'.mem = true := by
  unfold Am.step at h
  split at h
  · simp at h
  · split at h
    · rename_i s1 io1 _
      by_cases hl : loaded P s1.mem = true
      · rw [if_pos hl] at h
        simp only [Except.ok.injEq, Outcome.running.injEq] at h
        rw [← h.1]; exact hl
      · rw [if_neg hl] at h; simp at h
    · rename_i out hout
      simp only [Except.ok.injEq] at h
      exact absurd h (hout s' io')

/-- A sequence of `IAm` steps is a sequence of `Am` steps. -/
theorem steps_run (g : Good ds img) (F : Facts ds img) (c : Cfg) (io : IOSt) (c' : Cfg) (io' : IOSt)
    (h : Steps (envOf ds img) c io c' io') :
    loaded (ofImage ds img) c.mem = true →
    loaded (ofImage ds img) c'.mem = true ∧
    ∀ m k, ∃ n, Am.run (ofImage ds img) (n + m) (toSt (envOf ds img) c) io k
                = Am.run (ofImage ds img) m (toSt (envOf ds img) c') io' (k + n) := by
  induction h with
  | refl c io => intro hl; exact ⟨hl, fun m k => ⟨0, by simp⟩⟩
  | step c io c1 io1 c2 io2 hs _ ih =>
    intro hl
    rcases step_sim g F c io c1 io1 hl hs with ⟨h1, h2, h3⟩ | hstep
    · obtain ⟨hl2, hrun⟩ := ih (by rw [h3]; exact hl)
      refine ⟨hl2, fun m k => ?_⟩
      obtain ⟨n, hn⟩ := hrun m k
      exact ⟨n, by rw [← h1, ← h2]; exact hn⟩
    · have hl1 := am_step_loaded _ _ _ _ _ hstep
      simp only [toSt] at hl1
      obtain ⟨hl2, hrun⟩ := ih hl1
      refine ⟨hl2, fun m k => ?_⟩
      obtain ⟨n, hn⟩ := hrun m (k + 1)
      refine ⟨n + 1, ?_⟩
      have : n + 1 + m = (n + m) + 1 := by omega
      rw [this]
      conv => lhs; unfold Am.run
      rw [hstep]
      simp only
      rw [hn]
      congr 1; omega

theorem addr_zero (ds : List Dir) (img : Image) : (envOf ds img).addr 0 = 0 := by
  simp only [envOf]
  rw [head_start]
  split <;> simp [align4]

/-- The boot configuration: index 0, registers clear, the image in memory. -/
def bootCfg (img : Image) : Cfg := { i := 0, a := 0, b := 0, mem := (Am.boot img).mem }

theorem toSt_boot (ds : List Dir) (img : Image) : toSt (envOf ds img) (bootCfg img) = Am.boot img := by
  simp only [toSt, bootCfg, addr_zero]
  rfl

/-- **`IAm` runs are ISA runs** (with the final memory).  If the indexed machine, started at directive 0 of an assembled
    directive list with the image in memory, reaches `OPR SVC` with the exit request, then the ISA
    started on the image bytes exits with the same code and the same I/O. -/
theorem IAm_refines_Isa_mem (g : Good ds img) (io0 : IOSt) (c : Cfg) (io : IOSt) (code : Word)
    (hsteps : Steps (envOf ds img) (bootCfg img) io0 c io) (hexit : Exit (envOf ds img) c io code) :
    ∃ m j s', Isa.run m (Am.boot img) io0 = .exited code j s' io ∧ s'.mem = c.mem := by
  have F := facts_of_good ds img g
  have hl0 : loaded (ofImage ds img) (bootCfg img).mem = true :=
    Am.assemble_loaded ds img _ g.hp g.hn g.hasm (Am.boot_loaded img.bytes g.hfit)
  obtain ⟨hl, hrun⟩ := steps_run g F _ _ _ _ hsteps hl0
  obtain ⟨n, hn⟩ := hrun 1 0
  obtain ⟨s', hs', hmem⟩ := exit_sim_mem g F c io code hexit
  have hfin : Am.run (ofImage ds img) (n + 1) (Am.boot img) io0 = .exited code (0 + n + 1) s' io := by
    rw [← toSt_boot ds img, hn]
    unfold Am.run
    rw [hs']
  have := Am.run_refines (ofImage ds img) (n + 1) (Am.boot img) io0
    (by simpa [bootCfg] using hl0) rfl
  rw [hfin] at this
  obtain ⟨m, j, hm⟩ := this
  exact ⟨m, j, s', hm, hmem⟩


theorem IAm_refines_Isa (g : Good ds img) (io0 : IOSt) (c : Cfg) (io : IOSt) (code : Word)
    (hsteps : Steps (envOf ds img) (bootCfg img) io0 c io) (hexit : Exit (envOf ds img) c io code) :
    ∃ m j s', Isa.run m (Am.boot img) io0 = .exited code j s' io := by
  obtain ⟨m, j, s', h, _⟩ := IAm_refines_Isa_mem g io0 c io code hsteps hexit
  exact ⟨m, j, s', h⟩

end Sim

end Hex.IAm
