import HexVerif.Lemmas.XcmpStmt
/-!
  Stage (3) of C01, main theorem: the code generated for a statement of the stage-3 fragment
  does what `X.exec` says (normal completion, `return`, or program exit).
-/
namespace Hex.C01s
open Hex Hex.X Hex.Xcmp Hex.IAm Hex.Asm

theorem ofNat_add_W (n k : Nat) : BitVec.ofNat 32 n + IAm.W (k : Int) = BitVec.ofNat 32 (n + k) := by
  rw [W_ofNat, ← BitVec.ofNat_add]

theorem W_zero : IAm.W 0 = 0 := by decide
theorem W_one : IAm.W 1 = 1 := by decide

/-- Condition code followed by `BRZ L`: control is at `L` if the value is zero, behind the branch
    otherwise. -/
theorem exec_cond_brz (K : PCtx) (wf : K.WF) (C : AExpr) (w : Word) (σ : X.St) (hC : ExecA K C w σ)
    (gs : GS) (cc : Code) (gs1 : GS) (i : Nat) (a b : Word) (mem : Mem) (io : Isa.IOSt) (L : String) (jL : Nat) (kL : LabelKind)
    (hg : genExpr K.ctx C .A gs = .ok (cc, gs1)) (hat : At K.env.ds i (K.low cc))
    (hbr : K.env.ds[i + (K.low cc).length]? = some (.ref 0xA L true))
    (hlbl : K.env.ds[jL]? = some (.label kL L)) (hr : Rep K σ mem)
    (hsz : gs1.size ≤ K.S) (hnl : K.nlocals ≤ gs.offset) (hci : ConstsIn K gs1) :
    ∃ b1 mem1, Steps K.env (cfg i a b mem) io (cfg (if w = 0 then jL else i + (K.low cc).length + 1) w b1 mem1) io ∧
      Rep K σ mem1 := by
  obtain ⟨b1, mem1, st, rep, _⟩ := hC gs cc gs1 i a b mem io hg hat hr hsz hnl hci
  have lL := labelIdx_of_nodup _ _ _ _ wf.nodup hlbl
  have s0 := Step.brz (env := K.env) (cfg (i + (K.low cc).length) w b1 mem1) io L jL hbr lL
  exact ⟨b1, mem1, st.trans (Steps.one s0), rep⟩

theorem low_dirs (K : PCtx) : ∀ (ds : List Dir), K.low (ds.map IDir.dir) = ds := by
  intro ds
  induction ds with
  | nil => rfl
  | cons d rest ih => simp only [List.map_cons, PCtx.low, lowerCode_cons, lowerOne_dir] at ih ⊢; simp [ih]

/-- A plain label directive is a step that changes nothing but the index. -/
theorem step_label (K : PCtx) (j : Nat) (k : LabelKind) (n : String) (h : K.env.ds[j]? = some (.label k n))
    (a b : Word) (mem : Mem) (io : Isa.IOSt) : Steps K.env (cfg j a b mem) io (cfg (j + 1) a b mem) io :=
  Steps.one (Step.label (env := K.env) (cfg j a b mem) io k n h)

theorem step_br (K : PCtx) (wf : K.WF) (j jL : Nat) (kL : LabelKind) (L : String)
    (h : K.env.ds[j]? = some (.ref 0x9 L true)) (hl : K.env.ds[jL]? = some (.label kL L))
    (a b : Word) (mem : Mem) (io : Isa.IOSt) : Steps K.env (cfg j a b mem) io (cfg jL a b mem) io :=
  Steps.one (Step.br (env := K.env) (cfg j a b mem) io L jL h (labelIdx_of_nodup _ _ _ _ wf.nodup hl))

theorem isBool_ne_one (w : Word) (hb : X.isBool w = true) (h : (w == 1) = false) : w = 0 := by
  rcases isBool_cases w hb with h0 | h1
  · exact h0
  · rw [h1] at h; simp at h

/-- The exit sequence of `stop`. -/
theorem exec_exitSeq (K : PCtx) (exitJ : Nat) (wf : K.WFS exitJ) (i : Nat) (a b : Word) (mem : Mem) (io : Isa.IOSt) (σ : X.St)
    (hat : At K.env.ds i (K.low exitSeq)) (hr : Rep K σ mem) :
    ∃ c, Steps K.env (cfg i a b mem) io c io ∧ Exit K.env c io 0 := by
  have hlow : K.low exitSeq = [.imm 0x1 1, .imm 0x3 0, .imm 0x8 2, .opr 3] := rfl
  rw [hlow] at hat
  have h0 := hat.get 0 _ rfl
  have h1 := hat.get 1 _ rfl
  have h2 := hat.get 2 _ rfl
  have h3 := hat.get 3 _ rfl
  obtain ⟨hs1, hs2⟩ := wf.stop_ok
  have s0 := Step.ldbm (env := K.env) (cfg i a b mem) io 1 _ h0 (ld_one mem)
  have s1 := Step.ldac (env := K.env) (cfg (i + 0 + 1) a (mem.read 1) mem) io 0 h1
  have hadr : mem.read 1 + IAm.W 2 = BitVec.ofNat 32 (K.sp + 2) := by
    rw [hr.sp]; exact ofNat_add_W K.sp 2
  have hst : IAm.store K.env mem (mem.read 1 + IAm.W 2) (IAm.W 0) = some (mem.write (K.sp + 2) (IAm.W 0)) := by
    rw [hadr]; exact store_ofNat _ _ _ _ hs1 hs2
  have s2 := Step.stai (env := K.env) (cfg (i + 0 + 1 + 1) (IAm.W 0) (mem.read 1) mem) io 2 _ h2 hst
  refine ⟨cfg (i + 0 + 1 + 1 + 1) (IAm.W 0) (mem.read 1) (mem.write (K.sp + 2) (IAm.W 0)), ?_, ?_⟩
  · exact Steps.step _ _ _ _ _ _ s0 (Steps.step _ _ _ _ _ _ s1 (Steps.one s2))
  · apply Exit.svcExit
    · simpa using h3
    · exact W_zero
    · have hsp : (mem.write (K.sp + 2) (IAm.W 0)).read 1 = BitVec.ofNat 32 K.sp := by
        rw [Mem.read_write_other _ _ _ _ (by have := wf.sp_ge; omega)]; exact hr.sp
      show Isa.ld _ ((mem.write (K.sp + 2) (IAm.W 0)).read 1 + 2) = some 0
      rw [hsp]
      have : (BitVec.ofNat 32 K.sp + 2 : Word) = BitVec.ofNat 32 (K.sp + 2) := by
        have := ofNat_add_W K.sp 2
        rw [← this]; rfl
      rw [this, ld_ofNat _ _ hs1, Mem.read_write_same _ _ _ hs1, W_zero]

/-! ### Simple statements -/

section
variable (K : PCtx) (exitJ : Nat) (wf : K.WFS exitJ)
include wf

theorem execS_skip (fuel : Nat) (σ : X.St) : ExecS K exitJ .skip σ (X.exec fuel K.xc .skip σ) := by
  intro gs code gs' i a b mem hg hat hr hsz hnl hci
  rw [genStmt_skip] at hg
  simp only [Except.ok.injEq, Prod.mk.injEq] at hg
  rw [← hg.1]
  cases fuel with
  | zero => unfold X.exec; trivial
  | succ f =>
    cases ht : X.tick K.xc σ with
    | none => unfold X.exec; rw [ht]; trivial
    | some st =>
      rw [exec_skip f K.xc σ st ht]
      have hs := tick_same _ _ _ ht
      refine ⟨a, b, mem, ?_, hr.same hs⟩
      rw [hs.2.2.2.1]
      exact Steps.refl _ _

theorem execS_stop (fuel : Nat) (σ : X.St) : ExecS K exitJ .stop σ (X.exec fuel K.xc .stop σ) := by
  intro gs code gs' i a b mem hg hat hr hsz hnl hci
  rw [genStmt_stop] at hg
  simp only [Except.ok.injEq, Prod.mk.injEq] at hg
  rw [← hg.1] at hat ⊢
  cases fuel with
  | zero => unfold X.exec; trivial
  | succ f =>
    cases ht : X.tick K.xc σ with
    | none => unfold X.exec; rw [ht]; trivial
    | some st =>
      rw [exec_stop f K.xc σ st ht]
      have hs := tick_same _ _ _ ht
      obtain ⟨c, st', ex⟩ := exec_exitSeq K exitJ wf i a b mem σ.io σ hat hr
      refine ⟨c, ?_, ?_⟩
      · rw [hs.2.2.2.1]; exact st'
      · rw [hs.2.2.2.1]; exact ex

theorem execS_ret (fuel : Nat) (e : X.Expr) (σ : X.St) (hp : pureE e = true) :
    ExecS K exitJ (.ret (optExpr (annotate K.ρ e))) σ (X.exec fuel K.xc (.ret e) σ) := by
  intro gs code gs' i a b mem hg hat hr hsz hnl hci
  cases fuel with
  | zero => unfold X.exec; trivial
  | succ f =>
    cases ht : X.tick K.xc σ with
    | none => unfold X.exec; rw [ht]; trivial
    | some st =>
      rw [exec_ret f K.xc e σ st ht]
      have hs := tick_same _ _ _ ht
      cases hev : asInt "returned value" (X.eval f K.xc e st) with
      | undef w => simp only [Res.bind]; trivial
      | exit c s => exact absurd hev (asInt_pure_no_exit K.xc _ f e st c s hp)
      | ok w s =>
        simp only [Res.bind]
        have hev' := asInt_ok _ _ _ _ hev
        have hs2 := eval_pure K.xc _ _ _ _ _ hp hev'
        obtain ⟨c, h1, hcode⟩ := genStmt_ret_inv _ _ _ _ _ hg
        subst hcode
        simp only [low_append] at hat ⊢
        have hA := expr_pure_correct K wf.toWF f e st w s hp hev'
        obtain ⟨b', mem', st1, rep, _⟩ := hA gs c gs' i a b mem σ.io h1 hat.left (hr.same hs) hsz hnl hci
        obtain ⟨k, hk⟩ := wf.exit_lbl
        have hbr : K.low [lBR K.ctx.exitLabel] = [.ref 0x9 K.ctx.exitLabel true] := rfl
        rw [hbr] at hat
        have st2 := step_br K wf.toWF (i + (K.low c).length) exitJ k _ hat.right.head hk w b' mem' σ.io
        refine ⟨b', mem', ?_, rep.same hs2⟩
        rw [hs2.2.2.2.1, hs.2.2.2.1]
        exact st1.trans st2

theorem execS_assign (fuel : Nat) (n : String) (e : X.Expr) (σ : X.St) (hp : pureE e = true) :
    ExecS K exitJ (.assign n (optExpr (annotate K.ρ e))) σ (X.exec fuel K.xc (.assign n e) σ) := by
  intro gs code gs' i a b mem hg hat hr hsz hnl hci
  cases fuel with
  | zero => unfold X.exec; trivial
  | succ f =>
    cases ht : X.tick K.xc σ with
    | none => unfold X.exec; rw [ht]; trivial
    | some st =>
      have hs := tick_same _ _ _ ht
      cases hx : X.exec (f + 1) K.xc (.assign n e) σ with
      | undef w => trivial
      | exit c s =>
        obtain ⟨c', s', he⟩ := exec_assign_exit f K.xc n e σ st ht c s hx
        exact absurd he (asInt_pure_no_exit K.xc _ f e st c' s' hp)
      | ok fl σ' =>
        obtain ⟨w, s, hev, hw, hfl⟩ := exec_assign f K.xc n e σ st ht fl σ' hx
        subst hfl
        have hs2 := eval_pure K.xc _ _ _ _ _ hp hev
        obtain ⟨c, sym, h1, hl, hcode⟩ := genStmt_assign_inv _ _ _ _ _ _ hg
        subst hcode
        simp only [low_append] at hat ⊢
        have hA := expr_pure_correct K wf.toWF f e st w s hp hev
        obtain ⟨b', mem', st1, rep, _⟩ := hA gs c gs' i a b mem σ.io h1 hat.left (hr.same hs) hsz hnl hci
        have rep1 := rep.same hs2
        -- the location of the assigned variable
        have hρ : K.ρ n = none := by
          cases hρ : K.ρ n with
          | none => rfl
          | some cv =>
            have hv := rep1.vals n cv hρ
            unfold ValBound at hv
            rcases writeName_cases K.xc s σ' n w hw with ⟨o, hl', _⟩ | ⟨hl', hg', _⟩
            · rcases hv with hv | ⟨hv, _⟩ <;> rw [hl'] at hv <;> simp at hv
            · rcases hv with hv | ⟨_, hv⟩
              · rw [hl'] at hv; simp at hv
              · rw [hg'] at hv; simp at hv
        have hloc : ∃ ad, K.loc n = some ad := by
          by_cases hsc : sym.scope = ""
          · obtain ⟨j, k, _, _, h3⟩ := wf.var_global n sym hl hsc; exact ⟨_, h3⟩
          · obtain ⟨_, ad, _, h3⟩ := wf.var_local n sym hl hsc; exact ⟨_, h3⟩
        obtain ⟨ad, hloc⟩ := hloc
        obtain ⟨b2, st2⟩ := exec_assignTail K exitJ wf n sym (i + (K.low c).length) w b' mem' σ.io s ad hl hat.right rep1 hloc
        refine ⟨w, b2, mem'.write ad w, ?_, rep1.assign wf hw hloc⟩
        rw [writeName_io K.xc s σ' n w hw, hs2.2.2.2.1, hs.2.2.2.1]
        simp only [List.length_append, ← Nat.add_assoc]
        exact st1.trans st2

/-- `skip` with the machine already where it should end. -/
theorem out_skip (fuel : Nat) (s : X.St) (j : Nat) (a b : Word) (mem : Mem) (hr : Rep K s mem) :
    Out K exitJ (cfg j a b mem) s.io (X.exec fuel K.xc .skip s) j := by
  cases fuel with
  | zero => unfold X.exec; trivial
  | succ f =>
    cases ht : X.tick K.xc s with
    | none => unfold X.exec; rw [ht]; trivial
    | some st =>
      rw [exec_skip f K.xc s st ht]
      have hs := tick_same _ _ _ ht
      refine ⟨a, b, mem, ?_, hr.same hs⟩
      rw [hs.2.2.2.1]
      exact Steps.refl _ _

end

end Hex.C01s
