import HexVerif.Lemmas.XcmpStmt
/-!
  Stage (3) of C01, main theorem: the code generated for a statement of the stage-3 fragment
  does what `X.exec` says (normal completion, `return`, or program exit).
-/
namespace Hex.C01s
open Hex Hex.X Hex.Xcmp Hex.IAm Hex.Asm

theorem ofNat_add_W (n k : Nat) : BitVec.ofNat 32 n + IAm.W (k : Int) = BitVec.ofNat 32 (n + k) := by
  rw [W_ofNat, ← BitVec.ofNat_add]

theorem W_zero : IAm.W 0 = 0 := by decide
theorem W_one : IAm.W 1 = 1 := by decide

/-- Condition code followed by `BRZ L`: control is at `L` if the value is zero, behind the branch
    otherwise. -/
theorem exec_cond_brz {t : Bool} (K : PCtx) (wf : K.WF) (C : AExpr) (w : Word) (σ σ' : X.St) (hC : ExecT t K C w σ σ')
    (gs : GS) (cc : Code) (gs1 : GS) (i : Nat) (a b : Word) (mem : Mem) (io : Isa.IOSt) (hio : σ.io = io) (L : String) (jL : Nat) (kL : LabelKind)
    (hg : genExpr K.ctx C .A gs = .ok (cc, gs1)) (hat : At K.env.ds i (K.low cc))
    (hbr : K.env.ds[i + (K.low cc).length]? = some (.ref 0xA L true))
    (hlbl : K.env.ds[jL]? = some (.label kL L)) (hr : Rep K σ mem)
    (hsz : gs1.size ≤ K.S) (hnl : K.nlocals ≤ gs.offset) (hci : ConstsIn K gs1) :
    ∃ b1 mem1, Steps K.env (cfg i a b mem) io (cfg (if w = 0 then jL else i + (K.low cc).length + 1) w b1 mem1) σ'.io ∧
      Rep K σ' mem1 := by
  subst hio
  obtain ⟨b1, mem1, st, rep, _⟩ := hC gs cc gs1 i a b mem hg hat hr hsz hnl hci
  have lL := labelIdx_of_nodup _ _ _ _ wf.nodup hlbl
  have s0 := Step.brz (env := K.env) (cfg (i + (K.low cc).length) w b1 mem1) σ'.io L jL hbr lL
  exact ⟨b1, mem1, st.trans (Steps.one s0), rep⟩

theorem low_dirs (K : PCtx) : ∀ (ds : List Dir), K.low (ds.map IDir.dir) = ds := by
  intro ds
  induction ds with
  | nil => rfl
  | cons d rest ih => simp only [List.map_cons, PCtx.low, lowerCode_cons, lowerOne_dir] at ih ⊢; simp [ih]

/-- A plain label directive is a step that changes nothing but the index. -/
theorem step_label (K : PCtx) (j : Nat) (k : LabelKind) (n : String) (h : K.env.ds[j]? = some (.label k n))
    (a b : Word) (mem : Mem) (io : Isa.IOSt) : Steps K.env (cfg j a b mem) io (cfg (j + 1) a b mem) io :=
  Steps.one (Step.label (env := K.env) (cfg j a b mem) io k n h)

theorem step_br (K : PCtx) (wf : K.WF) (j jL : Nat) (kL : LabelKind) (L : String)
    (h : K.env.ds[j]? = some (.ref 0x9 L true)) (hl : K.env.ds[jL]? = some (.label kL L))
    (a b : Word) (mem : Mem) (io : Isa.IOSt) : Steps K.env (cfg j a b mem) io (cfg jL a b mem) io :=
  Steps.one (Step.br (env := K.env) (cfg j a b mem) io L jL h (labelIdx_of_nodup _ _ _ _ wf.nodup hl))

theorem isBool_ne_one (w : Word) (hb : X.isBool w = true) (h : (w == 1) = false) : w = 0 := by
  rcases isBool_cases w hb with h0 | h1
  · exact h0
  · rw [h1] at h; simp at h

/-- The exit sequence of `stop`. -/
theorem exec_exitSeq (K : PCtx) (exitJ : Nat) (wf : K.WFS exitJ) (i : Nat) (a b : Word) (mem : Mem) (io : Isa.IOSt) (σ : X.St)
    (hat : At K.env.ds i (K.low exitSeq)) (hr : Rep K σ mem) :
    ∃ c, Steps K.env (cfg i a b mem) io c io ∧ Exit K.env c io 0 := by
  have hlow : K.low exitSeq = [.imm 0x1 1, .imm 0x3 0, .imm 0x8 2, .opr 3] := rfl
  rw [hlow] at hat
  have h0 := hat.get 0 _ rfl
  have h1 := hat.get 1 _ rfl
  have h2 := hat.get 2 _ rfl
  have h3 := hat.get 3 _ rfl
  obtain ⟨hs1, hs2⟩ := wf.stop_ok
  have s0 := Step.ldbm (env := K.env) (cfg i a b mem) io 1 _ h0 (ld_one mem)
  have s1 := Step.ldac (env := K.env) (cfg (i + 0 + 1) a (mem.read 1) mem) io 0 h1
  have hadr : mem.read 1 + IAm.W 2 = BitVec.ofNat 32 (K.sp + 2) := by
    rw [hr.sp]; exact ofNat_add_W K.sp 2
  have hst : IAm.store K.env mem (mem.read 1 + IAm.W 2) (IAm.W 0) = some (mem.write (K.sp + 2) (IAm.W 0)) := by
    rw [hadr]; exact store_ofNat _ _ _ _ hs1 hs2
  have hne1 : (mem.read 1 + IAm.W 2).toNat ≠ 1 := by
    rw [hadr]; exact ofNat_toNat_ne_one _ (by have := wf.sp_ge; omega) hs1
  have s2 := Step.stai (env := K.env) (cfg (i + 0 + 1 + 1) (IAm.W 0) (mem.read 1) mem) io 2 _ h2 hst hne1
  refine ⟨cfg (i + 0 + 1 + 1 + 1) (IAm.W 0) (mem.read 1) (mem.write (K.sp + 2) (IAm.W 0)), ?_, ?_⟩
  · exact Steps.step _ _ _ _ _ _ s0 (Steps.step _ _ _ _ _ _ s1 (Steps.one s2))
  · apply Exit.svcExit
    · simpa using h3
    · exact W_zero
    · have hsp : (mem.write (K.sp + 2) (IAm.W 0)).read 1 = BitVec.ofNat 32 K.sp := by
        rw [Mem.read_write_other _ _ _ _ (by have := wf.sp_ge; omega)]; exact hr.sp
      show Isa.ld _ ((mem.write (K.sp + 2) (IAm.W 0)).read 1 + 2) = some 0
      rw [hsp]
      have : (BitVec.ofNat 32 K.sp + 2 : Word) = BitVec.ofNat 32 (K.sp + 2) := by
        have := ofNat_add_W K.sp 2
        rw [← this]; rfl
      rw [this, ld_ofNat _ _ hs1, Mem.read_write_same _ _ _ hs1, W_zero]

/-! ### Simple statements -/

section
variable (K : PCtx) (exitJ : Nat) (wf : K.WFS exitJ)
include wf

theorem execS_skip (fuel : Nat) (σ : X.St) : ExecS K exitJ .skip σ (X.exec fuel K.xc .skip σ) := by
  intro gs code gs' i a b mem hg hat hr hsz hnl hci
  rw [genStmt_skip] at hg
  simp only [Except.ok.injEq, Prod.mk.injEq] at hg
  rw [← hg.1]
  cases fuel with
  | zero => unfold X.exec; trivial
  | succ f =>
    cases ht : X.tick K.xc σ with
    | none => unfold X.exec; rw [ht]; trivial
    | some st =>
      rw [exec_skip f K.xc σ st ht]
      have hs := tick_same _ _ _ ht
      refine ⟨a, b, mem, ?_, hr.same hs⟩
      rw [hs.2.2.2.1]
      exact Steps.refl _ _

theorem execS_stop (fuel : Nat) (σ : X.St) : ExecS K exitJ .stop σ (X.exec fuel K.xc .stop σ) := by
  intro gs code gs' i a b mem hg hat hr hsz hnl hci
  rw [genStmt_stop] at hg
  simp only [Except.ok.injEq, Prod.mk.injEq] at hg
  rw [← hg.1] at hat ⊢
  cases fuel with
  | zero => unfold X.exec; trivial
  | succ f =>
    cases ht : X.tick K.xc σ with
    | none => unfold X.exec; rw [ht]; trivial
    | some st =>
      rw [exec_stop f K.xc σ st ht]
      have hs := tick_same _ _ _ ht
      obtain ⟨c, st', ex⟩ := exec_exitSeq K exitJ wf i a b mem σ.io σ hat hr
      refine ⟨c, ?_, ?_⟩
      · rw [hs.2.2.2.1]; exact st'
      · rw [hs.2.2.2.1]; exact ex

theorem execS_ret (fuel : Nat) (e : X.Expr) (σ : X.St) (hp : pureE e = true) :
    ExecS K exitJ (.ret (optExpr (annotate K.ρ e))) σ (X.exec fuel K.xc (.ret e) σ) := by
  intro gs code gs' i a b mem hg hat hr hsz hnl hci
  cases fuel with
  | zero => unfold X.exec; trivial
  | succ f =>
    cases ht : X.tick K.xc σ with
    | none => unfold X.exec; rw [ht]; trivial
    | some st =>
      rw [exec_ret f K.xc e σ st ht]
      have hs := tick_same _ _ _ ht
      cases hev : asInt "returned value" (X.eval f K.xc e st) with
      | undef w => simp only [Res.bind]; trivial
      | exit c s => exact absurd hev (asInt_pure_no_exit K.xc _ f e st c s hp)
      | ok w s =>
        simp only [Res.bind]
        have hev' := asInt_ok _ _ _ _ hev
        have hs2 := eval_pure K.xc _ _ _ _ _ hp hev'
        obtain ⟨c, h1, hcode⟩ := genStmt_ret_inv _ _ _ _ _ hg
        subst hcode
        simp only [low_append] at hat ⊢
        have hA := expr_pure_correct K wf.toWF f e st w s hp hev'
        obtain ⟨b', mem', st1, rep, _⟩ := hA gs c gs' i a b mem h1 hat.left (hr.same hs) hsz hnl hci
        rw [hs.2.2.2.1] at st1
        obtain ⟨k, hk⟩ := wf.exit_lbl
        have hbr : K.low [lBR K.ctx.exitLabel] = [.ref 0x9 K.ctx.exitLabel true] := rfl
        rw [hbr] at hat
        have st2 := step_br K wf.toWF (i + (K.low c).length) exitJ k _ hat.right.head hk w b' mem' σ.io
        refine ⟨b', mem', ?_, rep.same hs2⟩
        rw [hs2.2.2.2.1, hs.2.2.2.1]
        exact st1.trans st2

theorem execS_assign (fuel : Nat) (n : String) (e : X.Expr) (σ : X.St) (hp : pureE e = true) :
    ExecS K exitJ (.assign n (optExpr (annotate K.ρ e))) σ (X.exec fuel K.xc (.assign n e) σ) := by
  intro gs code gs' i a b mem hg hat hr hsz hnl hci
  cases fuel with
  | zero => unfold X.exec; trivial
  | succ f =>
    cases ht : X.tick K.xc σ with
    | none => unfold X.exec; rw [ht]; trivial
    | some st =>
      have hs := tick_same _ _ _ ht
      cases hx : X.exec (f + 1) K.xc (.assign n e) σ with
      | undef w => trivial
      | exit c s =>
        obtain ⟨c', s', he⟩ := exec_assign_exit f K.xc n e σ st ht c s hx
        exact absurd he (asInt_pure_no_exit K.xc _ f e st c' s' hp)
      | ok fl σ' =>
        obtain ⟨w, s, hev, hw, hfl⟩ := exec_assign f K.xc n e σ st ht fl σ' hx
        subst hfl
        have hs2 := eval_pure K.xc _ _ _ _ _ hp hev
        obtain ⟨c, sym, h1, hl, hcode⟩ := genStmt_assign_inv _ _ _ _ _ _ hg
        subst hcode
        simp only [low_append] at hat ⊢
        have hA := expr_pure_correct K wf.toWF f e st w s hp hev
        obtain ⟨b', mem', st1, rep, _⟩ := hA gs c gs' i a b mem h1 hat.left (hr.same hs) hsz hnl hci
        rw [hs.2.2.2.1] at st1
        have rep1 := rep.same hs2
        -- the location of the assigned variable
        have hρ : K.ρ n = none := by
          cases hρ : K.ρ n with
          | none => rfl
          | some cv =>
            have hv := rep1.vals n cv hρ
            unfold ValBound at hv
            rcases writeName_cases K.xc s σ' n w hw with ⟨o, hl', _⟩ | ⟨hl', hg', _⟩
            · rcases hv with hv | ⟨hv, _⟩ <;> rw [hl'] at hv <;> simp at hv
            · rcases hv with hv | ⟨_, hv⟩
              · rw [hl'] at hv; simp at hv
              · rw [hg'] at hv; simp at hv
        have hloc : ∃ ad, K.loc n = some ad := by
          suffices h : IsVar K.xc s n by obtain ⟨ad, h1, _⟩ := rep1.locs n h; exact ⟨ad, h1⟩
          unfold IsVar
          rcases writeName_cases K.xc s σ' n w hw with ⟨o, hl', _⟩ | ⟨hl', hg', _⟩
          · exact Or.inl ⟨o, hl'⟩
          · exact Or.inr ⟨hl', hg'⟩
        obtain ⟨ad, hloc⟩ := hloc
        obtain ⟨b2, st2⟩ := exec_assignTail K exitJ wf n sym (i + (K.low c).length) w b' mem' σ.io s ad hl hat.right rep1 hloc
        refine ⟨w, b2, mem'.write ad w, ?_, rep1.assign wf hw hloc⟩
        rw [writeName_io K.xc s σ' n w hw, hs2.2.2.2.1, hs.2.2.2.1]
        simp only [List.length_append, ← Nat.add_assoc]
        exact st1.trans st2

/-- `a[i] := e` with call-free `i` and `e`: the element's address is kept in a temporary while
    the value is computed. -/
theorem execS_assignSub (fuel : Nat) (n : String) (ix e : X.Expr) (σ : X.St) (hpi : pureE ix = true) (hpe : pureE e = true) :
    ExecS K exitJ (.assignSub n (optExpr (annotate K.ρ ix)) (optExpr (annotate K.ρ e))) σ
      (X.exec fuel K.xc (.assignSub n ix e) σ) := by
  intro gs code gs' i a b mem hg hat hr hsz hnl hci
  cases fuel with
  | zero => unfold X.exec; trivial
  | succ f =>
    cases ht : X.tick K.xc σ with
    | none => unfold X.exec; rw [ht]; trivial
    | some st =>
      have hs := tick_same _ _ _ ht
      cases hx : X.exec (f + 1) K.xc (.assignSub n ix e) σ with
      | undef w => trivial
      | exit c s =>
        exfalso
        rcases exec_assignSub_exit f K.xc n ix e σ st ht c s hx with ⟨c', s', he⟩ | ⟨iv, s1, c', s', _, he⟩
        · exact asInt_pure_no_exit K.xc _ f ix st c' s' hpi he
        · exact asInt_pure_no_exit K.xc _ f e s1 c' s' hpe he
      | ok fl σ'' =>
        obtain ⟨iv, s1, w, s2, r, hev1, hev2, harr, hset, hfl⟩ := exec_assignSub f K.xc n ix e σ st ht fl σ'' hx
        subst hfl
        have hs1 := eval_pure K.xc _ _ _ _ _ hpi hev1
        have hs2 := eval_pure K.xc _ _ _ _ _ hpe hev2
        obtain ⟨ci, gs1, sym, ce, gs2, h1, hl, h3, hgs', hcode⟩ := genStmt_assignSub_inv _ _ _ _ _ _ _ hg
        subst hcode; subst hgs'
        obtain ⟨e1o, e1s, _, e1c⟩ := genExpr_eff _ _ _ _ _ _ h1
        obtain ⟨e3o, e3s, _, e3c⟩ := genExpr_eff _ _ _ _ _ _ h3
        simp only at e3o e3s e3c hsz
        have hci2 : ConstsIn K gs2 := hci
        have hci1 : ConstsIn K gs1 := fun x hx => hci2 x (e3c x hx)
        have hoff : gs1.offset < K.S := by omega
        simp only [low_append, List.append_assoc] at hat ⊢
        have hl3 : K.low [iADD, iLDBM SP_OFFSET, IDir.fb FbKind.stai K.ctx.frame (-(gs1.offset : Int))]
            = [.opr 1, .imm 0x1 1, .imm 0x8 ((K.S : Int) - 1 + -(gs1.offset : Int))] := rfl
        have hl5 : K.low [iLDBM SP_OFFSET, IDir.fb FbKind.ldbi K.ctx.frame (-(gs1.offset : Int)), iSTAI 0]
            = [.imm 0x1 1, .imm 0x7 ((K.S : Int) - 1 + -(gs1.offset : Int)), .imm 0x8 0] := rfl
        rw [hl3, hl5] at hat ⊢
        -- the index into areg
        have hA := expr_pure_correct K wf.toWF f ix st iv s1 hpi hev1
        obtain ⟨b1, mem1, st1, rep1, _⟩ := hA gs ci gs1 i a b mem h1 hat.left (hr.same hs) (by omega) hnl hci1
        rw [hs.2.2.2.1] at st1
        -- the array
        have rep1' : Rep K s2 mem1 := (rep1.same hs1).same hs2
        obtain ⟨ad, hloc, hlt, hptr0⟩ := rep1'.aptr n r (arrayOf_ok _ _ _ _ harr)
        obtain ⟨id, hid⟩ : ∃ id, r = .glob id := by
          cases r with
          | glob id => exact ⟨id, rfl⟩
          | lit ws => simp [X.arrSet] at hset
        subst hid
        have hptr : mem1.read ad = BitVec.ofNat 32 (K.abase id) := hptr0
        obtain ⟨cells, hc, h0, h1', hσ''⟩ := arrSet_glob s2 σ'' id iv w hset
        obtain ⟨hcsz, _⟩ := rep1'.acells id cells hc
        have hidx : iv.toInt.toNat < K.asize id := by omega
        obtain ⟨hahi, hamw⟩ := wf.arr_hi id (by omega)
        have hsum : iv + BitVec.ofNat 32 (K.abase id) = BitVec.ofNat 32 (K.abase id + iv.toInt.toNat) := by
          rw [BitVec.add_comm]
          conv => lhs; rw [nonneg_ofNat iv h0]
          rw [BitVec.ofNat_add]
        -- its pointer into breg, the address of the element into areg
        have s2' := exec_genVar K wf.toWF .B n sym st (i + (K.low ci).length) iv b1 mem1 σ.io ad hl hat.right.left rep1 hloc hlt
        simp only at s2'
        have hat3 := hat.right.right.left
        have sA := Step.add (env := K.env) (cfg (i + (K.low ci).length + (K.low (genVar .B sym)).length) iv (mem1.read ad) mem1) σ.io
          (by have := hat3.get 0 _ rfl; simpa [Nat.add_assoc] using this)
        have sB := Step.ldbm (env := K.env) (cfg (i + (K.low ci).length + (K.low (genVar .B sym)).length + 1) (iv + mem1.read ad) (mem1.read ad) mem1)
          σ.io 1 _ (by have := hat3.get 1 _ rfl; simpa [Nat.add_assoc] using this) (ld_one mem1)
        have hslot : (K.slot gs1.offset : Int) = (K.sp : Int) + (K.S : Int) - 1 + (-(gs1.offset : Int)) := by
          unfold PCtx.slot; omega
        have hadr := slot_addr K.sp K.S (-(gs1.offset : Int)) (K.slot gs1.offset) hslot
        obtain ⟨hsl1, hsl2⟩ := wf.slot_ok gs1.offset hoff
        have hst : IAm.store K.env mem1 (mem1.read 1 + IAm.W ((K.S : Int) - 1 + -(gs1.offset : Int))) (iv + mem1.read ad)
            = some (mem1.write (K.slot gs1.offset) (iv + mem1.read ad)) := by
          rw [rep1.sp, hadr]; exact store_ofNat _ _ _ _ hsl1 hsl2
        have hne1 : (mem1.read 1 + IAm.W ((K.S : Int) - 1 + -(gs1.offset : Int))).toNat ≠ 1 := by
          rw [rep1.sp, hadr]
          exact ofNat_toNat_ne_one _ (by have := wf.sp_ge; unfold PCtx.slot; omega) hsl1
        have sC := Step.stai (env := K.env) (cfg (i + (K.low ci).length + (K.low (genVar .B sym)).length + 1 + 1) (iv + mem1.read ad) (mem1.read 1) mem1)
          σ.io _ _ (by have := hat3.get 2 _ rfl; simpa [Nat.add_assoc] using this) hst hne1
        have frm2 : Frm K gs1.offset (gs1.offset + 1) mem1 (mem1.write (K.slot gs1.offset) (iv + mem1.read ad)) := by
          intro x hx
          rw [Mem.read_write_other]
          exact fun e => hx gs1.offset (Nat.le_refl _) (by omega) e.symm
        have rep2 := rep1.frame wf.toWF frm2 (by omega) (by omega)
        -- the value into areg
        have hE := (expr_pure_correct K wf.toWF f e s1 w s2 hpe hev2).same hs1.symm
        obtain ⟨b3, mem3, st3, rep3, frm3⟩ := hE _ ce gs2 (i + (K.low ci).length + (K.low (genVar .B sym)).length + 1 + 1 + 1)
          (iv + mem1.read ad) (mem1.read 1) (mem1.write (K.slot gs1.offset) (iv + mem1.read ad)) h3
          (by have := hat.right.right.right.left; simpa [Nat.add_assoc] using this) rep2 hsz (by simp only; omega) hci2
        rw [hs.2.2.2.1] at st3
        simp only [hiB_true] at frm3
        have hkeep : mem3.read (K.slot gs1.offset) = iv + mem1.read ad := by
          rw [frm3 _ (slot_ge K gs1.offset hoff) (wf.toWF.not_inArr _ (by unfold PCtx.slot; omega)) (fun k h1 h2 e => by
            have := slot_inj K gs1.offset k hoff (by omega) e; omega)]
          exact Mem.read_write_same _ _ _ hsl1
        -- the address back into breg, the store
        have hat5 := hat.right.right.right.right
        simp only [List.length_cons, List.length_nil] at hat5
        have sD := Step.ldbm (env := K.env) (cfg (i + (K.low ci).length + (K.low (genVar .B sym)).length + 1 + 1 + 1 + (K.low ce).length) w b3 mem3)
          σ.io 1 _ (by have := hat5.get 0 _ rfl; simpa [Nat.add_assoc] using this) (ld_one mem3)
        have hld : Isa.ld mem3 (mem3.read 1 + IAm.W ((K.S : Int) - 1 + -(gs1.offset : Int))) = some (iv + mem1.read ad) := by
          rw [rep3.sp, hadr, ld_ofNat _ _ hsl1, hkeep]
        have sE := Step.ldbi (env := K.env) (cfg (i + (K.low ci).length + (K.low (genVar .B sym)).length + 1 + 1 + 1 + (K.low ce).length + 1) w (mem3.read 1) mem3)
          σ.io _ _ (by have := hat5.get 1 _ rfl; simpa [Nat.add_assoc] using this) hld
        have hW0 : IAm.W 0 = (0#32 : Word) := by decide
        have hea : iv + mem1.read ad + IAm.W 0 = BitVec.ofNat 32 (K.abase id + iv.toInt.toNat) := by
          rw [hW0, BitVec.add_zero, hptr, hsum]
        have hst2 : IAm.store K.env mem3 (iv + mem1.read ad + IAm.W 0) w
            = some (mem3.write (K.abase id + iv.toInt.toNat) w) := by
          rw [hea]; exact store_ofNat _ _ _ _ (by omega) (wf.arr_code id _ hidx)
        have hne2 : (iv + mem1.read ad + IAm.W 0).toNat ≠ 1 := by
          rw [hea]; exact ofNat_toNat_ne_one _ (by have := wf.sp_ge; omega) (by omega)
        have sF := Step.stai (env := K.env) (cfg (i + (K.low ci).length + (K.low (genVar .B sym)).length + 1 + 1 + 1 + (K.low ce).length + 1 + 1) w (iv + mem1.read ad) mem3)
          σ.io 0 _ (by have := hat5.get 2 _ rfl; simpa [Nat.add_assoc] using this) hst2 hne2
        have rep3' : Rep K s2 mem3 := (rep3.same hs1).same hs2
        refine ⟨w, iv + mem1.read ad, mem3.write (K.abase id + iv.toInt.toNat) w, ?_, ?_⟩
        · have hio : σ''.io = σ.io := by rw [hσ'']; show s2.io = σ.io; rw [hs2.2.2.2.1, hs1.2.2.2.1, hs.2.2.2.1]
          rw [hio]
          have hlen : i + ((K.low ci).length + ((K.low (genVar .B sym)).length + (3 + ((K.low ce).length + 3))))
              = i + (K.low ci).length + (K.low (genVar .B sym)).length + 1 + 1 + 1 + (K.low ce).length + 1 + 1 + 1 := by omega
          simp only [List.length_append, List.length_cons, List.length_nil]
          rw [hlen]
          exact st1.trans (s2'.trans (Steps.step _ _ _ _ _ _ sA (Steps.step _ _ _ _ _ _ sB (Steps.step _ _ _ _ _ _ sC
            (st3.trans (Steps.step _ _ _ _ _ _ sD (Steps.step _ _ _ _ _ _ sE (Steps.one sF))))))))
        · rw [hσ'']
          exact Rep.assignSub wf.toWF rep3' hc h0 h1'

/-- `skip` with the machine already where it should end. -/
theorem out_skip (fuel : Nat) (s : X.St) (j : Nat) (a b : Word) (mem : Mem) (hr : Rep K s mem) :
    Out K exitJ (cfg j a b mem) s.io (X.exec fuel K.xc .skip s) j := by
  cases fuel with
  | zero => unfold X.exec; trivial
  | succ f =>
    cases ht : X.tick K.xc s with
    | none => unfold X.exec; rw [ht]; trivial
    | some st =>
      rw [exec_skip f K.xc s st ht]
      have hs := tick_same _ _ _ ht
      refine ⟨a, b, mem, ?_, hr.same hs⟩
      rw [hs.2.2.2.1]
      exact Steps.refl _ _

/-- The code of the generator `gen`, started in a machine state that represents `σ`, terminates
    the program with exit code `cd` in the state `σ'`. -/
def ExitsM (K : PCtx) (gen : M Code) (σ : X.St) (cd : Word) (σ' : X.St) : Prop :=
  ∀ (gs : GS) (code : Code) (gs' : GS) (i : Nat) (a b : Word) (mem : Mem),
    gen gs = .ok (code, gs') → At K.env.ds i (K.low code) → Rep K σ mem →
    gs'.size ≤ K.S → K.nlocals ≤ gs.offset → ConstsIn K gs' →
    ∃ c, Steps K.env (cfg i a b mem) σ.io c σ'.io ∧ Exit K.env c σ'.io cd

/-- What the statement lemmas need of a condition: its code computes its value, leading from the
    state before to the state after the evaluation (they differ when the condition calls a
    procedure with effects), or terminates the program when the evaluation does; a condition
    without a call changes nothing the representation looks at. -/
structure CondOK (K : PCtx) (fuel : Nat) (c : X.Expr) : Prop where
  exec : ∀ st mem w s, Rep K st mem → X.eval fuel K.xc c st = .ok (.int w) s →
    ExecT false K (optExpr (annotate K.ρ c)) w st s
  exit : ∀ st mem cd s, Rep K st mem → X.eval fuel K.xc c st = .exit cd s →
    ExitsM K (genExpr K.ctx (optExpr (annotate K.ρ c)) .A) st cd s
  quiet : containsCall (optExpr (annotate K.ρ c)) = false → ∀ st mem v s, Rep K st mem →
    X.eval fuel K.xc c st = .ok v s → s.io = st.io ∧ ∀ m, Rep K st m → Rep K s m
  quietx : containsCall (optExpr (annotate K.ρ c)) = false → ∀ st mem cd s, Rep K st mem →
    X.eval fuel K.xc c st ≠ .exit cd s

omit wf in
theorem condOK_pure (wf' : K.WF) (fuel : Nat) (c : X.Expr) (hp : pureE c = true) : CondOK K fuel c :=
  ⟨fun st _ w s _ h => ((expr_pure_correct K wf' fuel c st w s hp h).weaken : ExecAt false K _ w st).same_right
      (eval_pure K.xc fuel c st _ s hp h),
   fun st _ cd s _ h => absurd h (eval_pure_no_exit K.xc fuel c st cd s hp),
   fun _ st _ v s _ h => ⟨(eval_pure K.xc fuel c st v s hp h).2.2.2.1, fun m hm => hm.same (eval_pure K.xc fuel c st v s hp h)⟩,
   fun _ st _ cd s _ => eval_pure_no_exit K.xc fuel c st cd s hp⟩

omit wf in
theorem asBool_exit' (what : String) (r : Res Val) (c : Word) (s : X.St) (h : asBool what r = .exit c s) : r = .exit c s := by
  unfold asBool asInt Res.bind at h
  cases hr : r with
  | ok v s1 =>
    rw [hr] at h
    cases v with
    | int w => simp only at h; split at h <;> simp at h
    | arr _ => simp at h
  | exit c1 s1 => rw [hr] at h; simpa using h
  | undef w => rw [hr] at h; simp at h

omit wf in
theorem asBool_no_exit (what : String) (r : Res Val) (c : Word) (σ' : X.St) (h : ∀ cd s, r ≠ .exit cd s) :
    asBool what r ≠ .exit c σ' := by
  intro hh
  unfold asBool asInt Res.bind at hh
  cases hr : r with
  | ok v s1 =>
    rw [hr] at hh
    cases v with
    | int w => simp only at hh; split at hh <;> simp at hh
    | arr _ => simp at hh
  | exit c1 s1 => exact h c1 s1 hr
  | undef w => rw [hr] at hh; simp at hh

omit wf in
theorem optStmt_ite (ρ : String → Option Word) (c : X.Expr) (t e : X.Stmt) :
    optStmt (annotS ρ (.ite c t e)) = .ite (optExpr (annotate ρ c)) (optStmt (annotS ρ t)) (optStmt (annotS ρ e)) := by
  simp [annotS, optStmt]

theorem execS_ite (fuel : Nat) (c : X.Expr) (t e : X.Stmt) (σ : X.St) (hCK : CondOK K fuel c)
    (iht : ∀ s, ExecS K exitJ (optStmt (annotS K.ρ t)) s (X.exec fuel K.xc t s))
    (ihe : ∀ s, ExecS K exitJ (optStmt (annotS K.ρ e)) s (X.exec fuel K.xc e s)) :
    ExecS K exitJ (optStmt (annotS K.ρ (.ite c t e))) σ (X.exec (fuel + 1) K.xc (.ite c t e) σ) := by
  intro gs code gs' i a b mem hg hat hr hsz hnl hci
  rw [optStmt_ite] at hg
  cases ht : X.tick K.xc σ with
  | none => unfold X.exec; rw [ht]; trivial
  | some st =>
    rw [exec_ite fuel K.xc c t e σ st ht]
    have hs := tick_same _ _ _ ht
    cases hev : asBool "condition of if" (X.eval fuel K.xc c st) with
    | undef w => simp only [Res.bind]; trivial
    | exit cd s =>
      simp only [Res.bind]
      have hx := asBool_exit' _ _ _ _ hev
      have hrst := hr.same hs
      have hX := hCK.exit st mem cd s hrst hx
      rcases genStmt_ite_inv _ _ _ _ _ _ _ hg with ⟨hts, hes, hcc⟩ | ⟨hts, hes, cc, gs1, ct, h1, h2, hcode⟩ |
          ⟨hts, hes, cc, gs1, ce, h1, h2, hcode⟩ | ⟨hts, hes, cc, gs1, ct, gs2, ce, h1, h2, h3, hcode⟩
      · rcases hcc with ⟨_, hgc⟩ | ⟨hnc, _, _⟩
        · obtain ⟨c', st', he⟩ := hX gs code gs' i a b mem hgc hat hrst hsz hnl hci
          rw [hs.2.2.2.1] at st'
          exact ⟨c', st', he⟩
        · exact absurd hx (hCK.quietx hnc st mem cd s hrst)
      · subst hcode
        have e2 := genStmt_eff _ _ _ _ _ h2
        simp only [low_append, List.append_assoc] at hat
        obtain ⟨c', st', he⟩ := hX _ cc gs1 i a b mem h1 hat.left hrst (by have := e2.2.1; omega) hnl (hci.of_eff e2)
        rw [hs.2.2.2.1] at st'
        exact ⟨c', st', he⟩
      · subst hcode
        have e2 := genStmt_eff _ _ _ _ _ h2
        simp only [low_append, List.append_assoc] at hat
        obtain ⟨c', st', he⟩ := hX _ cc gs1 i a b mem h1 hat.left hrst (by have := e2.2.1; omega) hnl (hci.of_eff e2)
        rw [hs.2.2.2.1] at st'
        exact ⟨c', st', he⟩
      · subst hcode
        have e3 := genStmt_eff _ _ _ _ _ h3
        have e2 := genStmt_eff _ _ _ _ _ h2
        simp only [low_append, List.append_assoc] at hat
        obtain ⟨c', st', he⟩ := hX _ cc gs1 i a b mem h1 hat.left hrst (by have := e2.2.1; have := e3.2.1; omega) hnl
          ((hci.of_eff e3).of_eff e2)
        rw [hs.2.2.2.1] at st'
        exact ⟨c', st', he⟩
    | ok w s =>
      simp only [Res.bind]
      obtain ⟨hev', hbw⟩ := asBool_ok _ _ _ _ hev
      have hC := hCK.exec st mem w s (hr.same hs) hev'
      have hrst := hr.same hs
      rcases genStmt_ite_inv _ _ _ _ _ _ _ hg with ⟨hts, hes, hcc⟩ | ⟨hts, hes, cc, gs1, ct, h1, h2, hcode⟩ |
          ⟨hts, hes, cc, gs1, ce, h1, h2, hcode⟩ | ⟨hts, hes, cc, gs1, ct, gs2, ce, h1, h2, h3, hcode⟩
      · -- both branches are skip: no code
        have htk := (isSkip_iff K.ρ t).mp hts
        have hek := (isSkip_iff K.ρ e).mp hes
        rcases hcc with ⟨_, hgc⟩ | ⟨hnc, hcode, _⟩
        · -- the condition is evaluated for its calls only
          have hsk : (if (w == 1) = true then X.exec fuel K.xc t s else X.exec fuel K.xc e s) = X.exec fuel K.xc .skip s := by
            rw [htk, hek]; split <;> rfl
          obtain ⟨b1, mem1, st1, rep1, _⟩ := hC gs code gs' i a b mem hgc hat hrst hsz hnl hci
          rw [hsk]
          refine (out_skip K exitJ wf fuel s _ w b1 mem1 rep1).pre ?_
          rw [← hs.2.2.2.1]
          exact st1
        · subst hcode
          have hsk : (if (w == 1) = true then X.exec fuel K.xc t s else X.exec fuel K.xc e s) = X.exec fuel K.xc .skip s := by
            rw [htk, hek]; split <;> rfl
          obtain ⟨hio', hs2⟩ := hCK.quiet hnc st mem _ s hrst hev'
          have hio : s.io = σ.io := by rw [hio', hs.2.2.2.1]
          rw [hsk, ← hio]
          exact out_skip K exitJ wf fuel s _ a b mem (hs2 _ hrst)
      · -- if c then T else skip
        have hek := (isSkip_iff K.ρ e).mp hes
        subst hcode
        have e2 := genStmt_eff _ _ _ _ _ h2
        simp only [low_append, List.append_assoc] at hat ⊢
        have hb : K.low [lBRZ (lab gs.labelCount)] = [.ref 0xA (lab gs.labelCount) true] := rfl
        have hl : K.low [iLabel (lab gs.labelCount)] = [.label .plain (lab gs.labelCount)] := rfl
        rw [hb, hl] at hat ⊢
        have hlab := hat.right.right.right.head
        simp only [List.length_cons, List.length_nil] at hlab
        obtain ⟨b1, mem1, st1, rep1⟩ := exec_cond_brz K wf.toWF _ w st s hC _ cc gs1 i a b mem σ.io hs.2.2.2.1 _ _ _ h1
          hat.left hat.right.head hlab hrst (by have := e2.2.1; omega) hnl (hci.of_eff e2)
        have rep1s := rep1
        simp only [List.length_append, List.length_cons, List.length_nil]
        by_cases hw1 : (w == 1) = true
        · have hw : w = 1 := by simpa using hw1
          have hne : ¬ w = 0 := by rw [hw]; decide
          rw [if_neg hne] at st1
          simp only [hw1, if_true]
          have e1 := genExpr_eff _ _ _ _ _ _ h1
          have hT := iht s gs1 ct gs' (i + (K.low cc).length + 1) w b1 mem1 h2
            (by simpa [Nat.add_assoc] using hat.right.right.left) rep1s hsz (by have := e1.1; simp only at this; omega) hci
          have hpost := hT.post (j' := i + ((K.low cc).length + (1 + ((K.low ct).length + 1))))
            (fun a' b' m' io' => by
              have := step_label K _ _ _ hlab a' b' m' io'
              simpa [Nat.add_assoc] using this)
          exact hpost.pre st1
        · have hw : w = 0 := isBool_ne_one w hbw (by simpa using hw1)
          rw [if_pos hw] at st1
          simp only [hw1, Bool.false_eq_true, if_false]
          rw [hek]
          have := out_skip K exitJ wf fuel s (i + ((K.low cc).length + (1 + ((K.low ct).length + 1)))) w b1 mem1 rep1s
          refine this.pre ?_
          refine st1.trans ?_
          have := step_label K _ _ _ hlab w b1 mem1 s.io
          simpa [Nat.add_assoc] using this
      · -- if c then skip else E
        have htk := (isSkip_iff K.ρ t).mp hts
        subst hcode
        have e2 := genStmt_eff _ _ _ _ _ h2
        simp only [low_append, List.append_assoc] at hat ⊢
        have hb : K.low [lBRZ (lab gs.labelCount), lBR (lab (gs.labelCount + 1)), iLabel (lab gs.labelCount)]
            = [.ref 0xA (lab gs.labelCount) true, .ref 0x9 (lab (gs.labelCount + 1)) true, .label .plain (lab gs.labelCount)] := rfl
        have hl : K.low [iLabel (lab (gs.labelCount + 1))] = [.label .plain (lab (gs.labelCount + 1))] := rfl
        rw [hb, hl] at hat ⊢
        have hbrz := hat.right.left.get 0 _ rfl
        have hbr := hat.right.left.get 1 _ rfl
        have helse := hat.right.left.get 2 _ rfl
        have hend := hat.right.right.right.head
        simp only [List.length_cons, List.length_nil, Nat.add_zero] at hbrz hbr helse hend
        obtain ⟨b1, mem1, st1, rep1⟩ := exec_cond_brz K wf.toWF _ w st s hC _ cc gs1 i a b mem σ.io hs.2.2.2.1 _ _ _ h1
          hat.left hbrz helse hrst (by have := e2.2.1; omega) hnl (hci.of_eff e2)
        have rep1s := rep1
        simp only [List.length_append, List.length_cons, List.length_nil]
        by_cases hw1 : (w == 1) = true
        · have hw : w = 1 := by simpa using hw1
          have hne : ¬ w = 0 := by rw [hw]; decide
          rw [if_neg hne] at st1
          simp only [hw1, if_true]
          rw [htk]
          have := out_skip K exitJ wf fuel s (i + ((K.low cc).length + (0 + 1 + 1 + 1 + ((K.low ce).length + (0 + 1))))) w b1 mem1 rep1s
          refine this.pre ?_
          refine st1.trans ?_
          have sA := step_br K wf.toWF _ _ _ _ hbr hend w b1 mem1 s.io
          have sB := step_label K _ _ _ hend w b1 mem1 s.io
          have := sA.trans sB
          simpa [Nat.add_assoc] using this
        · have hw : w = 0 := isBool_ne_one w hbw (by simpa using hw1)
          rw [if_pos hw] at st1
          simp only [hw1, Bool.false_eq_true, if_false]
          have e1 := genExpr_eff _ _ _ _ _ _ h1
          have sL := step_label K _ _ _ helse w b1 mem1 s.io
          have hE := ihe s gs1 ce gs' (i + (K.low cc).length + 2 + 1) w b1 mem1 h2
            (by simpa [Nat.add_assoc] using hat.right.right.left) rep1s hsz (by have := e1.1; simp only at this; omega) hci
          have hpost := hE.post (j' := i + ((K.low cc).length + (0 + 1 + 1 + 1 + ((K.low ce).length + (0 + 1)))))
            (fun a' b' m' io' => by
              have := step_label K _ _ _ hend a' b' m' io'
              simpa [Nat.add_assoc] using this)
          exact hpost.pre (st1.trans sL)
      · -- if c then T else E
        subst hcode
        have e3 := genStmt_eff _ _ _ _ _ h3
        have e2 := genStmt_eff _ _ _ _ _ h2
        simp only [low_append, List.append_assoc] at hat ⊢
        have hb : K.low [lBRZ (lab gs.labelCount)] = [.ref 0xA (lab gs.labelCount) true] := rfl
        have hm : K.low [lBR (lab (gs.labelCount + 1)), iLabel (lab gs.labelCount)]
            = [.ref 0x9 (lab (gs.labelCount + 1)) true, .label .plain (lab gs.labelCount)] := rfl
        have hl : K.low [iLabel (lab (gs.labelCount + 1))] = [.label .plain (lab (gs.labelCount + 1))] := rfl
        rw [hb, hm, hl] at hat ⊢
        have hbrz := hat.right.head
        have hbr := hat.right.right.right.left.get 0 _ rfl
        have helse := hat.right.right.right.left.get 1 _ rfl
        have hend := hat.right.right.right.right.right.head
        simp only [List.length_cons, List.length_nil, Nat.add_zero] at hbr helse hend
        obtain ⟨b1, mem1, st1, rep1⟩ := exec_cond_brz K wf.toWF _ w st s hC _ cc gs1 i a b mem σ.io hs.2.2.2.1 _ _ _ h1
          hat.left hbrz helse hrst (by have := e2.2.1; have := e3.2.1; omega) hnl ((hci.of_eff e3).of_eff e2)
        have rep1s := rep1
        have e1 := genExpr_eff _ _ _ _ _ _ h1
        simp only [List.length_append, List.length_cons, List.length_nil]
        by_cases hw1 : (w == 1) = true
        · have hw : w = 1 := by simpa using hw1
          have hne : ¬ w = 0 := by rw [hw]; decide
          rw [if_neg hne] at st1
          simp only [hw1, if_true]
          have hT := iht s gs1 ct gs2 (i + (K.low cc).length + 1) w b1 mem1 h2
            (by simpa [Nat.add_assoc] using hat.right.right.left) rep1s (by have := e3.2.1; omega)
            (by have := e1.1; simp only at this; omega) (hci.of_eff e3)
          have hpost := hT.post (j' := i + ((K.low cc).length + (0 + 1 + ((K.low ct).length + (0 + 1 + 1 + ((K.low ce).length + (0 + 1)))))))
            (fun a' b' m' io' => by
              have sA := step_br K wf.toWF _ _ _ _ hbr hend a' b' m' io'
              have sB := step_label K _ _ _ hend a' b' m' io'
              have := sA.trans sB
              simpa [Nat.add_assoc] using this)
          exact hpost.pre st1
        · have hw : w = 0 := isBool_ne_one w hbw (by simpa using hw1)
          rw [if_pos hw] at st1
          simp only [hw1, Bool.false_eq_true, if_false]
          have sL := step_label K _ _ _ helse w b1 mem1 s.io
          have hE := ihe s gs2 ce gs' (i + (K.low cc).length + (0 + 1) + (K.low ct).length + 1 + 1) w b1 mem1 h3
            (by simpa [Nat.add_assoc] using hat.right.right.right.right.left) rep1s hsz
            (by have := e1.1; have := e2.1; simp only at *; omega) hci
          have hpost := hE.post (j' := i + ((K.low cc).length + (0 + 1 + ((K.low ct).length + (0 + 1 + 1 + ((K.low ce).length + (0 + 1)))))))
            (fun a' b' m' io' => by
              have := step_label K _ _ _ hend a' b' m' io'
              simpa [Nat.add_assoc] using this)
          exact hpost.pre (st1.trans sL)

omit wf in
theorem optStmt_while (ρ : String → Option Word) (c : X.Expr) (b : X.Stmt) :
    optStmt (annotS ρ (.while c b)) = .while (optExpr (annotate ρ c)) (optStmt (annotS ρ b)) := by
  simp [annotS, optStmt]

theorem execS_while (fuel : Nat) (c : X.Expr) (body : X.Stmt) (σ : X.St) (hCK : CondOK K fuel c)
    (ihb : ∀ s, ExecS K exitJ (optStmt (annotS K.ρ body)) s (X.exec fuel K.xc body s))
    (ihw : ∀ s, ExecS K exitJ (optStmt (annotS K.ρ (.while c body))) s (X.exec fuel K.xc (.while c body) s)) :
    ExecS K exitJ (optStmt (annotS K.ρ (.while c body))) σ (X.exec (fuel + 1) K.xc (.while c body) σ) := by
  intro gs code gs' i a b mem hg hat hr hsz hnl hci
  have hg0 := hg
  rw [optStmt_while] at hg
  cases ht : X.tick K.xc σ with
  | none => unfold X.exec; rw [ht]; trivial
  | some st =>
    rw [exec_while fuel K.xc c body σ st ht]
    have hs := tick_same _ _ _ ht
    cases hev : asBool "condition of while" (X.eval fuel K.xc c st) with
    | undef w => trivial
    | exit cd s =>
      have hx := asBool_exit' _ _ _ _ hev
      have hrst := hr.same hs
      have hX := hCK.exit st mem cd s hrst hx
      obtain ⟨cc, gs1, cb, h1, h2, hcode⟩ := genStmt_while_inv _ _ _ _ _ _ hg
      have e2 := genStmt_eff _ _ _ _ _ h2
      rw [hcode] at hat
      simp only [low_append, List.append_assoc] at hat
      have hlb : K.low [iLabel (lab gs.labelCount)] = [.label .plain (lab gs.labelCount)] := rfl
      rw [hlb] at hat
      have sBegin := step_label K _ _ _ hat.head a b mem σ.io
      obtain ⟨c', st', he⟩ := hX _ cc gs1 (i + 1) a b mem h1 (by simpa using hat.right.left) hrst
        (by have := e2.2.1; omega) hnl (hci.of_eff e2)
      rw [hs.2.2.2.1] at st'
      exact ⟨c', sBegin.trans st', he⟩
    | ok w s =>
      simp only
      obtain ⟨hev', hbw⟩ := asBool_ok _ _ _ _ hev
      have hC := hCK.exec st mem w s (hr.same hs) hev'
      have hrst := hr.same hs
      obtain ⟨cc, gs1, cb, h1, h2, hcode⟩ := genStmt_while_inv _ _ _ _ _ _ hg
      have e2 := genStmt_eff _ _ _ _ _ h2
      have e1 := genExpr_eff _ _ _ _ _ _ h1
      have hat0 := hat
      rw [hcode] at hat
      simp only [low_append, List.append_assoc] at hat
      have hlb : K.low [iLabel (lab gs.labelCount)] = [.label .plain (lab gs.labelCount)] := rfl
      have hbz : K.low [lBRZ (lab (gs.labelCount + 1))] = [.ref 0xA (lab (gs.labelCount + 1)) true] := rfl
      have hbe : K.low [lBR (lab gs.labelCount), iLabel (lab (gs.labelCount + 1))]
          = [.ref 0x9 (lab gs.labelCount) true, .label .plain (lab (gs.labelCount + 1))] := rfl
      rw [hlb, hbz, hbe] at hat
      have hbegin := hat.head
      have hbrz := hat.right.right.head
      have hbr := hat.right.right.right.right.get 0 _ rfl
      have hend := hat.right.right.right.right.get 1 _ rfl
      simp only [List.length_cons, List.length_nil, Nat.add_zero] at hbrz hbr hend
      have hlen : (K.low code).length = 1 + ((K.low cc).length + (1 + ((K.low cb).length + 2))) := by
        rw [hcode]; simp only [low_append, List.append_assoc, hlb, hbz, hbe, List.length_append, List.length_cons, List.length_nil]
      have sBegin := step_label K _ _ _ hbegin a b mem σ.io
      obtain ⟨b1, mem1, st1, rep1⟩ := exec_cond_brz K wf.toWF _ w st s hC _ cc gs1 (i + 1) a b mem σ.io hs.2.2.2.1 _ _ _ h1
        (by simpa using hat.right.left) (by simpa using hbrz) hend hrst (by have := e2.2.1; omega) hnl (hci.of_eff e2)
      have rep1s := rep1
      by_cases hw0 : (w == 0) = true
      · have hw : w = 0 := by simpa using hw0
        simp only [hw0, if_true]
        rw [if_pos hw] at st1
        refine ⟨w, b1, mem1, ?_, rep1s⟩
        refine sBegin.trans (st1.trans ?_)
        have := step_label K _ _ _ hend w b1 mem1 s.io
        rw [hlen]
        simpa [Nat.add_assoc] using this
      · have hw : ¬ w = 0 := by simpa using hw0
        simp only [hw0, Bool.false_eq_true, if_false]
        rw [if_neg hw] at st1
        have hB := ihb s gs1 cb gs' (i + 1 + (K.low cc).length + 1) w b1 mem1 h2
          (by simpa [Nat.add_assoc] using hat.right.right.right.left) rep1s hsz
          (by have := e1.1; simp only at this; omega) hci
        have hpre := sBegin.trans st1
        cases hxb : X.exec fuel K.xc body s with
        | undef w' => trivial
        | exit cd s' =>
          rw [hxb] at hB
          exact Out.pre (r := .exit cd s') hpre hB
        | ok fl s' =>
          cases fl with
          | ret w' => trivial
          | normal =>
            rw [hxb] at hB
            simp only
            obtain ⟨a', b', mem', stB, repB⟩ := hB
            have sBack := step_br K wf.toWF _ _ _ _ hbr hbegin a' b' mem' s'.io
            have hW := ihw s' gs code gs' i a' b' mem' hg0 hat0 repB hsz hnl hci
            refine Out.pre ?_ hW
            refine hpre.trans (stB.trans ?_)
            simpa [Nat.add_assoc] using sBack

end

end Hex.C01s
