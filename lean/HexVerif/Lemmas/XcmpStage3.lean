import HexVerif.Lemmas.XcmpActuals
/-!
  Stage (3) of C01, assembled: `stmt_correct`.
-/
namespace Hex.C01s
open Hex Hex.X Hex.Xcmp Hex.IAm Hex.Asm

theorem optArgs_map (ρ : String → Option Word) : ∀ (es : List X.Expr),
    optArgs (es.map (annotate ρ)) = optArgsOf ρ es := by
  intro es
  induction es with
  | nil => simp [optArgs, optArgsOf]
  | cons e rest ih => simp only [List.map_cons, optArgs, optArgsOf] at ih ⊢; rw [ih]

theorem evalArgs_pure_no_exit (xc : X.Ctx) : ∀ (es : List X.Expr) (fuel : Nat) (st : X.St) (c : Word) (s : X.St),
    (∀ e ∈ es, pureE e = true) → X.evalArgs fuel xc es st ≠ .exit c s := by
  intro es
  induction es with
  | nil =>
    intro fuel st c s _ h
    cases fuel with
    | zero => rw [evalArgs_zero] at h; simp at h
    | succ f => rw [evalArgs_nil] at h; simp at h
  | cons e rest ih =>
    intro fuel st c s hp h
    cases fuel with
    | zero => rw [evalArgs_zero] at h; simp at h
    | succ f =>
      unfold X.evalArgs at h
      unfold Res.bind at h
      cases h1 : X.eval f xc e st with
      | undef w => rw [h1] at h; simp at h
      | exit c1 s1 => exact eval_pure_no_exit xc f e st c1 s1 (hp e (by simp)) h1
      | ok v s1 =>
        rw [h1] at h
        simp only at h
        cases h2 : X.evalArgs f xc rest s1 with
        | undef w => rw [h2] at h; simp at h
        | exit c2 s2 => exact ih f s1 c2 s2 (fun x hx => hp x (by simp [hx])) h2
        | ok vs s2 => rw [h2] at h; simp at h

/-- A system call that does not end undefined got integer actuals, and changes only the I/O. -/
theorem doSyscall_ints (id : Word) (vs : List Val) (s : X.St) (h : ∀ w, X.doSyscall id vs s ≠ .undef w) :
    ∃ ws : List Word, vs = ws.map Val.int := by
  unfold X.doSyscall at h
  split at h
  · cases vs with
    | nil => exact absurd rfl (h _)
    | cons v rest =>
      cases v with
      | arr r => exact absurd rfl (h _)
      | int w =>
        cases rest with
        | nil => exact ⟨[w], rfl⟩
        | cons _ _ => exact absurd rfl (h _)
  · split at h
    · cases vs with
      | nil => exact absurd rfl (h _)
      | cons v rest =>
        cases v with
        | arr r => exact absurd rfl (h _)
        | int w =>
          cases rest with
          | nil => exact absurd rfl (h _)
          | cons v2 rest2 =>
            cases v2 with
            | arr r => exact absurd rfl (h _)
            | int w2 =>
              cases rest2 with
              | nil => exact ⟨[w, w2], rfl⟩
              | cons _ _ => exact absurd rfl (h _)
    · split at h
      · cases vs with
        | nil => exact absurd rfl (h _)
        | cons v rest =>
          cases v with
          | arr r => exact absurd rfl (h _)
          | int w =>
            cases rest with
            | nil => exact ⟨[w], rfl⟩
            | cons _ _ => exact absurd rfl (h _)
      · exact absurd rfl (h _)

theorem doSyscall_state (id : Word) (vs : List Val) (s s' : X.St) (r : Option Word)
    (h : X.doSyscall id vs s = .ok r s') : s' = { s with io := s'.io } := by
  unfold X.doSyscall at h
  split at h
  · split at h <;> simp at h
  · split at h
    · split at h
      · simp only [Res.ok.injEq] at h; rw [← h.2]
      · simp at h
    · split at h
      · split at h
        · simp only [Res.ok.injEq] at h; rw [← h.2]
        · simp at h
      · simp at h

theorem doSyscall_exit_state (id : Word) (vs : List Val) (s s' : X.St) (c : Word)
    (h : X.doSyscall id vs s = .exit c s') : s' = s := by
  unfold X.doSyscall at h
  split at h
  · split at h
    · simp only [Res.exit.injEq] at h; exact h.2.symm
    · simp at h
  · split at h
    · split at h <;> simp at h
    · split at h
      · split at h <;> simp at h
      · simp at h

section
variable (K : PCtx) (exitJ : Nat) (wf : K.WFS exitJ)
include wf

theorem execS_syscall (fuel : Nat) (id : Nat) (args : List X.Expr) (σ : X.St) (hid : id < 3)
    (hp : ∀ e ∈ args, pureE e = true) :
    ExecS K exitJ (optStmt (annotS K.ρ (.syscall id args))) σ (X.exec fuel K.xc (.syscall id args) σ) := by
  intro gs code gs' i a b mem hg hat hr hsz hnl hci
  have hopt : optStmt (annotS K.ρ (.syscall id args)) = .call (id : Int) "" (optArgsOf K.ρ args) := by
    simp only [annotS, optStmt, optArgs_map, sysId_small id hid]
  rw [hopt, genStmt_call_eq] at hg
  have hne : ((id : Int) ≠ -1) := by omega
  rw [if_pos hne] at hg
  cases fuel with
  | zero => unfold X.exec; trivial
  | succ f =>
    cases ht : X.tick K.xc σ with
    | none => unfold X.exec; rw [ht]; trivial
    | some st =>
      have hs := tick_same _ _ _ ht
      unfold X.exec
      rw [ht]
      simp only
      split
      · trivial
      · cases hev : X.evalArgs f K.xc args st with
        | undef w => simp only [Res.bind]; trivial
        | exit c s => exact absurd hev (evalArgs_pure_no_exit K.xc args f st c s hp)
        | ok vs s =>
          simp only [Res.bind]
          have hs2 := evalArgs_pure K.xc args f st s vs hp hev
          have hio : s.io = σ.io := by rw [hs2.2.2.2.1, hs.2.2.2.1]
          cases hd : X.doSyscall (BitVec.ofNat 32 id) vs s with
          | undef w => trivial
          | exit cd s' =>
            simp only
            obtain ⟨ws, hws⟩ := doSyscall_ints _ vs s (by rw [hd]; intro w h; simp at h)
            subst hws
            have := exec_syscall K wf.toWF id hid args f st s ws hp hev gs code gs' i a b mem σ.io hio hg hat
              (hr.same hs) hsz hnl hci
            rw [hd] at this
            obtain ⟨c, st1, ex⟩ := this
            have hs' := doSyscall_exit_state _ _ _ _ _ hd
            refine ⟨c, ?_, ?_⟩
            · rw [hs', hio]; exact st1
            · rw [hs', hio]; exact ex
          | ok r s' =>
            simp only
            obtain ⟨ws, hws⟩ := doSyscall_ints _ vs s (by rw [hd]; intro w h; simp at h)
            subst hws
            have := exec_syscall K wf.toWF id hid args f st s ws hp hev gs code gs' i a b mem σ.io hio hg hat
              (hr.same hs) hsz hnl hci
            rw [hd] at this
            obtain ⟨a', b', mem', st1, rep1, _, _⟩ := this
            refine ⟨a', b', mem', st1, ?_⟩
            have hst := doSyscall_state _ _ _ _ _ hd
            rw [hst]
            exact (rep1.same hs2).setIo _

omit wf in
theorem resolve_val (xc : X.Ctx) (σ : X.St) (g : String) (w : Word) (h : ValBound xc σ g w) :
    X.resolveCallee xc σ g = .sys w := by
  unfold X.resolveCallee
  rcases h with h | ⟨h1, h2⟩
  · rw [h]
  · rw [h1, h2]

omit wf in
theorem small_toInt (w : Word) (h : w.toNat < 3) : w.toInt = (w.toNat : Int) := by
  rw [BitVec.toInt_eq_toNat_cond]
  rw [if_pos (by omega)]

/-- A call through a `val` name is the system call with that number. -/
theorem execS_valcall_of (fuel : Nat) (g : String) (args : List X.Expr) (σ : X.St) (w : Word) (hρ : K.ρ g = some w)
    (hw : w.toNat < 3)
    (hS : ExecS K exitJ (optStmt (annotS K.ρ (.syscall w.toNat args))) σ (X.exec fuel K.xc (.syscall w.toNat args) σ)) :
    ExecS K exitJ (optStmt (annotS K.ρ (.call g args))) σ (X.exec fuel K.xc (.call g args) σ) := by
  intro gs code gs' i a b mem hg hat hr hsz hnl hci
  have hsys : sysOf K.ρ g = ((w.toNat : Nat) : Int) := by
    unfold sysOf; rw [hρ]; exact small_toInt w hw
  have hne : ((w.toNat : Nat) : Int) ≠ -1 := by omega
  have hg' : genStmt K.ctx (optStmt (annotS K.ρ (.syscall w.toNat args))) gs = .ok (code, gs') := by
    have h1 : optStmt (annotS K.ρ (.call g args)) = .call ((w.toNat : Nat) : Int) g (optArgsOf K.ρ args) := by
      simp only [annotS, optStmt, optArgs_map, hsys]
    have h2 : optStmt (annotS K.ρ (.syscall w.toNat args)) = .call ((w.toNat : Nat) : Int) "" (optArgsOf K.ρ args) := by
      simp only [annotS, optStmt, optArgs_map, sysId_small w.toNat hw]
    rw [h1, genStmt_call_eq, if_pos hne] at hg
    rw [h2, genStmt_call_eq, if_pos hne]
    exact hg
  have hx : X.exec fuel K.xc (.call g args) σ = X.exec fuel K.xc (.syscall w.toNat args) σ := by
    cases fuel with
    | zero => unfold X.exec; rfl
    | succ f =>
      cases ht : X.tick K.xc σ with
      | none => unfold X.exec; rw [ht]
      | some st =>
        have hres := resolve_val K.xc st g w ((hr.same (tick_same _ _ _ ht)).vals g w hρ)
        conv => lhs; unfold X.exec
        conv => rhs; unfold X.exec
        rw [ht]
        simp only [hres, BitVec.ofNat_toNat, BitVec.setWidth_eq]
  rw [hx]
  exact hS gs code gs' i a b mem hg' hat hr hsz hnl hci

theorem execS_valcall (fuel : Nat) (g : String) (args : List X.Expr) (σ : X.St) (w : Word) (hρ : K.ρ g = some w)
    (hw : w.toNat < 3) (hp : ∀ e ∈ args, pureE e = true) :
    ExecS K exitJ (optStmt (annotS K.ρ (.call g args))) σ (X.exec fuel K.xc (.call g args) σ) :=
  execS_valcall_of K exitJ wf fuel g args σ w hρ hw (execS_syscall K exitJ wf fuel w.toNat args σ hw hp)

omit wf in
theorem optStmt_seq (ρ : String → Option Word) (ss : List X.Stmt) :
    optStmt (annotS ρ (.seq ss)) = .seq (optStmts (annotSL ρ ss)) := by
  simp [annotS, optStmt]

omit wf in
theorem optStmts_cons (ρ : String → Option Word) (s : X.Stmt) (ss : List X.Stmt) :
    optStmts (annotSL ρ (s :: ss)) = optStmt (annotS ρ s) :: optStmts (annotSL ρ ss) := by
  simp [annotSL, optStmts]

omit wf in
theorem execSeq_nil (fuel : Nat) (xc : X.Ctx) (st : X.St) : X.execSeq (fuel + 1) xc [] st = .ok .normal st := by
  unfold X.execSeq; rfl

omit wf in
theorem execSeq_cons (fuel : Nat) (xc : X.Ctx) (s : X.Stmt) (ss : List X.Stmt) (st : X.St) :
    X.execSeq (fuel + 1) xc (s :: ss) st =
      match X.exec fuel xc s st with
      | .undef w => .undef w
      | .exit code s' => .exit code s'
      | .ok (.ret w) s' =>
        if ss.isEmpty then .ok (.ret w) s' else .undef "return is not the final process of its function"
      | .ok .normal s' => X.execSeq fuel xc ss s' := by
  conv => lhs; unfold X.execSeq
  rfl

/-- **Stage (3): statements without user calls.**  For every statement of the fragment, the
    generated code - wherever it sits in the lowered program, from any machine state representing
    the source state - completes normally in a state representing the result, or is at the
    procedure's exit label with the returned value in areg, or has performed the exit system call
    with the right code; the I/O performed is that of the reference semantics. -/
theorem stmt_correct : ∀ (fuel : Nat),
    (∀ (s : X.Stmt) (σ : X.St), okS s = true →
      ExecS K exitJ (optStmt (annotS K.ρ s)) σ (X.exec fuel K.xc s σ)) ∧
    (∀ (ss : List X.Stmt) (σ : X.St), okSL ss = true →
      ExecSL K exitJ (optStmts (annotSL K.ρ ss)) σ (X.execSeq fuel K.xc ss σ)) := by
  intro fuel
  induction fuel with
  | zero =>
    constructor
    · intro s σ _ gs code gs' i a b mem _ _ _ _ _ _
      unfold X.exec; trivial
    · intro ss σ _ gs code gs' i a b mem _ _ _ _ _ _
      unfold X.execSeq; trivial
  | succ fuel ih =>
    obtain ⟨ihS, ihL⟩ := ih
    constructor
    · intro s σ hok
      cases s with
      | skip => exact execS_skip K exitJ wf _ σ
      | stop => exact execS_stop K exitJ wf _ σ
      | ret e =>
        simp only [okS] at hok
        have : optStmt (annotS K.ρ (.ret e)) = .ret (optExpr (annotate K.ρ e)) := by simp [annotS, optStmt]
        rw [this]
        exact execS_ret K exitJ wf _ e σ hok
      | assign n e =>
        simp only [okS] at hok
        have : optStmt (annotS K.ρ (.assign n e)) = .assign n (optExpr (annotate K.ρ e)) := by simp [annotS, optStmt]
        rw [this]
        exact execS_assign K exitJ wf _ n e σ hok
      | ite c t e =>
        simp only [okS, Bool.and_eq_true] at hok
        exact execS_ite K exitJ wf fuel c t e σ (condOK_pure K wf.toWF fuel c hok.1.1) (fun s => ihS t s hok.1.2) (fun s => ihS e s hok.2)
      | «while» c b =>
        simp only [okS, Bool.and_eq_true] at hok
        exact execS_while K exitJ wf fuel c b σ (condOK_pure K wf.toWF fuel c hok.1) (fun s => ihS b s hok.2)
          (fun s => ihS (.while c b) s (by simp [okS, hok.1, hok.2]))
      | seq ss =>
        simp only [okS] at hok
        intro gs code gs' i a b mem hg hat hr hsz hnl hci
        rw [optStmt_seq, genStmt_seq] at hg
        cases ht : X.tick K.xc σ with
        | none => unfold X.exec; rw [ht]; trivial
        | some st =>
          rw [exec_seq fuel K.xc ss σ st ht]
          have hs := tick_same _ _ _ ht
          have := ihL ss st hok gs code gs' i a b mem hg hat (hr.same hs) hsz hnl hci
          rw [hs.2.2.2.1] at this
          exact this
      | syscall id args =>
        simp only [okS, Bool.and_eq_true, decide_eq_true_eq, List.all_eq_true] at hok
        exact execS_syscall K exitJ wf _ id args σ hok.1 hok.2
      | assignSub n i e =>
        simp only [okS, Bool.and_eq_true] at hok
        have : optStmt (annotS K.ρ (.assignSub n i e)) = .assignSub n (optExpr (annotate K.ρ i)) (optExpr (annotate K.ρ e)) := by
          simp [annotS, optStmt]
        rw [this]
        exact execS_assignSub K exitJ wf _ n i e σ hok.1 hok.2
      | call f args => simp [okS] at hok
    · intro ss σ hok
      cases ss with
      | nil =>
        intro gs code gs' i a b mem hg hat hr hsz hnl hci
        simp only [annotSL, optStmts] at hg
        rw [genStmts_nil] at hg
        simp only [Except.ok.injEq, Prod.mk.injEq] at hg
        rw [← hg.1, execSeq_nil]
        exact ⟨a, b, mem, Steps.refl _ _, hr⟩
      | cons s rest =>
        simp only [okSL, Bool.and_eq_true] at hok
        intro gs code gs' i a b mem hg hat hr hsz hnl hci
        rw [optStmts_cons] at hg
        obtain ⟨c, gs1, cs, h1, h2, hcode⟩ := genStmts_cons_inv _ _ _ _ _ _ hg
        subst hcode
        have e2 : Eff gs1 gs' := by
          have := genStmt_eff K.ctx (.seq (optStmts (annotSL K.ρ rest))) gs1 cs gs' (by rw [genStmt_seq]; exact h2)
          exact this
        have e1 := genStmt_eff _ _ _ _ _ h1
        simp only [low_append] at hat ⊢
        rw [execSeq_cons]
        have hS := ihS s σ hok.1 gs c gs1 i a b mem h1 hat.left hr (by have := e2.2.1; omega) hnl (hci.of_eff e2)
        cases hx : X.exec fuel K.xc s σ with
        | undef w => trivial
        | exit cd s' =>
          rw [hx] at hS
          exact hS
        | ok fl s' =>
          cases fl with
          | ret w =>
            rw [hx] at hS
            simp only
            split
            · exact hS
            · trivial
          | normal =>
            rw [hx] at hS
            simp only
            obtain ⟨a', b', mem', st1, rep1⟩ := hS
            have hL := ihL rest s' hok.2 gs1 cs gs' (i + (K.low c).length) a' b' mem' h2 hat.right rep1 hsz
              (by have := e1.1; omega) hci
            simp only [List.length_append, ← Nat.add_assoc]
            exact hL.pre st1

end

end Hex.C01s
