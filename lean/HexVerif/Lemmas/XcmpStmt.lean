import HexVerif.Lemmas.XcmpExpr
import HexVerif.Lemmas.XcmpGenStmt
import HexVerif.Lemmas.XcmpStmtSem
/-!
  Stage (3) of C01: statements without user calls (skip, stop, return, if, while, sequence,
  assignment to variables, the system calls `0(e)` and `1(e, s)`) over call-free expressions.
-/
namespace Hex.C01s
open Hex Hex.X Hex.Xcmp Hex.IAm Hex.Asm

/-- What stage (3) needs beyond `PCtx.WF`. -/
structure PCtx.WFS (K : PCtx) (exitJ : Nat) : Prop extends K.WF where
  loc_ok : ∀ n a, K.loc n = some a → 2 ≤ a ∧ a < memWords ∧ K.env.isCode a = false
  loc_inj : ∀ n m a, K.loc n = some a → K.loc m = some a → n = m
  const_sep : ∀ v l j k n a, (v, l) ∈ K.consts → K.env.ds[j]? = some (.label k l) → K.loc n = some a →
    K.env.addr j / 4 ≠ a
  loc_ne_link : ∀ n a, K.loc n = some a → a ≠ K.sp + K.S
  exit_lbl : ∃ k, K.env.ds[exitJ]? = some (.label k K.ctx.exitLabel)
  stop_ok : K.sp + 2 < memWords ∧ K.env.isCode (K.sp + 2) = false

/-! ### Annotated statements -/

def leafE : X.Expr → Bool
  | .num _ | .bool _ | .name _ => true
  | _ => false

theorem leaf_pure (e : X.Expr) (h : leafE e = true) : pureE e = true := by
  cases e <;> simp [leafE, pureE] at h ⊢

mutual
/-- `ConstProp` on the statements of stage (3). -/
def annotS (ρ : String → Option Word) : X.Stmt → AStmt
  | .skip => .skip
  | .stop => .stop
  | .ret e => .ret (annotate ρ e)
  | .ite c t e => .ite (annotate ρ c) (annotS ρ t) (annotS ρ e)
  | .while c b => .while (annotate ρ c) (annotS ρ b)
  | .seq ss => .seq (annotSL ρ ss)
  | .assign n e => .assign n (annotate ρ e)
  | .assignSub n i e => .assignSub n (annotate ρ i) (annotate ρ e)
  | .syscall id args => .call (sysIdOfNat id) "" (args.map (annotate ρ))
  | .call f args => .call (sysOf ρ f) f (args.map (annotate ρ))
def annotSL (ρ : String → Option Word) : List X.Stmt → List AStmt
  | [] => []
  | s :: ss => annotS ρ s :: annotSL ρ ss
end

mutual
/-- The statements of stage (3). -/
def okS : X.Stmt → Bool
  | .skip | .stop => true
  | .ret e => pureE e
  | .ite c t e => pureE c && okS t && okS e
  | .while c b => pureE c && okS b
  | .seq ss => okSL ss
  | .assign _ e => pureE e
  | .syscall id args => decide (id < 3) && args.all pureE
  | .assignSub _ i e => pureE i && pureE e
  | _ => false
def okSL : List X.Stmt → Bool
  | [] => true
  | s :: ss => okS s && okSL ss
end

/-! ### Assignment -/

theorem ValBound.write {xc : X.Ctx} {σ σ' : X.St} {n m : String} {w c : Word}
    (h : X.writeName xc σ n w = .ok σ') (hv : ValBound xc σ m c) : ValBound xc σ' m c := by
  unfold ValBound at hv ⊢
  rcases writeName_cases xc σ σ' n w h with ⟨o, hl, rfl⟩ | ⟨hl, hg, rfl⟩
  · simp only [lookup_setAssoc]
    by_cases hmn : m = n
    · subst hmn
      rcases hv with hv | ⟨hv, _⟩ <;> rw [hl] at hv <;> simp at hv
    · simp only [if_neg hmn]; exact hv
  · exact hv

/-- Storing the assigned value into the variable's word re-establishes the representation. -/
theorem Rep.assign {K : PCtx} {exitJ : Nat} (wf : K.WFS exitJ) {σ σ' : X.St} {mem : Mem} {n : String} {w : Word} {a : Nat}
    (hr : Rep K σ mem) (hw : X.writeName K.xc σ n w = .ok σ') (hloc : K.loc n = some a) :
    Rep K σ' (mem.write a w) := by
  obtain ⟨ha2, halt, _⟩ := wf.loc_ok n a hloc
  have hv : IsVar K.xc σ n := by
    unfold IsVar
    rcases writeName_cases K.xc σ σ' n w hw with ⟨o, hl, _⟩ | ⟨hl, hg, _⟩
    · exact Or.inl ⟨o, hl⟩
    · exact Or.inr ⟨hl, hg⟩
  have hbelow : a < K.sp + K.S := by
    obtain ⟨a2, hl2, hlt2⟩ := hr.locs n hv
    rw [hloc] at hl2
    simp only [Option.some.injEq] at hl2
    subst hl2
    exact hlt2
  exact {
    sp := by rw [Mem.read_write_other _ _ _ _ (by omega)]; exact hr.sp
    vals := fun m c hm => (hr.vals m c hm).write hw
    vars := by
      intro m w' hm hrd
      by_cases hmn : m = n
      · subst hmn
        have := readName_write_same K.xc σ σ' m w w' hw hrd
        subst this
        exact ⟨a, hloc, halt, Mem.read_write_same _ _ _ halt⟩
      · rw [readName_write_other K.xc σ σ' n m w hw hmn] at hrd
        obtain ⟨a', hloc', hlt', hv'⟩ := hr.vars m w' hm hrd
        refine ⟨a', hloc', hlt', ?_⟩
        rw [Mem.read_write_other _ _ _ _ (fun e => hmn (wf.loc_inj m n a' hloc' (by rw [← e]; exact hloc)))]
        exact hv'
    consts := by
      intro v l j k hm hd
      rw [Mem.read_write_other _ _ _ _ (fun e => wf.const_sep v l j k n a hm hd hloc e.symm)]
      exact hr.consts v l j k hm hd
    locs := by
      intro m hv
      apply hr.locs m
      unfold IsVar at hv ⊢
      rcases writeName_cases K.xc σ σ' n w hw with ⟨o, hl, rfl⟩ | ⟨hl, hg, rfl⟩
      · simp only [lookup_setAssoc] at hv
        by_cases hmn : m = n
        · subst hmn; exact Or.inl ⟨o, hl⟩
        · simpa [hmn] using hv
      · exact hv
    above := by
      intro a' ha' hna
      rw [Mem.read_write_other _ _ _ _ (by omega)]; exact hr.above a' ha' hna
    aptr := by
      intro m r hrd
      by_cases hmn : m = n
      · subst hmn; exact absurd hrd (readName_write_noarr K.xc σ σ' m w r hw)
      · rw [readName_write_other K.xc σ σ' n m w hw hmn] at hrd
        obtain ⟨a', hloc', hlt', hv'⟩ := hr.aptr m r hrd
        refine ⟨a', hloc', hlt', ?_⟩
        rw [Mem.read_write_other _ _ _ _ (fun e => hmn (wf.loc_inj m n a' hloc' (by rw [← e]; exact hloc)))]
        exact hv'
    acells := by
      intro id cells hc
      rw [writeName_arrays K.xc σ σ' n w hw] at hc
      obtain ⟨hsz, hv'⟩ := hr.acells id cells hc
      refine ⟨hsz, fun idx w' hi => ?_⟩
      have hlt : idx < cells.size := by
        by_cases hlt : idx < cells.size
        · exact hlt
        · rw [Array.getElem?_eq_none (by omega)] at hi; simp at hi
      have := (wf.arr_hi id (by omega)).1
      rw [Mem.read_write_other _ _ _ _ (by omega)]
      exact hv' idx w' hi
    strs := by
      intro l bs ws j k hm hp hd idx hidx
      rw [Mem.read_write_other _ _ _ _ (fun e => wf.str.sep l bs ws j k n a idx hm hp hd hloc hidx e.symm)]
      exact hr.strs l bs ws j k hm hp hd idx hidx
    gvis := by
      intro m hm
      rcases writeName_cases K.xc σ σ' n w hw with ⟨o, hl, rfl⟩ | ⟨hl, hg, rfl⟩
      · simp only [lookup_setAssoc]
        by_cases hmn : m = n
        · subst hmn; have := hr.gvis m hm; rw [hl] at this; simp at this
        · simp only [if_neg hmn]; exact hr.gvis m hm
      · exact hr.gvis m hm
    depth := by
      rcases writeName_cases K.xc σ σ' n w hw with ⟨o, hl, rfl⟩ | ⟨hl, hg, rfl⟩ <;> exact hr.depth }

/-- The store instruction(s) of an assignment. -/
theorem exec_assignTail (K : PCtx) (exitJ : Nat) (wf : K.WFS exitJ) (n : String) (sym : Symbol) (i : Nat) (w b : Word)
    (mem : Mem) (io : Isa.IOSt) (σ : X.St) (a : Nat)
    (hl : K.ctx.tbl.lookup K.ctx.scope n = .ok sym) (hat : At K.env.ds i (K.low (assignTail K.ctx sym)))
    (hr : Rep K σ mem) (hloc : K.loc n = some a) :
    ∃ b', Steps K.env (cfg i w b mem) io (cfg (i + (K.low (assignTail K.ctx sym)).length) w b' (mem.write a w)) io := by
  obtain ⟨ha2, halt, hcode⟩ := wf.loc_ok n a hloc
  unfold assignTail at hat ⊢
  by_cases hs : sym.scope = ""
  · obtain ⟨j, k, hd, hal, hloc'⟩ := wf.var_global n sym a hl hs hloc
    have hli := labelIdx_of_nodup _ _ _ _ wf.nodup hd
    simp only [hs, if_true, PCtx.low, lowerCode_cons, lowerOne_dir, lowerCode_nil, lSTAM, List.append_nil] at hat ⊢
    have hst : IAm.store K.env mem (BitVec.ofNat 32 (K.env.addr j / 4)) w = some (mem.write a w) := by
      rw [← hloc']; exact store_ofNat _ _ _ _ halt hcode
    have := Step.stamL (env := K.env) (cfg i w b mem) io _ j _ hat.head hli hal hst
    exact ⟨b, Steps.one (by simpa using this)⟩
  · obtain ⟨hfr, hadr⟩ := wf.var_local n sym a hl hs hloc
    have hS : (frameOf K.out K.ctx.frame).size = K.S := rfl
    have hsl := slot_addr K.sp K.S sym.stackOffset a hadr
    simp only [hs, if_false, PCtx.low, lowerCode_cons, lowerOne_dir, lowerOne_fb, lowerCode_nil, iLDBM,
      List.append_nil, List.cons_append, List.nil_append, fbOpc, hS, SP_OFFSET] at hat ⊢
    have s1 := Step.ldbm (env := K.env) (cfg i w b mem) io 1 _ hat.head (ld_one mem)
    have hst : IAm.store K.env mem (mem.read 1 + IAm.W ((K.S : Int) - 1 + sym.stackOffset)) w = some (mem.write a w) := by
      rw [hr.sp, hsl]; exact store_ofNat _ _ _ _ halt hcode
    have hne1 : (mem.read 1 + IAm.W ((K.S : Int) - 1 + sym.stackOffset)).toNat ≠ 1 := by
      rw [hr.sp, hsl]; exact ofNat_toNat_ne_one _ ha2 halt
    have s2 := Step.stai (env := K.env) (cfg (i + 1) w (mem.read 1) mem) io _ _ hat.tail.head hst hne1
    exact ⟨mem.read 1, Steps.step _ _ _ _ _ _ s1 (Steps.one s2)⟩

/-! ### Outcomes -/

/-! ### Assignment to an array element -/

theorem arrSet_glob (σ σ' : X.St) (id : Nat) (iv w : Word) (h : X.arrSet σ (.glob id) iv w = .ok σ') :
    ∃ cells, σ.arrays[id]? = some cells ∧ 0 ≤ iv.toInt ∧ iv.toInt < cells.size ∧
      σ' = { σ with arrays := σ.arrays.setIfInBounds id (cells.setIfInBounds iv.toInt.toNat (some w)) } := by
  unfold X.arrSet at h
  simp only at h
  cases hc : σ.arrays[id]? with
  | none => rw [hc] at h; simp at h
  | some cells =>
    rw [hc] at h
    simp only at h
    split at h
    · rename_i hb
      simp only [Except.ok.injEq] at h
      exact ⟨cells, rfl, hb.1, hb.2, h.symm⟩
    · simp at h

theorem cell_lt {cells : Array (Option Word)} {idx : Nat} {w : Word} (h : cells[idx]? = some (some w)) : idx < cells.size := by
  by_cases hlt : idx < cells.size
  · exact hlt
  · rw [Array.getElem?_eq_none (by omega)] at h; simp at h

/-- Storing the assigned value into the element's word re-establishes the representation. -/
theorem Rep.assignSub {K : PCtx} (wf : K.WF) {σ : X.St} {mem : Mem} {id : Nat} {iv w : Word}
    {cells : Array (Option Word)} (hr : Rep K σ mem) (hc : σ.arrays[id]? = some cells) (h0 : 0 ≤ iv.toInt)
    (h1 : iv.toInt < cells.size) :
    Rep K { σ with arrays := σ.arrays.setIfInBounds id (cells.setIfInBounds iv.toInt.toNat (some w)) }
      (mem.write (K.abase id + iv.toInt.toNat) w) := by
  obtain ⟨hsz, hcv⟩ := hr.acells id cells hc
  have hidx : iv.toInt.toNat < K.asize id := by omega
  have hz : K.asize id ≠ 0 := by omega
  obtain ⟨hhi, hmw⟩ := wf.arr_hi id hz
  have hin : K.inArr (K.abase id + iv.toInt.toNat) := ⟨id, Nat.le_add_right _ _, by omega⟩
  have hsp := wf.sp_ge
  have hother : ∀ a, ¬ K.inArr a → (mem.write (K.abase id + iv.toInt.toNat) w).read a = mem.read a := by
    intro a hna
    rw [Mem.read_write_other]
    intro e
    exact hna (e ▸ hin)
  have hlow : ∀ a, a ≤ K.sp + K.S → (mem.write (K.abase id + iv.toInt.toNat) w).read a = mem.read a :=
    fun a ha => hother a (wf.not_inArr a ha)
  exact {
    sp := by rw [hlow 1 (by omega)]; exact hr.sp
    vals := hr.vals
    vars := by
      intro n w' hn hrd
      obtain ⟨a, hloc, hlt, hv⟩ := hr.vars n w' hn hrd
      exact ⟨a, hloc, hlt, by rw [hother a (wf.loc_na n a hloc)]; exact hv⟩
    consts := by
      intro v l j k hm hd
      obtain ⟨j', k', hd', _, hlt⟩ := wf.const_lbl v l hm
      have hj : j = j' := by
        have e1 := labelIdx_of_nodup _ _ _ _ wf.nodup hd
        have e2 := labelIdx_of_nodup _ _ _ _ wf.nodup hd'
        rw [e1] at e2; simpa using e2
      subst hj
      rw [hlow _ (by omega)]
      exact hr.consts v l j k hm hd
    locs := hr.locs
    above := by
      intro a ha hna
      rw [hother a hna]
      exact hr.above a ha hna
    gvis := hr.gvis
    depth := hr.depth
    aptr := by
      intro n r hrd
      obtain ⟨a, hloc, hlt, hv⟩ := hr.aptr n r hrd
      exact ⟨a, hloc, hlt, by rw [hother a (wf.loc_na n a hloc)]; exact hv⟩
    acells := by
      intro id' cells' hc'
      have hc'' : (σ.arrays.setIfInBounds id (cells.setIfInBounds iv.toInt.toNat (some w)))[id']? = some cells' := hc'
      rw [Array.getElem?_setIfInBounds] at hc''
      by_cases hid : id = id'
      · subst hid
        rw [if_pos rfl] at hc''
        have hlt : id < σ.arrays.size := by
          by_cases hlt : id < σ.arrays.size
          · exact hlt
          · rw [Array.getElem?_eq_none (by omega)] at hc; simp at hc
        rw [if_pos hlt] at hc''
        simp only [Option.some.injEq] at hc''
        subst hc''
        refine ⟨by rw [Array.size_setIfInBounds]; exact hsz, fun idx w' hi => ?_⟩
        rw [Array.getElem?_setIfInBounds] at hi
        by_cases hix : iv.toInt.toNat = idx
        · subst hix
          rw [if_pos rfl, if_pos (by omega)] at hi
          simp only [Option.some.injEq] at hi
          subst hi
          exact Mem.read_write_same _ _ _ (by omega)
        · rw [if_neg hix] at hi
          have := cell_lt hi
          rw [Mem.read_write_other _ _ _ _ (by omega)]
          exact hcv idx w' hi
      · rw [if_neg hid] at hc''
        obtain ⟨hsz', hcv'⟩ := hr.acells id' cells' hc''
        refine ⟨hsz', fun idx w' hi => ?_⟩
        have hlt := cell_lt hi
        have hd := wf.arr_disj id id' hid hz (by omega)
        rw [Mem.read_write_other _ _ _ _ (by omega)]
        exact hcv' idx w' hi
    strs := by
      intro l bs ws j k hm hp hd idx hidx
      obtain ⟨j', k', hd', _, _, hlt⟩ := wf.str.lbl l bs ws hm hp
      have hj : j = j' := by
        have e1 := labelIdx_of_nodup _ _ _ _ wf.nodup hd
        have e2 := labelIdx_of_nodup _ _ _ _ wf.nodup hd'
        rw [e1] at e2; simpa using e2
      subst hj
      rw [hlow _ (by omega)]
      exact hr.strs l bs ws j k hm hp hd idx hidx }

/-- What the machine does for a statement whose execution has the result `r`: runs to `jEnd`
    (normal completion), to the procedure's exit label with the value in areg (`return`), or to the
    terminating system call. -/
def Out (K : PCtx) (exitJ : Nat) (c0 : Cfg) (io0 : Isa.IOSt) (r : Res Flow) (jEnd : Nat) : Prop :=
  match r with
  | .ok .normal σ' => ∃ a' b' mem', Steps K.env c0 io0 (cfg jEnd a' b' mem') σ'.io ∧ Rep K σ' mem'
  | .ok (.ret w) σ' => ∃ b' mem', Steps K.env c0 io0 (cfg exitJ w b' mem') σ'.io ∧ Rep K σ' mem'
  | .exit code σ' => ∃ c, Steps K.env c0 io0 c σ'.io ∧ Exit K.env c σ'.io code
  | .undef _ => True

theorem Out.pre {K : PCtx} {exitJ : Nat} {c00 c0 : Cfg} {io00 io0 : Isa.IOSt} {r : Res Flow} {j : Nat}
    (hs : Steps K.env c00 io00 c0 io0) (h : Out K exitJ c0 io0 r j) : Out K exitJ c00 io00 r j := by
  unfold Out at h ⊢
  cases r with
  | ok fl σ' =>
    cases fl with
    | normal => obtain ⟨a', b', mem', st, rep⟩ := h; exact ⟨a', b', mem', hs.trans st, rep⟩
    | ret w => obtain ⟨b', mem', st, rep⟩ := h; exact ⟨b', mem', hs.trans st, rep⟩
  | exit code σ' => obtain ⟨c, st, ex⟩ := h; exact ⟨c, hs.trans st, ex⟩
  | undef w => trivial

theorem Out.post {K : PCtx} {exitJ : Nat} {c0 : Cfg} {io0 : Isa.IOSt} {r : Res Flow} {j j' : Nat}
    (h : Out K exitJ c0 io0 r j)
    (hs : ∀ a b mem io, Steps K.env (cfg j a b mem) io (cfg j' a b mem) io) : Out K exitJ c0 io0 r j' := by
  unfold Out at h ⊢
  cases r with
  | ok fl σ' =>
    cases fl with
    | normal => obtain ⟨a', b', mem', st, rep⟩ := h; exact ⟨a', b', mem', st.trans (hs _ _ _ _), rep⟩
    | ret w => exact h
  | exit code σ' => exact h
  | undef w => trivial

/-- The triple of statement code. -/
def ExecS (K : PCtx) (exitJ : Nat) (s' : AStmt) (σ : X.St) (r : Res Flow) : Prop :=
  ∀ (gs : GS) (code : Code) (gs' : GS) (i : Nat) (a b : Word) (mem : Mem),
    genStmt K.ctx s' gs = .ok (code, gs') → At K.env.ds i (K.low code) → Rep K σ mem →
    gs'.size ≤ K.S → K.nlocals ≤ gs.offset → ConstsIn K gs' →
    Out K exitJ (cfg i a b mem) σ.io r (i + (K.low code).length)

def ExecSL (K : PCtx) (exitJ : Nat) (ss' : List AStmt) (σ : X.St) (r : Res Flow) : Prop :=
  ∀ (gs : GS) (code : Code) (gs' : GS) (i : Nat) (a b : Word) (mem : Mem),
    genStmts K.ctx ss' gs = .ok (code, gs') → At K.env.ds i (K.low code) → Rep K σ mem →
    gs'.size ≤ K.S → K.nlocals ≤ gs.offset → ConstsIn K gs' →
    Out K exitJ (cfg i a b mem) σ.io r (i + (K.low code).length)

/-- No `CallExpr` node anywhere in the tree. -/
def noCallA : AExpr → Bool
  | .num _ _ | .bool _ _ | .str _ | .name _ _ => true
  | .sub _ i => noCallA i
  | .call _ _ _ => false
  | .un _ e _ => noCallA e
  | .bin _ l r _ => noCallA l && noCallA r

theorem noCallA_containsCall : ∀ (t : AExpr), noCallA t = true → containsCall t = false
  | .num _ _, _ => by simp [containsCall]
  | .bool _ _, _ => by simp [containsCall]
  | .str _, _ => by simp [containsCall]
  | .name _ _, _ => by simp [containsCall]
  | .sub _ i, h => by simp only [noCallA] at h; simp [containsCall, noCallA_containsCall i h]
  | .call _ _ _, h => by simp [noCallA] at h
  | .un _ e c, h => by
    simp only [noCallA] at h
    simp only [containsCall, noCallA_containsCall e h]
    split <;> rfl
  | .bin _ l r c, h => by
    simp only [noCallA, Bool.and_eq_true] at h
    simp only [containsCall, noCallA_containsCall l h.1, noCallA_containsCall r h.2]
    split <;> rfl

theorem noCallA_opt : ∀ (t : AExpr), noCallA t = true → noCallA (optExpr t) = true
  | .num _ _, _ => by simp [optExpr, noCallA]
  | .bool _ _, _ => by simp [optExpr, noCallA]
  | .str _, _ => by simp [optExpr, noCallA]
  | .name _ _, _ => by simp [optExpr, noCallA]
  | .sub _ i, h => by simp only [noCallA] at h; simp [optExpr, noCallA, noCallA_opt i h]
  | .call _ _ _, h => by simp [noCallA] at h
  | .un op e c, h => by
    simp only [noCallA] at h
    have ih := noCallA_opt e h
    rw [optExpr_un]
    split <;> (split <;> simp [noCallA, h, ih])
  | .bin op l r c, h => by
    simp only [noCallA, Bool.and_eq_true] at h
    have ihl := noCallA_opt l h.1
    have ihr := noCallA_opt r h.2
    rw [optExpr_bin]
    have hl' : noCallA (if c.isSome = true then l else optExpr l) = true := by split <;> simp [h.1, ihl]
    have hr' : noCallA (if c.isSome = true then r else optExpr r) = true := by split <;> simp [h.2, ihr]
    cases op <;> simp [rewriteBin, noCallA, hl', hr']

theorem noCallA_annotate (ρ : String → Option Word) : ∀ (e : X.Expr), pureE e = true → noCallA (annotate ρ e) = true
  | .num _, _ => by simp [annotate, noCallA]
  | .bool _, _ => by simp [annotate, noCallA]
  | .name _, _ => by simp [annotate, noCallA]
  | .str _, _ => by simp [annotate, noCallA]
  | .sub _ i, h => by simp only [pureE] at h; simp [annotate, noCallA, noCallA_annotate ρ i h]
  | .call _ _, h => by simp [pureE] at h
  | .syscall _ _, h => by simp [pureE] at h
  | .un _ a, h => by simp only [pureE] at h; simp [annotate, noCallA, noCallA_annotate ρ a h]
  | .bin _ l r, h => by
    simp only [pureE, Bool.and_eq_true] at h
    simp [annotate, noCallA, noCallA_annotate ρ l h.1, noCallA_annotate ρ r h.2]

theorem pure_noCall (ρ : String → Option Word) (e : X.Expr) (h : pureE e = true) :
    containsCall (optExpr (annotate ρ e)) = false :=
  noCallA_containsCall _ (noCallA_opt _ (noCallA_annotate ρ e h))

theorem isSkip_iff (ρ : String → Option Word) (s : X.Stmt) : (optStmt (annotS ρ s)).isSkip = true ↔ s = .skip := by
  cases s <;> simp [annotS, optStmt, AStmt.isSkip]

end Hex.C01s
