import HexVerif.Lemmas.AsmLayout
import HexVerif.Lemmas.SimIsa
/-
  Helper lemmas for C10 (size bounds of lexer/parser output) and C15 (symbol table, lookup, trace line).
-/
namespace Hex.Asm
open Hex

theorem parse_length (ts : List LTok) : ∀ p, parseProgram ts = .ok p → p.length ≤ ts.length := by
  fun_induction parseProgram ts <;> intro p h
  all_goals first
    | (simp_all; done)
    | (simp only [Except.ok.injEq] at h; subst h
       simp only [List.length_cons, List.length_nil]
       first
         | omega
         | (have h1 := parseInteger_length ‹_›
            have h2 := ‹∀ p, _ → _› _ ‹_›
            omega)
         | (have h2 := ‹∀ p, _ → _› _ ‹_›
            omega))

def pending : Mode → Nat
  | .ident _ => 1
  | .number _ => 1
  | _ => 0

theorem flush_length (m : Mode) (s : LexSt) : (flush m s).1.length = pending m := by
  cases m <;> rfl

theorem lexGo_length : ∀ (cs : List Byte) (m : Mode) (s : LexSt),
    (lexGo cs m s).length ≤ cs.length + pending m + 1 := by
  intro cs
  induction cs with
  | nil => intro m s; simp [lexGo, flush_length]
  | cons c rest ih =>
    intro m s
    simp only [lexGo]
    repeat' split
    all_goals simp only [List.length_cons, List.length_append, flush_length, pending, List.length_nil]
    all_goals first
      | omega
      | exact Nat.le_trans (ih _ _) (by simp only [pending]; omega)
      | exact Nat.le_trans (Nat.add_le_add_right (ih _ _) 1) (by simp only [pending]; omega)
      | exact Nat.le_trans (Nat.add_le_add_left (ih _ _) 1) (by simp only [pending]; omega)
      | exact Nat.le_trans (Nat.add_le_add_left (Nat.add_le_add_right (ih _ _) 1) 1) (by simp only [pending]; omega)

end Hex.Asm

namespace Hex.Asm
open Hex

/-- The symbols `emitProgramBin` records: every FUNC/PROC label, in source order, with the running
    byte offset at which it was reached. -/
def symbolsOf : List Dir → List Nat → Nat → List (String × Nat)
  | [], _, _ => []
  | d :: rest, lens, pos =>
    match d with
    | .label kind name =>
      (if kind = .plain then [] else [(name, pos)]) ++ symbolsOf rest lens.tail pos
    | .data _ => symbolsOf rest lens.tail (align4 pos + 4)
    | .imm _ v => symbolsOf rest lens.tail (pos + instrLen v)
    | .ref _ _ _ => symbolsOf rest lens.tail (pos + lens.headD 0)
    | .opr _ => symbolsOf rest lens.tail (pos + 1)

theorem emit_debug : ∀ (dirs : List Dir) (lens : List Nat) (vals : List I32) (pos : Nat),
    (emitGo dirs lens vals pos).2 = symbolsOf dirs lens pos := by
  intro dirs
  induction dirs with
  | nil => intros; rfl
  | cons d rest ih =>
    intro lens vals pos
    cases d with
    | label kind name =>
      simp only [emitGo, symbolsOf, ih]
      by_cases h : kind = .plain <;> simp [h]
    | data v =>
      have : pos + (align4 pos - pos) + 4 = align4 pos + 4 := by have := align4_ge pos; omega
      simp only [emitGo, symbolsOf, ih, this]
    | imm o v => simp only [emitGo, symbolsOf, ih]
    | ref o n r => simp only [emitGo, symbolsOf, ih]
    | opr k => simp only [emitGo, symbolsOf, ih]

/-- Is the directive an instruction? -/
def Dir.isInstr : Dir → Bool
  | .imm _ _ => true | .ref _ _ _ => true | .opr _ => true | _ => false

/-- A FUNC/PROC label directly followed by an instruction is recorded with exactly the byte
    offset at which the walk over the image finds that instruction. -/
theorem symbol_is_first_instr (kind : LabelKind) (name : String) (d : Dir) (rest : List Dir)
    (lens : List Nat) (vals : List I32) (pos : Nat) (hk : kind ≠ .plain) (hd : d.isInstr = true) :
    (symbolsOf (.label kind name :: d :: rest) lens pos).head? = some (name, pos) ∧
    ((expected (d :: rest) lens.tail vals.tail pos).head?.map (·.start)) = some pos := by
  constructor
  · simp [symbolsOf, hk]
  · cases d <;> simp [Dir.isInstr] at hd <;> simp [expected]

/-- The recorded offsets never decrease (the table is "in ascending offsets"). -/
theorem symbolsOf_ge : ∀ (dirs : List Dir) (lens : List Nat) (pos : Nat) (e : String × Nat),
    e ∈ symbolsOf dirs lens pos → pos ≤ e.2 := by
  intro dirs
  induction dirs with
  | nil => intro _ _ e h; simp [symbolsOf] at h
  | cons d rest ih =>
    intro lens pos e h
    cases d with
    | label kind name =>
      simp only [symbolsOf, List.mem_append] at h
      rcases h with h | h
      · by_cases hk : kind = .plain
        · simp [hk] at h
        · simp [hk] at h; subst h; exact Nat.le_refl _
      · exact ih _ _ _ h
    | data v => simp only [symbolsOf] at h; have := ih _ _ _ h; have := align4_ge pos; omega
    | imm o v => simp only [symbolsOf] at h; have := ih _ _ _ h; omega
    | ref o n r => simp only [symbolsOf] at h; have := ih _ _ _ h; omega
    | opr k => simp only [symbolsOf] at h; have := ih _ _ _ h; omega

theorem symbolsOf_sorted : ∀ (dirs : List Dir) (lens : List Nat) (pos : Nat),
    (symbolsOf dirs lens pos).Pairwise (fun a b => a.2 ≤ b.2) := by
  intro dirs
  induction dirs with
  | nil => intros; simp [symbolsOf]
  | cons d rest ih =>
    intro lens pos
    cases d with
    | label kind name =>
      simp only [symbolsOf]
      by_cases hk : kind = .plain
      · simp [hk]; exact ih _ _
      · simp only [hk, if_false, List.singleton_append, List.pairwise_cons]
        exact ⟨fun e he => symbolsOf_ge _ _ _ e he, ih _ _⟩
    | data v => simp only [symbolsOf]; exact ih _ _
    | imm o v => simp only [symbolsOf]; exact ih _ _
    | ref o n r => simp only [symbolsOf]; exact ih _ _
    | opr k => simp only [symbolsOf]; exact ih _ _
end Hex.Asm

namespace Hex.Sim
open Hex

/-- Soundness of the linear scan in `lookupSymbol()`: the entry returned is the one whose offset
    is at or below the pc and whose successor's offset (if any) is above it. -/
theorem lookupSymbolAux_sound (pc : Word) : ∀ (tbl : List (String × Word)) (name : String),
    lookupSymbolAux pc tbl = some name →
    ∃ (i : Nat) (h : i < tbl.length), tbl[i].1 = name ∧ tbl[i].2.toNat ≤ pc.toNat ∧
      (∀ h' : i + 1 < tbl.length, pc.toNat < tbl[i + 1].2.toNat) := by
  intro tbl
  induction tbl with
  | nil => intro name h; simp [lookupSymbolAux] at h
  | cons e rest ih =>
    intro name h
    obtain ⟨n, off⟩ := e
    cases rest with
    | nil =>
      simp only [lookupSymbolAux] at h
      split at h
      · cases h; exact ⟨0, by simp, rfl, by simpa using ‹_›, by intro h'; simp at h'⟩
      · cases h
    | cons e2 rest2 =>
      obtain ⟨n', off'⟩ := e2
      simp only [lookupSymbolAux] at h
      split at h
      · rename_i hc
        cases h
        exact ⟨0, by simp, rfl, hc.1, by intro _; simpa using hc.2⟩
      · obtain ⟨i, hi, h1, h2, h3⟩ := ih name h
        refine ⟨i + 1, by simpa using hi, by simpa using h1, by simpa using h2, ?_⟩
        intro h'
        have := h3 (by simpa using h')
        simpa using this

/-- Completeness on a table in ascending offsets: any pc at or above the first offset gets a symbol. -/
theorem lookupSymbolAux_complete (pc : Word) : ∀ (tbl : List (String × Word)),
    tbl ≠ [] → (∀ e ∈ tbl.head?, e.2.toNat ≤ pc.toNat) → (lookupSymbolAux pc tbl).isSome = true := by
  intro tbl
  induction tbl with
  | nil => intro h; exact absurd rfl h
  | cons e rest ih =>
    intro _ hfirst
    obtain ⟨n, off⟩ := e
    have hoff : off.toNat ≤ pc.toNat := hfirst (n, off) (by simp)
    cases rest with
    | nil => simp [lookupSymbolAux, hoff]
    | cons e2 rest2 =>
      obtain ⟨n', off'⟩ := e2
      simp only [lookupSymbolAux]
      by_cases hlt : pc.toNat < off'.toNat
      · simp [hoff, hlt]
      · have : ¬ (pc.toNat ≥ off.toNat ∧ pc.toNat < off'.toNat) := by omega
        simp only [this, if_false]
        exact ih (by simp) (by intro e he; simp at he; subst he; simp; omega)

/-- **Trace line.** With tracing on, the line appended by one loop iteration reports the cycle
    count before the instruction, the address the byte was fetched from, the mnemonic of the
    byte's high nibble and its low nibble. -/
theorem traceLine_fetchDecode (p : Proc) (w : Word) :
    let byte : Word := (w >>> (((p.pc &&& 3) <<< 3).toNat)) &&& 0xFF
    (traceLine (fetchDecode p w)).cycles = p.cycles ∧
    (traceLine (fetchDecode p w)).pc = p.pc ∧
    (traceLine (fetchDecode p w)).mnemonic = instrEnumToStr (((byte >>> 4) &&& 0xF).toNat) ∧
    (traceLine (fetchDecode p w)).operand = (byte &&& 0xF).toNat := by
  simp [traceLine, fetchDecode]

end Hex.Sim

namespace Hex.Sim
open Hex

theorem stepBody_traceLog (p q : Proc) (w : Word) (ht : p.tracing = true)
    (hw : rd p.memory (p.pc >>> 2) = some w) (h : stepBody p = .ok q) :
    q.traceLog = traceLine (fetchDecode p w) :: p.traceLog := by
  unfold stepBody at h
  rw [hw] at h
  simp only at h
  have hf := exec_frame (traceHook (fetchDecode p w))
  rw [h] at hf
  simp only [Res.All, Frame] at hf
  obtain ⟨⟨_, _, _, _, htl, _, _⟩, _⟩ := hf
  rw [htl]
  simp [traceHook, fetchDecode, ht]

end Hex.Sim
