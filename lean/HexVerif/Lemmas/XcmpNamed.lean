import HexVerif.Xcmp.Compile
import HexVerif.Lemmas.XcmpNoLocalArr
/-!
  Which errors the compile stages can raise (C09).

  `CDiag.named e`: `e` stands for a C++ exception class (`unknownSymbol`, `redeclaredSymbol`,
  `nonConstArrayLength`, `nonConstVal`, `invalidSyscall`, `asm _`); the two remaining constructors
  (`asmFuel`, `unsupported`) are outcomes of the MODEL without a C++ counterpart.

  This file walks every stage of `Xcmp.stages` and shows that the only un-named error is the
  `unsupported` of `localDeclLocations` on a local array: `stages_named`.
-/
namespace Hex.Xcmp
open Hex.Asm (Dir)

def CDiag.named : CDiag → Bool
  | .asmFuel | .unsupported _ => false
  | _ => true

/-- A computation in `Except CDiag` fails only with named errors. -/
def NEx {α : Type} (x : Except CDiag α) : Prop := ∀ e, x = .error e → CDiag.named e = true

/-- A generator computation fails only with named errors. -/
structure NE {α : Type} (m : M α) : Prop where
  h : ∀ s e, m s = .error e → CDiag.named e = true

theorem NEx.ok {α : Type} (a : α) : NEx (.ok a : Except CDiag α) := fun _ h => by cases h
theorem NEx.pure {α : Type} (a : α) : NEx (pure a : Except CDiag α) := fun _ h => by cases h

theorem NEx.bind {α β : Type} {x : Except CDiag α} {f : α → Except CDiag β}
    (hx : NEx x) (hf : ∀ a, NEx (f a)) : NEx (x >>= f) := by
  intro e h
  cases x with
  | error e' =>
    have : e = e' := by cases h; rfl
    subst this
    exact hx e rfl
  | ok a => exact hf a e h

theorem NEx.ite {α : Type} {c : Prop} [Decidable c] {a b : Except CDiag α} (ha : NEx a) (hb : NEx b) :
    NEx (if c then a else b) := by split <;> assumption

theorem NE.pure {α : Type} (a : α) : NE (pure a : M α) := ⟨fun _ _ h => by cases h⟩

theorem NE.bind {α β : Type} {m : M α} {f : α → M β} (hm : NE m) (hf : ∀ a, NE (f a)) : NE (m >>= f) := by
  refine ⟨fun s e h => ?_⟩
  change StateT.bind m f s = _ at h
  unfold StateT.bind at h
  cases hms : m s with
  | error e' => rw [hms] at h; cases h; exact hm.h s _ hms
  | ok p => rw [hms] at h; exact (hf p.1).h p.2 e h

theorem NE.ite {α : Type} {c : Prop} [Decidable c] {a b : M α} (ha : NE a) (hb : NE b) :
    NE (if c then a else b) := by split <;> assumption

theorem NE.get : NE (get : M GS) := ⟨fun _ _ h => by cases h⟩
theorem NE.set (s : GS) : NE (set s : M PUnit) := ⟨fun _ _ h => by cases h⟩
theorem NE.modify (f : GS → GS) : NE (modify f : M PUnit) := ⟨fun _ _ h => by cases h⟩
theorem NE.modifyGet {α : Type} (f : GS → α × GS) : NE (modifyGet f : M α) := ⟨fun _ _ h => by cases h⟩

theorem NE.lift {α : Type} {x : Except CDiag α} (hx : NEx x) : NE (liftM x : M α) := by
  refine ⟨fun s e h => ?_⟩
  cases x with
  | error e' =>
    have : e = e' := by cases h; rfl
    subst this
    exact hx e rfl
  | ok a => cases h

/-- `ne_step`: one structural step of a "named errors only" goal. -/
macro "ne_step" : tactic =>
  `(tactic| first
    | exact NE.pure _ | exact NE.get | exact NE.set _ | exact NE.modify _ | exact NE.modifyGet _
    | apply NE.bind | apply NE.ite | (intro _) | assumption)

theorem lookup_nex (t : SymTab) (scope name : String) : NEx (t.lookup scope name) := by
  intro e h
  unfold SymTab.lookup at h
  split at h
  · cases h
  · split at h
    · split at h
      · cases h
      · cases h; rfl
    · cases h; rfl

theorem insert_nex (t : SymTab) (k : SymKey) (s : Symbol) : NEx (t.insert k s) := by
  intro e h
  unfold SymTab.insert at h
  split at h
  · cases h; rfl
  · cases h

theorem NE.lookup (t : SymTab) (scope name : String) : NE (liftM (t.lookup scope name) : M Symbol) :=
  NE.lift (lookup_nex t scope name)

/-! ### Helpers of the generator -/

theorem getLabel_ne : NE getLabel := NE.modifyGet _
theorem getOffset_ne : NE getOffset := by unfold getOffset; repeat ne_step
theorem incOffset_ne (n : Nat) : NE (incOffset n) := NE.modify _
theorem decOffset_ne (n : Nat) : NE (decOffset n) := NE.modify _
theorem setOffset_ne (n : Nat) : NE (setOffset n) := NE.modify _
theorem getSize_ne : NE getSize := by unfold getSize; repeat ne_step
theorem setSize_ne (n : Nat) : NE (setSize n) := NE.modify _
theorem addData_ne (ds : List Dir) : NE (addData ds) := NE.modify _

theorem incOffsetN_ne : ∀ n, NE (incOffsetN n)
  | 0 => NE.pure _
  | n + 1 => by unfold incOffsetN; exact NE.bind (incOffset_ne 1) (fun _ => incOffsetN_ne n)

theorem genConstPool_ne (v : Int) : NE (genConstPool v) := by
  unfold genConstPool
  apply NE.bind NE.get
  intro s
  split
  · exact NE.pure _
  · exact NE.bind (NE.set _) (fun _ => NE.pure _)

theorem genConst_ne (reg : Reg) (v : CInt) : NE (genConst reg v) := by
  unfold genConst
  apply NE.ite
  · exact NE.pure _
  · exact NE.bind (genConstPool_ne _) (fun _ => NE.pure _)

theorem genString_ne (reg : Reg) (bs : List Byte) : NE (genString reg bs) := by
  unfold genString
  apply NE.bind NE.get
  intro s
  apply NE.bind (NE.set _)
  intro _
  split <;> exact NE.pure _

theorem binopOperands_ne (ctx : Ctx) (b : Bool) {gl gra grb : M Code} (hl : NE gl) (hra : NE gra) (hrb : NE grb) :
    NE (binopOperands ctx b gl gra grb) := by
  unfold binopOperands
  apply NE.ite
  · apply NE.bind getOffset_ne; intro _
    apply NE.bind hra; intro _
    apply NE.bind getOffset_ne; intro _
    apply NE.bind (incOffset_ne 1); intro _
    apply NE.bind hl; intro _
    apply NE.bind (setOffset_ne _); intro _
    exact NE.pure _
  · apply NE.bind hl; intro _
    apply NE.bind hrb; intro _
    exact NE.pure _

theorem eqOperand_ne (lz rz : Bool) {gl gr go : M Code} (hl : NE gl) (hr : NE gr) (ho : NE go) :
    NE (eqOperand lz rz gl gr go) := by
  unfold eqOperand
  apply NE.ite hr
  apply NE.ite hl
  exact NE.bind ho (fun _ => NE.pure _)

theorem callTailM_ne (kind : CallKind) : NE (callTailM kind) := by
  unfold callTailM
  split
  · exact NE.pure _
  · exact NE.bind getLabel_ne (fun _ => NE.pure _)
  · exact NE.bind getLabel_ne (fun _ => NE.pure _)

theorem exprCallKind_ne (ctx : Ctx) (sys : Int) (f : String) : NE (exprCallKind ctx sys f) := by
  unfold exprCallKind
  apply NE.ite (NE.pure _)
  exact NE.bind (NE.lookup _ _ _) (fun _ => NE.pure _)

theorem callSeq_ne (kind : CallKind) (nargs ncalls : Nat) {actuals : M Code} {load : Nat → Nat → M Code}
    (ha : NE actuals) (hl : ∀ p s, NE (load p s)) : NE (callSeq kind nargs ncalls actuals load) := by
  unfold callSeq
  apply NE.bind getOffset_ne; intro _
  apply NE.bind getSize_ne; intro _
  apply NE.bind (setSize_ne _); intro _
  apply NE.bind ha; intro _
  apply NE.bind (setOffset_ne _); intro _
  apply NE.bind getOffset_ne; intro _
  apply NE.bind (incOffsetN_ne _); intro _
  apply NE.bind (hl _ _); intro _
  apply NE.bind getSize_ne; intro _
  apply NE.bind (setSize_ne _); intro _
  apply NE.bind (setOffset_ne _); intro _
  apply NE.bind (incOffset_ne _); intro _
  apply NE.bind (callTailM_ne _); intro _
  apply NE.bind (setOffset_ne _); intro _
  exact NE.pure _

/-- **Expressions**: the generator fails only with `unknownSymbol`. -/
theorem genExpr_ne (ctx : Ctx) (e : AExpr) (reg : Reg) : NE (genExpr ctx e reg) := by
  apply genExpr.induct
    (motive_1 := fun e reg => NE (genExpr ctx e reg))
    (motive_2 := fun args p s => NE (loadActuals ctx args p s))
    (motive_3 := fun args => NE (genCallActuals ctx args))
  -- num, bool, str, name
  · intros; unfold genExpr; exact genConst_ne _ _
  · intros; unfold genExpr; exact genConst_ne _ _
  · intros; unfold genExpr; exact genString_ne _ _
  · intros; unfold genExpr; exact genConst_ne _ _
  · intros; unfold genExpr; exact NE.bind (NE.lookup _ _ _) (fun _ => NE.pure _)
  -- sub
  · intro n i x ih
    unfold genExpr
    apply NE.bind (NE.lookup _ _ _); intro _
    split
    · exact NE.pure _
    · exact NE.bind ih (fun _ => NE.pure _)
  -- call
  · intro sys f args x ih3 ih2
    unfold genExpr
    apply NE.bind (exprCallKind_ne _ _ _); intro _
    exact callSeq_ne _ _ _ ih3 ih2
  -- un
  · intros; unfold genExpr; exact genConst_ne _ _
  · intro e reg ih
    unfold genExpr
    apply NE.bind getLabel_ne; intro _
    apply NE.bind getLabel_ne; intro _
    exact NE.bind ih (fun _ => NE.pure _)
  · intros; unfold genExpr; exact NE.pure _
  -- bin
  · intros; unfold genExpr; exact genConst_ne _ _
  · intro l r reg ihl ihra ihrb
    unfold genExpr
    exact NE.bind (binopOperands_ne _ _ ihl ihra ihrb) (fun _ => NE.pure _)
  · intro l r reg ihl ihra ihrb
    unfold genExpr
    exact NE.bind (binopOperands_ne _ _ ihl ihra ihrb) (fun _ => NE.pure _)
  · intro l r reg ihl ihr
    unfold genExpr
    apply NE.bind getLabel_ne; intro _
    apply NE.bind ihl; intro _
    exact NE.bind ihr (fun _ => NE.pure _)
  · intro l r reg ihl ihr
    unfold genExpr
    apply NE.bind getLabel_ne; intro _
    apply NE.bind getLabel_ne; intro _
    apply NE.bind ihl; intro _
    exact NE.bind ihr (fun _ => NE.pure _)
  · intro l r reg ihl ihra ihrb
    unfold genExpr
    apply NE.bind (eqOperand_ne _ _ ihl ihra (binopOperands_ne _ _ ihl ihra ihrb)); intro _
    apply NE.bind getLabel_ne; intro _
    exact NE.bind getLabel_ne (fun _ => NE.pure _)
  · intro l r reg ihl ihra ihrb
    unfold genExpr
    apply NE.bind (eqOperand_ne _ _ ihl ihra (binopOperands_ne _ _ ihl ihra ihrb)); intro _
    apply NE.bind getLabel_ne; intro _
    exact NE.bind getLabel_ne (fun _ => NE.pure _)
  · intro op l r reg h1 h2 h3 h4 h5 h6
    unfold genExpr
    cases op <;> first | exact NE.pure _ | (exfalso; first | exact h1 rfl | exact h2 rfl | exact h3 rfl | exact h4 rfl | exact h5 rfl | exact h6 rfl)
  -- loadActuals
  · intros; unfold loadActuals; exact NE.pure _
  · intro arg rest p s h ih
    unfold loadActuals
    rw [if_pos h]
    exact NE.bind ih (fun _ => NE.pure _)
  · intro arg rest p s h ihe ih
    unfold loadActuals
    rw [if_neg h]
    apply NE.bind ihe; intro _
    exact NE.bind ih (fun _ => NE.pure _)
  -- genCallActuals
  · unfold genCallActuals; exact NE.pure _
  · intro a as h ihe ih
    unfold genCallActuals
    rw [if_pos h]
    apply NE.bind ihe; intro _
    apply NE.bind getOffset_ne; intro _
    apply NE.bind (incOffset_ne 1); intro _
    exact NE.bind ih (fun _ => NE.pure _)
  · intro a as h ih
    unfold genCallActuals
    rw [if_neg h]
    exact ih

theorem genCallActuals_ne (ctx : Ctx) : ∀ args, NE (genCallActuals ctx args)
  | [] => by unfold genCallActuals; exact NE.pure _
  | a :: as => by
    unfold genCallActuals
    apply NE.ite
    · apply NE.bind (genExpr_ne ctx a .A); intro _
      apply NE.bind getOffset_ne; intro _
      apply NE.bind (incOffset_ne 1); intro _
      exact NE.bind (genCallActuals_ne ctx as) (fun _ => NE.pure _)
    · exact genCallActuals_ne ctx as

theorem loadActuals_ne (ctx : Ctx) : ∀ args p s, NE (loadActuals ctx args p s)
  | [], _, _ => by unfold loadActuals; exact NE.pure _
  | a :: as, p, s => by
    unfold loadActuals
    apply NE.ite
    · exact NE.bind (loadActuals_ne ctx as _ _) (fun _ => NE.pure _)
    · apply NE.bind (genExpr_ne ctx a .A); intro _
      exact NE.bind (loadActuals_ne ctx as _ _) (fun _ => NE.pure _)

/-- **Statements**: the generator fails only with `unknownSymbol`. -/
theorem genStmt_ne (ctx : Ctx) (st : AStmt) : NE (genStmt ctx st) := by
  apply genStmt.induct
    (motive_1 := fun st => NE (genStmt ctx st))
    (motive_2 := fun ss => NE (genStmts ctx ss))
  · unfold genStmt; exact NE.pure _
  · unfold genStmt; exact NE.pure _
  · intro e; unfold genStmt; exact NE.bind (genExpr_ne ctx e .A) (fun _ => NE.pure _)
  · intro c t e h1 h2; unfold genStmt; rw [if_pos h1, if_pos h2]; exact genExpr_ne ctx c .A
  · intro c t e h1 h2; unfold genStmt; rw [if_pos h1, if_neg h2]; exact NE.pure _
  · intro c t e h1 h2 iht
    unfold genStmt; rw [if_neg h1, if_pos h2]
    apply NE.bind getLabel_ne; intro _
    apply NE.bind (genExpr_ne ctx c .A); intro _
    exact NE.bind iht (fun _ => NE.pure _)
  · intro c t e h1 h2 h3 ihe
    unfold genStmt; rw [if_neg h1, if_neg h2, if_pos h3]
    apply NE.bind getLabel_ne; intro _
    apply NE.bind getLabel_ne; intro _
    apply NE.bind (genExpr_ne ctx c .A); intro _
    exact NE.bind ihe (fun _ => NE.pure _)
  · intro c t e h1 h2 h3 iht ihe
    unfold genStmt; rw [if_neg h1, if_neg h2, if_neg h3]
    apply NE.bind getLabel_ne; intro _
    apply NE.bind getLabel_ne; intro _
    apply NE.bind (genExpr_ne ctx c .A); intro _
    apply NE.bind iht; intro _
    exact NE.bind ihe (fun _ => NE.pure _)
  · intro c b ih
    unfold genStmt
    apply NE.bind getLabel_ne; intro _
    apply NE.bind getLabel_ne; intro _
    apply NE.bind (genExpr_ne ctx c .A); intro _
    exact NE.bind ih (fun _ => NE.pure _)
  · intro ss ih; unfold genStmt; exact ih
  · intro n e
    unfold genStmt
    apply NE.bind (genExpr_ne ctx e .A); intro _
    apply NE.bind (NE.lookup _ _ _); intro _
    apply NE.ite <;> exact NE.pure _
  · intro n i e
    unfold genStmt
    apply NE.bind (genExpr_ne ctx i .A); intro _
    apply NE.bind (NE.lookup _ _ _); intro _
    apply NE.bind getOffset_ne; intro _
    apply NE.bind (incOffset_ne 1); intro _
    apply NE.bind (genExpr_ne ctx e .A); intro _
    apply NE.bind (decOffset_ne 1); intro _
    exact NE.pure _
  · intro sys f args
    unfold genStmt
    exact callSeq_ne _ _ _ (genCallActuals_ne ctx args) (fun p s => loadActuals_ne ctx args p s)
  · unfold genStmts; exact NE.pure _
  · intro s ss ih1 ih2
    unfold genStmts
    apply NE.bind ih1; intro _
    exact NE.bind ih2 (fun _ => NE.pure _)

/-! ### CreateSymbols -/

theorem createGlobalsJ_nex (j : Int) : ∀ ds i t, NEx (createGlobalsJ j ds i t)
  | [], _, _ => by unfold createGlobalsJ; exact NEx.ok _
  | d :: ds, i, t => by
    unfold createGlobalsJ
    exact NEx.bind (insert_nex _ _ _) (fun _ => createGlobalsJ_nex j ds _ _)

theorem createFormalsJ_nex (j : Int) (p : Nat) (scope : String) : ∀ fs i t, NEx (createFormalsJ j p scope fs i t)
  | [], _, _ => by unfold createFormalsJ; exact NEx.ok _
  | f :: fs, i, t => by
    unfold createFormalsJ
    exact NEx.bind (insert_nex _ _ _) (fun _ => createFormalsJ_nex j p scope fs _ _)

theorem createLocalsJ_nex (j : Int) (p : Nat) (scope : String) : ∀ ds i t, NEx (createLocalsJ j p scope ds i t)
  | [], _, _ => by unfold createLocalsJ; exact NEx.ok _
  | d :: ds, i, t => by
    unfold createLocalsJ
    exact NEx.bind (insert_nex _ _ _) (fun _ => createLocalsJ_nex j p scope ds _ _)

theorem createProcsJ_nex (j : Int) : ∀ ps i t, NEx (createProcsJ j ps i t)
  | [], _, _ => by unfold createProcsJ; exact NEx.ok _
  | p :: ps, i, t => by
    unfold createProcsJ
    apply NEx.bind (insert_nex _ _ _); intro _
    apply NEx.bind (createFormalsJ_nex _ _ _ _ _ _); intro _
    apply NEx.bind (createLocalsJ_nex _ _ _ _ _ _); intro _
    exact createProcsJ_nex j ps _ _

theorem createSymbolsJ_nex (j : Int) (P : X.Program) : NEx (createSymbolsJ j P) := by
  unfold createSymbolsJ
  exact NEx.bind (createGlobalsJ_nex _ _ _ _) (fun _ => createProcsJ_nex _ _ _ _)

/-! ### ConstProp -/

theorem lookupVal_nex (tbl : SymTab) (st : CPState) (scope name : String) : NEx (lookupVal tbl st scope name) := by
  unfold lookupVal
  apply NEx.bind (lookup_nex _ _ _); intro sym
  have jp : ∀ sym : Symbol, NEx (if sym.isValDecl = true then
        match List.find? (fun e => decide (e.fst = sym.node)) st.known with
        | some e => (pure (some e.snd) : Except CDiag (Option CInt))
        | none => pure none
      else pure none) := by
    intro sym
    apply NEx.ite
    · split <;> exact NEx.pure _
    · exact NEx.pure _
  dsimp only
  apply NEx.ite
  · exact NEx.bind (lookup_nex _ _ _) jp
  · exact NEx.bind (NEx.pure _) jp

theorem cpCall_nex (tbl : SymTab) (st : CPState) (scope : String) (sys : Int) (f : String) :
    NEx (cpCall tbl st scope sys f) := by
  unfold cpCall
  have jp : ∀ sys' : Option Int, NEx (match sys' with
      | none => (pure sys : Except CDiag Int)
      | some id => if id ≥ 3 ∨ id < 0 then throw (CDiag.invalidSyscall id) else pure id) := by
    intro o
    split
    · exact NEx.pure _
    · apply NEx.ite
      · intro e h; cases h; rfl
      · exact NEx.pure _
  dsimp only
  apply NEx.ite
  · apply NEx.bind (lookupVal_nex _ _ _ _); intro o
    split
    · exact NEx.bind (NEx.pure _) jp
    · exact NEx.bind (NEx.pure _) jp
  · exact NEx.bind (NEx.pure _) jp

theorem cpExpr_nex (tbl : SymTab) (st : CPState) (scope : String) (e : X.Expr) : NEx (cpExpr tbl st scope e) := by
  apply cpExpr.induct
    (motive_1 := fun e => NEx (cpExpr tbl st scope e))
    (motive_2 := fun es => NEx (cpArgs tbl st scope es))
  · intros; unfold cpExpr; exact NEx.pure _
  · intros; unfold cpExpr; exact NEx.pure _
  · intros; unfold cpExpr; exact NEx.pure _
  · intros; unfold cpExpr; exact NEx.bind (lookupVal_nex _ _ _ _) (fun _ => NEx.pure _)
  · intro n i ih; unfold cpExpr; exact NEx.bind ih (fun _ => NEx.pure _)
  · intro f args ih; unfold cpExpr
    apply NEx.bind ih; intro _
    exact NEx.bind (cpCall_nex _ _ _ _ _) (fun _ => NEx.pure _)
  · intro id args ih; unfold cpExpr
    apply NEx.bind ih; intro _
    exact NEx.bind (cpCall_nex _ _ _ _ _) (fun _ => NEx.pure _)
  · intro op e ih; unfold cpExpr; exact NEx.bind ih (fun _ => NEx.pure _)
  · intro op l r ihl ihr; unfold cpExpr
    apply NEx.bind ihl; intro _
    exact NEx.bind ihr (fun _ => NEx.pure _)
  · unfold cpArgs; exact NEx.pure _
  · intro e es ih1 ih2; unfold cpArgs
    apply NEx.bind ih1; intro _
    exact NEx.bind ih2 (fun _ => NEx.pure _)

theorem cpArgs_nex (tbl : SymTab) (st : CPState) (scope : String) : ∀ es, NEx (cpArgs tbl st scope es)
  | [] => by unfold cpArgs; exact NEx.pure _
  | e :: es => by
    unfold cpArgs
    apply NEx.bind (cpExpr_nex _ _ _ e); intro _
    exact NEx.bind (cpArgs_nex tbl st scope es) (fun _ => NEx.pure _)

theorem cpStmt_nex (tbl : SymTab) (st : CPState) (scope : String) (s : X.Stmt) : NEx (cpStmt tbl st scope s) := by
  apply cpStmt.induct
    (motive_1 := fun s => NEx (cpStmt tbl st scope s))
    (motive_2 := fun ss => NEx (cpStmts tbl st scope ss))
  · unfold cpStmt; exact NEx.pure _
  · unfold cpStmt; exact NEx.pure _
  · intro e; unfold cpStmt; exact NEx.bind (cpExpr_nex _ _ _ e) (fun _ => NEx.pure _)
  · intro c t e iht ihe; unfold cpStmt
    apply NEx.bind (cpExpr_nex _ _ _ c); intro _
    apply NEx.bind iht; intro _
    exact NEx.bind ihe (fun _ => NEx.pure _)
  · intro c b ih; unfold cpStmt
    apply NEx.bind (cpExpr_nex _ _ _ c); intro _
    exact NEx.bind ih (fun _ => NEx.pure _)
  · intro ss ih; unfold cpStmt; exact NEx.bind ih (fun _ => NEx.pure _)
  · intro n e; unfold cpStmt
    apply NEx.bind (lookupVal_nex _ _ _ _); intro _
    exact NEx.bind (cpExpr_nex _ _ _ e) (fun _ => NEx.pure _)
  · intro n i e; unfold cpStmt
    apply NEx.bind (cpExpr_nex _ _ _ i); intro _
    exact NEx.bind (cpExpr_nex _ _ _ e) (fun _ => NEx.pure _)
  · intro f args; unfold cpStmt
    apply NEx.bind (cpArgs_nex _ _ _ args); intro _
    exact NEx.bind (cpCall_nex _ _ _ _ _) (fun _ => NEx.pure _)
  · intro id args; unfold cpStmt
    apply NEx.bind (cpArgs_nex _ _ _ args); intro _
    exact NEx.bind (cpCall_nex _ _ _ _ _) (fun _ => NEx.pure _)
  · unfold cpStmts; exact NEx.pure _
  · intro s ss ih1 ih2; unfold cpStmts
    apply NEx.bind ih1; intro _
    exact NEx.bind ih2 (fun _ => NEx.pure _)

def aDeclIsArr : ADecl → Bool
  | .array _ _ => true
  | _ => false

theorem cpDecls_nex (tbl : SymTab) (scope : String) (mk : Nat → NodeRef) :
    ∀ ds i st, NEx (cpDecls tbl scope mk ds i st)
  | [], _, _ => by unfold cpDecls; exact NEx.pure _
  | d :: ds, i, st => by
    unfold cpDecls
    cases d with
    | val n e =>
      dsimp only
      apply NEx.bind (cpExpr_nex _ _ _ e); intro e'
      split
      · apply NEx.bind
        · intro x h; cases h; rfl
        · intro p; exact NEx.bind (cpDecls_nex tbl scope mk ds _ _) (fun _ => NEx.pure _)
      · apply NEx.bind (NEx.pure _); intro p
        exact NEx.bind (cpDecls_nex tbl scope mk ds _ _) (fun _ => NEx.pure _)
    | var n =>
      dsimp only
      apply NEx.bind (NEx.pure _); intro p
      exact NEx.bind (cpDecls_nex tbl scope mk ds _ _) (fun _ => NEx.pure _)
    | array n e =>
      dsimp only
      apply NEx.bind (cpExpr_nex _ _ _ e); intro e'
      apply NEx.bind (NEx.pure _); intro p
      exact NEx.bind (cpDecls_nex tbl scope mk ds _ _) (fun _ => NEx.pure _)

theorem ok_bindE {α β : Type} {x : Except CDiag α} {f : α → Except CDiag β} {b : β}
    (h : x >>= f = .ok b) : ∃ a, x = .ok a ∧ f a = .ok b := by
  cases x with
  | error e => cases h
  | ok a => exact ⟨a, rfl, h⟩

theorem ok_pureE {α : Type} {a b : α} (h : (pure a : Except CDiag α) = .ok b) : b = a := by
  cases h; rfl

/-- Constant propagation keeps the kind of every declaration. -/
theorem cpDecls_kinds (tbl : SymTab) (scope : String) (mk : Nat → NodeRef) :
    ∀ ds i st ds' st', cpDecls tbl scope mk ds i st = .ok (ds', st') → ds'.map aDeclIsArr = ds.map declIsArr
  | [], _, _, ds', st', h => by
    unfold cpDecls at h
    cases h; rfl
  | d :: ds, i, st, ds', st', h => by
    unfold cpDecls at h
    cases d with
    | val n e =>
      dsimp only at h
      obtain ⟨e', _, h⟩ := ok_bindE h
      split at h
      · obtain ⟨_, hc, _⟩ := ok_bindE h; cases hc
      · obtain ⟨p, hp, h⟩ := ok_bindE h
        have := ok_pureE hp; subst this
        obtain ⟨q, hq, h⟩ := ok_bindE h
        have := ok_pureE h
        injection this with h1 h2
        subst h1
        have ih := cpDecls_kinds tbl scope mk ds _ _ q.1 q.2 hq
        simp [aDeclIsArr, declIsArr, ih]
    | var n =>
      dsimp only at h
      obtain ⟨p, hp, h⟩ := ok_bindE h
      have := ok_pureE hp; subst this
      obtain ⟨q, hq, h⟩ := ok_bindE h
      have := ok_pureE h
      injection this with h1 h2
      subst h1
      have ih := cpDecls_kinds tbl scope mk ds _ _ q.1 q.2 hq
      simp [aDeclIsArr, declIsArr, ih]
    | array n e =>
      dsimp only at h
      obtain ⟨e', _, h⟩ := ok_bindE h
      obtain ⟨p, hp, h⟩ := ok_bindE h
      have := ok_pureE hp; subst this
      obtain ⟨q, hq, h⟩ := ok_bindE h
      have := ok_pureE h
      injection this with h1 h2
      subst h1
      have ih := cpDecls_kinds tbl scope mk ds _ _ q.1 q.2 hq
      simp [aDeclIsArr, declIsArr, ih]

def ANoLocalArr (ps : List AProc) : Prop := ∀ p ∈ ps, ∀ d ∈ p.locals, aDeclIsArr d = false

theorem noArr_of_map {ds : List X.Decl} {ds' : List ADecl} (hm : ds'.map aDeclIsArr = ds.map declIsArr)
    (h : ∀ d ∈ ds, declIsArr d = false) : ∀ d ∈ ds', aDeclIsArr d = false := by
  intro d hd
  have h1 : aDeclIsArr d ∈ ds'.map aDeclIsArr := List.mem_map_of_mem hd
  rw [hm] at h1
  obtain ⟨x, hx, hxe⟩ := List.mem_map.mp h1
  rw [← hxe]; exact h x hx

theorem cpProcs_nex (tbl : SymTab) : ∀ ps i st, NEx (cpProcs tbl ps i st)
  | [], _, _ => by unfold cpProcs; exact NEx.pure _
  | p :: ps, i, st => by
    unfold cpProcs
    dsimp only
    apply NEx.bind (cpDecls_nex _ _ _ _ _ _); intro _
    apply NEx.bind (cpStmt_nex _ _ _ _); intro _
    exact NEx.bind (cpProcs_nex tbl ps _ _) (fun _ => NEx.pure _)

theorem cpProcs_noArr (tbl : SymTab) : ∀ ps i st ps', cpProcs tbl ps i st = .ok ps' →
    (∀ p ∈ ps, ∀ d ∈ p.locals, declIsArr d = false) → ANoLocalArr ps'
  | [], _, _, ps', h, _ => by
    unfold cpProcs at h
    cases h
    intro p hp; cases hp
  | p :: ps, i, st, ps', h, hna => by
    unfold cpProcs at h
    dsimp only at h
    obtain ⟨q, hq, h⟩ := ok_bindE h
    obtain ⟨body, _, h⟩ := ok_bindE h
    obtain ⟨rest, hr, h⟩ := ok_bindE h
    have := ok_pureE h
    subst this
    intro x hx
    rcases List.mem_cons.mp hx with rfl | hx
    · exact noArr_of_map (cpDecls_kinds _ _ _ _ _ _ q.1 q.2 hq) (hna p (List.mem_cons_self ..))
    · exact cpProcs_noArr tbl ps _ _ rest hr (fun p' hp' => hna p' (List.mem_cons_of_mem _ hp')) x hx

theorem constProp_nex (tbl : SymTab) (P : X.Program) : NEx (constProp tbl P) := by
  unfold constProp
  apply NEx.bind (cpDecls_nex _ _ _ _ _ _); intro _
  exact NEx.bind (cpProcs_nex _ _ _ _) (fun _ => NEx.pure _)

theorem constProp_noArr (tbl : SymTab) (P : X.Program) (A : AProgram) (h : constProp tbl P = .ok A)
    (hna : NoLocalArr P) : ANoLocalArr A.procs := by
  unfold constProp at h
  obtain ⟨g, _, h⟩ := ok_bindE h
  obtain ⟨procs, hp, h⟩ := ok_bindE h
  have := ok_pureE h
  subst this
  exact cpProcs_noArr tbl _ _ _ procs hp hna

theorem optDecl_kind (d : ADecl) : aDeclIsArr (optDecl d) = aDeclIsArr d := by
  cases d <;> rfl

theorem optimise_noArr (A : AProgram) (h : ANoLocalArr A.procs) : ANoLocalArr (optimise A).procs := by
  intro p hp d hd
  unfold optimise at hp
  obtain ⟨p0, hp0, rfl⟩ := List.mem_map.mp hp
  unfold optProc at hd
  obtain ⟨d0, hd0, rfl⟩ := List.mem_map.mp hd
  rw [optDecl_kind]
  exact h p0 hp0 d0 hd0

/-! ### CodeGen -/

theorem cgGlobals_nex : ∀ ds st, NEx (cgGlobals ds st)
  | [], _ => by unfold cgGlobals; exact NEx.pure _
  | d :: ds, st => by
    unfold cgGlobals
    cases d with
    | val n e => exact cgGlobals_nex ds st
    | var n =>
      dsimp only
      exact NEx.bind (lookup_nex _ _ _) (fun _ => cgGlobals_nex ds _)
    | array n e =>
      dsimp only
      apply NEx.bind (lookup_nex _ _ _); intro _
      apply NEx.bind
      · unfold arraySize; split
        · exact NEx.ok _
        · intro x h; cases h; rfl
      · intro _; exact cgGlobals_nex ds _

theorem localDeclLocations_nex (scope : String) (frame : Nat) :
    ∀ ds count tbl, (∀ d ∈ ds, aDeclIsArr d = false) → NEx (localDeclLocations scope frame ds count tbl)
  | [], _, _, _ => by unfold localDeclLocations; exact NEx.pure _
  | d :: ds, count, tbl, h => by
    unfold localDeclLocations
    cases d with
    | array n e => have := h _ (List.mem_cons_self ..); simp [aDeclIsArr] at this
    | val n e => exact localDeclLocations_nex scope frame ds _ _ (fun d hd => h d (List.mem_cons_of_mem _ hd))
    | var n => exact localDeclLocations_nex scope frame ds _ _ (fun d hd => h d (List.mem_cons_of_mem _ hd))

theorem NE.run {α : Type} {m : M α} (h : NE m) (s : GS) : NEx (m.run s) := fun e he => h.h s e he

theorem cgProc_nex (i : Nat) (p : AProc) (st : CGState) (hna : ∀ d ∈ p.locals, aDeclIsArr d = false) :
    NEx (cgProc i p st) := by
  unfold cgProc
  dsimp only
  apply NEx.bind (lookup_nex _ _ _); intro _
  apply NEx.bind (localDeclLocations_nex _ _ _ _ _ hna); intro _
  apply NEx.bind ((genStmt_ne _ _).run _); intro _
  exact NEx.pure _

theorem cgProcs_nex : ∀ ps i st, ANoLocalArr ps → NEx (cgProcs ps i st)
  | [], _, _, _ => by unfold cgProcs; exact NEx.pure _
  | p :: ps, i, st, h => by
    unfold cgProcs
    apply NEx.bind (cgProc_nex _ _ _ (h p (List.mem_cons_self ..))); intro _
    exact cgProcs_nex ps _ _ (fun q hq => h q (List.mem_cons_of_mem _ hq))

theorem codeGen_nex (tbl : SymTab) (A : AProgram) (h : ANoLocalArr A.procs) : NEx (codeGen tbl A) := by
  unfold codeGen
  dsimp only
  apply NEx.bind (cgGlobals_nex _ _); intro _
  apply NEx.bind (cgProcs_nex _ _ _ h); intro _
  exact NEx.pure _

/-- **The stages before the assembler fail only with named diagnostics** when the program has no
    local array - which no parsed program has (`parse_noLocalArr`). -/
theorem stagesJ_named (j : Int) (P : X.Program) (hna : NoLocalArr P) : NEx (stagesJ j P) := by
  intro e h
  unfold stagesJ at h
  cases h1 : createSymbolsJ j P with
  | error e1 =>
    rw [h1] at h
    have : e = e1 := by cases h; rfl
    subst this; exact createSymbolsJ_nex j P e h1
  | ok tbl =>
    rw [h1] at h
    cases h2 : constProp tbl P with
    | error e2 =>
      simp only [bind, Except.bind, h2] at h
      have : e = e2 := by cases h; rfl
      subst this; exact constProp_nex tbl P e h2
    | ok A =>
      have hA := optimise_noArr A (constProp_noArr tbl P A h2 hna)
      cases h3 : codeGen tbl (optimise A) with
      | error e3 =>
        simp only [bind, Except.bind, h2, h3] at h
        have : e = e3 := by cases h; rfl
        subst this; exact codeGen_nex tbl _ hA e h3
      | ok cg =>
        simp only [bind, Except.bind, h2, h3, pure, Except.pure] at h
        cases h

theorem stages_named (P : X.Program) (hna : NoLocalArr P) : NEx (stages P) := stagesJ_named 0 P hna

end Hex.Xcmp
