import HexVerif.Lemmas.XcmpFront
/-!
  The recursion bound of the parser model suffices (C09): with `fuel ≥ 8 * (items left) + level`
  no parser function of `Xcmp/Parser.lean` returns `PErr.fuel`.

  * `Inv s`: the token in hand followed by the items still to come is well ended (`WellEnded`), so
    "no items left" implies "the token in hand is END_OF_FILE", and an `advance` from any other token
    strictly shortens the item list.
  * `Mono m` / `Strict m`: on success `m` preserves `Inv` and does not lengthen / strictly shortens
    the item list.
  * `NoFuel F ℓ m`: from a state with `8 * (items left) + ℓ ≤ F`, `m` (whose recursive callees run with
    fuel `F`) does not run out of fuel.  Every call cycle of the grammar passes a strict step, which
    buys 8 units; the levels ℓ order the functions that call each other without consuming.
-/
namespace Hex.Xcmp
open Hex.X

def sz (s : PState) : Nat := s.rest.length

def Inv (s : PState) : Prop := WellEnded (.tok s.cur :: s.rest)

theorem inv_nil {s : PState} (h : Inv s) (hr : s.rest = []) : s.cur.tok = .END_OF_FILE := by
  unfold Inv at h; rw [hr] at h; simpa [WellEnded] using h

theorem wellEnded_tail {a b : LItem} {l : List LItem} (h : WellEnded (a :: b :: l)) : WellEnded (b :: l) := by
  unfold WellEnded at *
  simpa [List.getLast?_cons_cons] using h

/-- What a successful `advance` does to the state. -/
theorem advance_ok {s s' : PState} {u : Unit} (hInv : Inv s) (h : advance s = .ok (u, s')) :
    Inv s' ∧ sz s' ≤ sz s ∧ (s.cur.tok ≠ .END_OF_FILE → sz s' < sz s) := by
  unfold Xcmp.advance at h
  obtain ⟨c, r⟩ := s
  cases r with
  | nil =>
    simp only [Except.ok.injEq, Prod.mk.injEq] at h
    obtain ⟨_, hs⟩ := h
    subst hs
    refine ⟨by simp [Inv, WellEnded], Nat.le_refl _, fun hne => absurd (inv_nil hInv rfl) hne⟩
  | cons x r' =>
    cases x with
    | err e => cases h
    | tok t =>
      simp only [Except.ok.injEq, Prod.mk.injEq] at h
      obtain ⟨_, hs⟩ := h
      subst hs
      exact ⟨wellEnded_tail hInv, by simp [sz], fun _ => by simp [sz]⟩

structure Mono {α : Type} (m : P α) : Prop where
  h : ∀ s a s', Inv s → m s = .ok (a, s') → Inv s' ∧ sz s' ≤ sz s

structure Strict {α : Type} (m : P α) : Prop where
  h : ∀ s a s', Inv s → m s = .ok (a, s') → Inv s' ∧ sz s' < sz s

theorem Strict.mono {α : Type} {m : P α} (h : Strict m) : Mono m :=
  ⟨fun s a s' hi hm => ⟨(h.h s a s' hi hm).1, Nat.le_of_lt (h.h s a s' hi hm).2⟩⟩

theorem ok_pure {α : Type} {a b : α} {s s' : PState} (h : (pure a : P α) s = .ok (b, s')) : b = a ∧ s' = s := by
  change Except.ok (a, s) = _ at h
  injection h with h
  injection h with h1 h2
  exact ⟨h1.symm, h2.symm⟩

theorem Mono.pure {α : Type} (a : α) : Mono (pure a : P α) :=
  ⟨fun s b s' hi h => by obtain ⟨_, hs⟩ := ok_pure h; subst hs; exact ⟨hi, Nat.le_refl _⟩⟩

/-- Decomposition of a successful bind. -/
theorem ok_bind {α β : Type} {m : P α} {f : α → P β} {s s' : PState} {b : β}
    (h : (m >>= f) s = .ok (b, s')) : ∃ a s1, m s = .ok (a, s1) ∧ f a s1 = .ok (b, s') := by
  change (StateT.bind m f s) = _ at h
  unfold StateT.bind at h
  cases hm : m s with
  | error e => rw [hm] at h; cases h
  | ok p => rw [hm] at h; exact ⟨p.1, p.2, rfl, h⟩

theorem Mono.bind {α β : Type} {m : P α} {f : α → P β} (hm : Mono m) (hf : ∀ a, Mono (f a)) : Mono (m >>= f) := by
  constructor
  intro s b s' hi h
  obtain ⟨a, s1, h1, h2⟩ := ok_bind h
  obtain ⟨hi1, hl1⟩ := hm.h s a s1 hi h1
  obtain ⟨hi2, hl2⟩ := (hf a).h s1 b s' hi1 h2
  exact ⟨hi2, Nat.le_trans hl2 hl1⟩

theorem Strict.bind_left {α β : Type} {m : P α} {f : α → P β} (hm : Strict m) (hf : ∀ a, Mono (f a)) : Strict (m >>= f) := by
  constructor
  intro s b s' hi h
  obtain ⟨a, s1, h1, h2⟩ := ok_bind h
  obtain ⟨hi1, hl1⟩ := hm.h s a s1 hi h1
  obtain ⟨hi2, hl2⟩ := (hf a).h s1 b s' hi1 h2
  exact ⟨hi2, Nat.lt_of_le_of_lt hl2 hl1⟩

theorem Strict.bind_right {α β : Type} {m : P α} {f : α → P β} (hm : Mono m) (hf : ∀ a, Strict (f a)) : Strict (m >>= f) := by
  constructor
  intro s b s' hi h
  obtain ⟨a, s1, h1, h2⟩ := ok_bind h
  obtain ⟨hi1, hl1⟩ := hm.h s a s1 hi h1
  obtain ⟨hi2, hl2⟩ := (hf a).h s1 b s' hi1 h2
  exact ⟨hi2, Nat.lt_of_lt_of_le hl2 hl1⟩

theorem Mono.ite {α : Type} {c : Prop} [Decidable c] {a b : P α} (ha : Mono a) (hb : Mono b) : Mono (if c then a else b) := by
  split <;> assumption
theorem Strict.ite {α : Type} {c : Prop} [Decidable c] {a b : P α} (ha : Strict a) (hb : Strict b) : Strict (if c then a else b) := by
  split <;> assumption

theorem Strict.fail {α : Type} (k : DiagKind) (l : Loc) : Strict (fail k l : P α) := ⟨fun _ _ _ _ h => by cases h⟩
theorem Strict.outOfFuel {α : Type} : Strict (outOfFuel : P α) := ⟨fun _ _ _ _ h => by cases h⟩
theorem Strict.faultP {α : Type} (w : String) : Strict (faultP w : P α) := ⟨fun _ _ _ _ h => by cases h⟩
theorem Mono.fail {α : Type} (k : DiagKind) (l : Loc) : Mono (fail k l : P α) := (Strict.fail k l).mono
theorem Mono.outOfFuel {α : Type} : Mono (outOfFuel : P α) := Strict.outOfFuel.mono
theorem Mono.faultP {α : Type} (w : String) : Mono (faultP w : P α) := (Strict.faultP w).mono

theorem Mono.cur : Mono cur := ⟨fun s a s' hi h => by
  have : s' = s := by change Except.ok (s.cur, s) = _ at h; injection h with h; injection h with _ h2; exact h2.symm
  subst this; exact ⟨hi, Nat.le_refl _⟩⟩
theorem Mono.curTok : Mono curTok := ⟨fun s a s' hi h => by
  have : s' = s := by change Except.ok (s.cur.tok, s) = _ at h; injection h with h; injection h with _ h2; exact h2.symm
  subst this; exact ⟨hi, Nat.le_refl _⟩⟩
theorem Mono.curLoc : Mono curLoc := ⟨fun s a s' hi h => by
  have : s' = s := by change Except.ok (s.cur.loc, s) = _ at h; injection h with h; injection h with _ h2; exact h2.symm
  subst this; exact ⟨hi, Nat.le_refl _⟩⟩
theorem Mono.getString : Mono getString := ⟨fun s a s' hi h => by
  have : s' = s := by change Except.ok (s.cur.str, s) = _ at h; injection h with h; injection h with _ h2; exact h2.symm
  subst this; exact ⟨hi, Nat.le_refl _⟩⟩

theorem Mono.advance : Mono advance :=
  ⟨fun s _ s' hi h => ⟨(advance_ok hi h).1, (advance_ok hi h).2.1⟩⟩

/-- `advance >>= k` from a state whose token is not END_OF_FILE is strict. -/
theorem strict_advance_at {α : Type} {k : Unit → P α} {s s' : PState} {a : α} (hi : Inv s)
    (htok : s.cur.tok ≠ .END_OF_FILE) (hk : ∀ u, Mono (k u)) (h : (advance >>= k) s = .ok (a, s')) :
    Inv s' ∧ sz s' < sz s := by
  obtain ⟨u, s1, h1, h2⟩ := ok_bind h
  obtain ⟨hi1, _, hl1⟩ := advance_ok hi h1
  obtain ⟨hi2, hl2⟩ := (hk u).h s1 a s' hi1 h2
  exact ⟨hi2, Nat.lt_of_le_of_lt hl2 (hl1 htok)⟩

theorem Strict.parseIdentifier : Strict parseIdentifier := by
  constructor
  intro s a s' hi h
  unfold Xcmp.parseIdentifier at h
  rw [bind_cur] at h
  split at h
  · rename_i htok
    exact strict_advance_at hi (by rw [htok]; decide) (fun _ => Mono.pure _) h
  · cases h

theorem Strict.expect (t : Tok) (ht : t ≠ .END_OF_FILE) : Strict (expect t) := by
  constructor
  intro s a s' hi h
  unfold Xcmp.expect at h
  rw [bind_cur] at h
  split at h
  · cases h
  · rename_i htok
    have hc : s.cur.tok = t := Classical.not_not.mp htok
    obtain ⟨hi1, _, hl1⟩ := advance_ok hi h
    exact ⟨hi1, hl1 (by rw [hc]; exact ht)⟩

theorem Mono.expect (t : Tok) : Mono (expect t) := by
  unfold Xcmp.expect
  exact Mono.bind Mono.cur fun c => Mono.ite (Mono.fail _ _) Mono.advance

end Hex.Xcmp

namespace Hex.Xcmp
open Hex.X

macro "mono_step" : tactic => `(tactic| first
  | exact Mono.pure _
  | exact Mono.advance | exact Mono.cur | exact Mono.curTok | exact Mono.curLoc | exact Mono.getString
  | exact Mono.fail _ _ | exact Mono.outOfFuel | exact Mono.faultP _
  | exact Mono.expect _ | exact Strict.parseIdentifier.mono
  | assumption
  | apply Mono.bind
  | apply Mono.ite
  | split
  | intro _)

theorem mono_expr : ∀ fuel,
    Mono (parseExpr fuel) ∧ Mono (parseElement fuel) ∧ (∀ op t, Mono (parseBinOpRHS fuel op t)) ∧
    Mono (parseExprListTail fuel) ∧ Mono (parseActuals fuel) ∧ Mono (parseIdentElement fuel) := by
  intro fuel
  induction fuel with
  | zero =>
    refine ⟨?_, ?_, ?_, ?_, ?_, ?_⟩
    · rw [parseExpr]; exact Mono.outOfFuel
    · rw [parseElement]; exact Mono.outOfFuel
    · intro op t; rw [parseBinOpRHS]; exact Mono.outOfFuel
    · rw [parseExprListTail]; exact Mono.outOfFuel
    · rw [parseActuals]; exact Mono.outOfFuel
    · rw [parseIdentElement]; exact Mono.outOfFuel
  | succ n ih =>
    obtain ⟨hE, hEl, hR, hT, hA, hI⟩ := ih
    have hR' : ∀ op t, Mono (parseBinOpRHS n op t) := hR
    refine ⟨?_, ?_, ?_, ?_, ?_, ?_⟩
    · rw [parseExpr]; repeat (first | exact hR' _ _ | mono_step)
    · rw [parseElement]; repeat (first | exact hR' _ _ | mono_step)
    · intro op t; rw [parseBinOpRHS]; repeat (first | exact hR' _ _ | mono_step)
    · rw [parseExprListTail]; repeat (first | exact hR' _ _ | mono_step)
    · rw [parseActuals]; repeat (first | exact hR' _ _ | mono_step)
    · rw [parseIdentElement]; repeat (first | exact hR' _ _ | mono_step)

theorem mono_stmt : ∀ fuel, Mono (parseStatement fuel) ∧ Mono (parseStatementsTail fuel) := by
  intro fuel
  induction fuel with
  | zero => exact ⟨by rw [parseStatement]; exact Mono.outOfFuel, by rw [parseStatementsTail]; exact Mono.outOfFuel⟩
  | succ n ih =>
    obtain ⟨hS, hT⟩ := ih
    obtain ⟨hE, hEl, _, _, _, _⟩ := mono_expr n
    refine ⟨?_, ?_⟩
    · rw [parseStatement]; repeat mono_step
    · rw [parseStatementsTail]; repeat mono_step

theorem mono_parseDecl (fuel : Nat) : Mono (parseDecl fuel) := by
  have hE := (mono_expr fuel).1
  unfold parseDecl; repeat mono_step

theorem mono_parseDecls (b : Bool) : ∀ fuel, Mono (parseDecls b fuel) := by
  intro fuel
  induction fuel with
  | zero => rw [parseDecls]; exact Mono.outOfFuel
  | succ n ih => have hD := mono_parseDecl n; rw [parseDecls]; repeat mono_step

theorem mono_parseFormal : Mono parseFormal := by unfold parseFormal; repeat mono_step

theorem mono_parseFormals : ∀ fuel, Mono (parseFormals fuel) := by
  intro fuel
  induction fuel with
  | zero => rw [parseFormals]; exact Mono.outOfFuel
  | succ n ih => have hF := mono_parseFormal; rw [parseFormals]; repeat mono_step

theorem mono_parseProcDecl (fuel : Nat) : Mono (parseProcDecl fuel) := by
  have hS := (mono_stmt fuel).1
  have hF := mono_parseFormals fuel
  have hD := mono_parseDecls false fuel
  unfold parseProcDecl; repeat mono_step

theorem mono_parseProcDecls : ∀ fuel, Mono (parseProcDecls fuel) := by
  intro fuel
  induction fuel with
  | zero => rw [parseProcDecls]; exact Mono.outOfFuel
  | succ n ih => have hP := mono_parseProcDecl n; rw [parseProcDecls]; repeat mono_step

end Hex.Xcmp

namespace Hex.Xcmp
open Hex.X

/-- Leaves that are known to be strict. -/
macro "strict_leaf" : tactic => `(tactic| first
  | exact Strict.parseIdentifier
  | exact Strict.expect _ (by decide)
  | exact Strict.fail _ _ | exact Strict.outOfFuel | exact Strict.faultP _
  | assumption)

macro "mono_all" : tactic => `(tactic| (intros; repeat mono_step))

/-- One step of showing that a `do` block is strict: its first component is (then the rest must only
    be monotone), or else the first component is monotone and the rest must be strict. -/
macro "strict_step" : tactic => `(tactic| first
  | strict_leaf
  | apply Strict.ite
  | split
  | (refine Strict.bind_left (by strict_leaf) (by mono_all))
  | (refine Strict.bind_right (by first | exact Mono.curTok | exact Mono.curLoc | exact Mono.cur | exact Mono.advance | exact Mono.getString) (fun _ => ?_)))

theorem strict_parseIdentElement (n : Nat) (hE : Mono (parseExpr n)) (hA : Mono (parseActuals n)) :
    Strict (parseIdentElement (n + 1)) := by
  rw [parseIdentElement]
  refine Strict.bind_left Strict.parseIdentifier ?_
  mono_all

/-- `parseElement` consumes at least one token (stateful: in four cases the only consumption is the
    `advance` past the token the `match` has just identified). -/
theorem strict_parseElement_succ (n : Nat) (hE : Mono (parseExpr n)) (hA : Mono (parseActuals n))
    (hI : Strict (parseIdentElement n)) : Strict (parseElement (n + 1)) := by
  constructor
  intro s a s' hi h
  rw [parseElement, bind_cur] at h
  cases ht : s.cur.tok <;> simp only [ht] at h
  case IDENTIFIER => exact hI.h s a s' hi h
  case NUMBER => exact strict_advance_at hi (by rw [ht]; decide) (by mono_all) h
  case STRING => exact strict_advance_at hi (by rw [ht]; decide) (by mono_all) h
  case TRUE => exact strict_advance_at hi (by rw [ht]; decide) (by mono_all) h
  case FALSE => exact strict_advance_at hi (by rw [ht]; decide) (by mono_all) h
  case LPAREN => exact strict_advance_at hi (by rw [ht]; decide) (by mono_all) h
  all_goals cases h

theorem strict_expr : ∀ fuel,
    Strict (parseExpr fuel) ∧ Strict (parseElement fuel) ∧ (∀ op t, Strict (parseBinOpRHS fuel op t)) ∧
    Strict (parseIdentElement fuel) := by
  intro fuel
  induction fuel with
  | zero =>
    refine ⟨?_, ?_, ?_, ?_⟩
    · rw [parseExpr]; exact Strict.outOfFuel
    · rw [parseElement]; exact Strict.outOfFuel
    · intro op t; rw [parseBinOpRHS]; exact Strict.outOfFuel
    · rw [parseIdentElement]; exact Strict.outOfFuel
  | succ n ih =>
    obtain ⟨hE, hEl, hR, hI⟩ := ih
    obtain ⟨mE, mEl, mR, mT, mA, mI⟩ := mono_expr n
    have mR' : ∀ op t, Mono (parseBinOpRHS n op t) := mR
    refine ⟨?_, ?_, ?_, ?_⟩
    · rw [parseExpr]
      have rest : ∀ element : Expr, Mono (do
          let t ← curTok
          match binOpOf t with
          | some op => do
            advance
            let rhs ← parseBinOpRHS n op t
            pure (Expr.bin op element rhs)
          | none => pure element : P Expr) := by
        intro element
        repeat (first | exact mR' _ _ | mono_step)
      refine Strict.bind_right Mono.curTok fun t => Strict.ite ?_ (Strict.ite ?_ ?_)
      · exact Strict.bind_right Mono.advance fun _ => Strict.bind_left hEl fun e => Mono.pure _
      · exact Strict.bind_right Mono.advance fun _ => Strict.bind_left hEl fun e => Mono.pure _
      · exact Strict.bind_left hEl rest
    · exact strict_parseElement_succ n mE mA hI
    · intro op t
      rw [parseBinOpRHS]
      refine Strict.bind_left hEl ?_
      intros; repeat (first | exact mR' _ _ | mono_step)
    · exact strict_parseIdentElement n mE mA

end Hex.Xcmp

namespace Hex.Xcmp
open Hex.X

/-- `parseStatement` consumes at least one token. -/
theorem strict_parseStatement_succ (n : Nat) (mS : Mono (parseStatement n)) (mT : Mono (parseStatementsTail n)) :
    Strict (parseStatement (n + 1)) := by
  obtain ⟨mE, mEl, _, _, _, _⟩ := mono_expr n
  obtain ⟨_, hEl, _, _⟩ := strict_expr n
  constructor
  intro s a s' hi h
  rw [parseStatement, bind_curLoc, bind_curTok] at h
  cases ht : s.cur.tok <;> simp only [ht] at h
  case IDENTIFIER =>
    have : Strict (do
        let element ← parseElement n
        match element with
        | .call f args => pure (Stmt.call f args)
        | .name x => do expect .ASS; let e ← parseExpr n; pure (Stmt.assign x e)
        | .sub x i => do expect .ASS; let e ← parseExpr n; pure (Stmt.assignSub x i e)
        | _ => faultP "assignment target is neither a variable nor a subscript" : P Stmt) := by
      refine Strict.bind_left hEl ?_
      mono_all
    exact this.h s a s' hi h
  case NUMBER =>
    have : Strict (do
        let element ← parseElement n
        match element with
        | .syscall id args => pure (Stmt.syscall id args)
        | _ => fail .parserToken s.cur.loc : P Stmt) := by
      refine Strict.bind_left hEl ?_
      mono_all
    exact this.h s a s' hi h
  case SKIP => exact strict_advance_at hi (by rw [ht]; decide) (by mono_all) h
  case STOP => exact strict_advance_at hi (by rw [ht]; decide) (by mono_all) h
  case RETURN => exact strict_advance_at hi (by rw [ht]; decide) (by mono_all) h
  case IF => exact strict_advance_at hi (by rw [ht]; decide) (by mono_all) h
  case WHILE => exact strict_advance_at hi (by rw [ht]; decide) (by mono_all) h
  case BEGIN => exact strict_advance_at hi (by rw [ht]; decide) (by mono_all) h
  all_goals cases h

theorem strict_parseStatement : ∀ fuel, Strict (parseStatement fuel)
  | 0 => by rw [parseStatement]; exact Strict.outOfFuel
  | n + 1 => strict_parseStatement_succ n (mono_stmt n).1 (mono_stmt n).2

theorem strict_parseDecl (fuel : Nat) : Strict (parseDecl fuel) := by
  have mE := (mono_expr fuel).1
  unfold parseDecl
  refine Strict.bind_right Mono.curTok fun tok => Strict.bind_right Mono.curLoc fun loc => ?_
  split
  · exact Strict.bind_right Mono.advance fun _ => Strict.bind_left Strict.parseIdentifier (by mono_all)
  · exact Strict.bind_right Mono.advance fun _ => Strict.bind_left Strict.parseIdentifier (by mono_all)
  · exact Strict.bind_right Mono.advance fun _ => Strict.bind_left Strict.parseIdentifier (by mono_all)
  · exact Strict.fail _ _

theorem strict_parseFormal : Strict parseFormal := by
  unfold parseFormal
  refine Strict.bind_right Mono.curTok fun tok => Strict.bind_right Mono.curLoc fun loc => ?_
  split
  · exact Strict.bind_right Mono.advance fun _ => Strict.bind_left Strict.parseIdentifier (by mono_all)
  · exact Strict.bind_right Mono.advance fun _ => Strict.bind_left Strict.parseIdentifier (by mono_all)
  · exact Strict.bind_right Mono.advance fun _ => Strict.bind_left Strict.parseIdentifier (by mono_all)
  · exact Strict.bind_right Mono.advance fun _ => Strict.bind_left Strict.parseIdentifier (by mono_all)
  · exact Strict.fail _ _

theorem strict_parseProcDecl (fuel : Nat) : Strict (parseProcDecl fuel) := by
  have mS := (mono_stmt fuel).1
  have mF := mono_parseFormals fuel
  have mD := mono_parseDecls false fuel
  unfold parseProcDecl
  refine Strict.bind_right Mono.curTok fun t => Strict.bind_right Mono.advance fun _ =>
    Strict.bind_left Strict.parseIdentifier ?_
  mono_all

end Hex.Xcmp

namespace Hex.Xcmp
open Hex.X

/-- Where a fuel error of a bind comes from. -/
theorem err_bind {α β : Type} {m : P α} {f : α → P β} {s : PState} {e : PErr}
    (h : (m >>= f) s = .error e) : m s = .error e ∨ ∃ a s1, m s = .ok (a, s1) ∧ f a s1 = .error e := by
  change (StateT.bind m f s) = _ at h
  unfold StateT.bind at h
  cases hm : m s with
  | error e' =>
    rw [hm] at h
    left
    have : e' = e := by change Except.error e' = _ at h; injection h
    rw [this]
  | ok p => rw [hm] at h; exact Or.inr ⟨p.1, p.2, rfl, h⟩

/-- Computations without recursive callees never report `fuel`. -/
structure NeverFuel {α : Type} (m : P α) : Prop where
  h : ∀ s, m s ≠ .error .fuel

theorem NeverFuel.pure {α : Type} (a : α) : NeverFuel (pure a : P α) := ⟨fun _ h => by cases h⟩
theorem NeverFuel.fail {α : Type} (k : DiagKind) (l : Loc) : NeverFuel (fail k l : P α) := ⟨fun _ h => by cases h⟩
theorem NeverFuel.faultP {α : Type} (w : String) : NeverFuel (faultP w : P α) := ⟨fun _ h => by cases h⟩
theorem NeverFuel.cur : NeverFuel cur := ⟨fun _ h => by cases h⟩
theorem NeverFuel.curTok : NeverFuel curTok := ⟨fun _ h => by cases h⟩
theorem NeverFuel.curLoc : NeverFuel curLoc := ⟨fun _ h => by cases h⟩
theorem NeverFuel.getString : NeverFuel getString := ⟨fun _ h => by cases h⟩
theorem NeverFuel.advance : NeverFuel advance := by
  constructor
  intro s h
  unfold Xcmp.advance at h
  split at h
  · cases h
  · cases h
  · unfold lexDiag at h; cases h
theorem NeverFuel.bind {α β : Type} {m : P α} {f : α → P β} (hm : NeverFuel m) (hf : ∀ a, NeverFuel (f a)) :
    NeverFuel (m >>= f) := by
  constructor
  intro s h
  rcases err_bind h with h1 | ⟨a, s1, _, h2⟩
  · exact hm.h s h1
  · exact (hf a).h s1 h2
theorem NeverFuel.ite {α : Type} {c : Prop} [Decidable c] {a b : P α} (ha : NeverFuel a) (hb : NeverFuel b) :
    NeverFuel (if c then a else b) := by split <;> assumption

macro "never_step" : tactic => `(tactic| first
  | exact NeverFuel.pure _ | exact NeverFuel.fail _ _ | exact NeverFuel.faultP _
  | exact NeverFuel.cur | exact NeverFuel.curTok | exact NeverFuel.curLoc | exact NeverFuel.getString
  | exact NeverFuel.advance
  | assumption
  | apply NeverFuel.bind
  | apply NeverFuel.ite
  | split
  | intro _)

theorem NeverFuel.expect (t : Tok) : NeverFuel (expect t) := by unfold Xcmp.expect; repeat never_step
theorem NeverFuel.parseIdentifier : NeverFuel parseIdentifier := by unfold Xcmp.parseIdentifier; repeat never_step
theorem NeverFuel.parseFormal : NeverFuel parseFormal := by
  have := NeverFuel.parseIdentifier
  unfold Xcmp.parseFormal; repeat never_step

/-- From a state with `8 * (items left) + ℓ ≤ F` the computation does not run out of fuel. -/
structure NoFuel {α : Type} (F ℓ : Nat) (m : P α) : Prop where
  h : ∀ s, Inv s → 8 * sz s + ℓ ≤ F → m s ≠ .error .fuel

theorem NoFuel.never {α : Type} {F ℓ : Nat} {m : P α} (h : NeverFuel m) : NoFuel F ℓ m := ⟨fun s _ _ => h.h s⟩

theorem NoFuel.weaken {α : Type} {F ℓ ℓ' : Nat} {m : P α} (h : NoFuel F ℓ' m) (hle : ℓ' ≤ ℓ) : NoFuel F ℓ m :=
  ⟨fun s hi hb => h.h s hi (by omega)⟩

theorem NoFuel.bind_mono {α β : Type} {F ℓ : Nat} {m : P α} {f : α → P β} (h1 : NoFuel F ℓ m) (hm : Mono m)
    (h2 : ∀ a, NoFuel F ℓ (f a)) : NoFuel F ℓ (m >>= f) := by
  constructor
  intro s hi hb h
  rcases err_bind h with he | ⟨a, s1, hok, he⟩
  · exact h1.h s hi hb he
  · obtain ⟨hi1, hl⟩ := hm.h s a s1 hi hok
    exact (h2 a).h s1 hi1 (by omega) he

theorem NoFuel.bind_strict {α β : Type} {F ℓ : Nat} {m : P α} {f : α → P β} (h1 : NoFuel F ℓ m) (hm : Strict m)
    (h2 : ∀ a, NoFuel F (ℓ + 8) (f a)) : NoFuel F ℓ (m >>= f) := by
  constructor
  intro s hi hb h
  rcases err_bind h with he | ⟨a, s1, hok, he⟩
  · exact h1.h s hi hb he
  · obtain ⟨hi1, hl⟩ := hm.h s a s1 hi hok
    exact (h2 a).h s1 hi1 (by omega) he

theorem NoFuel.ite {α : Type} {F ℓ : Nat} {c : Prop} [Decidable c] {a b : P α} (ha : NoFuel F ℓ a) (hb : NoFuel F ℓ b) :
    NoFuel F ℓ (if c then a else b) := by split <;> assumption

/-- `advance >>= k` from a state whose token is known not to be END_OF_FILE: `k` gets 8 more units. -/
theorem nofuel_advance_at {α : Type} {F ℓ : Nat} {k : Unit → P α} {s : PState} (hi : Inv s)
    (htok : s.cur.tok ≠ .END_OF_FILE) (hk : ∀ u, NoFuel F (ℓ + 8) (k u)) (hb : 8 * sz s + ℓ ≤ F) :
    (advance >>= k) s ≠ .error .fuel := by
  intro h
  rcases err_bind h with he | ⟨u, s1, hok, he⟩
  · exact NeverFuel.advance.h s he
  · obtain ⟨hi1, _, hl⟩ := advance_ok hi hok
    have := hl htok
    exact (hk u).h s1 hi1 (by omega) he

/-- A function at fuel `F + 1` whose body calls its callees with fuel `F`. -/
theorem NoFuel.succ {α : Type} {F ℓ : Nat} {m : P α} (h : NoFuel F ℓ m) : NoFuel (F + 1) (ℓ + 1) m :=
  ⟨fun s hi hb => h.h s hi (by omega)⟩

theorem NoFuel.zero {α : Type} {ℓ : Nat} {m : P α} : NoFuel 0 (ℓ + 1) m := ⟨fun s _ hb => by omega⟩

end Hex.Xcmp

namespace Hex.Xcmp
open Hex.X

macro "never_all" : tactic => `(tactic| (repeat (first | exact NeverFuel.expect _ | exact NeverFuel.parseIdentifier | exact NeverFuel.parseFormal | never_step)))

/-- One step of showing that a `do` block does not run out of fuel; the induction hypotheses and the
    `Strict`/`Mono` facts about the callees are taken from the context. -/
macro "nofuel_step" : tactic => `(tactic| first
  | focus (refine NoFuel.never ?_; never_all; done)
  | focus (apply NoFuel.weaken; assumption; omega)
  | apply NoFuel.ite
  | split
  | (refine NoFuel.bind_strict ?_ ?hs (fun _ => ?_);
     (case hs => first | strict_leaf | exact strict_parseStatement _ | exact strict_parseDecl _ | exact strict_parseFormal | exact strict_parseProcDecl _))
  | (refine NoFuel.bind_mono ?_ ?hm (fun _ => ?_);
     (case hm => first | assumption | exact Mono.pure _ | exact Mono.advance | exact Mono.curTok | exact Mono.curLoc | exact Mono.cur | exact Mono.getString | exact Mono.expect _))
  | intro _)

theorem nofuel_expr : ∀ F,
    NoFuel F 3 (parseExpr F) ∧ NoFuel F 2 (parseElement F) ∧ (∀ op t, NoFuel F 3 (parseBinOpRHS F op t)) ∧
    NoFuel F 4 (parseExprListTail F) ∧ NoFuel F 4 (parseActuals F) ∧ NoFuel F 1 (parseIdentElement F) := by
  intro F
  induction F with
  | zero => exact ⟨NoFuel.zero, NoFuel.zero, fun _ _ => NoFuel.zero, NoFuel.zero, NoFuel.zero, NoFuel.zero⟩
  | succ n ih =>
    obtain ⟨hE, hEl, hR, hT, hA, hI⟩ := ih
    obtain ⟨sE, sEl, sR, sI⟩ := strict_expr n
    obtain ⟨mE, mEl, mR, mT, mA, mI⟩ := mono_expr n
    have hR3 : ∀ op t ℓ, 3 ≤ ℓ → NoFuel n ℓ (parseBinOpRHS n op t) := fun op t ℓ h => NoFuel.weaken (hR op t) h
    refine ⟨?_, ?_, ?_, ?_, ?_, ?_⟩
    · -- parseExpr
      rw [parseExpr]
      refine NoFuel.succ (ℓ := 2) ?_
      repeat (first | (refine NoFuel.bind_strict (hR3 _ _ _ (by omega)) (sR _ _) (fun _ => ?_)) | nofuel_step)
    · -- parseElement: stateful for the tokens whose only consumption is the advance past them
      constructor
      intro s hi hb
      rw [parseElement, bind_cur]
      cases ht : s.cur.tok <;> simp only []
      case IDENTIFIER => exact hI.h s hi (by omega)
      case NUMBER =>
        refine nofuel_advance_at (F := n) (ℓ := 1) hi (by rw [ht]; decide) (fun _ => ?_) (by omega)
        repeat nofuel_step
      case LPAREN =>
        refine nofuel_advance_at (F := n) (ℓ := 1) hi (by rw [ht]; decide) (fun _ => ?_) (by omega)
        repeat nofuel_step
      all_goals
        refine NoFuel.h (F := n) (ℓ := 1) ?_ s hi (by omega)
        repeat nofuel_step
    · -- parseBinOpRHS
      intro op t
      rw [parseBinOpRHS]
      refine NoFuel.succ (ℓ := 2) ?_
      repeat (first | (refine NoFuel.bind_strict (hR3 _ _ _ (by omega)) (sR _ _) (fun _ => ?_)) | nofuel_step)
    · rw [parseExprListTail]
      refine NoFuel.succ (ℓ := 3) ?_
      repeat nofuel_step
    · rw [parseActuals]
      refine NoFuel.succ (ℓ := 3) ?_
      repeat nofuel_step
    · rw [parseIdentElement]
      refine NoFuel.succ (ℓ := 0) ?_
      repeat nofuel_step

end Hex.Xcmp

namespace Hex.Xcmp
open Hex.X

theorem nofuel_stmt : ∀ F, NoFuel F 3 (parseStatement F) ∧ NoFuel F 4 (parseStatementsTail F) := by
  intro F
  induction F with
  | zero => exact ⟨NoFuel.zero, NoFuel.zero⟩
  | succ n ih =>
    obtain ⟨hS, hT⟩ := ih
    obtain ⟨hE, hEl, _, _, _, _⟩ := nofuel_expr n
    obtain ⟨sE, sEl, _, _⟩ := strict_expr n
    have sS := strict_parseStatement n
    obtain ⟨mS, mT⟩ := mono_stmt n
    refine ⟨?_, ?_⟩
    · constructor
      intro s hi hb
      rw [parseStatement, bind_curLoc, bind_curTok]
      cases ht : s.cur.tok <;> simp only []
      case RETURN =>
        refine nofuel_advance_at (F := n) (ℓ := 2) hi (by rw [ht]; decide) (fun _ => ?_) (by omega)
        repeat nofuel_step
      case IF =>
        refine nofuel_advance_at (F := n) (ℓ := 2) hi (by rw [ht]; decide) (fun _ => ?_) (by omega)
        repeat nofuel_step
      case WHILE =>
        refine nofuel_advance_at (F := n) (ℓ := 2) hi (by rw [ht]; decide) (fun _ => ?_) (by omega)
        repeat nofuel_step
      case BEGIN =>
        refine nofuel_advance_at (F := n) (ℓ := 2) hi (by rw [ht]; decide) (fun _ => ?_) (by omega)
        repeat nofuel_step
      all_goals
        refine NoFuel.h (F := n) (ℓ := 2) ?_ s hi (by omega)
        repeat nofuel_step
    · rw [parseStatementsTail]
      refine NoFuel.succ (ℓ := 3) ?_
      repeat nofuel_step

theorem nofuel_parseDecl (F : Nat) : NoFuel F 0 (parseDecl F) := by
  have hE := (nofuel_expr F).1
  have sE := (strict_expr F).1
  unfold parseDecl
  repeat nofuel_step

theorem nofuel_parseDecls (b : Bool) : ∀ F, NoFuel F 1 (parseDecls b F) := by
  intro F
  induction F with
  | zero => exact NoFuel.zero
  | succ n ih =>
    have hD := nofuel_parseDecl n
    have mDs := mono_parseDecls b n
    rw [parseDecls]
    refine NoFuel.succ (ℓ := 0) ?_
    repeat nofuel_step

theorem nofuel_parseFormals : ∀ F, NoFuel F 1 (parseFormals F) := by
  intro F
  induction F with
  | zero => exact NoFuel.zero
  | succ n ih =>
    have mFs := mono_parseFormals n
    rw [parseFormals]
    refine NoFuel.succ (ℓ := 0) ?_
    repeat nofuel_step

theorem nofuel_parseProcDecl (F : Nat) : NoFuel F 0 (parseProcDecl F) := by
  have hS := (nofuel_stmt F).1
  have hF := nofuel_parseFormals F
  have hD := nofuel_parseDecls false F
  have mF := mono_parseFormals F
  have mD := mono_parseDecls false F
  unfold parseProcDecl
  repeat nofuel_step

theorem nofuel_parseProcDecls : ∀ F, NoFuel F 1 (parseProcDecls F) := by
  intro F
  induction F with
  | zero => exact NoFuel.zero
  | succ n ih =>
    have hP := nofuel_parseProcDecl n
    have mPs := mono_parseProcDecls n
    rw [parseProcDecls]
    refine NoFuel.succ (ℓ := 0) ?_
    repeat nofuel_step

theorem nofuel_parseProgramP (F : Nat) : NoFuel F 1 (parseProgramP F) := by
  have hD := nofuel_parseDecls true F
  have hP := nofuel_parseProcDecls F
  have mD := mono_parseDecls true F
  have mP := mono_parseProcDecls F
  unfold parseProgramP
  repeat nofuel_step


/-- With `8 * (number of items) + 8` units the parser never reaches its recursion bound. -/
theorem parseProgram_no_fuel (src : List Byte) (fuel : Nat) (hf : 8 * (lexAll src).length + 8 ≤ fuel) :
    parseProgram src fuel ≠ .error .fuel := by
  unfold parseProgram
  have hw := lexAll_wellEnded src
  cases hl : lexAll src with
  | nil => exact absurd hl (lexAll_ne_nil src)
  | cons x r =>
    rw [hl] at hw hf
    cases x with
    | err e => simp only []; intro h; unfold lexDiag at h; cases h
    | tok t =>
      simp only []
      intro h
      have hInv : Inv { cur := t, rest := r } := hw
      have hb : 8 * sz { cur := t, rest := r } + 1 ≤ fuel := by
        simp only [sz, List.length_cons] at hf ⊢; omega
      have hn := (nofuel_parseProgramP fuel).h _ hInv hb
      cases hrun : (parseProgramP fuel).run { cur := t, rest := r } with
      | error e =>
        rw [hrun] at h
        have : e = .fuel := by change Except.error e = _ at h; injection h
        exact hn (by rw [← this]; exact hrun)
      | ok p => rw [hrun] at h; cases h

end Hex.Xcmp
