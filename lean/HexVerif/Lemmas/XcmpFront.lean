import HexVerif.Xcmp.AstPrint
/-! Lemmas about the model of xcmp's front end (used by `Properties/C09.lean`). -/
namespace Hex.Xcmp

/-! ### The parser monad: "this computation never executes a partial operation" -/

structure NoFault {α} (m : P α) : Prop where
  h : ∀ s w, m s ≠ .error (.fault w)

theorem NoFault.pure {α} (a : α) : NoFault (pure a : P α) := ⟨by intro s w h; cases h⟩

theorem NoFault.bind {α β} {m : P α} {f : α → P β} (hm : NoFault m) (hf : ∀ a, NoFault (f a)) :
    NoFault (m >>= f) := by
  constructor
  intro s w h
  change (StateT.bind m f s) = _ at h
  unfold StateT.bind at h
  cases hms : m s with
  | error e =>
    rw [hms] at h
    have : e = .fault w := by
      change Except.error e = _ at h
      injection h
    exact hm.h s w (by rw [hms, this])
  | ok p =>
    rw [hms] at h
    obtain ⟨a, s'⟩ := p
    exact (hf a).h s' w h

theorem NoFault.advance : NoFault advance := by
  constructor
  intro s w h
  unfold Xcmp.advance at h
  split at h
  · cases h
  · cases h
  · unfold lexDiag at h; cases h

theorem NoFault.cur : NoFault cur := ⟨by intro s w h; cases h⟩
theorem NoFault.curTok : NoFault curTok := ⟨by intro s w h; cases h⟩
theorem NoFault.curLoc : NoFault curLoc := ⟨by intro s w h; cases h⟩
theorem NoFault.getString : NoFault getString := ⟨by intro s w h; cases h⟩
theorem NoFault.fail {α} (k : DiagKind) (l : Loc) : NoFault (fail k l : P α) := ⟨by intro s w h; cases h⟩
theorem NoFault.outOfFuel {α} : NoFault (outOfFuel : P α) := ⟨by intro s w h; cases h⟩

theorem NoFault.ite {α} {c : Prop} [Decidable c] {a b : P α} (ha : NoFault a) (hb : NoFault b) :
    NoFault (if c then a else b) := by
  split <;> assumption

theorem NoFault.expect (t : Tok) : NoFault (expect t) := by
  unfold Xcmp.expect
  exact NoFault.bind NoFault.cur fun c => NoFault.ite (NoFault.fail _ _) NoFault.advance

theorem NoFault.parseIdentifier : NoFault parseIdentifier := by
  unfold Xcmp.parseIdentifier
  refine NoFault.bind NoFault.cur fun c => NoFault.ite ?_ (NoFault.fail _ _)
  exact NoFault.bind NoFault.advance fun _ => NoFault.pure _

end Hex.Xcmp

namespace Hex.Xcmp

/-- One step of decomposing a `do` block of the parser into its components. -/
macro "nf_step" : tactic => `(tactic| first
  | exact NoFault.pure _
  | exact NoFault.advance | exact NoFault.cur | exact NoFault.curTok | exact NoFault.curLoc | exact NoFault.getString
  | exact NoFault.fail _ _ | exact NoFault.outOfFuel
  | exact NoFault.expect _ | exact NoFault.parseIdentifier
  | assumption
  | apply NoFault.bind
  | apply NoFault.ite
  | split
  | intro _)

/-- The expression parser never reaches a partial operation. -/
theorem noFault_expr : ∀ fuel,
    NoFault (parseExpr fuel) ∧ NoFault (parseElement fuel) ∧ (∀ op t, NoFault (parseBinOpRHS fuel op t)) ∧
    NoFault (parseExprListTail fuel) ∧ NoFault (parseActuals fuel) ∧ NoFault (parseIdentElement fuel) := by
  intro fuel
  induction fuel with
  | zero =>
    refine ⟨?_, ?_, ?_, ?_, ?_, ?_⟩
    · rw [parseExpr]; exact NoFault.outOfFuel
    · rw [parseElement]; exact NoFault.outOfFuel
    · intro op t; rw [parseBinOpRHS]; exact NoFault.outOfFuel
    · rw [parseExprListTail]; exact NoFault.outOfFuel
    · rw [parseActuals]; exact NoFault.outOfFuel
    · rw [parseIdentElement]; exact NoFault.outOfFuel
  | succ n ih =>
    obtain ⟨hE, hEl, hR, hT, hA, hI⟩ := ih
    have hR' : ∀ op t, NoFault (parseBinOpRHS n op t) := hR
    refine ⟨?_, ?_, ?_, ?_, ?_, ?_⟩
    · rw [parseExpr]
      repeat (first | exact hR' _ _ | nf_step)
    · rw [parseElement]
      repeat (first | exact hR' _ _ | nf_step)
    · intro op t
      rw [parseBinOpRHS]
      repeat (first | exact hR' _ _ | nf_step)
    · rw [parseExprListTail]
      repeat (first | exact hR' _ _ | nf_step)
    · rw [parseActuals]
      repeat (first | exact hR' _ _ | nf_step)
    · rw [parseIdentElement]
      repeat (first | exact hR' _ _ | nf_step)

end Hex.Xcmp

namespace Hex.Xcmp
open Hex.X

/-! ### Postconditions on the value a parser computation returns -/

structure Post {α} (m : P α) (Q : α → Prop) : Prop where
  h : ∀ s a s', m s = .ok (a, s') → Q a

theorem Post.pure {α} {Q : α → Prop} (a : α) (hq : Q a) : Post (pure a : P α) Q := by
  constructor
  intro s b s' h
  have : (b, s') = (a, s) := by
    change Except.ok (a, s) = _ at h
    injection h with h; exact h.symm
  injection this with h1 _
  rw [h1]; exact hq

theorem Post.bind {α β} {m : P α} {f : α → P β} {Q : β → Prop} (hf : ∀ a, Post (f a) Q) : Post (m >>= f) Q := by
  constructor
  intro s b s' h
  change (StateT.bind m f s) = _ at h
  unfold StateT.bind at h
  cases hms : m s with
  | error e => rw [hms] at h; cases h
  | ok p =>
    rw [hms] at h
    obtain ⟨a, s1⟩ := p
    exact (hf a).h s1 b s' h

theorem Post.ite {α} {Q : α → Prop} {c : Prop} [Decidable c] {a b : P α} (ha : Post a Q) (hb : Post b Q) :
    Post (if c then a else b) Q := by
  split <;> assumption

theorem Post.outOfFuel {α} {Q : α → Prop} : Post (outOfFuel : P α) Q := ⟨by intro s a s' h; cases h⟩

/-- What `parseElement` can return when the current token is an IDENTIFIER. -/
inductive IdentShape : Expr → Prop where
  | name (n : String) : IdentShape (.name n)
  | sub (n : String) (i : Expr) : IdentShape (.sub n i)
  | call (f : String) (args : List Expr) : IdentShape (.call f args)

theorem post_parseIdentElement (fuel : Nat) : Post (parseIdentElement fuel) IdentShape := by
  cases fuel with
  | zero => rw [parseIdentElement]; exact Post.outOfFuel
  | succ n =>
    rw [parseIdentElement]
    refine Post.bind fun name => Post.bind fun t => Post.ite ?_ (Post.ite ?_ ?_)
    · exact Post.bind fun _ => Post.bind fun e => Post.bind fun _ => Post.pure _ (IdentShape.sub _ _)
    · exact Post.bind fun args => Post.pure _ (IdentShape.call _ _)
    · exact Post.pure _ (IdentShape.name _)

theorem bind_cur {β} (f : LTok → P β) (s : PState) : (cur >>= f) s = f s.cur s := rfl
theorem bind_curTok {β} (f : Tok → P β) (s : PState) : (curTok >>= f) s = f s.cur.tok s := rfl
theorem bind_curLoc {β} (f : Loc → P β) (s : PState) : (curLoc >>= f) s = f s.cur.loc s := rfl

/-- With an IDENTIFIER as current token, `parseElement` is its IDENTIFIER case. -/
theorem parseElement_ident (fuel : Nat) (s : PState) (h : s.cur.tok = .IDENTIFIER) (e : Expr) (s' : PState)
    (hok : parseElement fuel s = .ok (e, s')) : IdentShape e := by
  cases fuel with
  | zero => rw [parseElement] at hok; cases hok
  | succ n =>
    rw [parseElement, bind_cur] at hok
    simp only [h] at hok
    exact (post_parseIdentElement n).h s e s' hok

theorem faultP_ne {α} (what : String) : ¬ NoFault (faultP what : P α) → True := fun _ => trivial

/-- The statement parser never reaches the partial operation it names (an assignment whose target
    is neither a variable nor a subscript), nor any other. -/
theorem noFault_stmt : ∀ fuel, NoFault (parseStatement fuel) ∧ NoFault (parseStatementsTail fuel) := by
  intro fuel
  induction fuel with
  | zero =>
    exact ⟨by rw [parseStatement]; exact NoFault.outOfFuel, by rw [parseStatementsTail]; exact NoFault.outOfFuel⟩
  | succ n ih =>
    obtain ⟨hS, hT⟩ := ih
    obtain ⟨hE, hEl, _, _, _, _⟩ := noFault_expr n
    refine ⟨?_, ?_⟩
    · constructor
      intro s w h
      rw [parseStatement, bind_curLoc, bind_curTok] at h
      cases htok : s.cur.tok <;> simp only [htok] at h
      case IDENTIFIER =>
        -- the element is a call, a variable or a subscript
        change (StateT.bind (parseElement n) _ s) = _ at h
        unfold StateT.bind at h
        cases hel : parseElement n s with
        | error e =>
          rw [hel] at h
          have : e = .fault w := by change Except.error e = _ at h; injection h
          exact hEl.h s w (by rw [hel, this])
        | ok p =>
          rw [hel] at h
          obtain ⟨e, s1⟩ := p
          have hsh := parseElement_ident n s htok e s1 hel
          cases hsh with
          | name x =>
            have hb : NoFault (do expect .ASS; let e ← parseExpr n; pure (Stmt.assign x e) : P Stmt) := by
              repeat nf_step
            exact hb.h s1 w h
          | sub x i =>
            have hb : NoFault (do expect .ASS; let e ← parseExpr n; pure (Stmt.assignSub x i e) : P Stmt) := by
              repeat nf_step
            exact hb.h s1 w h
          | call f args => cases h
      all_goals
        -- every other case is a `do` block of fault-free components
        revert h
        apply NoFault.h
        repeat nf_step
    · rw [parseStatementsTail]
      repeat nf_step

end Hex.Xcmp

namespace Hex.Xcmp
open Hex.X

theorem noFault_parseDecl (fuel : Nat) : NoFault (parseDecl fuel) := by
  have hE := (noFault_expr fuel).1
  unfold parseDecl
  repeat nf_step

theorem noFault_parseDecls (b : Bool) : ∀ fuel, NoFault (parseDecls b fuel) := by
  intro fuel
  induction fuel with
  | zero => rw [parseDecls]; exact NoFault.outOfFuel
  | succ n ih =>
    have hD := noFault_parseDecl n
    rw [parseDecls]
    repeat nf_step

theorem noFault_parseFormal : NoFault parseFormal := by
  unfold parseFormal
  repeat nf_step

theorem noFault_parseFormals : ∀ fuel, NoFault (parseFormals fuel) := by
  intro fuel
  induction fuel with
  | zero => rw [parseFormals]; exact NoFault.outOfFuel
  | succ n ih =>
    have hF := noFault_parseFormal
    rw [parseFormals]
    repeat nf_step

theorem noFault_parseProcDecl (fuel : Nat) : NoFault (parseProcDecl fuel) := by
  have hS := (noFault_stmt fuel).1
  have hF := noFault_parseFormals fuel
  have hD := noFault_parseDecls false fuel
  unfold parseProcDecl
  repeat nf_step

theorem noFault_parseProcDecls : ∀ fuel, NoFault (parseProcDecls fuel) := by
  intro fuel
  induction fuel with
  | zero => rw [parseProcDecls]; exact NoFault.outOfFuel
  | succ n ih =>
    have hP := noFault_parseProcDecl n
    rw [parseProcDecls]
    repeat nf_step

theorem noFault_parseProgramP (fuel : Nat) : NoFault (parseProgramP fuel) := by
  have hD := noFault_parseDecls true fuel
  have hP := noFault_parseProcDecls fuel
  unfold parseProgramP
  repeat nf_step

/-- The front end never executes a partial operation, whatever the source bytes. -/
theorem parseProgram_no_fault (src : List Byte) (fuel : Nat) (w : String) :
    parseProgram src fuel ≠ .error (.fault w) := by
  unfold parseProgram
  split
  · rename_i t r _
    intro h
    cases hrun : (parseProgramP fuel).run { cur := t, rest := r } with
    | error e =>
      rw [hrun] at h
      have : e = .fault w := by change Except.error e = _ at h; injection h
      exact (noFault_parseProgramP fuel).h _ w (by rw [← this]; exact hrun)
    | ok p => rw [hrun] at h; cases h
  · intro h; unfold lexDiag at h; cases h
  · intro h; cases h

/-! ### The lexer -/

/-- An item list is well ended: its last item is a diagnostic or an END_OF_FILE token. -/
def WellEnded (l : List LItem) : Prop :=
  match l.getLast? with
  | some (.err _) => True
  | some (.tok t) => t.tok = .END_OF_FILE
  | none => False

theorem wellEnded_ne_nil {l : List LItem} (h : WellEnded l) : l ≠ [] := by
  intro hl; subst hl; simp [WellEnded] at h

theorem wellEnded_append (xs ys : List LItem) (h : WellEnded ys) : WellEnded (xs ++ ys) := by
  have hne := wellEnded_ne_nil h
  have hl : (xs ++ ys).getLast? = ys.getLast? := by
    simp only [List.getLast?_append]
    cases hy : ys.getLast? with
    | none => simp [List.getLast?_eq_none_iff] at hy; exact absurd hy hne
    | some v => simp
  unfold WellEnded at *
  rw [hl]
  exact h

theorem wellEnded_cons (x : LItem) (ys : List LItem) (h : WellEnded ys) : WellEnded (x :: ys) :=
  wellEnded_append [x] ys h

theorem wellEnded_err (e : LexErr) : WellEnded [.err e] := by simp [WellEnded]
theorem wellEnded_eof (s : LexSt) (c : Nat) : WellEnded [mk .END_OF_FILE s c] := by simp [WellEnded, mk]

theorem atEnd_wellEnded (m : Mode) (s : LexSt) : WellEnded (atEnd m s) := by
  cases m <;> simp [atEnd, WellEnded, mk]

theorem lexGo_wellEnded : ∀ (src : List Byte) (m : Mode) (s : LexSt), WellEnded (lexGo src m s) := by
  intro src
  induction src with
  | nil => intro m s; rw [lexGo]; exact atEnd_wellEnded m s
  | cons c rest ih =>
    intro m s
    rw [lexGo]
    split
    · exact wellEnded_append _ _ (ih _ _)
    · exact wellEnded_append _ _ (wellEnded_cons _ _ (ih _ _))
    · exact wellEnded_append _ _ (wellEnded_err _)

theorem lexAll_wellEnded (src : List Byte) : WellEnded (lexAll src) := lexGo_wellEnded src .start {}

theorem lexAll_ne_nil (src : List Byte) : lexAll src ≠ [] := wellEnded_ne_nil (lexAll_wellEnded src)

theorem step_pre_len (c : Byte) (m : Mode) (s : LexSt) : (step c m s).1.length ≤ 1 := by
  unfold step
  cases m <;> simp only [] <;> repeat (first | split | simp)

theorem atEnd_len (m : Mode) (s : LexSt) : (atEnd m s).length ≤ 2 := by
  cases m <;> simp [atEnd]

/-- At most two items per byte (a completed token and the one the byte itself makes), two at the end. -/
theorem lexGo_length : ∀ (src : List Byte) (m : Mode) (s : LexSt), (lexGo src m s).length ≤ 2 * src.length + 2 := by
  intro src
  induction src with
  | nil => intro m s; rw [lexGo]; simpa using atEnd_len m s
  | cons c rest ih =>
    intro m s
    rw [lexGo]
    have hp := step_pre_len c m s
    split
    · rename_i pre m' s' heq
      rw [heq] at hp
      have := ih m' s'
      simp only [List.length_append, List.length_cons] at *
      omega
    · rename_i pre t m' s' heq
      rw [heq] at hp
      have := ih m' s'
      simp only [List.length_append, List.length_cons] at *
      omega
    · rename_i pre e heq
      rw [heq] at hp
      simp only [List.length_append, List.length_cons, List.length_nil] at *
      omega

end Hex.Xcmp
