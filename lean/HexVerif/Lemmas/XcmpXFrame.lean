import HexVerif.Lemmas.XcmpStage4Caller
/-!
  The evaluation of an expression leaves the bindings of the current procedure instance and the
  call depth as they were (a call restores them, `callUser_frame`).
-/
namespace Hex.C01s
open Hex Hex.X Hex.Xcmp

/-- `s'` has the locals and the depth of `s`. -/
def FrameEq (s s' : X.St) : Prop := s'.locals = s.locals ∧ s'.depth = s.depth

theorem FrameEq.refl (s : X.St) : FrameEq s s := ⟨rfl, rfl⟩
theorem FrameEq.trans {a b c : X.St} (h1 : FrameEq a b) (h2 : FrameEq b c) : FrameEq a c :=
  ⟨h2.1.trans h1.1, h2.2.trans h1.2⟩
theorem FrameEq.ofSame {a b : X.St} (h : SameVars a b) : FrameEq a b := ⟨h.2.1, h.2.2.2.2.2⟩

theorem doSyscall_frame (id : Word) (vs : List Val) (s s' : X.St) (r : Option Word)
    (h : X.doSyscall id vs s = .ok r s') : FrameEq s s' := by
  have := doSyscall_state id vs s s' r h
  rw [this]
  exact ⟨rfl, rfl⟩

theorem eval_frame_all (xc : X.Ctx) : ∀ fuel,
    (∀ e σ v σ', X.eval fuel xc e σ = .ok v σ' → FrameEq σ σ') ∧
    (∀ es σ vs σ', X.evalArgs fuel xc es σ = .ok vs σ' → FrameEq σ σ') := by
  intro fuel
  induction fuel with
  | zero =>
    constructor
    · intro e σ v σ' h; unfold X.eval at h; simp at h
    · intro es σ vs σ' h; rw [evalArgs_zero] at h; simp at h
  | succ f ih =>
    obtain ⟨ihE, ihA⟩ := ih
    constructor
    · intro e σ v σ' h
      have hT : ∀ st, X.tick xc σ = some st → FrameEq σ st := fun st ht => FrameEq.ofSame (tick_same _ _ _ ht)
      cases e with
      | num x => exact hT _ (eval_num _ _ _ _ _ _ h).2
      | bool b => exact hT _ (eval_bool _ _ _ _ _ _ h).2
      | name n => exact hT _ (eval_name _ _ _ _ _ _ h).1
      | str bs => obtain ⟨_, h1, _⟩ := eval_str _ _ _ _ _ _ h; exact hT _ h1
      | sub n i =>
        obtain ⟨st, iv, ar, w, h1, h2, _⟩ := eval_sub _ _ _ _ _ _ _ h
        exact (hT _ h1).trans (ihE _ _ _ _ h2)
      | un op x =>
        cases op with
        | neg => obtain ⟨st, w, h1, h2, _⟩ := eval_neg _ _ _ _ _ _ h; exact (hT _ h1).trans (ihE _ _ _ _ h2)
        | not => obtain ⟨st, w, h1, h2, _⟩ := eval_not _ _ _ _ _ _ h; exact (hT _ h1).trans (ihE _ _ _ _ h2)
      | bin op l r =>
        by_cases hop : isArith op = true
        · obtain ⟨st, a, s1, b, w, h1, h2, h3, _⟩ := eval_arith _ _ _ _ _ _ _ _ hop h
          exact ((hT _ h1).trans (ihE _ _ _ _ h2)).trans (ihE _ _ _ _ h3)
        · cases op <;> simp only [isArith, not_true_eq_false] at hop
          · obtain ⟨st, a, s1, h1, h2, _, h4⟩ := eval_and _ _ _ _ _ _ _ h
            rcases h4 with ⟨_, _, hs⟩ | ⟨_, b, h5, _⟩
            · subst hs; exact (hT _ h1).trans (ihE _ _ _ _ h2)
            · exact ((hT _ h1).trans (ihE _ _ _ _ h2)).trans (ihE _ _ _ _ h5)
          · obtain ⟨st, a, s1, h1, h2, _, h4⟩ := eval_or _ _ _ _ _ _ _ h
            rcases h4 with ⟨_, _, hs⟩ | ⟨_, b, h5, _⟩
            · subst hs; exact (hT _ h1).trans (ihE _ _ _ _ h2)
            · exact ((hT _ h1).trans (ihE _ _ _ _ h2)).trans (ihE _ _ _ _ h5)
      | syscall id args =>
        unfold X.eval at h
        cases ht : X.tick xc σ with
        | none => rw [ht] at h; simp at h
        | some st =>
          rw [ht] at h
          simp only at h
          split at h
          · simp at h
          · split at h
            · simp at h
            · obtain ⟨vs, s1, h1, h2⟩ := bind_ok_inv _ _ _ _ h
              obtain ⟨r', s2, h3, h4⟩ := bind_ok_inv _ _ _ _ h2
              have hf := ((hT _ ht).trans (ihA _ _ _ _ h1)).trans (doSyscall_frame _ _ _ _ _ h3)
              split at h4 <;> simp only [Res.ok.injEq, reduceCtorEq] at h4
              rw [← h4.2]; exact hf
      | call g args =>
        unfold X.eval at h
        cases ht : X.tick xc σ with
        | none => rw [ht] at h; simp at h
        | some st =>
          rw [ht] at h
          simp only at h
          split at h
          · simp at h
          · split at h
            · simp at h
            · split at h
              · simp at h
              · obtain ⟨vs, s1, h1, h2⟩ := bind_ok_inv _ _ _ _ h
                obtain ⟨r', s2, h3, h4⟩ := bind_ok_inv _ _ _ _ h2
                have hf := ((hT _ ht).trans (ihA _ _ _ _ h1)).trans (doSyscall_frame _ _ _ _ _ h3)
                split at h4 <;> simp only [Res.ok.injEq, reduceCtorEq] at h4
                rw [← h4.2]; exact hf
            · split at h
              · simp at h
              · obtain ⟨vs, s1, h1, h2⟩ := bind_ok_inv _ _ _ _ h
                obtain ⟨r', s2, h3, h4⟩ := bind_ok_inv _ _ _ _ h2
                have hc := callUser_frame _ _ _ _ _ _ _ h3
                have hf := ((hT _ ht).trans (ihA _ _ _ _ h1)).trans (⟨hc.1, hc.2⟩ : FrameEq s1 s2)
                split at h4 <;> simp only [Res.ok.injEq, reduceCtorEq] at h4
                rw [← h4.2]; exact hf
    · intro es σ vs σ' h
      cases es with
      | nil => rw [evalArgs_nil] at h; simp only [Res.ok.injEq] at h; rw [← h.2]; exact FrameEq.refl _
      | cons e rest =>
        obtain ⟨v, s1, vs', h1, h2, _⟩ := evalArgs_cons_inv _ _ _ _ _ _ _ h
        exact (ihE _ _ _ _ h1).trans (ihA _ _ _ _ h2)

theorem eval_frame (xc : X.Ctx) (fuel : Nat) (e : X.Expr) (σ : X.St) (v : Val) (σ' : X.St)
    (h : X.eval fuel xc e σ = .ok v σ') : FrameEq σ σ' := (eval_frame_all xc fuel).1 e σ v σ' h

/-- The names of constants denote the same constants after the evaluation of any expression. -/
theorem ValsOk.frame {ρ : String → Option Word} {xc : X.Ctx} {σ σ' : X.St} (h : ∀ n w, ρ n = some w → ValBound xc σ n w)
    (hf : FrameEq σ σ') : ValsOk ρ xc σ' := by
  intro n w hn
  have hb := h n w hn
  have : ValBound xc σ' n w := by unfold ValBound at hb ⊢; rw [hf.1]; exact hb
  exact this.read

end Hex.C01s
