import HexVerif.Sim.Model
/-
  Helper lemmas relating `Sim.stepBody` (hexsim.hpp as written) to `Isa.step` (hexb.pdf).
-/
namespace Hex.Sim
open Hex Hex.Isa

/-- The architectural part of the simulator object. -/
def abs (p : Proc) : Isa.St := { pc := p.pc, a := p.areg, b := p.breg, o := p.oreg, mem := p.memory }

/-- Map a step result of the C++ model to an ISA outcome: a thrown `runtime_error` is one of
    the three cases the ISA leaves undefined, an out-of-range `std::array` index is the ISA's
    out-of-range effective address. -/
def toOutcome : Res Proc → Isa.Outcome
  | .ok q => if q.running then .running (abs q) q.io else .exited q.exitCode (abs q) q.io
  | .throw m => if m = "invalid OPR" then .undef .badOpr
                else if m = "invalid syscall" then .undef .badSvc
                else .undef .badOpcode
  | .fault .oob => .undef .outOfRange

theorem and3_le (pc : Word) : (pc &&& 3#32).toNat ≤ 3 := by
  rw [BitVec.toNat_and]; exact Nat.and_le_right

theorem shl3 (pc : Word) : ((pc &&& 3#32) <<< 3).toNat = (pc &&& 3#32).toNat * 8 := by
  have := and3_le pc
  rw [BitVec.toNat_shiftLeft, Nat.shiftLeft_eq]
  have : (pc &&& 3#32).toNat * 2 ^ 3 < 2 ^ 32 := by omega
  rw [Nat.mod_eq_of_lt this]

theorem and_ff (x : Word) : x &&& 255#32 = (x.truncate 8).zeroExtend 32 := by
  apply BitVec.eq_of_toNat_eq
  simp only [BitVec.toNat_and, BitVec.truncate, BitVec.zeroExtend, BitVec.toNat_setWidth]
  have : BitVec.toNat (255#32) = 2^8 - 1 := rfl
  rw [this, Nat.and_two_pow_sub_one_eq_mod]
  omega

/-- The word-shift-mask fetch of hexsim.hpp equals the byte view `pmem[pc]` (little-endian). -/
theorem fetch_word_eq (w pc : Word) :
    (w >>> (((pc &&& 3#32) <<< 3).toNat)) &&& 255#32
      = (byteOfWord w (pc &&& 3#32).toNat).zeroExtend 32 := by
  unfold byteOfWord
  rw [shl3, and_ff]

theorem low_nibble (inst : Byte) :
    (inst.zeroExtend 32 : Word) &&& 15#32 = (inst &&& 15#8).zeroExtend 32 := by
  apply BitVec.eq_of_toNat_eq
  simp only [BitVec.toNat_and, BitVec.zeroExtend, BitVec.toNat_setWidth]
  have h1 : BitVec.toNat (15#32) = 2^4 - 1 := rfl
  have h2 : BitVec.toNat (15#8) = 2^4 - 1 := rfl
  rw [h1, h2, Nat.and_two_pow_sub_one_eq_mod, Nat.and_two_pow_sub_one_eq_mod]
  have := inst.isLt
  omega

theorem high_nibble (inst : Byte) :
    (((inst.zeroExtend 32 : Word) >>> 4) &&& 15#32).toNat = (inst >>> 4).toNat := by
  simp only [BitVec.toNat_and, BitVec.zeroExtend, BitVec.toNat_setWidth, BitVec.toNat_ushiftRight]
  have h1 : BitVec.toNat (15#32) = 2^4 - 1 := rfl
  rw [h1, Nat.and_two_pow_sub_one_eq_mod, Nat.shiftRight_eq_div_pow, Nat.shiftRight_eq_div_pow]
  have := inst.isLt
  omega

theorem high_nibble_lt (inst : Byte) : (inst >>> 4).toNat < 16 := by
  rw [BitVec.toNat_ushiftRight, Nat.shiftRight_eq_div_pow]
  have := inst.isLt
  omega

theorem rd_eq (m : Mem) (i : Word) : rd m i = Isa.ld m i := rfl
theorem wr_eq (m : Mem) (i v : Word) : wr m i v = Isa.stw m i v := rfl

theorem sx_mask (b : Byte) : (b.signExtend 32 &&& 255#32) = b.zeroExtend 32 := by
  rw [and_ff]
  congr 1
  ext i hi
  have : i < 32 := by omega
  simp [BitVec.truncate, BitVec.getElem_setWidth, BitVec.getElem_signExtend, hi, this]

theorem charToInt_mask (c : Option Byte) :
    charToInt c &&& 255#32 = (match c with | none => 255#32 | some b => b.zeroExtend 32) := by
  cases c with
  | none => decide
  | some b => simp only [charToInt, sx_mask]

def inKind (s : Word) : Option (Fin 8) :=
  if s.toInt < 256 then none else some ⟨((s >>> 8) &&& 7).toNat % 8, Nat.mod_lt _ (by decide)⟩

theorem ioOutput_eq (io : IOSt) (v s : Word) : ioOutput io (v.truncate 8) s = Isa.simout io v s := by
  unfold ioOutput Isa.simout Isa.isStdio Isa.fileIndex
  simp only [decide_eq_true_eq]
  split <;> rfl

theorem setFn_self {α} (f : Fin 8 → α) (k : Fin 8) (v : α) (h : f k = v) : setFn f k v = f := by
  funext j; unfold setFn; split <;> simp_all

theorem simin_eq (io : IOSt) (s : Word) :
    Isa.simin io s =
      (charToInt (ioInput io s).1 &&& 255#32,
       { (ioInput io s).2 with log := .inp (inKind s) (charToInt (ioInput io s).1 &&& 255#32) :: (ioInput io s).2.log }) := by
  rcases io with ⟨stdin, files, conn, log⟩
  unfold Isa.simin ioInput inKind Isa.isStdio Isa.fileIndex Isa.getByte
  simp only [decide_eq_true_eq, BitVec.ofNat_eq_ofNat]
  split
  · cases stdin <;> simp [charToInt_mask]
  · generalize hk : (⟨((s >>> 8) &&& 7#32).toNat % 8, _⟩ : Fin 8) = k
    cases hc : conn k <;> cases hf : files k <;> simp [charToInt_mask, setFn_self, hf]

/-- What `run()` does with the result of `syscall()`: `oreg = 0; cycles++`. -/
def afterSyscall : Res Proc → Res Proc
  | .ok q => .ok { q with oreg := 0, cycles := q.cycles + 1 }
  | .throw m => .throw m
  | .fault f => .fault f

theorem syscall_refines (p : Proc) (hr : p.running = true) (ht : p.truncateInputs = true) :
    toOutcome (afterSyscall (syscall p)) = Isa.svc (abs p) p.io := by
  unfold syscall Isa.svc
  simp only [abs, rd_eq, wr_eq, BitVec.ofNat_eq_ofNat]
  by_cases h0 : p.areg = 0#32
  · simp only [h0, if_true]
    cases ld p.memory (p.memory.read 1 + 2#32) <;> simp [afterSyscall, toOutcome, abs]
  · simp only [h0, if_false]
    by_cases h1 : p.areg = 1#32
    · simp only [h1, if_true]
      cases ld p.memory (p.memory.read 1 + 2#32) <;> cases ld p.memory (p.memory.read 1 + 3#32) <;>
        simp [afterSyscall, toOutcome, abs, hr, ioOutput_eq]
    · simp only [h1, if_false]
      by_cases h2 : p.areg = 2#32
      · simp only [h2, if_true]
        cases ld p.memory (p.memory.read 1 + 2#32) with
        | none => simp [afterSyscall, toOutcome]
        | some s =>
          simp only [simin_eq, ht, if_true]
          cases stw p.memory (p.memory.read 1 + 1#32) (charToInt (ioInput p.io s).1 &&& 255#32) <;>
            simp [afterSyscall, toOutcome, abs, hr, inKind]
      · simp [h2, afterSyscall, toOutcome]

theorem exec_refines (p : Proc) (hr : p.running = true) (ht : p.truncateInputs = true) :
    toOutcome (exec p) = Isa.dispatch (abs p) p.io p.instrEnum := by
  have hsys := syscall_refines p hr ht
  rcases p with ⟨pc, areg, breg, oreg, instr, memory, io, truncateInputs, running, tracing,
    exitCode, lastPC, cycles, maxCycles, instrEnum, debugInfo, traceLog⟩
  simp only at hr ht
  subst hr ht
  unfold exec Isa.dispatch
  simp only [rd_eq, wr_eq, abs, BitVec.ofNat_eq_ofNat] at hsys ⊢
  split
  case h_1 => cases ld memory oreg <;> simp [toOutcome, abs]
  case h_2 => cases ld memory oreg <;> simp [toOutcome, abs]
  case h_3 => cases stw memory oreg areg <;> simp [toOutcome, abs]
  case h_7 => cases ld memory (areg + oreg) <;> simp [toOutcome, abs]
  case h_8 => cases ld memory (breg + oreg) <;> simp [toOutcome, abs]
  case h_9 => cases stw memory (breg + oreg) areg <;> simp [toOutcome, abs]
  case h_11 => by_cases h : areg = 0#32 <;> simp [h, toOutcome, abs]
  case h_12 => by_cases h : areg.toInt < 0 <;> simp [h, toOutcome, abs]
  case h_15 =>
    by_cases h0 : oreg = 0#32
    · simp [h0, toOutcome, abs]
    by_cases h1 : oreg = 1#32
    · simp [h1, toOutcome, abs]
    by_cases h2 : oreg = 2#32
    · simp [h2, toOutcome, abs]
    by_cases h3 : oreg = 3#32
    · subst h3
      simp only [BitVec.reduceEq, if_false, if_true]
      rw [← hsys]
      generalize syscall _ = r
      cases r <;> simp [afterSyscall]
    · simp [h0, h1, h2, h3, toOutcome]
  all_goals simp [toOutcome, abs]

/-- Tracing changes nothing but the trace log. -/
theorem traceHook_abs (p : Proc) : abs (traceHook p) = abs p ∧ (traceHook p).io = p.io ∧
    (traceHook p).instrEnum = p.instrEnum ∧ (traceHook p).running = p.running ∧
    (traceHook p).truncateInputs = p.truncateInputs := by
  unfold traceHook; split <;> simp [abs]

/-- **hexsim's loop body is the ISA step** (for every instruction byte and every state). -/
theorem step_refines (p : Proc) (hr : p.running = true) (ht : p.truncateInputs = true) :
    toOutcome (stepBody p) = Isa.step (abs p) p.io := by
  unfold stepBody Isa.step Isa.fetch
  simp only [rd_eq, Isa.ld, abs]
  by_cases hpc : (p.pc >>> 2).toNat < memWords
  · simp only [hpc, if_true]
    obtain ⟨h1, h2, h3, h4, h5⟩ := traceHook_abs (fetchDecode p (p.memory.read (p.pc >>> 2).toNat))
    rw [exec_refines _ (by rw [h4]; exact hr) (by rw [h5]; exact ht), h1, h2, h3]
    simp only [fetchDecode, abs, BitVec.ofNat_eq_ofNat, fetch_word_eq, low_nibble, high_nibble]
  · simp only [hpc, if_false, toOutcome]


/-- Fields untouched by a step, and the bookkeeping it does. -/
def Frame (p q : Proc) : Prop :=
  q.truncateInputs = p.truncateInputs ∧ q.maxCycles = p.maxCycles ∧ q.tracing = p.tracing ∧
  q.debugInfo = p.debugInfo ∧ q.traceLog = p.traceLog ∧
  (q.running = true → q.exitCode = p.exitCode) ∧ (q.running = true → p.running = true)

def Res.All (P : Proc → Prop) : Res Proc → Prop
  | .ok q => P q
  | _ => True

theorem syscall_frame (p : Proc) : (syscall p).All (fun q => Frame p q ∧ q.cycles = p.cycles) := by
  unfold syscall
  simp only [BitVec.ofNat_eq_ofNat]
  split
  · cases rd p.memory (p.memory.read 1 + 2#32) <;> simp [Res.All, Frame]
  split
  · cases rd p.memory (p.memory.read 1 + 2#32) <;> cases rd p.memory (p.memory.read 1 + 3#32) <;> simp [Res.All, Frame]
  split
  · cases rd p.memory (p.memory.read 1 + 2#32) with
    | none => simp [Res.All]
    | some s =>
      simp only []
      generalize (if p.truncateInputs = true then _ else _ : Word) = w
      cases wr p.memory (p.memory.read 1 + 1#32) w <;> simp [Res.All, Frame]
  · simp [Res.All]

theorem exec_frame (p : Proc) : (exec p).All (fun q => Frame p q ∧ q.cycles = p.cycles + 1) := by
  have hsys := syscall_frame p
  unfold exec
  simp only [BitVec.ofNat_eq_ofNat]
  split
  case h_1 => cases rd p.memory p.oreg <;> simp [Res.All, Frame]
  case h_2 => cases rd p.memory p.oreg <;> simp [Res.All, Frame]
  case h_3 => cases wr p.memory p.oreg p.areg <;> simp [Res.All, Frame]
  case h_7 => cases rd p.memory (p.areg + p.oreg) <;> simp [Res.All, Frame]
  case h_8 => cases rd p.memory (p.breg + p.oreg) <;> simp [Res.All, Frame]
  case h_9 => cases wr p.memory (p.breg + p.oreg) p.areg <;> simp [Res.All, Frame]
  case h_15 =>
    split
    · simp [Res.All, Frame]
    split
    · simp [Res.All, Frame]
    split
    · simp [Res.All, Frame]
    split
    · generalize syscall p = r at hsys
      cases r <;> simp_all [Res.All, Frame]
    · simp [Res.All]
  all_goals simp [Res.All, Frame]


/-- Overwrite the two members only tracing touches. -/
def setTrace (p : Proc) (t : Bool) (l : List TraceLine) : Proc := { p with tracing := t, traceLog := l }

def Res.map (f : Proc → Proc) : Res Proc → Res Proc
  | .ok q => .ok (f q)
  | .throw m => .throw m
  | .fault x => .fault x

theorem syscall_setTrace (p : Proc) (t : Bool) (l : List TraceLine) :
    syscall (setTrace p t l) = (syscall p).map (fun q => setTrace q t l) := by
  rcases p with ⟨pc, areg, breg, oreg, instr, memory, io, truncateInputs, running, tracing,
    exitCode, lastPC, cycles, maxCycles, instrEnum, debugInfo, traceLog⟩
  unfold syscall setTrace
  simp only [BitVec.ofNat_eq_ofNat]
  split
  · cases rd memory (memory.read 1 + 2#32) <;> simp [Res.map]
  split
  · cases rd memory (memory.read 1 + 2#32) <;> cases rd memory (memory.read 1 + 3#32) <;> simp [Res.map]
  split
  · cases rd memory (memory.read 1 + 2#32) with
    | none => simp [Res.map]
    | some s =>
      cases truncateInputs <;> simp only [Bool.false_eq_true, if_true, if_false]
      · cases wr memory (memory.read 1 + 1#32) (charToInt (ioInput io s).fst) <;> simp [Res.map]
      · cases wr memory (memory.read 1 + 1#32) (charToInt (ioInput io s).fst &&& 255#32) <;> simp [Res.map]
  · simp [Res.map]

theorem exec_setTrace (p : Proc) (t : Bool) (l : List TraceLine) :
    exec (setTrace p t l) = (exec p).map (fun q => setTrace q t l) := by
  have hsys := syscall_setTrace p t l
  rcases p with ⟨pc, areg, breg, oreg, instr, memory, io, truncateInputs, running, tracing,
    exitCode, lastPC, cycles, maxCycles, instrEnum, debugInfo, traceLog⟩
  unfold exec
  unfold setTrace at hsys ⊢
  simp only [BitVec.ofNat_eq_ofNat] at hsys ⊢
  split
  case h_1 => cases rd memory oreg <;> simp [Res.map]
  case h_2 => cases rd memory oreg <;> simp [Res.map]
  case h_3 => cases wr memory oreg areg <;> simp [Res.map]
  case h_7 => cases rd memory (areg + oreg) <;> simp [Res.map]
  case h_8 => cases rd memory (breg + oreg) <;> simp [Res.map]
  case h_9 => cases wr memory (breg + oreg) areg <;> simp [Res.map]
  case h_15 =>
    split
    · simp [Res.map]
    split
    · simp [Res.map]
    split
    · simp [Res.map]
    split
    · rw [hsys]
      generalize syscall _ = r
      cases r <;> simp [Res.map]
    · simp [Res.map]
  all_goals simp [Res.map]

theorem Frame.refl (p : Proc) : Frame p p := by simp [Frame]

theorem stepBody_frame (p : Proc) :
    (stepBody p).All (fun q => q.truncateInputs = p.truncateInputs ∧ q.maxCycles = p.maxCycles ∧
      q.tracing = p.tracing ∧ q.debugInfo = p.debugInfo ∧ q.cycles = p.cycles + 1 ∧
      (q.running = true → q.exitCode = p.exitCode) ∧ (q.running = true → p.running = true)) := by
  unfold stepBody
  cases rd p.memory (p.pc >>> 2) with
  | none => simp [Res.All]
  | some w =>
    simp only []
    have h := exec_frame (traceHook (fetchDecode p w))
    generalize exec (traceHook (fetchDecode p w)) = r at h
    cases r with
    | ok q =>
      simp only [Res.All, Frame] at h ⊢
      have ht : (traceHook (fetchDecode p w)).truncateInputs = p.truncateInputs ∧
                (traceHook (fetchDecode p w)).maxCycles = p.maxCycles ∧
                (traceHook (fetchDecode p w)).tracing = p.tracing ∧
                (traceHook (fetchDecode p w)).debugInfo = p.debugInfo ∧
                (traceHook (fetchDecode p w)).cycles = p.cycles ∧
                (traceHook (fetchDecode p w)).exitCode = p.exitCode ∧
                (traceHook (fetchDecode p w)).running = p.running := by
        unfold traceHook fetchDecode; split <;> simp
      obtain ⟨a1, a2, a3, a4, a5, a6, a7⟩ := ht
      obtain ⟨⟨b1, b2, b3, b4, _, b6, b7⟩, b8⟩ := h
      refine ⟨by rw [b1, a1], by rw [b2, a2], by rw [b3, a3], by rw [b4, a4], by rw [b8, a5], ?_, ?_⟩
      · intro hq; rw [b6 hq, a6]
      · intro hq; rw [← a7]; exact b7 hq
    | throw m => simp [Res.All]
    | fault f => simp [Res.All]

/-- What an observer of a run sees. -/
inductive Obs where
  | exited (code : Word) (s : Isa.St) (io : IOSt)
  | undef (why : Isa.Undef)
  | outOfFuel (s : Isa.St) (io : IOSt)

def obsIsa : Isa.RunResult → Obs
  | .exited c _ s io => .exited c s io
  | .undef w _ => .undef w
  | .outOfFuel s io => .outOfFuel s io

def undefOf (m : String) : Isa.Undef :=
  if m = "invalid OPR" then .badOpr else if m = "invalid syscall" then .badSvc else .badOpcode

def obsSim : RunRes → Obs
  | .returned c q => .exited c (abs q) q.io
  | .threw m _ => .undef (undefOf m)
  | .faulted .oob _ => .undef .outOfRange
  | .outOfFuel q => .outOfFuel (abs q) q.io

theorem run_refines (fuel : Nat) : ∀ (p : Proc) (k : Nat), p.running = true → p.truncateInputs = true →
    p.maxCycles = 0 → obsSim (run fuel p) = obsIsa (Isa.run fuel (abs p) p.io k) := by
  induction fuel with
  | zero =>
    intro p k hr ht hm
    unfold run Isa.run
    simp [loopCond, hr, hm, obsSim, obsIsa]
  | succ n ih =>
    intro p k hr ht hm
    unfold run Isa.run
    have hstep := step_refines p hr ht
    have hfr := stepBody_frame p
    simp only [loopCond, hr, hm, Nat.lt_irrefl, if_false, Bool.true_and, if_true]
    rw [← hstep]
    cases hsb : stepBody p with
    | ok q =>
      rw [hsb] at hfr
      simp only [Res.All] at hfr
      obtain ⟨f1, f2, _, _, _, f6, _⟩ := hfr
      simp only [toOutcome]
      by_cases hq : q.running = true
      · simp only [hq, if_true]
        exact ih q (k+1) hq (by rw [f1, ht]) (by rw [f2, hm])
      · simp only [hq]
        unfold run
        simp [loopCond, hq, obsSim, obsIsa]
    | throw m =>
      simp only [toOutcome, obsSim, undefOf]
      by_cases h1 : m = "invalid OPR"
      · simp [h1, obsIsa]
      · by_cases h2 : m = "invalid syscall" <;> simp [h1, h2, obsIsa]
    | fault f =>
      cases f
      simp [toOutcome, obsSim, obsIsa]

def strip (p : Proc) : Proc := setTrace p false []

theorem Res.map_map (f g : Proc → Proc) (r : Res Proc) : (r.map f).map g = r.map (g ∘ f) := by
  cases r <;> rfl

theorem traceHook_eq (p : Proc) : ∃ l, traceHook p = setTrace p p.tracing l := by
  unfold traceHook setTrace
  split
  · exact ⟨traceLine p :: p.traceLog, by simp_all⟩
  · refine ⟨p.traceLog, ?_⟩
    cases p; simp_all

theorem stepBody_strip (p : Proc) : (stepBody p).map strip = stepBody (strip p) := by
  unfold stepBody
  have hm : (strip p).memory = p.memory := rfl
  have hpc : (strip p).pc = p.pc := rfl
  rw [hm, hpc]
  cases rd p.memory (p.pc >>> 2) with
  | none => rfl
  | some w =>
    simp only []
    have h1 : fetchDecode (strip p) w = strip (fetchDecode p w) := rfl
    have h2 : traceHook (strip (fetchDecode p w)) = strip (fetchDecode p w) := by
      unfold traceHook strip setTrace; simp
    obtain ⟨l, h3⟩ := traceHook_eq (fetchDecode p w)
    rw [h1, h2, h3]
    unfold strip
    rw [exec_setTrace, exec_setTrace, Res.map_map]
    congr 1

theorem run_strip (fuel : Nat) : ∀ p : Proc, obsSim (run fuel p) = obsSim (run fuel (strip p)) := by
  induction fuel with
  | zero =>
    intro p
    unfold run
    have : loopCond (strip p) = loopCond p := rfl
    rw [this]
    split <;> rfl
  | succ n ih =>
    intro p
    unfold run
    have : loopCond (strip p) = loopCond p := rfl
    rw [this]
    split
    · rw [← stepBody_strip]
      cases stepBody p with
      | ok q => simp only [Res.map]; exact ih q
      | throw m => rfl
      | fault f => cases f; rfl
    · rfl

/-- The two members the constructor still leaves indeterminate are dead: overwritten by
    `fetchDecode` before anything reads them. -/
theorem stepBody_junk (p : Proc) (x : Word) (y : Nat) :
    stepBody { p with instr := x, instrEnum := y } = stepBody p := rfl

theorem run_junk (fuel : Nat) (p : Proc) (x : Word) (y : Nat) :
    obsSim (run fuel { p with instr := x, instrEnum := y }) = obsSim (run fuel p) := by
  have hl : loopCond { p with instr := x, instrEnum := y } = loopCond p := rfl
  cases fuel with
  | zero => unfold run; rw [hl]; split <;> rfl
  | succ n =>
    unfold run
    rw [stepBody_junk, hl]
    split
    · cases stepBody p with
      | ok q => rfl
      | throw m => rfl
      | fault f => cases f; rfl
    · rfl

/-- With a cycle limit, `run()` returns after at most `maxCycles + 1 - cycles` iterations. -/
theorem run_maxCycles_terminates (fuel : Nat) : ∀ p : Proc, 0 < p.maxCycles →
    p.maxCycles + 1 - p.cycles ≤ fuel → ∀ q, run fuel p ≠ .outOfFuel q := by
  induction fuel with
  | zero =>
    intro p hm hf q
    unfold run
    have : loopCond p = false := by
      simp only [loopCond, hm, if_true]
      have : ¬ p.cycles ≤ p.maxCycles := by omega
      simp [this]
    simp [this]
  | succ n ih =>
    intro p hm hf q
    unfold run
    split
    · rename_i hl
      have hfr := stepBody_frame p
      cases hsb : stepBody p with
      | ok r =>
        rw [hsb] at hfr
        simp only [Res.All] at hfr
        obtain ⟨_, f2, _, _, f5, _, _⟩ := hfr
        simp only []
        apply ih r (by rw [f2]; exact hm)
        rw [f2, f5]
        simp only [loopCond, hm, if_true, Bool.and_eq_true, decide_eq_true_eq] at hl
        omega
      | throw m => simp
      | fault f => simp
    · simp

/-- The value `run()` returns is the exit value of an executed EXIT system call, or else the
    value `exitCode` had on entry (0 after the constructor). -/
theorem run_returns_defined (fuel : Nat) : ∀ (p : Proc) (c : Word) (q : Proc),
    run fuel p = .returned c q → c = q.exitCode ∧ (q.running = true → c = p.exitCode) := by
  induction fuel with
  | zero =>
    intro p c q h
    unfold run at h
    split at h
    · cases h
    · cases h; exact ⟨rfl, fun _ => rfl⟩
  | succ n ih =>
    intro p c q h
    unfold run at h
    split at h
    · have hfr := stepBody_frame p
      cases hsb : stepBody p with
      | ok r =>
        rw [hsb] at hfr h
        simp only [Res.All] at hfr
        obtain ⟨_, _, _, _, _, f6, _⟩ := hfr
        simp only [] at h
        obtain ⟨h1, h2⟩ := ih r c q h
        refine ⟨h1, fun hq => ?_⟩
        by_cases hr : r.running = true
        · rw [h2 hq, f6 hr]
        · exfalso
          unfold run at h
          have : loopCond r = false := by simp [loopCond, hr]
          simp only [this] at h
          cases h
          exact hr hq
      | throw m => rw [hsb] at h; cases h
      | fault f => rw [hsb] at h; cases h
    · cases h; exact ⟨rfl, fun _ => rfl⟩

end Hex.Sim
