import HexVerif.Isa.Spec
/-!
  The access log of an ISA run (C08, first clause).

  `Isa.step` guards every effective address (`ld`, `stw`, `fetch`) and yields `undef .outOfRange`
  when one falls outside `mem[200000]`.  This file names the addresses a step touches
  (`stepAccesses`, computed WITHOUT the guards, as hexsim computes them), proves that the guards
  and the log say the same thing (`step_outOfRange_iff`: a step is out of range exactly when its
  log holds an address `>= memWords`), and lifts it to runs: a run that exits has touched only
  words inside the memory (`run_exited_inrange`).  Together with C01 this is the per-access form
  of "every fetch, load and store addresses a word inside the machine's memory".
-/
namespace Hex.Isa

inductive AccKind where
  | fetch | load | store
  deriving DecidableEq, Repr

/-- One memory access: kind and WORD address as the hardware forms it (32-bit, unguarded). -/
structure Acc where
  kind : AccKind
  addr : Nat
  deriving DecidableEq, Repr

/-- The accesses of `svc()` in program order; `mem[1]` (the stack pointer word) is read first.
    A later access appears only if the earlier ones were in range (as in the C text, where the
    first out-of-range access is already undefined). -/
def svcAccesses (s : St) : List Acc :=
  let sp := s.mem.read 1
  if s.a = 0 then [⟨.load, 1⟩, ⟨.load, (sp + 2).toNat⟩]
  else if s.a = 1 then [⟨.load, 1⟩, ⟨.load, (sp + 2).toNat⟩, ⟨.load, (sp + 3).toNat⟩]
  else if s.a = 2 then [⟨.load, 1⟩, ⟨.load, (sp + 2).toNat⟩, ⟨.store, (sp + 1).toNat⟩]
  else [⟨.load, 1⟩]

/-- The data accesses of the `switch`; `s` as `dispatch` gets it (pc advanced, operand merged). -/
def dispatchAccesses (s : St) (opc : Nat) : List Acc :=
  match opc with
  | 0x0 => [⟨.load, s.o.toNat⟩]
  | 0x1 => [⟨.load, s.o.toNat⟩]
  | 0x2 => [⟨.store, s.o.toNat⟩]
  | 0x6 => [⟨.load, (s.a + s.o).toNat⟩]
  | 0x7 => [⟨.load, (s.b + s.o).toNat⟩]
  | 0x8 => [⟨.store, (s.b + s.o).toNat⟩]
  | 0xD => if s.o = 3 then svcAccesses s else []
  | _ => []

/-- Everything one instruction touches: the fetch, then its data accesses. -/
def stepAccesses (s : St) : List Acc :=
  ⟨.fetch, (s.pc >>> 2).toNat⟩ ::
  match fetch s.mem s.pc with
  | none => []
  | some inst => dispatchAccesses { s with pc := s.pc + 1, o := s.o ||| (inst &&& 0xF).zeroExtend 32 } (inst >>> 4).toNat

def AllIn (l : List Acc) : Prop := ∀ a ∈ l, a.addr < memWords

theorem one_lt_memWords : 1 < memWords := by decide

theorem ld_isSome {m : Mem} {i v : Word} (h : ld m i = some v) : i.toNat < memWords := by
  unfold ld at h; split at h
  · assumption
  · cases h

theorem stw_isSome {m m' : Mem} {i v : Word} (h : stw m i v = some m') : i.toNat < memWords := by
  unfold stw at h; split at h
  · assumption
  · cases h

theorem ld_isNone {m : Mem} {i : Word} (h : ld m i = none) : memWords ≤ i.toNat := by
  unfold ld at h; split at h
  · cases h
  · omega

theorem stw_isNone {m : Mem} {i v : Word} (h : stw m i v = none) : memWords ≤ i.toNat := by
  unfold stw at h; split at h
  · cases h
  · omega

theorem svc_inrange (s : St) (io : IOSt) (h : svc s io ≠ .undef .outOfRange) : AllIn (svcAccesses s) := by
  unfold svc at h
  unfold svcAccesses AllIn
  have h1m := one_lt_memWords
  intro a ha
  by_cases h0 : s.a = 0
  · simp only [if_pos h0] at h ha
    cases hl : ld s.mem (s.mem.read 1 + 2) with
    | none => rw [hl] at h; exact absurd rfl h
    | some v =>
      have := ld_isSome hl
      simp at ha; rcases ha with rfl | rfl <;> assumption
  · by_cases h1 : s.a = 1
    · simp only [if_neg h0, if_pos h1] at h ha
      cases hl : ld s.mem (s.mem.read 1 + 2) with
      | none => rw [hl] at h; exact absurd rfl h
      | some v =>
        cases hl3 : ld s.mem (s.mem.read 1 + 3) with
        | none => rw [hl, hl3] at h; exact absurd rfl h
        | some v3 =>
          have := ld_isSome hl; have := ld_isSome hl3
          simp at ha; rcases ha with rfl | rfl | rfl <;> assumption
    · by_cases h2 : s.a = 2
      · simp only [if_neg h0, if_neg h1, if_pos h2] at h ha
        cases hl : ld s.mem (s.mem.read 1 + 2) with
        | none => rw [hl] at h; exact absurd rfl h
        | some v =>
          rw [hl] at h
          cases hs : stw s.mem (s.mem.read 1 + 1) (simin io v).1 with
          | none => simp only [hs] at h; exact absurd rfl h
          | some m' =>
            have := ld_isSome hl; have := stw_isSome hs
            simp at ha; rcases ha with rfl | rfl | rfl <;> assumption
      · simp only [if_neg h0, if_neg h1, if_neg h2] at ha
        simp at ha; subst ha; exact h1m

theorem dispatch_inrange (s : St) (io : IOSt) (opc : Nat) (h : dispatch s io opc ≠ .undef .outOfRange) :
    AllIn (dispatchAccesses s opc) := by
  unfold dispatch at h
  unfold dispatchAccesses AllIn
  intro a ha
  split at ha
  · cases hl : ld s.mem s.o with
    | none => simp only [hl] at h; exact absurd rfl h
    | some v => have := ld_isSome hl; simp at ha; subst ha; assumption
  · cases hl : ld s.mem s.o with
    | none => simp only [hl] at h; exact absurd rfl h
    | some v => have := ld_isSome hl; simp at ha; subst ha; assumption
  · cases hl : stw s.mem s.o s.a with
    | none => simp only [hl] at h; exact absurd rfl h
    | some v => have := stw_isSome hl; simp at ha; subst ha; assumption
  · cases hl : ld s.mem (s.a + s.o) with
    | none => simp only [hl] at h; exact absurd rfl h
    | some v => have := ld_isSome hl; simp at ha; subst ha; assumption
  · cases hl : ld s.mem (s.b + s.o) with
    | none => simp only [hl] at h; exact absurd rfl h
    | some v => have := ld_isSome hl; simp at ha; subst ha; assumption
  · cases hl : stw s.mem (s.b + s.o) s.a with
    | none => simp only [hl] at h; exact absurd rfl h
    | some v => have := stw_isSome hl; simp at ha; subst ha; assumption
  · by_cases h3 : s.o = 3
    · simp only [if_pos h3] at ha
      have hne : s.o ≠ 0 ∧ s.o ≠ 1 ∧ s.o ≠ 2 := by rw [h3]; decide
      simp only [if_neg hne.1, if_neg hne.2.1, if_neg hne.2.2, if_pos h3] at h
      exact svc_inrange s io h a ha
    · simp only [if_neg h3] at ha; simp at ha
  · simp at ha

/-- A step that is not `undef .outOfRange` touches only words inside the memory. -/
theorem step_inrange (s : St) (io : IOSt) (h : step s io ≠ .undef .outOfRange) : AllIn (stepAccesses s) := by
  unfold step at h
  unfold stepAccesses
  intro a ha
  cases hf : fetch s.mem s.pc with
  | none => rw [hf] at h; exact absurd rfl h
  | some inst =>
    rw [hf] at h ha
    have hfr : (s.pc >>> 2).toNat < memWords := by
      unfold fetch at hf; split at hf
      · assumption
      · cases hf
    simp only [List.mem_cons] at ha
    rcases ha with rfl | ha
    · exact hfr
    · exact dispatch_inrange _ io _ h a ha

theorem svc_witness (s : St) (io : IOSt) (h : svc s io = .undef .outOfRange) :
    ∃ a ∈ svcAccesses s, memWords ≤ a.addr := by
  unfold svc at h
  unfold svcAccesses
  by_cases h0 : s.a = 0
  · simp only [if_pos h0] at h ⊢
    cases hl : ld s.mem (s.mem.read 1 + 2) with
    | none => exact ⟨⟨.load, (s.mem.read 1 + 2).toNat⟩, .tail _ (.head _), ld_isNone hl⟩
    | some v => simp only [hl] at h; cases h
  · by_cases h1 : s.a = 1
    · simp only [if_neg h0, if_pos h1] at h ⊢
      cases hl : ld s.mem (s.mem.read 1 + 2) with
      | none => exact ⟨⟨.load, (s.mem.read 1 + 2).toNat⟩, .tail _ (.head _), ld_isNone hl⟩
      | some v =>
        cases hl3 : ld s.mem (s.mem.read 1 + 3) with
        | none => exact ⟨⟨.load, (s.mem.read 1 + 3).toNat⟩, .tail _ (.tail _ (.head _)), ld_isNone hl3⟩
        | some v3 => simp only [hl, hl3] at h; cases h
    · by_cases h2 : s.a = 2
      · simp only [if_neg h0, if_neg h1, if_pos h2] at h ⊢
        cases hl : ld s.mem (s.mem.read 1 + 2) with
        | none => exact ⟨⟨.load, (s.mem.read 1 + 2).toNat⟩, .tail _ (.head _), ld_isNone hl⟩
        | some v =>
          rw [hl] at h
          cases hs : stw s.mem (s.mem.read 1 + 1) (simin io v).1 with
          | none => exact ⟨⟨.store, (s.mem.read 1 + 1).toNat⟩, .tail _ (.tail _ (.head _)), stw_isNone hs⟩
          | some m' => simp only [hs] at h; cases h
      · simp only [if_neg h0, if_neg h1, if_neg h2] at h; cases h

theorem dispatch_witness (s : St) (io : IOSt) (opc : Nat) (h : dispatch s io opc = .undef .outOfRange) :
    ∃ a ∈ dispatchAccesses s opc, memWords ≤ a.addr := by
  unfold dispatch at h
  unfold dispatchAccesses
  split at h
  · cases hl : ld s.mem s.o with
    | none => exact ⟨_, .head _, ld_isNone hl⟩
    | some v => simp only [hl] at h; cases h
  · cases hl : ld s.mem s.o with
    | none => exact ⟨_, .head _, ld_isNone hl⟩
    | some v => simp only [hl] at h; cases h
  · cases hl : stw s.mem s.o s.a with
    | none => exact ⟨_, .head _, stw_isNone hl⟩
    | some v => simp only [hl] at h; cases h
  · cases h
  · cases h
  · cases h
  · cases hl : ld s.mem (s.a + s.o) with
    | none => exact ⟨_, .head _, ld_isNone hl⟩
    | some v => simp only [hl] at h; cases h
  · cases hl : ld s.mem (s.b + s.o) with
    | none => exact ⟨_, .head _, ld_isNone hl⟩
    | some v => simp only [hl] at h; cases h
  · cases hl : stw s.mem (s.b + s.o) s.a with
    | none => exact ⟨_, .head _, stw_isNone hl⟩
    | some v => simp only [hl] at h; cases h
  · cases h
  · cases h
  · cases h
  · cases h
  · cases h
  · by_cases h3 : s.o = 3
    · have hne : s.o ≠ 0 ∧ s.o ≠ 1 ∧ s.o ≠ 2 := by rw [h3]; decide
      simp only [if_neg hne.1, if_neg hne.2.1, if_neg hne.2.2, if_pos h3] at h
      simp only [if_pos h3]
      exact svc_witness s io h
    · by_cases e0 : s.o = 0
      · simp only [if_pos e0] at h; cases h
      · by_cases e1 : s.o = 1
        · simp only [if_neg e0, if_pos e1] at h; cases h
        · by_cases e2 : s.o = 2
          · simp only [if_neg e0, if_neg e1, if_pos e2] at h; cases h
          · simp only [if_neg e0, if_neg e1, if_neg e2, if_neg h3] at h; cases h
  · cases h

/-- Conversely the log is not vacuous: an out-of-range step has an out-of-range entry in its log
    (so `AllIn (stepAccesses s)` holds exactly when the step is not `undef .outOfRange`). -/
theorem step_outOfRange_witness (s : St) (io : IOSt) (h : step s io = .undef .outOfRange) :
    ∃ a ∈ stepAccesses s, memWords ≤ a.addr := by
  unfold step at h
  unfold stepAccesses
  cases hf : fetch s.mem s.pc with
  | none =>
    refine ⟨_, .head _, ?_⟩
    unfold fetch at hf; split at hf
    · cases hf
    · simp only; omega
  | some inst =>
    rw [hf] at h
    obtain ⟨a, ha, hr⟩ := dispatch_witness _ io _ h
    exact ⟨a, .tail _ ha, hr⟩

theorem step_outOfRange_iff (s : St) (io : IOSt) :
    step s io = .undef .outOfRange ↔ ¬ AllIn (stepAccesses s) := by
  constructor
  · intro h hall
    obtain ⟨a, ha, hr⟩ := step_outOfRange_witness s io h
    have := hall a ha; omega
  · intro h
    by_cases hc : step s io = .undef .outOfRange
    · exact hc
    · exact absurd (step_inrange s io hc) h

/-- All accesses of a run of at most `fuel` instructions. -/
def runAccesses : Nat → St → IOSt → List Acc
  | 0, _, _ => []
  | fuel + 1, s, io =>
    stepAccesses s ++
    match step s io with
    | .running s' io' => runAccesses fuel s' io'
    | _ => []

/-- **A run that exits has touched only words inside the memory** - fetches, loads and stores. -/
theorem run_exited_inrange (fuel : Nat) (s : St) (io : IOSt) (k : Nat) (code : Word) (j : Nat) (s' : St) (io' : IOSt)
    (h : run fuel s io k = .exited code j s' io') : AllIn (runAccesses fuel s io) := by
  induction fuel generalizing s io k with
  | zero => intro a ha; simp [runAccesses] at ha
  | succ f ih =>
    unfold run at h
    unfold runAccesses
    intro a ha
    rw [List.mem_append] at ha
    cases hs : step s io with
    | running s1 io1 =>
      rw [hs] at h ha
      rcases ha with ha | ha
      · exact step_inrange s io (by rw [hs]; intro hc; cases hc) a ha
      · exact ih s1 io1 (k + 1) h a ha
    | exited c s1 io1 =>
      rw [hs] at ha
      rcases ha with ha | ha
      · exact step_inrange s io (by rw [hs]; intro hc; cases hc) a ha
      · simp at ha
    | undef w => rw [hs] at h; cases h

/-! ### A digest of the log, computed without building the list (for the correspondence check) -/

structure Digest where
  nfetch : Nat := 0
  nload : Nat := 0
  nstore : Nat := 0
  maxfetch : Nat := 0
  maxload : Nat := 0
  maxstore : Nat := 0
  oob : Nat := 0
  deriving DecidableEq, Repr

def Digest.add (d : Digest) (a : Acc) : Digest :=
  let d := if memWords ≤ a.addr then { d with oob := d.oob + 1 } else d
  match a.kind with
  | .fetch => { d with nfetch := d.nfetch + 1, maxfetch := max d.maxfetch a.addr }
  | .load => { d with nload := d.nload + 1, maxload := max d.maxload a.addr }
  | .store => { d with nstore := d.nstore + 1, maxstore := max d.maxstore a.addr }

inductive RunEnd where
  | exited (code : Word) | undef (w : Undef) | fuel
  deriving DecidableEq, Repr

/-- The run with the digest of its log accumulated on the way (tail recursive). -/
def runDigest : Nat → St → IOSt → Nat → Digest → RunEnd × Nat × Digest × IOSt
  | 0, _, io, k, d => (.fuel, k, d, io)
  | fuel + 1, s, io, k, d =>
    let d' := (stepAccesses s).foldl Digest.add d
    match step s io with
    | .running s' io' => runDigest fuel s' io' (k + 1) d'
    | .exited c _ io' => (.exited c, k + 1, d', io')
    | .undef w => (.undef w, k, d', io)

theorem runDigest_log (fuel : Nat) (s : St) (io : IOSt) (k : Nat) (d : Digest) :
    (runDigest fuel s io k d).2.2.1 = (runAccesses fuel s io).foldl Digest.add d := by
  induction fuel generalizing s io k d with
  | zero => rfl
  | succ f ih =>
    unfold runDigest runAccesses
    rw [List.foldl_append]
    cases hs : step s io with
    | running s1 io1 => simp only []; exact ih s1 io1 (k + 1) _
    | exited c s1 io1 => simp
    | undef w => simp

theorem runDigest_end (fuel : Nat) (s : St) (io : IOSt) (k : Nat) (d : Digest) :
    match run fuel s io k with
    | .exited c j _ io' => (runDigest fuel s io k d).1 = .exited c ∧ (runDigest fuel s io k d).2.1 = j ∧
        (runDigest fuel s io k d).2.2.2 = io'
    | .undef w j => (runDigest fuel s io k d).1 = .undef w ∧ (runDigest fuel s io k d).2.1 = j
    | .outOfFuel _ _ => (runDigest fuel s io k d).1 = .fuel := by
  induction fuel generalizing s io k d with
  | zero => simp [run, runDigest]
  | succ f ih =>
    unfold run runDigest
    cases hs : step s io with
    | running s1 io1 => simp only []; exact ih s1 io1 (k + 1) _
    | exited c s1 io1 => simp
    | undef w => simp

/-- `oob` counts exactly the out-of-range entries; it is 0 iff the whole log is in range. -/
theorem foldl_add_oob (l : List Acc) (d : Digest) :
    (l.foldl Digest.add d).oob = d.oob + (l.filter (fun a => decide (memWords ≤ a.addr))).length := by
  induction l generalizing d with
  | nil => simp
  | cons a t ih =>
    rw [List.foldl_cons, ih]
    have : (d.add a).oob = d.oob + (if memWords ≤ a.addr then 1 else 0) := by
      unfold Digest.add
      cases a.kind <;> by_cases h : memWords ≤ a.addr <;> simp [h]
    rw [this, List.filter_cons]
    by_cases h : memWords ≤ a.addr <;> simp [h] <;> omega

theorem digest_oob_zero (l : List Acc) : (l.foldl Digest.add {}).oob = 0 ↔ AllIn l := by
  rw [foldl_add_oob]
  simp only [Nat.zero_add, List.length_eq_zero_iff, List.filter_eq_nil_iff, decide_eq_true_eq, Nat.not_le]
  rfl

end Hex.Isa
