import HexVerif.Lemmas.XcmpFuel
/-!
  What the parser can and cannot build (C09, link between the front end and the compile stages):
  the local declarations of a procedure never contain an `array` - `parseProcDecl` calls
  `parseDecls false`, which stops at an ARRAY token.  The compile-stage model marks a local array
  `CDiag.unsupported` (it has no C++ behaviour to follow); this file shows the mark is unreachable
  from source text.
-/
namespace Hex.Xcmp
open Hex.X

def declIsArr : Decl → Bool
  | .array _ _ => true
  | _ => false

def NoLocalArr (P : Program) : Prop := ∀ p ∈ P.procs, ∀ d ∈ p.locals, declIsArr d = false

theorem ok_curTok {s s' : PState} {t : Tok} (h : curTok s = .ok (t, s')) : t = s.cur.tok ∧ s' = s := by
  unfold curTok at h
  injection h with h
  injection h with h1 h2
  exact ⟨h1.symm, h2.symm⟩

theorem ok_curLoc {s s' : PState} {t : Loc} (h : curLoc s = .ok (t, s')) : s' = s := by
  unfold curLoc at h
  injection h with h
  injection h with h1 h2
  exact h2.symm

/-- A declaration parsed from a state whose token is VAL or VAR is not an array. -/
theorem parseDecl_noArr (fuel : Nat) (s s' : PState) (d : Decl)
    (ht : s.cur.tok = Tok.VAL ∨ s.cur.tok = Tok.VAR) (h : parseDecl fuel s = .ok (d, s')) : declIsArr d = false := by
  unfold parseDecl at h
  obtain ⟨t, s1, h1, h⟩ := ok_bind h
  obtain ⟨ht', hs⟩ := ok_curTok h1
  subst hs; subst ht'
  obtain ⟨l, s2, h2, h⟩ := ok_bind h
  have := ok_curLoc h2; subst this
  rcases ht with ht | ht
  · rw [ht] at h
    simp only [] at h
    obtain ⟨_, s3, _, h⟩ := ok_bind h
    obtain ⟨n, s4, _, h⟩ := ok_bind h
    obtain ⟨_, s5, _, h⟩ := ok_bind h
    obtain ⟨e, s6, _, h⟩ := ok_bind h
    obtain ⟨_, s7, _, h⟩ := ok_bind h
    obtain ⟨rfl, _⟩ := ok_pure h
    rfl
  · rw [ht] at h
    simp only [] at h
    obtain ⟨_, s3, _, h⟩ := ok_bind h
    obtain ⟨n, s4, _, h⟩ := ok_bind h
    obtain ⟨_, s5, _, h⟩ := ok_bind h
    obtain ⟨rfl, _⟩ := ok_pure h
    rfl

theorem parseDecls_false_noArr : ∀ (fuel : Nat) (s s' : PState) (ds : List Decl),
    parseDecls false fuel s = .ok (ds, s') → ∀ d ∈ ds, declIsArr d = false := by
  intro fuel
  induction fuel with
  | zero => intro s s' ds h; unfold parseDecls at h; cases h
  | succ f ih =>
    intro s s' ds h
    unfold parseDecls at h
    obtain ⟨t, s1, h1, h⟩ := ok_bind h
    obtain ⟨ht, hs⟩ := ok_curTok h1
    subst hs; subst ht
    by_cases hc : s1.cur.tok = Tok.VAL ∨ s1.cur.tok = Tok.VAR
    · have hcond : (s1.cur.tok = Tok.VAL || s1.cur.tok = Tok.VAR || (false && s1.cur.tok = Tok.ARRAY)) = true := by
        rcases hc with hc | hc <;> simp [hc]
      rw [if_pos hcond] at h
      obtain ⟨d, s2, hd, h⟩ := ok_bind h
      obtain ⟨rest, s3, hr, h⟩ := ok_bind h
      obtain ⟨rfl, _⟩ := ok_pure h
      intro x hx
      rcases List.mem_cons.mp hx with rfl | hx
      · exact parseDecl_noArr f s1 s2 _ hc hd
      · exact ih s2 s3 rest hr x hx
    · have hcond : ¬ ((s1.cur.tok = Tok.VAL || s1.cur.tok = Tok.VAR || (false && s1.cur.tok = Tok.ARRAY)) = true) := by
        intro hh; apply hc
        simp at hh
        exact hh
      rw [if_neg hcond] at h
      obtain ⟨rfl, _⟩ := ok_pure h
      intro x hx; cases hx

theorem parseProcDecl_noArr (fuel : Nat) (s s' : PState) (p : Proc)
    (h : parseProcDecl fuel s = .ok (p, s')) : ∀ d ∈ p.locals, declIsArr d = false := by
  unfold parseProcDecl at h
  obtain ⟨t, s1, _, h⟩ := ok_bind h
  obtain ⟨_, s2, _, h⟩ := ok_bind h
  obtain ⟨name, s3, _, h⟩ := ok_bind h
  obtain ⟨_, s4, _, h⟩ := ok_bind h
  obtain ⟨t2, s5, _, h⟩ := ok_bind h
  dsimp only at h
  -- the continuation after the formals
  have tail : ∀ (formals : List Formal) (s6 : PState),
      (do
        expect Tok.IS
        let t_1 ← curTok
        if (decide (t_1 = Tok.VAL) || decide (t_1 = Tok.VAR)) = true then do
            let decls ← parseDecls false fuel
            let body ← parseStatement fuel
            pure ({ isFunc := decide (t = Tok.FUNC), name := name, formals := formals, locals := decls, body := body } : Proc)
          else do
            let decls ← pure []
            let body ← parseStatement fuel
            pure ({ isFunc := decide (t = Tok.FUNC), name := name, formals := formals, locals := decls, body := body } : Proc) : P Proc) s6
        = .ok (p, s') → ∀ d ∈ p.locals, declIsArr d = false := by
    intro formals s6 h
    obtain ⟨_, s7, _, h⟩ := ok_bind h
    obtain ⟨t3, s8, _, h⟩ := ok_bind h
    by_cases hc : (decide (t3 = Tok.VAL) || decide (t3 = Tok.VAR)) = true
    · rw [if_pos hc] at h
      obtain ⟨decls, s9, hd, h⟩ := ok_bind h
      obtain ⟨body, s10, _, h⟩ := ok_bind h
      obtain ⟨rfl, _⟩ := ok_pure h
      exact parseDecls_false_noArr fuel s8 s9 decls hd
    · rw [if_neg hc] at h
      obtain ⟨decls, s9, hd, h⟩ := ok_bind h
      obtain ⟨body, s10, _, h⟩ := ok_bind h
      obtain ⟨rfl, _⟩ := ok_pure h
      obtain ⟨rfl, _⟩ := ok_pure hd
      intro x hx; cases hx
  by_cases hr : t2 = Tok.RPAREN
  · rw [if_pos hr] at h
    obtain ⟨_, s6, _, h⟩ := ok_bind h
    obtain ⟨fs, s7, hf, h⟩ := ok_bind h
    exact tail fs s7 h
  · rw [if_neg hr] at h
    obtain ⟨fs, s6, _, h⟩ := ok_bind h
    obtain ⟨_, s7, _, h⟩ := ok_bind h
    obtain ⟨fs', s8, _, h⟩ := ok_bind h
    exact tail fs' s8 h

theorem parseProcDecls_noArr : ∀ (fuel : Nat) (s s' : PState) (ps : List Proc),
    parseProcDecls fuel s = .ok (ps, s') → ∀ p ∈ ps, ∀ d ∈ p.locals, declIsArr d = false := by
  intro fuel
  induction fuel with
  | zero => intro s s' ps h; unfold parseProcDecls at h; cases h
  | succ f ih =>
    intro s s' ps h
    unfold parseProcDecls at h
    obtain ⟨t, s1, _, h⟩ := ok_bind h
    by_cases hc : (t = Tok.PROC || t = Tok.FUNC) = true
    · rw [if_pos hc] at h
      obtain ⟨p, s2, hp, h⟩ := ok_bind h
      obtain ⟨rest, s3, hr, h⟩ := ok_bind h
      obtain ⟨rfl, _⟩ := ok_pure h
      intro x hx
      rcases List.mem_cons.mp hx with rfl | hx
      · exact parseProcDecl_noArr f s1 s2 _ hp
      · exact ih s2 s3 rest hr x hx
    · rw [if_neg hc] at h
      obtain ⟨rfl, _⟩ := ok_pure h
      intro x hx; cases hx

theorem parseProgramP_noArr (fuel : Nat) (s s' : PState) (P : Program)
    (h : parseProgramP fuel s = .ok (P, s')) : NoLocalArr P := by
  unfold parseProgramP at h
  obtain ⟨globals, s1, _, h⟩ := ok_bind h
  obtain ⟨procs, s2, hp, h⟩ := ok_bind h
  obtain ⟨_, s3, _, h⟩ := ok_bind h
  obtain ⟨_, s4, _, h⟩ := ok_bind h
  obtain ⟨rfl, _⟩ := ok_pure h
  exact parseProcDecls_noArr fuel s1 s2 procs hp

/-- **No program the parser delivers has a local array.** -/
theorem parse_noLocalArr (src : List Byte) (fuel : Nat) (P : Program) (h : parseProgram src fuel = .ok P) :
    NoLocalArr P := by
  unfold parseProgram at h
  split at h
  · rename_i t r _
    cases hr : (parseProgramP fuel |>.run { cur := t, rest := r }) with
    | error e => rw [hr] at h; cases h
    | ok pr =>
      rw [hr] at h
      obtain ⟨P', s'⟩ := pr
      simp only [Except.map] at h
      injection h with h
      subst h
      exact parseProgramP_noArr fuel _ s' P' hr
  · cases h
  · cases h

end Hex.Xcmp
