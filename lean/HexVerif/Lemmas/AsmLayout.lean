import HexVerif.Lemmas.AsmEncode
/-
  Helper lemmas for C05 / C10 / C17: the walk over emitted bytes finds exactly what the layout
  pass computed; layout bounds; invariants of the resolution loop.
-/
namespace Hex.Asm
open Hex


def layoutOffs (dirs : List Dir) (lens : List Nat) (pos : Nat) : List Nat := (layoutGo dirs lens pos).1
def layoutLabels (dirs : List Dir) (lens : List Nat) (pos : Nat) : List (String × Nat) := (layoutGo dirs lens pos).2.1
def layoutEnd (dirs : List Dir) (lens : List Nat) (pos : Nat) : Nat := (layoutGo dirs lens pos).2.2

@[simp] theorem layoutEnd_nil (lens pos) : layoutEnd [] lens pos = pos := rfl
@[simp] theorem layoutEnd_data (v rest lens pos) :
    layoutEnd (.data v :: rest) lens pos = layoutEnd rest lens.tail (align4 pos + 4) := rfl
@[simp] theorem layoutEnd_label (k n rest lens pos) :
    layoutEnd (.label k n :: rest) lens pos = layoutEnd rest lens.tail pos := rfl
@[simp] theorem layoutEnd_imm (o v rest lens pos) :
    layoutEnd (.imm o v :: rest) lens pos = layoutEnd rest lens.tail (pos + instrLen v) := rfl
@[simp] theorem layoutEnd_ref (o n r rest lens pos) :
    layoutEnd (.ref o n r :: rest) lens pos = layoutEnd rest lens.tail (pos + lens.headD 0) := rfl
@[simp] theorem layoutEnd_opr (k rest lens pos) :
    layoutEnd (.opr k :: rest) lens pos = layoutEnd rest lens.tail (pos + 1) := rfl

@[simp] theorem layoutLabels_nil (lens pos) : layoutLabels [] lens pos = [] := rfl
@[simp] theorem layoutLabels_data (v rest lens pos) :
    layoutLabels (.data v :: rest) lens pos = layoutLabels rest lens.tail (align4 pos + 4) := rfl
@[simp] theorem layoutLabels_label (k n rest lens pos) :
    layoutLabels (.label k n :: rest) lens pos
      = (n, if namesData rest then align4 pos else pos) :: layoutLabels rest lens.tail pos := rfl
@[simp] theorem layoutLabels_imm (o v rest lens pos) :
    layoutLabels (.imm o v :: rest) lens pos = layoutLabels rest lens.tail (pos + instrLen v) := rfl
@[simp] theorem layoutLabels_ref (o n r rest lens pos) :
    layoutLabels (.ref o n r :: rest) lens pos = layoutLabels rest lens.tail (pos + lens.headD 0) := rfl
@[simp] theorem layoutLabels_opr (k rest lens pos) :
    layoutLabels (.opr k :: rest) lens pos = layoutLabels rest lens.tail (pos + 1) := rfl

@[simp] theorem layoutOffs_nil (lens pos) : layoutOffs [] lens pos = [] := rfl
@[simp] theorem layoutOffs_data (v rest lens pos) :
    layoutOffs (.data v :: rest) lens pos = align4 pos :: layoutOffs rest lens.tail (align4 pos + 4) := rfl
@[simp] theorem layoutOffs_label (k n rest lens pos) :
    layoutOffs (.label k n :: rest) lens pos
      = (if namesData rest then align4 pos else pos) :: layoutOffs rest lens.tail pos := rfl
@[simp] theorem layoutOffs_imm (o v rest lens pos) :
    layoutOffs (.imm o v :: rest) lens pos = pos :: layoutOffs rest lens.tail (pos + instrLen v) := rfl
@[simp] theorem layoutOffs_ref (o n r rest lens pos) :
    layoutOffs (.ref o n r :: rest) lens pos = pos :: layoutOffs rest lens.tail (pos + lens.headD 0) := rfl
@[simp] theorem layoutOffs_opr (k rest lens pos) :
    layoutOffs (.opr k :: rest) lens pos = pos :: layoutOffs rest lens.tail (pos + 1) := rfl

/-- What the walk must find for a program laid out with the given lengths and operand values. -/
def expected : List Dir → List Nat → List I32 → Nat → List Found
  | [], _, _, _ => []
  | d :: rest, lens, vals, pos =>
    match d with
    | .label _ _ =>
      ⟨if namesData rest then align4 pos else pos, 0, 0⟩ :: expected rest lens.tail vals.tail pos
    | .data v => ⟨align4 pos, 4, BitVec.ofInt 32 v⟩ :: expected rest lens.tail vals.tail (align4 pos + 4)
    | .imm _ v => ⟨pos, instrLen v, W v⟩ :: expected rest lens.tail vals.tail (pos + instrLen v)
    | .ref _ _ _ => ⟨pos, lens.headD 0, W (vals.headD 0)⟩ :: expected rest lens.tail vals.tail (pos + lens.headD 0)
    | .opr k => ⟨pos, 1, BitVec.ofNat 32 k⟩ :: expected rest lens.tail vals.tail (pos + 1)

/-- Per-directive side conditions (guaranteed by the parser and by the resolution fixpoint). -/
def DirOk (d : Dir) (len : Nat) (val : I32) : Prop :=
  match d with
  | .imm opc v => opc < 12 ∧ InInt32 v
  | .ref opc _ _ => opc < 12 ∧ fits val len ∧ len ≤ 8
  | .opr k => k < 4
  | _ => True

def AllOk : List Dir → List Nat → List I32 → Prop
  | [], _, _ => True
  | d :: rest, lens, vals => DirOk d (lens.headD 0) (vals.headD 0) ∧ AllOk rest lens.tail vals.tail

theorem align4_ge (n : Nat) : n ≤ align4 n := by unfold align4; omega

theorem opr_byte (k : Nat) (hk : k < 4) : encode 0xD (k : Int) 1 = [BitVec.ofNat 8 (0xD0 + k)] := by
  have : k = 0 ∨ k = 1 ∨ k = 2 ∨ k = 3 := by omega
  rcases this with rfl | rfl | rfl | rfl <;> decide

def consFound (f : Found) : Option (List Found × List Byte × Nat) → Option (List Found × List Byte × Nat)
  | some (fs, bs', e) => some (f :: fs, bs', e)
  | none => none

theorem dataBytes_length (v : I32) : (dataBytes v).length = 4 := rfl

theorem walk_data (v : I32) (rest : List Dir) (bs : List Byte) (pos : Nat) :
    walk (.data v :: rest) (List.replicate (align4 pos - pos) 0 ++ (dataBytes v ++ bs)) pos
      = consFound ⟨align4 pos, 4, BitVec.ofInt 32 v⟩ (walk rest bs (align4 pos + 4)) := by
  have hge := align4_ge pos
  generalize hpad : align4 pos - pos = pad
  simp only [walk]
  have h1 : (List.replicate pad (0:Byte) ++ (dataBytes v ++ bs)).take pad = List.replicate pad 0 := by
    rw [List.take_append_of_le_length (by simp)]; simp
  have h2 : (List.replicate pad (0:Byte) ++ (dataBytes v ++ bs)).drop pad = dataBytes v ++ bs := by
    rw [List.drop_append_of_le_length (by simp)]; simp
  have h3 : (dataBytes v ++ bs).take 4 = dataBytes v := by
    rw [List.take_append_of_le_length (by simp [dataBytes_length])]
    exact List.take_of_length_le (by simp [dataBytes_length])
  have h4 : (List.replicate pad (0:Byte) ++ (dataBytes v ++ bs)).drop (pad + 4) = bs := by
    rw [← List.drop_drop, h2, List.drop_append_of_le_length (by simp [dataBytes_length])]
    simp [dataBytes_length]
  have h5 : pad + 4 ≤ (List.replicate pad (0:Byte) ++ (dataBytes v ++ bs)).length := by
    simp [dataBytes_length]
  simp only [hpad, h1, h2, h3, h4, h5, and_self, if_true]
  have h6 : pos + pad + 4 = align4 pos + 4 := by omega
  have h7 : pos + pad = align4 pos := by omega
  rw [h6, h7]
  cases walk rest bs (align4 pos + 4) <;> rfl

theorem walk_imm (opc : Nat) (hopc : opc < 12) (v : I32) (hv : InInt32 v) (rest : List Dir) (bs : List Byte) (pos : Nat) :
    walk (.imm opc v :: rest) (encode opc v (instrLen v) ++ bs) pos
      = consFound ⟨pos, instrLen v, W v⟩ (walk rest bs (pos + instrLen v)) := by
  obtain ⟨hf, h8⟩ := instrLen_spec v hv
  simp only [walk, decode_encode opc (by omega) v _ hf h8, W, and_self, if_true]
  cases walk rest bs (pos + instrLen v) <;> rfl

theorem walk_ref (opc : Nat) (hopc : opc < 12) (name : String) (rel : Bool) (val : I32) (len : Nat)
    (hf : fits val len) (h8 : len ≤ 8) (rest : List Dir) (bs : List Byte) (pos : Nat) :
    walk (.ref opc name rel :: rest) (encode opc val len ++ bs) pos
      = consFound ⟨pos, len, W val⟩ (walk rest bs (pos + len)) := by
  simp only [walk, decode_encode opc (by omega) val _ hf h8, if_true]
  cases walk rest bs (pos + len) <;> rfl

theorem walk_opr (k : Nat) (hk : k < 4) (rest : List Dir) (bs : List Byte) (pos : Nat) :
    walk (.opr k :: rest) (encode 0xD (k : Int) 1 ++ bs) pos
      = consFound ⟨pos, 1, BitVec.ofNat 32 k⟩ (walk rest bs (pos + 1)) := by
  simp only [opr_byte k hk, walk, List.cons_append, List.nil_append, if_true]
  cases walk rest bs (pos + 1) <;> rfl

theorem walk_label (kind : LabelKind) (name : String) (rest : List Dir) (bs : List Byte) (pos : Nat) :
    walk (.label kind name :: rest) bs pos
      = consFound ⟨if namesData rest then align4 pos else pos, 0, 0⟩ (walk rest bs pos) := by
  simp only [walk]
  cases walk rest bs pos <;> rfl

theorem walk_emit : ∀ (dirs : List Dir) (lens : List Nat) (vals : List I32) (pos : Nat) (tail : List Byte),
    AllOk dirs lens vals →
    walk dirs ((emitGo dirs lens vals pos).1 ++ tail) pos
      = some (expected dirs lens vals pos, tail, layoutEnd dirs lens pos) := by
  intro dirs
  induction dirs with
  | nil => intro lens vals pos tail _; simp [walk, emitGo, expected]
  | cons d rest ih =>
    intro lens vals pos tail hok
    obtain ⟨hd, hrest⟩ := hok
    cases d with
    | label kind name =>
      rw [walk_label]
      simp only [emitGo, expected, layoutEnd_label]
      rw [ih lens.tail vals.tail pos tail hrest]; rfl
    | data v =>
      have harith : pos + (align4 pos - pos) + 4 = align4 pos + 4 := by have := align4_ge pos; omega
      simp only [emitGo, expected, layoutEnd_data, List.append_assoc, harith]
      rw [walk_data, ih lens.tail vals.tail _ tail hrest]; rfl
    | imm opc v =>
      simp only [DirOk] at hd
      simp only [emitGo, expected, layoutEnd_imm, List.append_assoc]
      rw [walk_imm opc hd.1 v hd.2, ih lens.tail vals.tail _ tail hrest]; rfl
    | ref opc name rel =>
      simp only [DirOk] at hd
      simp only [emitGo, expected, layoutEnd_ref, List.append_assoc]
      rw [walk_ref opc hd.1 name rel _ _ hd.2.1 hd.2.2, ih lens.tail vals.tail _ tail hrest]; rfl
    | opr k =>
      simp only [DirOk] at hd
      simp only [emitGo, expected, layoutEnd_opr, List.append_assoc]
      rw [walk_opr k hd, ih lens.tail vals.tail _ tail hrest]; rfl


theorem foundLabels_expected : ∀ (dirs : List Dir) (lens : List Nat) (vals : List I32) (pos : Nat),
    foundLabels dirs (expected dirs lens vals pos) = layoutLabels dirs lens pos := by
  intro dirs
  induction dirs with
  | nil => intros; rfl
  | cons d rest ih =>
    intro lens vals pos
    cases d <;> simp [expected, foundLabels, ih]

theorem middle_length (v : I32) : ∀ i, (middle v i).length = i := by
  intro i; induction i with
  | zero => rfl
  | succ i ih => simp [middle, ih]

theorem encode_length (opc : Nat) (v : I32) (size : Nat) (h : 1 ≤ size) : (encode opc v size).length = size := by
  unfold encode
  by_cases h1 : size > 1
  · by_cases h2 : size > 2
    · simp [h1, h2, middle_length]; omega
    · simp [h1, h2]; omega
  · have : ¬ size > 2 := by omega
    simp [h1, this]; omega

theorem emit_length : ∀ (dirs : List Dir) (lens : List Nat) (vals : List I32) (pos : Nat),
    AllOk dirs lens vals →
    pos + (emitGo dirs lens vals pos).1.length = layoutEnd dirs lens pos := by
  intro dirs
  induction dirs with
  | nil => intros; simp [emitGo]
  | cons d rest ih =>
    intro lens vals pos hok
    obtain ⟨hd, hrest⟩ := hok
    cases d with
    | label kind name =>
      simp only [emitGo, layoutEnd_label]
      exact ih _ _ _ hrest
    | data v =>
      have := align4_ge pos
      have harith : pos + (align4 pos - pos) + 4 = align4 pos + 4 := by omega
      have hi := ih lens.tail vals.tail (align4 pos + 4) hrest
      simp only [emitGo, layoutEnd_data, List.length_append, List.length_replicate, dataBytes_length, harith]
      omega
    | imm opc v =>
      simp only [DirOk] at hd
      have hl := encode_length opc v (instrLen v) (instrLen_spec v hd.2).1.1
      have hi := ih lens.tail vals.tail (pos + instrLen v) hrest
      simp only [emitGo, layoutEnd_imm, List.length_append, hl]
      omega
    | ref opc name rel =>
      simp only [DirOk] at hd
      have hl := encode_length opc (vals.headD 0) (lens.headD 0) hd.2.1.1
      have hi := ih lens.tail vals.tail (pos + lens.headD 0) hrest
      simp only [emitGo, layoutEnd_ref, List.length_append, hl]
      omega
    | opr k =>
      have hl := encode_length 0xD (k : Int) 1 (Nat.le_refl 1)
      have hi := ih lens.tail vals.tail (pos + 1) hrest
      simp only [emitGo, layoutEnd_opr, List.length_append, hl]
      omega


theorem rel_operand (l pos len : Nat) :
    BitVec.ofNat 32 (pos + len) + W ((l : Int) - ((pos : Int) + (len : Int))) = BitVec.ofNat 32 l := by
  have h1 : BitVec.ofNat 32 (pos + len) = W ((pos : Int) + (len : Int)) := by
    simp only [W]; rw [← Int.natCast_add, BitVec.ofInt_natCast]
  have h2 : BitVec.ofNat 32 l = W (l : Int) := by simp only [W]; rw [BitVec.ofInt_natCast]
  rw [h1, h2]
  simp only [W]
  rw [← BitVec.ofInt_add]
  congr 1; omega

theorem abs_operand (l : Nat) : W (((l / 4 : Nat)) : Int) = BitVec.ofNat 32 (l / 4) := by
  simp only [W]; rw [BitVec.ofInt_natCast]

theorem refs_ok_expected (L : List (String × Nat)) : ∀ (p : List (Dir × Loc)) (lens : List Nat) (vals : List I32) (pos : Nat),
    operandsGo p lens (layoutOffs (p.map (·.1)) lens pos) L = .ok vals →
    refsOk L (p.map (·.1)) (expected (p.map (·.1)) lens vals pos) = true := by
  intro p
  induction p with
  | nil => intros; rfl
  | cons dl rest ih =>
    intro lens vals pos h
    obtain ⟨d, loc⟩ := dl
    simp only [List.map_cons]
    cases d with
    | label kind name =>
      simp only [operandsGo, layoutOffs_label, List.map_cons, operandOf, List.tail_cons] at h
      cases hr : operandsGo rest lens.tail (layoutOffs (rest.map (·.1)) lens.tail pos) L with
      | error e => rw [hr] at h; cases h
      | ok vs =>
        rw [hr] at h; cases h
        simp only [expected, refsOk, List.tail_cons]
        exact ih _ _ _ hr
    | data v =>
      simp only [operandsGo, layoutOffs_data, List.map_cons, operandOf, List.tail_cons] at h
      cases hr : operandsGo rest lens.tail (layoutOffs (rest.map (·.1)) lens.tail (align4 pos + 4)) L with
      | error e => rw [hr] at h; cases h
      | ok vs =>
        rw [hr] at h; cases h
        simp only [expected, refsOk, List.tail_cons]
        exact ih _ _ _ hr
    | imm opc v =>
      simp only [operandsGo, layoutOffs_imm, List.map_cons, operandOf, List.tail_cons] at h
      cases hr : operandsGo rest lens.tail (layoutOffs (rest.map (·.1)) lens.tail (pos + instrLen v)) L with
      | error e => rw [hr] at h; cases h
      | ok vs =>
        rw [hr] at h; cases h
        simp only [expected, refsOk, List.tail_cons]
        exact ih _ _ _ hr
    | opr k =>
      simp only [operandsGo, layoutOffs_opr, List.map_cons, operandOf, List.tail_cons] at h
      cases hr : operandsGo rest lens.tail (layoutOffs (rest.map (·.1)) lens.tail (pos + 1)) L with
      | error e => rw [hr] at h; cases h
      | ok vs =>
        rw [hr] at h; cases h
        simp only [expected, refsOk, List.tail_cons]
        exact ih _ _ _ hr
    | ref opc name rel =>
      simp only [operandsGo, layoutOffs_ref, List.map_cons, operandOf, List.tail_cons, List.headD_cons] at h
      cases hl : lookupLabel name L with
      | none => rw [hl] at h; cases h
      | some l =>
        rw [hl] at h
        simp only at h
        cases rel with
        | true =>
          simp only [if_true] at h
          cases hr : operandsGo rest lens.tail (layoutOffs (rest.map (·.1)) lens.tail (pos + lens.headD 0)) L with
          | error e => rw [hr] at h; cases h
          | ok vs =>
            rw [hr] at h; cases h
            simp only [expected, refsOk, List.tail_cons, List.headD_cons, hl, if_true, Bool.and_eq_true, decide_eq_true_eq]
            exact ⟨rel_operand l pos (lens.headD 0), ih _ _ _ hr⟩
        | false =>
          simp only [Bool.false_eq_true, if_false] at h
          by_cases h4 : l % 4 ≠ 0
          · rw [if_pos h4] at h; cases h
          · rw [if_neg h4] at h
            cases hr : operandsGo rest lens.tail (layoutOffs (rest.map (·.1)) lens.tail (pos + lens.headD 0)) L with
            | error e => rw [hr] at h; cases h
            | ok vs =>
              rw [hr] at h; cases h
              simp only [expected, refsOk, List.tail_cons, List.headD_cons, hl, Bool.false_eq_true, if_false,
                Bool.and_eq_true, decide_eq_true_eq]
              refine ⟨⟨by omega, abs_operand l⟩, ih _ _ _ hr⟩


/-- What the parser guarantees about the directives it builds. -/
def ParsedOk : List Dir → Prop
  | [] => True
  | d :: rest =>
    (match d with
     | .imm opc v => opc < 12 ∧ InInt32 v
     | .ref opc _ _ => opc < 12
     | .opr k => k < 4
     | _ => True) ∧ ParsedOk rest

/-- Stored lengths: one per directive, each between 1 and 8. -/
def LensOk : List Dir → List Nat → Prop
  | [], lens => lens = []
  | _ :: rest, lens => ∃ l ls, lens = l :: ls ∧ 1 ≤ l ∧ l ≤ 8 ∧ LensOk rest ls

theorem instrLen_fits (v : Int) : fits v (instrLen v) := by
  obtain ⟨h1, habs, hneg, _⟩ := numNibbles_spec v
  unfold instrLen
  by_cases hc : v < 0 ∧ numNibbles v = 1
  · exfalso; have := hneg hc.1; omega
  · simp only [hc, if_false]
    refine ⟨h1, ?_⟩
    by_cases hv0 : v < 0
    · simp only [hv0, if_true]; exact ⟨hneg hv0, by omega⟩
    · simp only [hv0, if_false]; omega

theorem instrLen_le8 (v : Int) (h : v.natAbs < 2 ^ 32) : instrLen v ≤ 8 := by
  obtain ⟨h1, _, hneg, h8⟩ := numNibbles_spec v
  unfold instrLen
  by_cases hc : v < 0 ∧ numNibbles v = 1
  · simp only [hc, and_self, if_true]; decide
  · simp only [hc, if_false]; exact h8 h

theorem instrLen_ge1 (v : Int) : 1 ≤ instrLen v := (instrLen_fits v).1

theorem layoutEnd_ge : ∀ (dirs : List Dir) (lens : List Nat) (pos : Nat), pos ≤ layoutEnd dirs lens pos := by
  intro dirs
  induction dirs with
  | nil => intros; simp
  | cons d rest ih =>
    intro lens pos
    cases d with
    | label k n => simp only [layoutEnd_label]; exact ih _ _
    | data v => simp only [layoutEnd_data]; have := ih lens.tail (align4 pos + 4); have := align4_ge pos; omega
    | imm o v => simp only [layoutEnd_imm]; have := ih lens.tail (pos + instrLen v); omega
    | ref o n r => simp only [layoutEnd_ref]; have := ih lens.tail (pos + lens.headD 0); omega
    | opr k => simp only [layoutEnd_opr]; have := ih lens.tail (pos + 1); omega

theorem align4_le (n : Nat) : align4 n ≤ n + 3 := by unfold align4; omega

theorem layoutEnd_le : ∀ (dirs : List Dir) (lens : List Nat) (pos : Nat), ParsedOk dirs → LensOk dirs lens →
    layoutEnd dirs lens pos ≤ pos + 8 * dirs.length := by
  intro dirs
  induction dirs with
  | nil => intros; simp
  | cons d rest ih =>
    intro lens pos hp hl
    obtain ⟨hd, hp'⟩ := hp
    obtain ⟨l, ls, rfl, hl1, hl8, hls⟩ := hl
    simp only [List.length_cons, List.tail_cons, List.headD_cons]
    cases d with
    | label k n => simp only [layoutEnd_label, List.tail_cons]; have := ih ls pos hp' hls; omega
    | data v =>
      simp only [layoutEnd_data, List.tail_cons]
      have := ih ls (align4 pos + 4) hp' hls; have := align4_le pos; omega
    | imm o v =>
      simp only [layoutEnd_imm, List.tail_cons]
      simp only at hd
      have h8 := (instrLen_spec v hd.2).2
      have := ih ls (pos + instrLen v) hp' hls; omega
    | ref o n r =>
      simp only [layoutEnd_ref, List.tail_cons, List.headD_cons]
      have := ih ls (pos + l) hp' hls; omega
    | opr k => simp only [layoutEnd_opr, List.tail_cons]; have := ih ls (pos + 1) hp' hls; omega

theorem labels_le : ∀ (dirs : List Dir) (lens : List Nat) (pos : Nat) (e : String × Nat),
    e ∈ layoutLabels dirs lens pos → e.2 ≤ layoutEnd dirs lens pos + 3 := by
  intro dirs
  induction dirs with
  | nil => intro lens pos e h; simp at h
  | cons d rest ih =>
    intro lens pos e h
    cases d with
    | label k n =>
      simp only [layoutLabels_label, List.mem_cons] at h
      simp only [layoutEnd_label]
      rcases h with rfl | h
      · have := layoutEnd_ge rest lens.tail pos
        have := align4_le pos
        simp only
        split <;> omega
      · exact ih _ _ _ h
    | data v => simp only [layoutLabels_data] at h; simp only [layoutEnd_data]; exact ih _ _ _ h
    | imm o v => simp only [layoutLabels_imm] at h; simp only [layoutEnd_imm]; exact ih _ _ _ h
    | ref o n r => simp only [layoutLabels_ref] at h; simp only [layoutEnd_ref]; exact ih _ _ _ h
    | opr k => simp only [layoutLabels_opr] at h; simp only [layoutEnd_opr]; exact ih _ _ _ h

theorem lookupLabel_mem (name : String) (L : List (String × Nat)) (l : Nat) (h : lookupLabel name L = some l) :
    ∃ e ∈ L, e.2 = l := by
  unfold lookupLabel at h
  split at h
  · rename_i e he
    cases h
    have := List.mem_of_find?_eq_some he
    exact ⟨e, by simpa using this, rfl⟩
  · cases h


/-- Every value in the list is smaller in magnitude than `M`. -/
def ValsLt (M : Nat) : List I32 → Prop
  | [] => True
  | v :: vs => v.natAbs < M ∧ ValsLt M vs

theorem operands_bound (L : List (String × Nat)) (B : Nat) (hL : ∀ e ∈ L, e.2 ≤ B) :
    ∀ (p : List (Dir × Loc)) (lens : List Nat) (vals : List I32) (pos : Nat),
    layoutEnd (p.map (·.1)) lens pos ≤ B →
    operandsGo p lens (layoutOffs (p.map (·.1)) lens pos) L = .ok vals → ValsLt (B + 1) vals := by
  intro p
  induction p with
  | nil => intro lens vals pos _ h; simp only [operandsGo] at h; cases h; trivial
  | cons dl rest ih =>
    intro lens vals pos hE h
    obtain ⟨d, loc⟩ := dl
    simp only [List.map_cons] at hE h
    cases d with
    | label kind name =>
      simp only [operandsGo, layoutOffs_label, operandOf, List.tail_cons] at h
      simp only [layoutEnd_label] at hE
      cases hr : operandsGo rest lens.tail (layoutOffs (rest.map (·.1)) lens.tail pos) L with
      | error e => rw [hr] at h; cases h
      | ok vs => rw [hr] at h; cases h; exact ⟨by simp, ih _ _ _ hE hr⟩
    | data v =>
      simp only [operandsGo, layoutOffs_data, operandOf, List.tail_cons] at h
      simp only [layoutEnd_data] at hE
      cases hr : operandsGo rest lens.tail (layoutOffs (rest.map (·.1)) lens.tail (align4 pos + 4)) L with
      | error e => rw [hr] at h; cases h
      | ok vs => rw [hr] at h; cases h; exact ⟨by simp, ih _ _ _ hE hr⟩
    | imm opc v =>
      simp only [operandsGo, layoutOffs_imm, operandOf, List.tail_cons] at h
      simp only [layoutEnd_imm] at hE
      cases hr : operandsGo rest lens.tail (layoutOffs (rest.map (·.1)) lens.tail (pos + instrLen v)) L with
      | error e => rw [hr] at h; cases h
      | ok vs => rw [hr] at h; cases h; exact ⟨by simp, ih _ _ _ hE hr⟩
    | opr k =>
      simp only [operandsGo, layoutOffs_opr, operandOf, List.tail_cons] at h
      simp only [layoutEnd_opr] at hE
      cases hr : operandsGo rest lens.tail (layoutOffs (rest.map (·.1)) lens.tail (pos + 1)) L with
      | error e => rw [hr] at h; cases h
      | ok vs => rw [hr] at h; cases h; exact ⟨by simp, ih _ _ _ hE hr⟩
    | ref opc name rel =>
      simp only [operandsGo, layoutOffs_ref, operandOf, List.tail_cons, List.headD_cons] at h
      simp only [layoutEnd_ref] at hE
      have hge := layoutEnd_ge (rest.map (·.1)) lens.tail (pos + lens.headD 0)
      cases hl : lookupLabel name L with
      | none => rw [hl] at h; cases h
      | some l =>
        obtain ⟨e, he, rfl⟩ := lookupLabel_mem name L l hl
        have hb := hL e he
        rw [hl] at h
        simp only at h
        cases rel with
        | true =>
          simp only [if_true] at h
          cases hr : operandsGo rest lens.tail (layoutOffs (rest.map (·.1)) lens.tail (pos + lens.headD 0)) L with
          | error e => rw [hr] at h; cases h
          | ok vs => rw [hr] at h; cases h; exact ⟨by omega, ih _ _ _ hE hr⟩
        | false =>
          simp only [Bool.false_eq_true, if_false] at h
          by_cases h4 : e.2 % 4 ≠ 0
          · rw [if_pos h4] at h; cases h
          · rw [if_neg h4] at h
            cases hr : operandsGo rest lens.tail (layoutOffs (rest.map (·.1)) lens.tail (pos + lens.headD 0)) L with
            | error e => rw [hr] at h; cases h
            | ok vs => rw [hr] at h; cases h; exact ⟨by omega, ih _ _ _ hE hr⟩

theorem growLens_ok : ∀ (dirs : List Dir) (lens : List Nat) (vals : List I32),
    LensOk dirs lens → ValsLt (2 ^ 32) vals → vals.length = dirs.length → LensOk dirs (growLens dirs lens vals) := by
  intro dirs
  induction dirs with
  | nil => intros; simp [growLens, LensOk]
  | cons d rest ih =>
    intro lens vals hl hv hlen
    obtain ⟨l, ls, rfl, hl1, hl8, hls⟩ := hl
    match vals, hv, hlen with
    | v :: vs, hv, hlen =>
      obtain ⟨hv1, hvs⟩ := hv
      simp only [List.length_cons, Nat.add_right_cancel_iff] at hlen
      simp only [growLens, List.headD_cons, List.tail_cons]
      refine ⟨_, _, rfl, ?_, ?_, ih ls vs hls hvs hlen⟩
      · cases d <;> simp only <;> omega
      · have := instrLen_le8 v hv1
        cases d <;> simp only <;> omega

theorem operandsGo_length : ∀ (p : List (Dir × Loc)) (lens offs : List Nat) (L : List (String × Nat)) (vals : List I32),
    operandsGo p lens offs L = .ok vals → vals.length = p.length := by
  intro p
  induction p with
  | nil => intro _ _ _ vals h; simp only [operandsGo] at h; cases h; rfl
  | cons dl rest ih =>
    intro lens offs L vals h
    obtain ⟨d, loc⟩ := dl
    simp only [operandsGo] at h
    split at h
    · cases h
    · split at h
      · cases h
      · rename_i vs hvs
        cases h
        simp [ih _ _ _ _ hvs]


theorem allOk_of_fixpoint : ∀ (dirs : List Dir) (lens : List Nat) (vals : List I32),
    ParsedOk dirs → LensOk dirs lens → growLens dirs lens vals = lens → AllOk dirs lens vals := by
  intro dirs
  induction dirs with
  | nil => intros; trivial
  | cons d rest ih =>
    intro lens vals hp hl hfix
    obtain ⟨hd, hp'⟩ := hp
    obtain ⟨l, ls, rfl, hl1, hl8, hls⟩ := hl
    simp only [growLens, List.headD_cons, List.tail_cons, List.cons.injEq] at hfix
    obtain ⟨hfix1, hfix2⟩ := hfix
    refine ⟨?_, ih ls vals.tail hp' hls hfix2⟩
    simp only [List.headD_cons]
    cases d with
    | label k n => trivial
    | data v => trivial
    | imm o v => exact hd
    | opr k => exact hd
    | ref o n r =>
      simp only at hfix1 hd
      exact ⟨hd, fits_mono _ _ _ (instrLen_fits _) (by omega), hl8⟩

/-- `getProgramSize()`: offset + size of the last directive. -/
def programSizeOf (dirs : List Dir) (offs lens : List Nat) : Nat :=
  match dirs.getLast?, offs.getLast?, lens.getLast? with
  | some d, some o, some l => o + sizeOf d l
  | _, _, _ => 0

theorem getLast?_cons_ne {α} {a : α} {l : List α} (h : l ≠ []) : (a :: l).getLast? = l.getLast? := by
  cases l with
  | nil => exact absurd rfl h
  | cons b t => simp

theorem layoutOffs_length : ∀ (dirs : List Dir) (lens : List Nat) (pos : Nat),
    (layoutOffs dirs lens pos).length = dirs.length := by
  intro dirs
  induction dirs with
  | nil => intros; rfl
  | cons d rest ih => intro lens pos; cases d <;> simp [ih]

theorem programSize_eq : ∀ (dirs : List Dir) (lens : List Nat) (pos : Nat), LensOk dirs lens → dirs ≠ [] →
    programSizeOf dirs (layoutOffs dirs lens pos) lens = layoutEnd dirs lens pos := by
  intro dirs
  induction dirs with
  | nil => intro _ _ _ h; exact absurd rfl h
  | cons d rest ih =>
    intro lens pos hl _
    obtain ⟨l, ls, rfl, hl1, hl8, hls⟩ := hl
    cases rest with
    | nil =>
      cases hls
      cases d <;> simp [programSizeOf, sizeOf, namesData]
    | cons d2 rest2 =>
      have hls' := hls
      obtain ⟨l2, ls2, rfl, _, _, _⟩ := hls
      have hne : (d2 :: rest2) ≠ [] := by simp
      have hoffs : ∀ q, layoutOffs (d2 :: rest2) (l2 :: ls2) q ≠ [] := by
        intro q h
        have := layoutOffs_length (d2 :: rest2) (l2 :: ls2) q
        rw [h] at this; simp at this
      cases d with
      | label k n =>
        have := ih (l2 :: ls2) pos hls' hne
        simp only [programSizeOf, layoutOffs_label, layoutEnd_label, List.tail_cons] at this ⊢
        rw [getLast?_cons_ne (a := Dir.label k n) hne, getLast?_cons_ne (a := (if namesData (d2 :: rest2) = true then align4 pos else pos)) (hoffs _), getLast?_cons_ne (a := l) (l := l2 :: ls2) (by simp)]
        exact this
      | data v =>
        have := ih (l2 :: ls2) (align4 pos + 4) hls' hne
        simp only [programSizeOf, layoutOffs_data, layoutEnd_data, List.tail_cons] at this ⊢
        rw [getLast?_cons_ne (a := Dir.data v) hne, getLast?_cons_ne (a := align4 pos) (hoffs _), getLast?_cons_ne (a := l) (l := l2 :: ls2) (by simp)]
        exact this
      | imm o v =>
        have := ih (l2 :: ls2) (pos + instrLen v) hls' hne
        simp only [programSizeOf, layoutOffs_imm, layoutEnd_imm, List.tail_cons] at this ⊢
        rw [getLast?_cons_ne (a := Dir.imm o v) hne, getLast?_cons_ne (a := pos) (hoffs _), getLast?_cons_ne (a := l) (l := l2 :: ls2) (by simp)]
        exact this
      | ref o n r =>
        have := ih (l2 :: ls2) (pos + l) hls' hne
        simp only [programSizeOf, layoutOffs_ref, layoutEnd_ref, List.tail_cons, List.headD_cons] at this ⊢
        rw [getLast?_cons_ne (a := Dir.ref o n r) hne, getLast?_cons_ne (a := pos) (hoffs _), getLast?_cons_ne (a := l) (l := l2 :: ls2) (by simp)]
        exact this
      | opr k =>
        have := ih (l2 :: ls2) (pos + 1) hls' hne
        simp only [programSizeOf, layoutOffs_opr, layoutEnd_opr, List.tail_cons] at this ⊢
        rw [getLast?_cons_ne (a := Dir.opr k) hne, getLast?_cons_ne (a := pos) (hoffs _), getLast?_cons_ne (a := l) (l := l2 :: ls2) (by simp)]
        exact this


theorem iterate_spec (p : List (Dir × Loc)) (lens lens' : List Nat) (r : Resolved)
    (h : iterate p lens = .ok (r, lens')) :
    r.lens = lens ∧ r.offs = layoutOffs (p.map (·.1)) lens 0 ∧ r.labels = layoutLabels (p.map (·.1)) lens 0 ∧
    r.endOff = layoutEnd (p.map (·.1)) lens 0 ∧
    operandsGo p lens r.offs r.labels = .ok r.vals ∧ lens' = growLens (p.map (·.1)) lens r.vals := by
  unfold iterate at h
  simp only at h
  cases hv : operandsGo p lens (layoutGo (p.map (·.1)) lens 0).1 (layoutGo (p.map (·.1)) lens 0).2.1 with
  | error e => rw [hv] at h; cases h
  | ok vals =>
    rw [hv] at h
    simp only [Except.ok.injEq, Prod.mk.injEq] at h
    obtain ⟨rfl, rfl⟩ := h
    exact ⟨rfl, rfl, rfl, rfl, hv, rfl⟩

theorem ValsLt_mono {M N : Nat} (h : M ≤ N) : ∀ vals, ValsLt M vals → ValsLt N vals := by
  intro vals
  induction vals with
  | nil => intro _; trivial
  | cons v vs ih => intro hv; exact ⟨by have := hv.1; omega, ih hv.2⟩

theorem iterate_inv (p : List (Dir × Loc)) (lens lens' : List Nat) (r : Resolved)
    (hp : ParsedOk (p.map (·.1))) (hl : LensOk (p.map (·.1)) lens) (hn : p.length < 2 ^ 26)
    (h : iterate p lens = .ok (r, lens')) : LensOk (p.map (·.1)) lens' ∧ ValsLt (2 ^ 31) r.vals := by
  obtain ⟨h1, h2, h3, h4, h5, h6⟩ := iterate_spec p lens lens' r h
  have hE := layoutEnd_le (p.map (·.1)) lens 0 hp hl
  simp only [List.length_map, Nat.zero_add] at hE
  have hL : ∀ e ∈ r.labels, e.2 ≤ layoutEnd (p.map (·.1)) lens 0 + 3 := by
    rw [h3]; exact labels_le _ _ _
  rw [h2] at h5
  have hb := operands_bound r.labels (layoutEnd (p.map (·.1)) lens 0 + 3) hL p lens r.vals 0 (by omega) h5
  have hv31 : ValsLt (2 ^ 31) r.vals := ValsLt_mono (by omega) _ hb
  have hv : ValsLt (2 ^ 32) r.vals := ValsLt_mono (by omega) _ hv31
  have hlen := operandsGo_length _ _ _ _ _ h5
  rw [h6]
  exact ⟨growLens_ok _ _ _ hl hv (by simpa using hlen), hv31⟩

/-- Unused encoding capacity: the termination measure of `resolveLabels()`. -/
def slack : List Nat → Nat
  | [] => 0
  | l :: ls => (8 - l) + slack ls

theorem grow_slack : ∀ (dirs : List Dir) (lens : List Nat) (vals : List I32),
    LensOk dirs lens → LensOk dirs (growLens dirs lens vals) →
    slack (growLens dirs lens vals) ≤ slack lens ∧
    (growLens dirs lens vals = lens ∨ slack (growLens dirs lens vals) < slack lens) := by
  intro dirs
  induction dirs with
  | nil => intro lens vals hl _; cases hl; simp [growLens, slack]
  | cons d rest ih =>
    intro lens vals hl hg
    obtain ⟨l, ls, rfl, hl1, hl8, hls⟩ := hl
    simp only [growLens, List.headD_cons, List.tail_cons] at hg ⊢
    obtain ⟨l', ls', heq, hl1', hl8', hls'⟩ := hg
    simp only [List.cons.injEq] at heq
    obtain ⟨heq1, heq2⟩ := heq
    rw [← heq2] at hls'
    obtain ⟨ihle, ihor⟩ := ih ls vals.tail hls hls'
    have hge : l ≤ l' := by rw [← heq1]; cases d <;> simp only <;> omega
    simp only [slack]
    rw [heq1]
    constructor
    · omega
    · rcases ihor with heq' | hlt
      · by_cases hll : l' = l
        · left; rw [hll, heq']
        · right; rw [heq']; omega
      · right; omega

theorem slack_init (p : List (Dir × Loc)) : slack (initLens p) = 7 * p.length := by
  unfold initLens
  induction p with
  | nil => rfl
  | cons a t ih => simp only [List.map_cons, slack, List.length_cons, ih]; omega

theorem lensOk_init (p : List (Dir × Loc)) : LensOk (p.map (·.1)) (initLens p) := by
  unfold initLens
  induction p with
  | nil => rfl
  | cons a t ih => exact ⟨1, _, rfl, by decide, by decide, ih⟩

theorem resolveFuel_terminates (p : List (Dir × Loc)) (hp : ParsedOk (p.map (·.1))) (hn : p.length < 2 ^ 26) :
    ∀ (fuel : Nat) (lens : List Nat), LensOk (p.map (·.1)) lens → slack lens < fuel →
    resolveFuel fuel p lens ≠ .ok none := by
  intro fuel
  induction fuel with
  | zero => intro lens _ h; omega
  | succ f ih =>
    intro lens hl hs
    rw [resolveFuel]
    cases hi : iterate p lens with
    | error e => simp
    | ok rl =>
      obtain ⟨r, lens'⟩ := rl
      simp only
      by_cases heq : lens' = lens
      · simp [heq]
      · simp only [heq, if_false]
        obtain ⟨hl', _⟩ := iterate_inv p lens lens' r hp hl hn hi
        obtain ⟨_, _, _, _, _, h6⟩ := iterate_spec p lens lens' r hi
        have := grow_slack (p.map (·.1)) lens r.vals hl (by rw [← h6]; exact hl')
        rw [← h6] at this
        rcases this.2 with h | h
        · exact absurd h heq
        · exact ih lens' hl' (by omega)

theorem resolveFuel_fixpoint (p : List (Dir × Loc)) (hp : ParsedOk (p.map (·.1))) (hn : p.length < 2 ^ 26) :
    ∀ (fuel : Nat) (lens : List Nat) (r : Resolved), LensOk (p.map (·.1)) lens →
    resolveFuel fuel p lens = .ok (some r) →
    ∃ lens0, LensOk (p.map (·.1)) lens0 ∧ iterate p lens0 = .ok (r, lens0) := by
  intro fuel
  induction fuel with
  | zero => intro lens r _ h; simp [resolveFuel] at h
  | succ f ih =>
    intro lens r hl h
    rw [resolveFuel] at h
    cases hi : iterate p lens with
    | error e => rw [hi] at h; cases h
    | ok rl =>
      obtain ⟨r', lens'⟩ := rl
      rw [hi] at h
      simp only at h
      by_cases heq : lens' = lens
      · simp only [heq, if_true, Except.ok.injEq, Option.some.injEq] at h
        subst h; subst heq
        exact ⟨lens', hl, hi⟩
      · simp only [heq, if_false] at h
        exact ih lens' r (iterate_inv p lens lens' r' hp hl hn hi).1 h


theorem align4_sub_lt (n : Nat) : align4 n - n < 4 := by unfold align4; omega
theorem align4_mod (n : Nat) : align4 n % 4 = 0 := by unfold align4; omega

theorem add_pad (n : Nat) : n + (align4 n - n) = align4 n := by have := align4_ge n; omega

theorem assemble_spec (p : List (Dir × Loc)) (img : Image) (h : assemble p = .ok (some img)) :
    ∃ r, resolve p = .ok (some r) ∧ img.resolved = r ∧
      img.bytes = (emitGo (p.map (·.1)) r.lens r.vals 0).1 ++
        List.replicate (align4 (programSizeOf (p.map (·.1)) r.offs r.lens) - programSizeOf (p.map (·.1)) r.offs r.lens) 0 ∧
      img.sizeBytes = align4 (programSizeOf (p.map (·.1)) r.offs r.lens) ∧
      img.debug = (emitGo (p.map (·.1)) r.lens r.vals 0).2 := by
  unfold assemble at h
  cases hr : resolve p with
  | error e => rw [hr] at h; cases h
  | ok o =>
    cases o with
    | none => rw [hr] at h; cases h
    | some r =>
      rw [hr] at h
      simp only [Except.ok.injEq, Option.some.injEq] at h
      subst h
      refine ⟨r, rfl, rfl, rfl, ?_, rfl⟩
      exact add_pad _

/-- Assembly terminates: the iteration bound of `resolve` is never reached. -/
theorem assemble_terminates (p : List (Dir × Loc)) (hp : ParsedOk (p.map (·.1))) (hn : p.length < 2 ^ 26) :
    assemble p ≠ .ok none := by
  unfold assemble
  have := resolveFuel_terminates p hp hn (7 * p.length + 1) (initLens p) (lensOk_init p)
    (by rw [slack_init]; omega)
  unfold resolve
  cases hr : resolveFuel (7 * p.length + 1) p (initLens p) with
  | error e => simp
  | ok o =>
    cases o with
    | none => exact absurd hr this
    | some r => simp

theorem assemble_checkImage (p : List (Dir × Loc)) (img : Image)
    (hp : ParsedOk (p.map (·.1))) (hn : p.length < 2 ^ 26) (h : assemble p = .ok (some img)) :
    checkImage (p.map (·.1)) img.bytes = true := by
  obtain ⟨r, hr, _, hbytes, _, _⟩ := assemble_spec p img h
  unfold resolve at hr
  obtain ⟨lens0, hl0, hit⟩ := resolveFuel_fixpoint p hp hn _ _ r (lensOk_init p) hr
  obtain ⟨h1, h2, h3, h4, h5, h6⟩ := iterate_spec p lens0 lens0 r hit
  have hok : AllOk (p.map (·.1)) lens0 r.vals := allOk_of_fixpoint _ _ _ hp hl0 h6.symm
  have hps : programSizeOf (p.map (·.1)) r.offs r.lens = layoutEnd (p.map (·.1)) lens0 0 := by
    by_cases hne : p.map (·.1) = []
    · rw [hne]; simp [programSizeOf]
    · rw [h2, h1]; exact programSize_eq _ _ _ hl0 hne
  have hlen := emit_length (p.map (·.1)) lens0 r.vals 0 hok
  simp only [Nat.zero_add] at hlen
  rw [hbytes, hps, h1]
  unfold checkImage
  rw [walk_emit _ _ _ _ _ hok]
  simp only
  rw [foundLabels_expected, ← h3]
  rw [h2] at h5
  rw [refs_ok_expected r.labels p lens0 r.vals 0 h5]
  have hpad := align4_sub_lt (layoutEnd (p.map (·.1)) lens0 0)
  have hge := align4_ge (layoutEnd (p.map (·.1)) lens0 0)
  have hmod := align4_mod (layoutEnd (p.map (·.1)) lens0 0)
  simp only [List.length_replicate, List.length_append, hlen, Bool.true_and, Bool.and_eq_true, decide_eq_true_eq]
  refine ⟨⟨⟨trivial, hpad⟩, ?_⟩, trivial⟩
  have : layoutEnd (p.map (·.1)) lens0 0 + (align4 (layoutEnd (p.map (·.1)) lens0 0) - layoutEnd (p.map (·.1)) lens0 0)
      = align4 (layoutEnd (p.map (·.1)) lens0 0) := by omega
  rw [this]; exact hmod


theorem wrap32_range (x : Int) : InInt32 (wrap32 x) := by
  unfold InInt32 wrap32; constructor <;> omega

theorem tok_opc_lt (t : Tok) (o : Nat) (h : t.opc = some o) : o < 12 := by
  cases t <;> simp [Tok.opc] at h <;> omega

theorem tok_opr_lt (t : Tok) (k : Nat) (h : t.oprOpc = some k) : k < 4 := by
  cases t <;> simp [Tok.oprOpc] at h <;> omega

theorem parseInteger_range {n : LTok} {rest : List LTok} {v : I32} {r : List LTok}
    (h : parseInteger n rest = .ok (v, r)) : InInt32 v := by
  unfold parseInteger at h
  split at h
  · split at h
    · split at h
      · simp only [Except.ok.injEq, Prod.mk.injEq] at h; rw [← h.1]; exact wrap32_range _
      · cases h
    · cases h
  · split at h
    · simp only [Except.ok.injEq, Prod.mk.injEq] at h; rw [← h.1]; exact wrap32_range _
    · cases h

theorem parse_ok (ts : List LTok) : ∀ p, parseProgram ts = .ok p → ParsedOk (p.map (·.1)) := by
  fun_induction parseProgram ts <;> intro p h
  all_goals first
    | (simp_all [ParsedOk]; done)
    | (simp only [Except.ok.injEq] at h; subst h
       simp only [List.map_cons, List.map_nil, ParsedOk]
       refine ⟨?_, ?_⟩
       all_goals first
         | trivial
         | (apply_assumption; assumption)
         | exact tok_opr_lt _ _ ‹_›
         | exact ⟨tok_opc_lt _ _ ‹_›, parseInteger_range ‹_›⟩
         | exact tok_opc_lt _ _ ‹_›)


theorem W_toInt (v : Int) (h : v.natAbs < 2 ^ 31) : (W v).toInt = v := by
  simp only [W]
  exact BitVec.toInt_ofInt_eq_self (by decide) (by omega) (by omega)

theorem listing_ok : ∀ (dirs : List Dir) (lens : List Nat) (vals : List I32) (pos : Nat),
    ValsLt (2 ^ 31) vals →
    listingOk dirs (expected dirs lens vals pos) (listingGo dirs (layoutOffs dirs lens pos) lens vals) = true := by
  intro dirs
  induction dirs with
  | nil => intros; rfl
  | cons d rest ih =>
    intro lens vals pos hv
    have hvt : ValsLt (2 ^ 31) vals.tail := by
      cases vals with
      | nil => trivial
      | cons v vs => exact hv.2
    have hh : (vals.headD 0).natAbs < 2 ^ 31 := by
      cases vals with
      | nil => simp
      | cons v vs => exact hv.1
    cases d with
    | label k n => simp [expected, listingGo, listingOk, ih _ _ _ hvt]
    | data v => simp [expected, listingGo, listingOk, sizeOf, dirText, ih _ _ _ hvt]
    | imm o v => simp [expected, listingGo, listingOk, sizeOf, dirText, ih _ _ _ hvt]
    | opr k => simp [expected, listingGo, listingOk, sizeOf, dirText, ih _ _ _ hvt]
    | ref o n r =>
      have hb : Int.bmod (vals.head?.getD 0) 4294967296 = vals.head?.getD 0 := by
        have := W_toInt _ hh
        simpa [W] using this
      simp [expected, listingGo, listingOk, sizeOf, hb, ih _ _ _ hvt]

theorem assemble_facts (p : List (Dir × Loc)) (img : Image)
    (hp : ParsedOk (p.map (·.1))) (hn : p.length < 2 ^ 26) (h : assemble p = .ok (some img)) :
    ∃ lens0, LensOk (p.map (·.1)) lens0 ∧ AllOk (p.map (·.1)) lens0 img.resolved.vals ∧
      img.resolved.lens = lens0 ∧ img.resolved.offs = layoutOffs (p.map (·.1)) lens0 0 ∧
      img.resolved.labels = layoutLabels (p.map (·.1)) lens0 0 ∧
      ValsLt (2 ^ 31) img.resolved.vals ∧
      img.bytes = (emitGo (p.map (·.1)) lens0 img.resolved.vals 0).1 ++
        List.replicate (align4 (layoutEnd (p.map (·.1)) lens0 0) - layoutEnd (p.map (·.1)) lens0 0) 0 ∧
      img.sizeBytes = align4 (layoutEnd (p.map (·.1)) lens0 0) ∧
      (emitGo (p.map (·.1)) lens0 img.resolved.vals 0).1.length = layoutEnd (p.map (·.1)) lens0 0 ∧
      img.debug = (emitGo (p.map (·.1)) lens0 img.resolved.vals 0).2 := by
  obtain ⟨r, hr, hres, hbytes, hsize, hdbg⟩ := assemble_spec p img h
  unfold resolve at hr
  obtain ⟨lens0, hl0, hit⟩ := resolveFuel_fixpoint p hp hn _ _ r (lensOk_init p) hr
  obtain ⟨h1, h2, h3, h4, h5, h6⟩ := iterate_spec p lens0 lens0 r hit
  have hok : AllOk (p.map (·.1)) lens0 r.vals := allOk_of_fixpoint _ _ _ hp hl0 h6.symm
  have hps : programSizeOf (p.map (·.1)) r.offs r.lens = layoutEnd (p.map (·.1)) lens0 0 := by
    by_cases hne : p.map (·.1) = []
    · rw [hne]; simp [programSizeOf]
    · rw [h2, h1]; exact programSize_eq _ _ _ hl0 hne
  have hlen := emit_length (p.map (·.1)) lens0 r.vals 0 hok
  simp only [Nat.zero_add] at hlen
  have hv := (iterate_inv p lens0 lens0 r hp hl0 hn hit).2
  rw [hres]
  refine ⟨lens0, hl0, hok, h1, h2, h3, hv, ?_, ?_, hlen, ?_⟩
  · rw [hbytes, hps, h1]
  · rw [hsize, hps]
  · rw [hdbg, h1]

theorem assemble_checkListing (p : List (Dir × Loc)) (img : Image)
    (hp : ParsedOk (p.map (·.1))) (hn : p.length < 2 ^ 26) (h : assemble p = .ok (some img)) :
    checkListing (p.map (·.1)) img.bytes
      (listingGo (p.map (·.1)) img.resolved.offs img.resolved.lens img.resolved.vals) = true := by
  obtain ⟨lens0, hl0, hok, h1, h2, h3, hv, hbytes, _, _, _⟩ := assemble_facts p img hp hn h
  unfold checkListing
  rw [hbytes, walk_emit _ _ _ _ _ hok, h1, h2]
  exact listing_ok _ _ _ _ hv

theorem assemble_size (p : List (Dir × Loc)) (img : Image)
    (hp : ParsedOk (p.map (·.1))) (hn : p.length < 2 ^ 26) (h : assemble p = .ok (some img)) :
    img.sizeBytes = img.bytes.length ∧ img.bytes.length % 4 = 0 := by
  obtain ⟨lens0, _, _, _, _, _, _, hbytes, hsize, hlen, _⟩ := assemble_facts p img hp hn h
  rw [hbytes, hsize, List.length_append, List.length_replicate, hlen, add_pad]
  exact ⟨rfl, align4_mod _⟩

end Hex.Asm
