import HexVerif.Cli.Model
/-!
  Lemmas about the argument loops of `Cli/Model.lean`:
  * `…Loop_render`  (soundness)   on the rendering of any valid item list the loop computes the
    declarative reading of that list (the one file, the last `-o`/`--output`, the flags present);
  * `…Loop_done`    (completeness) if the loop runs to the end, the argument list *is* the
    rendering of a valid item list.
  Both by induction over the loop, for all argument lists.
-/
namespace Hex.Cli

theorem lastSome_getD_cons {α : Type} (f : Item → Option α) (i : Item) (is : List Item) (d : α) :
    (lastSome f (i :: is)).getD d = (lastSome f is).getD ((f i).getD d) := by
  simp only [lastSome]
  cases lastSome f is <;> simp

/-- Prepending a valid item to a sentence gives a sentence. -/
theorem sentence_cons (s : Syntax) (it : Item) (hit : it.Valid s) {rest : List String}
    (h : ∃ items, (∀ i ∈ items, i.Valid s) ∧ rest = render items) :
    ∃ items, (∀ i ∈ items, i.Valid s) ∧ it.render ++ rest = render items := by
  obtain ⟨items, hv, rfl⟩ := h
  refine ⟨it :: items, ?_, rfl⟩
  intro i hi
  rcases List.mem_cons.mp hi with rfl | hi
  · exact hit
  · exact hv i hi

/-! ### hexasm -/

def asmOutNames : List String := ["--output", "-o"]

def asmDone (items : List Item) (o : AsmOpts) (fn : Option String) : AsmOpts :=
  { tokensOnly := o.tokensOnly || hasFlag ["--tokens"] items,
    instrsOnly := o.instrsOnly || hasFlag ["--instrs"] items,
    filename := fn,
    outputFilename := (lastSome (optVal asmOutNames) items).getD o.outputFilename }

theorem hexasmLoop_cons (a : String) (rest : List String) (o : AsmOpts) :
    hexasmLoop (a :: rest) o =
    if a = "-h" ∨ a = "--help" then .help
    else if a = "--tokens" then hexasmLoop rest { o with tokensOnly := true }
    else if a = "--instrs" then hexasmLoop rest { o with instrsOnly := true }
    else if a = "--output" ∨ a = "-o" then
      match rest with
      | [] => .exn
      | v :: rest' => hexasmLoop rest' { o with outputFilename := v }
    else if dash a then .exn
    else
      match o.filename with
      | none => hexasmLoop rest { o with filename := some a }
      | some _ => .exn := by
  cases rest <;> rfl

theorem hexasmLoop_render (items : List Item) (hv : ∀ i ∈ items, i.Valid hexasmSyn) (o : AsmOpts) :
    hexasmLoop (render items) o =
      match o.filename.toList ++ files items with
      | [] => .done (asmDone items o none)
      | [f] => .done (asmDone items o (some f))
      | _ => .exn := by
  induction items generalizing o with
  | nil =>
    rcases o with ⟨t, i, fn, out⟩
    cases fn <;> simp [render, hexasmLoop, files, asmDone, hasFlag, lastSome]
  | cons it is ih =>
    have hv' : ∀ i ∈ is, i.Valid hexasmSyn := fun i hi => hv i (List.mem_cons_of_mem _ hi)
    have hit := hv it List.mem_cons_self
    cases it with
    | flag n =>
      simp only [Item.Valid, hexasmSyn, List.mem_cons, List.not_mem_nil, or_false] at hit
      rcases hit with rfl | rfl
      · simp only [render, Item.render, List.cons_append, List.nil_append, hexasmLoop_cons]
        simp only [String.reduceEq, or_self, ↓reduceIte]
        rw [ih hv']
        simp [files, asmDone, hasFlag, lastSome_getD_cons, optVal]
      · simp only [render, Item.render, List.cons_append, List.nil_append, hexasmLoop_cons]
        simp only [String.reduceEq, or_self, ↓reduceIte]
        rw [ih hv']
        simp [files, asmDone, hasFlag, lastSome_getD_cons, optVal]
    | opt n v =>
      simp only [Item.Valid, hexasmSyn, List.mem_cons, List.not_mem_nil, or_false] at hit
      rcases hit with rfl | rfl
      · simp only [render, Item.render, List.cons_append, List.nil_append, hexasmLoop_cons]
        simp only [String.reduceEq, or_self, or_true, true_or, ↓reduceIte]
        rw [ih hv']
        simp [files, asmDone, hasFlag, lastSome_getD_cons, optVal, asmOutNames]
      · simp only [render, Item.render, List.cons_append, List.nil_append, hexasmLoop_cons]
        simp only [String.reduceEq, or_self, or_true, true_or, ↓reduceIte]
        rw [ih hv']
        simp [files, asmDone, hasFlag, lastSome_getD_cons, optVal, asmOutNames]
    | file f =>
      simp only [Item.Valid, hexasmSyn, List.mem_cons, List.not_mem_nil, or_false, not_or,
        forall_const] at hit
      obtain ⟨⟨h1, h2⟩, ⟨h3, h4⟩, ⟨h5, h6⟩, h7⟩ := hit
      simp only [render, Item.render, List.cons_append, List.nil_append, hexasmLoop_cons]
      simp only [h1, h2, h3, h4, h5, h6, h7, or_self, ↓reduceIte, Bool.false_eq_true]
      rcases o with ⟨t, i, fn, out⟩
      cases fn with
      | none =>
        simp only []
        rw [ih hv']
        simp only [Option.toList, List.nil_append, List.cons_append, files]
        cases files is with
        | nil => simp [asmDone, hasFlag, lastSome_getD_cons, optVal]
        | cons g gs => simp
      | some g =>
        simp [files]

theorem hexasmLoop_done (args : List String) (o o' : AsmOpts) (h : hexasmLoop args o = .done o') :
    ∃ items, (∀ i ∈ items, i.Valid hexasmSyn) ∧ args = render items := by
  fun_induction hexasmLoop args o
  · exact ⟨[], by simp, rfl⟩
  · cases h
  · rename_i ih
    exact sentence_cons _ (.flag "--tokens") (by simp [Item.Valid, hexasmSyn]) (ih h)
  · rename_i ih
    exact sentence_cons _ (.flag "--instrs") (by simp [Item.Valid, hexasmSyn]) (ih h)
  · cases h
  · rename_i a _ _ _ _ ho v _ ih
    exact sentence_cons _ (.opt a v) (by rcases ho with rfl | rfl <;> simp [Item.Valid, hexasmSyn]) (ih h)
  · cases h
  · rename_i a _ _ h1 h2 h3 h4 h5 _ ih
    refine sentence_cons _ (.file a) ?_ (ih h)
    simp only [not_or] at h1 h4
    simp [Item.Valid, hexasmSyn, h1, h2, h3, h4, h5]
  · cases h

/-- The reading of a well-formed hexasm command line. -/
structure AsmCmd where
  tokensOnly : Bool
  instrsOnly : Bool
  file : String
  out : String

def AsmCmd.opts (c : AsmCmd) : AsmOpts := ⟨c.tokensOnly, c.instrsOnly, some c.file, c.out⟩

def asmCmdOf (items : List Item) (f : String) : AsmCmd :=
  ⟨hasFlag ["--tokens"] items, hasFlag ["--instrs"] items, f,
   (lastSome (optVal asmOutNames) items).getD "a.out"⟩

/-- `args` is a well-formed hexasm command line and `c` is what it says: options in any order and
    spelling, exactly one file; the output name is the value of the last `-o`/`--output`, else
    `a.out`. -/
def HexasmLine (args : List String) (c : AsmCmd) : Prop :=
  ∃ items f, (∀ i ∈ items, i.Valid hexasmSyn) ∧ args = render items ∧ files items = [f] ∧
    c = asmCmdOf items f

theorem hexasmLoop_of_line {args : List String} {c : AsmCmd} (h : HexasmLine args c) :
    hexasmLoop args {} = .done c.opts := by
  obtain ⟨items, f, hv, rfl, hf, rfl⟩ := h
  rw [hexasmLoop_render items hv]
  simp [hf, asmDone, asmCmdOf, AsmCmd.opts]

theorem line_of_hexasmLoop {args : List String} {o : AsmOpts} {f : String}
    (h : hexasmLoop args {} = .done o) (hf : o.filename = some f) :
    HexasmLine args ⟨o.tokensOnly, o.instrsOnly, f, o.outputFilename⟩ := by
  obtain ⟨items, hv, rfl⟩ := hexasmLoop_done _ _ _ h
  rw [hexasmLoop_render items hv] at h
  simp only [Option.toList, List.nil_append] at h
  split at h
  · cases h; simp [asmDone] at hf
  · rename_i g hg
    cases h
    simp only [asmDone, Option.some.injEq] at hf
    subst hf
    exact ⟨items, g, hv, rfl, hg, by simp [asmDone, asmCmdOf]⟩
  · cases h

theorem HexasmLine.unique {args : List String} {c₁ c₂ : AsmCmd} (h₁ : HexasmLine args c₁)
    (h₂ : HexasmLine args c₂) : c₁ = c₂ := by
  have e := (hexasmLoop_of_line h₁).symm.trans (hexasmLoop_of_line h₂)
  rcases c₁ with ⟨a, b, c, d⟩
  rcases c₂ with ⟨a', b', c', d'⟩
  simp only [AsmCmd.opts, Args.done.injEq, AsmOpts.mk.injEq, Option.some.injEq] at e
  obtain ⟨rfl, rfl, rfl, rfl⟩ := e
  rfl

/-- On a well-formed command line `hexasm` does what the body does for its reading. -/
theorem hexasmMain_of_line (core : AsmCore) {args : List String} {c : AsmCmd} (fs : Fs)
    (h : HexasmLine args c) : hexasmMain core args fs = hexasmBody core c.opts fs := by
  simp only [hexasmMain, hexasmLoop_of_line h]

/-- On anything else it prints the usage text or an error, exits 1 and touches nothing. -/
theorem hexasmMain_not_line (core : AsmCore) {args : List String} (fs : Fs)
    (h : ¬ ∃ c, HexasmLine args c) :
    (hexasmMain core args fs).status = 1 ∧ (hexasmMain core args fs).fs = fs ∧
    ((hexasmMain core args fs).stderr = true ∨ (hexasmMain core args fs).stdout = .usage) := by
  unfold hexasmMain
  split
  · simp
  · simp
  · rename_i o ho
    cases hfn : o.filename with
    | none => simp [hexasmBody, hfn]
    | some f => exact absurd ⟨_, line_of_hexasmLoop ho hfn⟩ h

end Hex.Cli
