import HexVerif.Cli.Model
/-!
  Lemmas about the argument loops of `Cli/Model.lean`:
  * `…Loop_render`  (soundness)   on the rendering of any valid item list the loop computes the
    declarative reading of that list (the one file, the last `-o`/`--output`, the flags present);
  * `…Loop_done`    (completeness) if the loop runs to the end, the argument list *is* the
    rendering of a valid item list.
  Both by induction over the loop, for all argument lists.
-/
set_option linter.unusedSimpArgs false

namespace Hex.Cli

theorem lastSome_getD_cons {α : Type} (f : Item → Option α) (i : Item) (is : List Item) (d : α) :
    (lastSome f (i :: is)).getD d = (lastSome f is).getD ((f i).getD d) := by
  simp only [lastSome]
  cases lastSome f is <;> simp

/-- Prepending a valid item to a sentence gives a sentence. -/
theorem sentence_cons (s : Syntax) (it : Item) (hit : it.Valid s) {rest : List String}
    (h : ∃ items, (∀ i ∈ items, i.Valid s) ∧ rest = render items) :
    ∃ items, (∀ i ∈ items, i.Valid s) ∧ it.render ++ rest = render items := by
  obtain ⟨items, hv, rfl⟩ := h
  refine ⟨it :: items, ?_, rfl⟩
  intro i hi
  rcases List.mem_cons.mp hi with rfl | hi
  · exact hit
  · exact hv i hi

/-! ### hexasm -/

def asmOutNames : List String := ["--output", "-o"]

def asmDone (items : List Item) (o : AsmOpts) (fn : Option String) : AsmOpts :=
  { tokensOnly := o.tokensOnly || hasFlag ["--tokens"] items,
    instrsOnly := o.instrsOnly || hasFlag ["--instrs"] items,
    filename := fn,
    outputFilename := (lastSome (optVal asmOutNames) items).getD o.outputFilename }

theorem hexasmLoop_cons (a : String) (rest : List String) (o : AsmOpts) :
    hexasmLoop (a :: rest) o =
    if a = "-h" ∨ a = "--help" then .help
    else if a = "--tokens" then hexasmLoop rest { o with tokensOnly := true }
    else if a = "--instrs" then hexasmLoop rest { o with instrsOnly := true }
    else if a = "--output" ∨ a = "-o" then
      match rest with
      | [] => .exn
      | v :: rest' => hexasmLoop rest' { o with outputFilename := v }
    else if dash a then .exn
    else
      match o.filename with
      | none => hexasmLoop rest { o with filename := some a }
      | some _ => .exn := by
  cases rest <;> rfl

theorem hexasmLoop_render (items : List Item) (hv : ∀ i ∈ items, i.Valid hexasmSyn) (o : AsmOpts) :
    hexasmLoop (render items) o =
      match o.filename.toList ++ files items with
      | [] => .done (asmDone items o none)
      | [f] => .done (asmDone items o (some f))
      | _ => .exn := by
  induction items generalizing o with
  | nil =>
    rcases o with ⟨t, i, fn, out⟩
    cases fn <;> simp [render, hexasmLoop, files, asmDone, hasFlag, lastSome]
  | cons it is ih =>
    have hv' : ∀ i ∈ is, i.Valid hexasmSyn := fun i hi => hv i (List.mem_cons_of_mem _ hi)
    have hit := hv it List.mem_cons_self
    cases it with
    | flag n =>
      simp only [Item.Valid, hexasmSyn, List.mem_cons, List.not_mem_nil, or_false] at hit
      rcases hit with rfl | rfl
      · simp only [render, Item.render, List.cons_append, List.nil_append, hexasmLoop_cons]
        simp only [String.reduceEq, or_self, ↓reduceIte]
        rw [ih hv']
        simp [files, asmDone, hasFlag, lastSome_getD_cons, optVal]
      · simp only [render, Item.render, List.cons_append, List.nil_append, hexasmLoop_cons]
        simp only [String.reduceEq, or_self, ↓reduceIte]
        rw [ih hv']
        simp [files, asmDone, hasFlag, lastSome_getD_cons, optVal]
    | opt n v =>
      simp only [Item.Valid, hexasmSyn, List.mem_cons, List.not_mem_nil, or_false] at hit
      rcases hit with rfl | rfl
      · simp only [render, Item.render, List.cons_append, List.nil_append, hexasmLoop_cons]
        simp only [String.reduceEq, or_self, or_true, true_or, ↓reduceIte]
        rw [ih hv']
        simp [files, asmDone, hasFlag, lastSome_getD_cons, optVal, asmOutNames]
      · simp only [render, Item.render, List.cons_append, List.nil_append, hexasmLoop_cons]
        simp only [String.reduceEq, or_self, or_true, true_or, ↓reduceIte]
        rw [ih hv']
        simp [files, asmDone, hasFlag, lastSome_getD_cons, optVal, asmOutNames]
    | file f =>
      simp only [Item.Valid, hexasmSyn, List.mem_cons, List.not_mem_nil, or_false, not_or,
        forall_const] at hit
      obtain ⟨⟨h1, h2⟩, ⟨h3, h4⟩, ⟨h5, h6⟩, h7⟩ := hit
      simp only [render, Item.render, List.cons_append, List.nil_append, hexasmLoop_cons]
      simp only [h1, h2, h3, h4, h5, h6, h7, or_self, ↓reduceIte, Bool.false_eq_true]
      rcases o with ⟨t, i, fn, out⟩
      cases fn with
      | none =>
        simp only []
        rw [ih hv']
        simp only [Option.toList, List.nil_append, List.cons_append, files]
        cases files is with
        | nil => simp [asmDone, hasFlag, lastSome_getD_cons, optVal]
        | cons g gs => simp
      | some g =>
        simp [files]

theorem hexasmLoop_done (args : List String) (o o' : AsmOpts) (h : hexasmLoop args o = .done o') :
    ∃ items, (∀ i ∈ items, i.Valid hexasmSyn) ∧ args = render items := by
  fun_induction hexasmLoop args o
  · exact ⟨[], by simp, rfl⟩
  · cases h
  · rename_i ih
    exact sentence_cons _ (.flag "--tokens") (by simp [Item.Valid, hexasmSyn]) (ih h)
  · rename_i ih
    exact sentence_cons _ (.flag "--instrs") (by simp [Item.Valid, hexasmSyn]) (ih h)
  · cases h
  · rename_i a _ _ _ _ ho v _ ih
    exact sentence_cons _ (.opt a v) (by rcases ho with rfl | rfl <;> simp [Item.Valid, hexasmSyn]) (ih h)
  · cases h
  · rename_i a _ _ h1 h2 h3 h4 h5 _ ih
    refine sentence_cons _ (.file a) ?_ (ih h)
    simp only [not_or] at h1 h4
    simp [Item.Valid, hexasmSyn, h1, h2, h3, h4, h5]
  · cases h

/-- The reading of a well-formed hexasm command line. -/
structure AsmCmd where
  tokensOnly : Bool
  instrsOnly : Bool
  file : String
  out : String
  deriving DecidableEq

def AsmCmd.opts (c : AsmCmd) : AsmOpts := ⟨c.tokensOnly, c.instrsOnly, some c.file, c.out⟩

def asmCmdOf (items : List Item) (f : String) : AsmCmd :=
  ⟨hasFlag ["--tokens"] items, hasFlag ["--instrs"] items, f,
   (lastSome (optVal asmOutNames) items).getD "a.out"⟩

/-- `args` is a well-formed hexasm command line and `c` is what it says: options in any order and
    spelling, exactly one file; the output name is the value of the last `-o`/`--output`, else
    `a.out`. -/
def HexasmLine (args : List String) (c : AsmCmd) : Prop :=
  ∃ items f, (∀ i ∈ items, i.Valid hexasmSyn) ∧ args = render items ∧ files items = [f] ∧
    c = asmCmdOf items f

theorem hexasmLoop_of_line {args : List String} {c : AsmCmd} (h : HexasmLine args c) :
    hexasmLoop args {} = .done c.opts := by
  obtain ⟨items, f, hv, rfl, hf, rfl⟩ := h
  rw [hexasmLoop_render items hv]
  simp [hf, asmDone, asmCmdOf, AsmCmd.opts]

theorem line_of_hexasmLoop {args : List String} {o : AsmOpts} {f : String}
    (h : hexasmLoop args {} = .done o) (hf : o.filename = some f) :
    HexasmLine args ⟨o.tokensOnly, o.instrsOnly, f, o.outputFilename⟩ := by
  obtain ⟨items, hv, rfl⟩ := hexasmLoop_done _ _ _ h
  rw [hexasmLoop_render items hv] at h
  simp only [Option.toList, List.nil_append] at h
  split at h
  · cases h; simp [asmDone] at hf
  · rename_i g hg
    cases h
    simp only [asmDone, Option.some.injEq] at hf
    subst hf
    exact ⟨items, g, hv, rfl, hg, by simp [asmDone, asmCmdOf]⟩
  · cases h

theorem HexasmLine.unique {args : List String} {c₁ c₂ : AsmCmd} (h₁ : HexasmLine args c₁)
    (h₂ : HexasmLine args c₂) : c₁ = c₂ := by
  have e := (hexasmLoop_of_line h₁).symm.trans (hexasmLoop_of_line h₂)
  rcases c₁ with ⟨a, b, c, d⟩
  rcases c₂ with ⟨a', b', c', d'⟩
  simp only [AsmCmd.opts, Args.done.injEq, AsmOpts.mk.injEq, Option.some.injEq] at e
  obtain ⟨rfl, rfl, rfl, rfl⟩ := e
  rfl

/-- On a well-formed command line `hexasm` does what the body does for its reading. -/
theorem hexasmMain_of_line (core : AsmCore) {args : List String} {c : AsmCmd} (fs : Fs)
    (h : HexasmLine args c) : hexasmMain core args fs = hexasmBody core c.opts fs := by
  simp only [hexasmMain, hexasmLoop_of_line h]

/-- On anything else it prints the usage text or an error, exits 1 and touches nothing. -/
theorem hexasmMain_not_line (core : AsmCore) {args : List String} (fs : Fs)
    (h : ¬ ∃ c, HexasmLine args c) :
    (hexasmMain core args fs).status = 1 ∧ (hexasmMain core args fs).fs = fs ∧
    ((hexasmMain core args fs).stderr = true ∨ (hexasmMain core args fs).stdout = .usage) := by
  unfold hexasmMain
  split
  · simp
  · simp
  · rename_i o ho
    cases hfn : o.filename with
    | none => simp [hexasmBody, hfn]
    | some f => exact absurd ⟨_, line_of_hexasmLoop ho hfn⟩ h

/-! ### xcmp -/

theorem xcmpActionOf_some {a : String} {act : Action} (h : xcmpActionOf a = some act) :
    a ∈ xcmpSyn.flags := by
  unfold xcmpActionOf at h
  simp only [xcmpSyn, List.mem_cons, List.not_mem_nil, or_false]
  repeat' split at h
  all_goals simp_all

theorem xcmpActionOf_none {a : String} (h : xcmpActionOf a = none) (hm : a ≠ "--memory-info") :
    a ∉ xcmpSyn.flags := by
  unfold xcmpActionOf at h
  simp only [xcmpSyn, List.mem_cons, List.not_mem_nil, or_false]
  repeat' split at h
  all_goals simp_all

theorem xcmpActionOf_of_not_flag {a : String} (h : a ∉ xcmpSyn.flags) : xcmpActionOf a = none := by
  simp only [xcmpSyn, List.mem_cons, List.not_mem_nil, or_false, not_or] at h
  simp [xcmpActionOf, h]

theorem xcmpLoop_cons (a : String) (rest : List String) (o : XcmpOpts) :
    xcmpLoop (a :: rest) o =
    if a = "-h" ∨ a = "--help" then .help
    else match xcmpActionOf a with
    | some act => xcmpLoop rest { o with action := act }
    | none =>
      if a = "--memory-info" then xcmpLoop rest { o with reportMemoryInfo := true }
      else if a = "--output" ∨ a = "-o" then
        match rest with
        | [] => .exn
        | v :: rest' => xcmpLoop rest' { o with outputFilename := v }
      else if dash a then .exn
      else
        match o.inputFilename with
        | none => xcmpLoop rest { o with inputFilename := some a }
        | some _ => .exn := by
  cases rest <;> simp only [xcmpLoop] <;> split <;> (try rfl) <;> split <;> rfl

def xcmpDone (items : List Item) (o : XcmpOpts) (fn : Option String) : XcmpOpts :=
  { action := (lastSome flagAction items).getD o.action,
    inputFilename := fn,
    outputFilename := (lastSome (optVal asmOutNames) items).getD o.outputFilename,
    reportMemoryInfo := o.reportMemoryInfo || hasFlag ["--memory-info"] items }

theorem xcmpLoop_render (items : List Item) (hv : ∀ i ∈ items, i.Valid xcmpSyn) (o : XcmpOpts) :
    xcmpLoop (render items) o =
      match o.inputFilename.toList ++ files items with
      | [] => .done (xcmpDone items o none)
      | [f] => .done (xcmpDone items o (some f))
      | _ => .exn := by
  induction items generalizing o with
  | nil =>
    rcases o with ⟨a, fn, out, m⟩
    cases fn <;> simp [render, xcmpLoop, files, xcmpDone, hasFlag, lastSome]
  | cons it is ih =>
    have hv' : ∀ i ∈ is, i.Valid xcmpSyn := fun i hi => hv i (List.mem_cons_of_mem _ hi)
    have hit := hv it List.mem_cons_self
    cases it with
    | flag n =>
      simp only [Item.Valid, xcmpSyn, List.mem_cons, List.not_mem_nil, or_false] at hit
      rcases hit with rfl | rfl | rfl | rfl | rfl | rfl | rfl | rfl | rfl
      all_goals
        simp only [render, Item.render, List.cons_append, List.nil_append, xcmpLoop_cons]
        simp only [String.reduceEq, or_self, ↓reduceIte, xcmpActionOf]
        rw [ih hv']
        simp [files, xcmpDone, hasFlag, lastSome_getD_cons, optVal, flagAction, xcmpActionOf]
    | opt n v =>
      simp only [Item.Valid, xcmpSyn, List.mem_cons, List.not_mem_nil, or_false] at hit
      rcases hit with rfl | rfl
      all_goals
        simp only [render, Item.render, List.cons_append, List.nil_append, xcmpLoop_cons]
        simp only [String.reduceEq, or_self, or_true, true_or, ↓reduceIte, xcmpActionOf]
        rw [ih hv']
        simp [files, xcmpDone, hasFlag, lastSome_getD_cons, optVal, asmOutNames, flagAction]
    | file f =>
      simp only [Item.Valid, forall_const] at hit
      obtain ⟨hh, hfl, hop, hd⟩ := hit
      have hact := xcmpActionOf_of_not_flag hfl
      simp only [xcmpSyn, List.mem_cons, List.not_mem_nil, or_false, not_or] at hh hfl hop hd
      simp only [render, Item.render, List.cons_append, List.nil_append, xcmpLoop_cons]
      simp only [hh, hact, hfl, hop, hd, or_self, ↓reduceIte, Bool.false_eq_true]
      rcases o with ⟨a, fn, out, m⟩
      cases fn with
      | none =>
        simp only []
        rw [ih hv']
        simp only [Option.toList, List.nil_append, List.cons_append, files]
        cases files is with
        | nil => simp [xcmpDone, hasFlag, lastSome_getD_cons, optVal, flagAction]
        | cons g gs => simp
      | some g =>
        simp [files]

theorem xcmpLoop_done (args : List String) (o o' : XcmpOpts) (h : xcmpLoop args o = .done o') :
    ∃ items, (∀ i ∈ items, i.Valid xcmpSyn) ∧ args = render items := by
  fun_induction xcmpLoop args o
  · exact ⟨[], by simp, rfl⟩
  · cases h
  · rename_i a _ _ _ act hact ih
    exact sentence_cons _ (.flag a) (xcmpActionOf_some hact) (ih h)
  · rename_i ih
    exact sentence_cons _ (.flag "--memory-info") (by simp [Item.Valid, xcmpSyn]) (ih h)
  · cases h
  · rename_i a _ _ _ _ ho v _ ih
    exact sentence_cons _ (.opt a v) (by rcases ho with rfl | rfl <;> simp [Item.Valid, xcmpSyn]) (ih h)
  · cases h
  · rename_i a _ _ h1 h2 h3 h4 h5 _ ih
    refine sentence_cons _ (.file a) ?_ (ih h)
    have := xcmpActionOf_none h2 h3
    simp only [not_or] at h1 h4
    simp only [Item.Valid, forall_const]
    refine ⟨?_, this, ?_, ?_⟩
    · simp [xcmpSyn, h1]
    · simp [xcmpSyn, h4]
    · intro _; simpa using h5
  · cases h

structure XcmpCmd where
  action : Action
  mem : Bool
  file : String
  out : String
  deriving DecidableEq

def XcmpCmd.opts (c : XcmpCmd) : XcmpOpts := ⟨c.action, some c.file, c.out, c.mem⟩

def xcmpCmdOf (items : List Item) (f : String) : XcmpCmd :=
  ⟨(lastSome flagAction items).getD .binary, hasFlag ["--memory-info"] items, f,
   (lastSome (optVal asmOutNames) items).getD "a.out"⟩

/-- `args` is a well-formed xcmp command line and `c` is what it says (the action is that of
    the last action flag, `EMIT_BINARY` if there is none). -/
def XcmpLine (args : List String) (c : XcmpCmd) : Prop :=
  ∃ items f, (∀ i ∈ items, i.Valid xcmpSyn) ∧ args = render items ∧ files items = [f] ∧
    c = xcmpCmdOf items f

theorem xcmpLoop_of_line {args : List String} {c : XcmpCmd} (h : XcmpLine args c) :
    xcmpLoop args {} = .done c.opts := by
  obtain ⟨items, f, hv, rfl, hf, rfl⟩ := h
  rw [xcmpLoop_render items hv]
  simp [hf, xcmpDone, xcmpCmdOf, XcmpCmd.opts]

theorem line_of_xcmpLoop {args : List String} {o : XcmpOpts} {f : String}
    (h : xcmpLoop args {} = .done o) (hf : o.inputFilename = some f) :
    XcmpLine args ⟨o.action, o.reportMemoryInfo, f, o.outputFilename⟩ := by
  obtain ⟨items, hv, rfl⟩ := xcmpLoop_done _ _ _ h
  rw [xcmpLoop_render items hv] at h
  simp only [Option.toList, List.nil_append] at h
  split at h
  · cases h; simp [xcmpDone] at hf
  · rename_i g hg
    cases h
    simp only [xcmpDone, Option.some.injEq] at hf
    subst hf
    exact ⟨items, g, hv, rfl, hg, by simp [xcmpDone, xcmpCmdOf]⟩
  · cases h

theorem XcmpLine.unique {args : List String} {c₁ c₂ : XcmpCmd} (h₁ : XcmpLine args c₁)
    (h₂ : XcmpLine args c₂) : c₁ = c₂ := by
  have e := (xcmpLoop_of_line h₁).symm.trans (xcmpLoop_of_line h₂)
  rcases c₁ with ⟨a, b, c, d⟩
  rcases c₂ with ⟨a', b', c', d'⟩
  simp only [XcmpCmd.opts, Args.done.injEq, XcmpOpts.mk.injEq, Option.some.injEq] at e
  obtain ⟨rfl, rfl, rfl, rfl⟩ := e
  rfl

theorem xcmpMain_of_line (xc : XcmpCore) {args : List String} {c : XcmpCmd} (fs : Fs)
    (h : XcmpLine args c) : xcmpMain xc args fs = xcmpBody xc c.opts fs := by
  simp only [xcmpMain, xcmpLoop_of_line h]

theorem xcmpMain_not_line (xc : XcmpCore) {args : List String} (fs : Fs)
    (h : ¬ ∃ c, XcmpLine args c) :
    (xcmpMain xc args fs).status = 1 ∧ (xcmpMain xc args fs).fs = fs ∧
    ((xcmpMain xc args fs).stderr = true ∨ (xcmpMain xc args fs).stdout = .usage) := by
  unfold xcmpMain
  split
  · simp
  · simp
  · rename_i o ho
    cases hfn : o.inputFilename with
    | none => simp [xcmpBody, hfn]
    | some f => exact absurd ⟨_, line_of_xcmpLoop ho hfn⟩ h

/-! ### hexsim -/

theorem hexsimLoop_cons (a : String) (rest : List String) (o : SimOpts) :
    hexsimLoop (a :: rest) o =
    if a = "-d" ∨ a = "--dump" then hexsimLoop rest { o with dumpBinary := true }
    else if a = "-t" ∨ a = "--trace" then hexsimLoop rest { o with trace := true }
    else if a = "--max-cycles" then
      match rest with
      | [] => .exn
      | v :: rest' =>
        match stoull v with
        | none => .exn
        | some n => hexsimLoop rest' { o with maxCycles := n }
    else if a = "-h" ∨ a = "--help" then .help
    else
      match o.filename with
      | none => hexsimLoop rest { o with filename := some a }
      | some _ => .exn := by
  cases rest with
  | nil => rfl
  | cons v r =>
    simp only [hexsimLoop]
    split
    · rfl
    · split
      · rfl
      · split
        · cases stoull v <;> rfl
        · rfl

def simDone (items : List Item) (o : SimOpts) (fn : Option String) : SimOpts :=
  { filename := fn,
    dumpBinary := o.dumpBinary || hasFlag ["-d", "--dump"] items,
    trace := o.trace || hasFlag ["-t", "--trace"] items,
    maxCycles := (lastSome cyclesVal items).getD o.maxCycles }

theorem hexsimLoop_render (items : List Item) (hv : ∀ i ∈ items, i.Valid hexsimSyn) (o : SimOpts) :
    hexsimLoop (render items) o =
      if cyclesParse items then
        match o.filename.toList ++ files items with
        | [] => .done (simDone items o none)
        | [f] => .done (simDone items o (some f))
        | _ => .exn
      else .exn := by
  induction items generalizing o with
  | nil =>
    rcases o with ⟨fn, d, t, m⟩
    cases fn <;> simp [render, hexsimLoop, files, simDone, hasFlag, lastSome, cyclesParse]
  | cons it is ih =>
    have hv' : ∀ i ∈ is, i.Valid hexsimSyn := fun i hi => hv i (List.mem_cons_of_mem _ hi)
    have hit := hv it List.mem_cons_self
    cases it with
    | flag n =>
      simp only [Item.Valid, hexsimSyn, List.mem_cons, List.not_mem_nil, or_false] at hit
      rcases hit with rfl | rfl | rfl | rfl
      all_goals
        simp only [render, Item.render, List.cons_append, List.nil_append, hexsimLoop_cons]
        simp only [String.reduceEq, or_self, or_true, true_or, ↓reduceIte]
        rw [ih hv']
        simp [files, simDone, hasFlag, lastSome_getD_cons, cyclesVal, cyclesParse]
    | opt n v =>
      simp only [Item.Valid, hexsimSyn, List.mem_cons, List.not_mem_nil, or_false] at hit
      subst hit
      simp only [render, Item.render, List.cons_append, List.nil_append, hexsimLoop_cons]
      simp only [String.reduceEq, or_self, ↓reduceIte]
      cases hst : stoull v with
      | none => simp [cyclesParse, hst]
      | some k =>
        simp only []
        rw [ih hv']
        simp [files, simDone, hasFlag, lastSome_getD_cons, cyclesVal, cyclesParse, hst]
    | file f =>
      simp only [Item.Valid, hexsimSyn, List.mem_cons, List.not_mem_nil, or_false, not_or] at hit
      obtain ⟨⟨h1, h2⟩, ⟨h3, h4, h5, h6⟩, h7, _⟩ := hit
      simp only [render, Item.render, List.cons_append, List.nil_append, hexsimLoop_cons]
      simp only [h1, h2, h3, h4, h5, h6, h7, or_self, ↓reduceIte]
      rcases o with ⟨fn, d, t, m⟩
      cases fn with
      | none =>
        simp only []
        rw [ih hv']
        simp only [Option.toList, List.nil_append, List.cons_append, files, cyclesParse]
        cases files is with
        | nil => simp [simDone, hasFlag, lastSome_getD_cons, cyclesVal]
        | cons g gs => simp only []; split <;> simp_all
      | some g =>
        simp only [files, cyclesParse, Option.toList, List.cons_append, List.nil_append]
        by_cases hc : cyclesParse is = true <;> simp [hc]

theorem hexsimLoop_done (args : List String) (o o' : SimOpts) (h : hexsimLoop args o = .done o') :
    ∃ items, (∀ i ∈ items, i.Valid hexsimSyn) ∧ args = render items := by
  fun_induction hexsimLoop args o
  · exact ⟨[], by simp, rfl⟩
  · rename_i a _ _ ha ih
    exact sentence_cons _ (.flag a) (by rcases ha with rfl | rfl <;> simp [Item.Valid, hexsimSyn]) (ih h)
  · rename_i a _ _ _ ha ih
    exact sentence_cons _ (.flag a) (by rcases ha with rfl | rfl <;> simp [Item.Valid, hexsimSyn]) (ih h)
  · cases h
  · cases h
  · rename_i v _ _ _ _ _ ih
    exact sentence_cons _ (.opt "--max-cycles" v) (by simp [Item.Valid, hexsimSyn]) (ih h)
  · cases h
  · rename_i a _ _ h1 h2 h3 h4 _ ih
    refine sentence_cons _ (.file a) ?_ (ih h)
    simp only [not_or] at h1 h2 h4
    simp [Item.Valid, hexsimSyn, h1, h2, h3, h4]
  · cases h

structure SimCmd where
  dump : Bool
  trace : Bool
  maxCycles : Nat
  file : String
  deriving DecidableEq

def SimCmd.opts (c : SimCmd) : SimOpts := ⟨some c.file, c.dump, c.trace, c.maxCycles⟩

def simCmdOf (items : List Item) (f : String) : SimCmd :=
  ⟨hasFlag ["-d", "--dump"] items, hasFlag ["-t", "--trace"] items,
   (lastSome cyclesVal items).getD 0, f⟩

/-- `args` is a well-formed hexsim command line and `c` is what it says: exactly one file, every
    `--max-cycles` value a number (the last one counts). -/
def HexsimLine (args : List String) (c : SimCmd) : Prop :=
  ∃ items f, (∀ i ∈ items, i.Valid hexsimSyn) ∧ args = render items ∧ files items = [f] ∧
    cyclesParse items = true ∧ c = simCmdOf items f

theorem hexsimLoop_of_line {args : List String} {c : SimCmd} (h : HexsimLine args c) :
    hexsimLoop args {} = .done c.opts := by
  obtain ⟨items, f, hv, rfl, hf, hc, rfl⟩ := h
  rw [hexsimLoop_render items hv]
  simp [hf, hc, simDone, simCmdOf, SimCmd.opts]

theorem line_of_hexsimLoop {args : List String} {o : SimOpts} {f : String}
    (h : hexsimLoop args {} = .done o) (hf : o.filename = some f) :
    HexsimLine args ⟨o.dumpBinary, o.trace, o.maxCycles, f⟩ := by
  obtain ⟨items, hv, rfl⟩ := hexsimLoop_done _ _ _ h
  rw [hexsimLoop_render items hv] at h
  simp only [Option.toList, List.nil_append] at h
  split at h
  · rename_i hc
    split at h
    · cases h; simp [simDone] at hf
    · rename_i g hg
      cases h
      simp only [simDone, Option.some.injEq] at hf
      subst hf
      exact ⟨items, g, hv, rfl, hg, hc, by simp [simDone, simCmdOf]⟩
    · cases h
  · cases h

theorem HexsimLine.unique {args : List String} {c₁ c₂ : SimCmd} (h₁ : HexsimLine args c₁)
    (h₂ : HexsimLine args c₂) : c₁ = c₂ := by
  have e := (hexsimLoop_of_line h₁).symm.trans (hexsimLoop_of_line h₂)
  rcases c₁ with ⟨a, b, c, d⟩
  rcases c₂ with ⟨a', b', c', d'⟩
  simp only [SimCmd.opts, Args.done.injEq, SimOpts.mk.injEq, Option.some.injEq] at e
  obtain ⟨rfl, rfl, rfl, rfl⟩ := e
  rfl

theorem hexsimMain_of_line (sim : SimCore) {args : List String} {c : SimCmd} (fs : Fs)
    (h : HexsimLine args c) : hexsimMain sim args fs = hexsimBody sim c.opts fs := by
  simp only [hexsimMain, hexsimLoop_of_line h]

theorem hexsimMain_not_line (sim : SimCore) {args : List String} (fs : Fs)
    (h : ¬ ∃ c, HexsimLine args c) :
    (hexsimMain sim args fs).status = 1 ∧ (hexsimMain sim args fs).fs = fs ∧
    ((hexsimMain sim args fs).stderr = true ∨ (hexsimMain sim args fs).stdout = .usage) := by
  unfold hexsimMain
  split
  · simp
  · simp
  · rename_i o ho
    cases hfn : o.filename with
    | none => simp [hexsimBody, hfn]
    | some f => exact absurd ⟨_, line_of_hexsimLoop ho hfn⟩ h

/-! ### xrun -/

theorem xrunLoop_cons (a : String) (rest : List String) (o : RunOpts) :
    xrunLoop (a :: rest) o =
    if a = "-h" ∨ a = "--help" then .help
    else if a = "-t" ∨ a = "--trace" then xrunLoop rest { o with trace := true }
    else if a = "--max-cycles" then
      match rest with
      | [] => .exn
      | v :: rest' =>
        match stoull v with
        | none => .exn
        | some n => xrunLoop rest' { o with maxCycles := n }
    else if dash a then .exn
    else
      match o.inputFilename with
      | none => xrunLoop rest { o with inputFilename := some a }
      | some _ => .exn := by
  cases rest with
  | nil => rfl
  | cons v r =>
    simp only [xrunLoop]
    split
    · rfl
    · split
      · rfl
      · split
        · cases stoull v <;> rfl
        · rfl

def runDone (items : List Item) (o : RunOpts) (fn : Option String) : RunOpts :=
  { inputFilename := fn,
    trace := o.trace || hasFlag ["-t", "--trace"] items,
    maxCycles := (lastSome cyclesVal items).getD o.maxCycles }

theorem xrunLoop_render (items : List Item) (hv : ∀ i ∈ items, i.Valid xrunSyn) (o : RunOpts) :
    xrunLoop (render items) o =
      if cyclesParse items then
        match o.inputFilename.toList ++ files items with
        | [] => .done (runDone items o none)
        | [f] => .done (runDone items o (some f))
        | _ => .exn
      else .exn := by
  induction items generalizing o with
  | nil =>
    rcases o with ⟨fn, t, m⟩
    cases fn <;> simp [render, xrunLoop, files, runDone, hasFlag, lastSome, cyclesParse]
  | cons it is ih =>
    have hv' : ∀ i ∈ is, i.Valid xrunSyn := fun i hi => hv i (List.mem_cons_of_mem _ hi)
    have hit := hv it List.mem_cons_self
    cases it with
    | flag n =>
      simp only [Item.Valid, xrunSyn, List.mem_cons, List.not_mem_nil, or_false] at hit
      rcases hit with rfl | rfl
      all_goals
        simp only [render, Item.render, List.cons_append, List.nil_append, xrunLoop_cons]
        simp only [String.reduceEq, or_self, or_true, true_or, ↓reduceIte]
        rw [ih hv']
        simp [files, runDone, hasFlag, lastSome_getD_cons, cyclesVal, cyclesParse]
    | opt n v =>
      simp only [Item.Valid, xrunSyn, List.mem_cons, List.not_mem_nil, or_false] at hit
      subst hit
      simp only [render, Item.render, List.cons_append, List.nil_append, xrunLoop_cons]
      simp only [String.reduceEq, or_self, ↓reduceIte]
      cases hst : stoull v with
      | none => simp [cyclesParse, hst]
      | some k =>
        simp only []
        rw [ih hv']
        simp [files, runDone, hasFlag, lastSome_getD_cons, cyclesVal, cyclesParse, hst]
    | file f =>
      simp only [Item.Valid, xrunSyn, List.mem_cons, List.not_mem_nil, or_false, not_or,
        forall_const] at hit
      obtain ⟨⟨h1, h2⟩, ⟨h3, h4⟩, h5, h6⟩ := hit
      simp only [render, Item.render, List.cons_append, List.nil_append, xrunLoop_cons]
      simp only [h1, h2, h3, h4, h5, h6, or_self, ↓reduceIte, Bool.false_eq_true]
      rcases o with ⟨fn, t, m⟩
      cases fn with
      | none =>
        simp only []
        rw [ih hv']
        simp only [Option.toList, List.nil_append, List.cons_append, files, cyclesParse]
        cases files is with
        | nil => simp [runDone, hasFlag, lastSome_getD_cons, cyclesVal]
        | cons g gs => simp only []; split <;> simp_all
      | some g =>
        simp only [files, cyclesParse, Option.toList, List.cons_append, List.nil_append]
        by_cases hc : cyclesParse is = true <;> simp [hc]

theorem xrunLoop_done (args : List String) (o o' : RunOpts) (h : xrunLoop args o = .done o') :
    ∃ items, (∀ i ∈ items, i.Valid xrunSyn) ∧ args = render items := by
  fun_induction xrunLoop args o
  · exact ⟨[], by simp, rfl⟩
  · cases h
  · rename_i a _ _ _ ha ih
    exact sentence_cons _ (.flag a) (by rcases ha with rfl | rfl <;> simp [Item.Valid, xrunSyn]) (ih h)
  · cases h
  · cases h
  · rename_i v _ _ _ _ _ ih
    exact sentence_cons _ (.opt "--max-cycles" v) (by simp [Item.Valid, xrunSyn]) (ih h)
  · cases h
  · rename_i a _ _ h1 h2 h3 h4 _ ih
    refine sentence_cons _ (.file a) ?_ (ih h)
    simp only [not_or] at h1 h2
    simp [Item.Valid, xrunSyn, h1, h2, h3, h4]
  · cases h

structure RunCmd where
  trace : Bool
  maxCycles : Nat
  file : String
  deriving DecidableEq

def RunCmd.opts (c : RunCmd) : RunOpts := ⟨some c.file, c.trace, c.maxCycles⟩

def runCmdOf (items : List Item) (f : String) : RunCmd :=
  ⟨hasFlag ["-t", "--trace"] items, (lastSome cyclesVal items).getD 0, f⟩

/-- `args` is a well-formed xrun command line and `c` is what it says. -/
def XrunLine (args : List String) (c : RunCmd) : Prop :=
  ∃ items f, (∀ i ∈ items, i.Valid xrunSyn) ∧ args = render items ∧ files items = [f] ∧
    cyclesParse items = true ∧ c = runCmdOf items f

theorem xrunLoop_of_line {args : List String} {c : RunCmd} (h : XrunLine args c) :
    xrunLoop args {} = .done c.opts := by
  obtain ⟨items, f, hv, rfl, hf, hc, rfl⟩ := h
  rw [xrunLoop_render items hv]
  simp [hf, hc, runDone, runCmdOf, RunCmd.opts]

theorem line_of_xrunLoop {args : List String} {o : RunOpts} {f : String}
    (h : xrunLoop args {} = .done o) (hf : o.inputFilename = some f) :
    XrunLine args ⟨o.trace, o.maxCycles, f⟩ := by
  obtain ⟨items, hv, rfl⟩ := xrunLoop_done _ _ _ h
  rw [xrunLoop_render items hv] at h
  simp only [Option.toList, List.nil_append] at h
  split at h
  · rename_i hc
    split at h
    · cases h; simp [runDone] at hf
    · rename_i g hg
      cases h
      simp only [runDone, Option.some.injEq] at hf
      subst hf
      exact ⟨items, g, hv, rfl, hg, hc, by simp [runDone, runCmdOf]⟩
    · cases h
  · cases h

theorem XrunLine.unique {args : List String} {c₁ c₂ : RunCmd} (h₁ : XrunLine args c₁)
    (h₂ : XrunLine args c₂) : c₁ = c₂ := by
  have e := (xrunLoop_of_line h₁).symm.trans (xrunLoop_of_line h₂)
  rcases c₁ with ⟨a, b, c⟩
  rcases c₂ with ⟨a', b', c'⟩
  simp only [RunCmd.opts, Args.done.injEq, RunOpts.mk.injEq, Option.some.injEq] at e
  obtain ⟨rfl, rfl, rfl⟩ := e
  rfl

theorem xrunMain_of_line (xc : XcmpCore) (sim : SimCore) {args : List String} {c : RunCmd} (fs : Fs)
    (h : XrunLine args c) : xrunMain xc sim args fs = xrunBody xc sim c.opts fs := by
  simp only [xrunMain, xrunLoop_of_line h]

/-- xrun without a well-formed command line: exit 1, nothing touched, something printed. -/
theorem xrunMain_not_line (xc : XcmpCore) (sim : SimCore) {args : List String} (fs : Fs)
    (h : ¬ ∃ c, XrunLine args c) :
    (xrunMain xc sim args fs).status = 1 ∧ (xrunMain xc sim args fs).fs = fs ∧
    ((xrunMain xc sim args fs).stderr = true ∨ (xrunMain xc sim args fs).stdout = .usage) := by
  unfold xrunMain
  split
  · simp
  · simp
  · rename_i o ho
    cases hfn : o.inputFilename with
    | none => simp [xrunBody, hfn]
    | some f => exact absurd ⟨_, line_of_xrunLoop ho hfn⟩ h

/-! ### What the bodies do for a given reading -/

/-- The source named on the command line is accepted by the stage the command line selects
    (and, in binary mode, the output file can be created). -/
def AsmSucceeds (core : AsmCore) (fs : Fs) (c : AsmCmd) : Prop :=
  ∃ src, fs.read c.file = some src ∧
    if c.tokensOnly = true ∧ c.instrsOnly = false then ∃ u, core.lex src = .ok u
    else ∃ img, core.assemble src = .ok img ∧ (c.instrsOnly = true ∨ fs.canWrite c.out = true)

/-- Binary mode, source accepted with image `img`, output creatable. -/
def AsmAccepted (core : AsmCore) (fs : Fs) (c : AsmCmd) (img : Bytes) : Prop :=
  c.tokensOnly = false ∧ c.instrsOnly = false ∧
  ∃ src, fs.read c.file = some src ∧ core.assemble src = .ok img ∧ fs.canWrite c.out = true

theorem hexasmBody_status (core : AsmCore) (fs : Fs) (c : AsmCmd) :
    (hexasmBody core c.opts fs).status = 0 ↔ AsmSucceeds core fs c := by
  rcases c with ⟨t, i, f, out⟩
  simp only [hexasmBody, AsmCmd.opts, AsmSucceeds, emitBin]
  cases hr : fs.read f with
  | none => simp
  | some src =>
    cases t <;> cases i <;> simp
    · cases core.assemble src <;> by_cases hw : fs.canWrite out = true <;> simp [hw]
    · cases core.assemble src <;> simp
    · cases core.lex src <;> simp
    · cases core.assemble src <;> simp

theorem hexasmBody_accepted (core : AsmCore) (fs : Fs) (c : AsmCmd) (img : Bytes)
    (h : AsmAccepted core fs c img) :
    hexasmBody core c.opts fs = ⟨0, fs.write c.out img, false, .none⟩ := by
  rcases c with ⟨t, i, f, out⟩
  obtain ⟨rfl, rfl, src, hr, ha, hw⟩ := h
  simp only at hr ha hw
  simp [hexasmBody, AsmCmd.opts, emitBin, hr, ha, hw]

theorem hexasmBody_rejected (core : AsmCore) (fs : Fs) (c : AsmCmd) (h : ¬ AsmSucceeds core fs c) :
    (hexasmBody core c.opts fs).status = 1 ∧ (hexasmBody core c.opts fs).fs = fs ∧
    (hexasmBody core c.opts fs).stderr = true := by
  rcases c with ⟨t, i, f, out⟩
  simp only [hexasmBody, AsmCmd.opts, AsmSucceeds, emitBin] at h ⊢
  cases hr : fs.read f with
  | none => simp
  | some src =>
    simp only [hr] at h
    cases t <;> cases i <;> simp at h ⊢
    · cases ha : core.assemble src <;> by_cases hw : fs.canWrite out = true <;> simp [ha, hw] at h ⊢
    · cases ha : core.assemble src <;> simp [ha] at h ⊢
    · cases ha : core.lex src <;> simp [ha] at h ⊢
    · cases ha : core.assemble src <;> simp [ha] at h ⊢

theorem hexasmBody_listing (core : AsmCore) (fs : Fs) (c : AsmCmd)
    (h : c.tokensOnly = true ∨ c.instrsOnly = true) : (hexasmBody core c.opts fs).fs = fs := by
  rcases c with ⟨t, i, f, out⟩
  simp only [hexasmBody, AsmCmd.opts]
  cases hr : fs.read f with
  | none => simp
  | some src =>
    cases t <;> cases i <;> simp at h ⊢
    · cases core.assemble src <;> simp
    · cases core.lex src <;> simp
    · cases core.assemble src <;> simp

def XcmpSucceeds (xc : XcmpCore) (fs : Fs) (c : XcmpCmd) : Prop :=
  ∃ src img, fs.read c.file = some src ∧ xc.compile c.action c.mem src = .ok img ∧
    (c.action = .binary → fs.canWrite c.out = true)

def XcmpAccepted (xc : XcmpCore) (fs : Fs) (c : XcmpCmd) (img : Bytes) : Prop :=
  c.action = .binary ∧
  ∃ src, fs.read c.file = some src ∧ xc.compile .binary c.mem src = .ok img ∧ fs.canWrite c.out = true

theorem xcmpBody_status (xc : XcmpCore) (fs : Fs) (c : XcmpCmd) :
    (xcmpBody xc c.opts fs).status = 0 ↔ XcmpSucceeds xc fs c := by
  rcases c with ⟨a, m, f, out⟩
  simp only [xcmpBody, XcmpCmd.opts, XcmpSucceeds, driverRunCatch, driverRun, emitBin, ↓reduceIte]
  cases hr : fs.read f with
  | none => simp [resultOfRun]
  | some src =>
    simp only []
    cases hc : xc.compile a m src with
    | error l => simp [resultOfRun, hc]
    | exn => simp [resultOfRun, hc]
    | ok img =>
      by_cases hb : a = .binary
      · subst hb
        by_cases hw : fs.canWrite out = true <;> simp [resultOfRun, hw, hc]
      · simp [resultOfRun, hb, hc]

theorem xcmpBody_accepted (xc : XcmpCore) (fs : Fs) (c : XcmpCmd) (img : Bytes)
    (h : XcmpAccepted xc fs c img) :
    xcmpBody xc c.opts fs = ⟨0, fs.write c.out img, false, if c.mem then .text else .none⟩ := by
  rcases c with ⟨a, m, f, out⟩
  obtain ⟨rfl, src, hr, ha, hw⟩ := h
  simp only at hr ha hw
  cases m <;> simp [xcmpBody, XcmpCmd.opts, driverRunCatch, driverRun, emitBin, resultOfRun, hr, ha, hw,
    stdoutOfAction]

theorem xcmpBody_rejected (xc : XcmpCore) (fs : Fs) (c : XcmpCmd) (h : ¬ XcmpSucceeds xc fs c) :
    (xcmpBody xc c.opts fs).status = 1 ∧ (xcmpBody xc c.opts fs).fs = fs ∧
    (xcmpBody xc c.opts fs).stderr = true := by
  rcases c with ⟨a, m, f, out⟩
  simp only [xcmpBody, XcmpCmd.opts, XcmpSucceeds, driverRunCatch, driverRun, emitBin, ↓reduceIte] at h ⊢
  cases hr : fs.read f with
  | none => simp [resultOfRun]
  | some src =>
    simp only [hr] at h
    simp only []
    cases hc : xc.compile a m src with
    | error l => simp [resultOfRun]
    | exn => simp [resultOfRun]
    | ok img =>
      by_cases hb : a = .binary
      · subst hb
        by_cases hw : fs.canWrite out = true <;> simp [resultOfRun, hw, hc] at h ⊢
      · simp [hb, hc] at h

theorem xcmpBody_listing (xc : XcmpCore) (fs : Fs) (c : XcmpCmd) (h : c.action ≠ .binary) :
    (xcmpBody xc c.opts fs).fs = fs := by
  rcases c with ⟨a, m, f, out⟩
  simp only at h
  simp only [xcmpBody, XcmpCmd.opts, driverRunCatch, driverRun, ↓reduceIte, h]
  cases hr : fs.read f with
  | none => simp [resultOfRun]
  | some src =>
    simp only []
    cases hc : xc.compile a m src <;> simp [resultOfRun]

/-! hexsim -/

theorem hexsimBody_run (sim : SimCore) (fs : Fs) (c : SimCmd) (hd : c.dump = false) :
    hexsimBody sim c.opts fs = simulate sim c.trace c.maxCycles c.file fs := by
  rcases c with ⟨d, t, m, f⟩
  simp only at hd
  simp [hexsimBody, SimCmd.opts, hd]

theorem simulate_exited (sim : SimCore) (fs : Fs) (t : Bool) (m : Nat) (f : String) (img : Bytes) (v : Word)
    (hr : fs.read f = some img) (hv : sim.run t m img = .exited v) :
    simulate sim t m f fs = ⟨v.toNat % 256, fs, false, .program⟩ := by
  simp [simulate, hr, hv]

theorem simulate_fs (sim : SimCore) (fs : Fs) (t : Bool) (m : Nat) (f : String) :
    (simulate sim t m f fs).fs = fs := by
  unfold simulate
  cases fs.read f with
  | none => rfl
  | some img => simp only []; cases sim.run t m img <;> rfl

theorem simulate_failed (sim : SimCore) (fs : Fs) (t : Bool) (m : Nat) (f : String)
    (h : ∀ img v, fs.read f = some img → sim.run t m img ≠ .exited v) :
    (simulate sim t m f fs).status = 1 ∧ (simulate sim t m f fs).stderr = true := by
  unfold simulate
  cases hr : fs.read f with
  | none => simp
  | some img =>
    cases hv : sim.run t m img with
    | exited v => exact absurd hv (h img v hr)
    | threw => simp [hv]


theorem xcmpBody_binary_rejected (xc : XcmpCore) (fs : Fs) (c : XcmpCmd) (hb : c.action = .binary)
    (hm : c.mem = false) (h : ¬ XcmpSucceeds xc fs c) : xcmpBody xc c.opts fs = ⟨1, fs, true, .none⟩ := by
  rcases c with ⟨a, m, f, out⟩
  simp only at hb hm
  subst hb hm
  simp only [xcmpBody, XcmpCmd.opts, XcmpSucceeds, driverRunCatch, driverRun, emitBin, ↓reduceIte] at h ⊢
  cases hr : fs.read f with
  | none => simp [resultOfRun]
  | some src =>
    simp only [hr] at h
    simp only []
    cases hc : xc.compile .binary false src with
    | error l => simp [resultOfRun, stdoutOfAction]
    | exn => simp [resultOfRun]
    | ok img =>
      by_cases hw : fs.canWrite out = true <;> simp [resultOfRun, hw, hc, stdoutOfAction] at h ⊢

/-! ### xrun -/

/-- xrun's compile step succeeds with image `img` (written to `a.bin`). -/
def XrunCompiles (xc : XcmpCore) (fs : Fs) (f : String) (img : Bytes) : Prop :=
  ∃ src, fs.read f = some src ∧ xc.compile .binary false src = .ok img ∧ fs.canWrite "a.bin" = true

theorem xrunCompiles_iff (xc : XcmpCore) (fs : Fs) (f : String) (img : Bytes) :
    XrunCompiles xc fs f img ↔ XcmpAccepted xc fs ⟨.binary, false, f, "a.bin"⟩ img := by
  simp [XrunCompiles, XcmpAccepted]

theorem xrunBody_compiled (xc : XcmpCore) (sim : SimCore) (fs : Fs) (c : RunCmd) (img : Bytes)
    (h : XrunCompiles xc fs c.file img) :
    xrunBody xc sim c.opts fs = simulate sim c.trace c.maxCycles "a.bin" (fs.write "a.bin" img) := by
  rcases c with ⟨t, m, f⟩
  obtain ⟨src, hr, hc, hw⟩ := h
  simp only at hr hc hw
  simp [xrunBody, RunCmd.opts, driverRunCatch, driverRun, emitBin, hr, hc, hw]

theorem xrunBody_failed (xc : XcmpCore) (sim : SimCore) (fs : Fs) (c : RunCmd)
    (h : ¬ ∃ img, XrunCompiles xc fs c.file img) :
    xrunBody xc sim c.opts fs = ⟨1, fs, true, .none⟩ := by
  rcases c with ⟨t, m, f⟩
  simp only [XrunCompiles, not_exists] at h
  simp only [xrunBody, RunCmd.opts, driverRunCatch, driverRun, emitBin, ↓reduceIte]
  cases hr : fs.read f with
  | none => simp
  | some src =>
    simp only []
    cases hc : xc.compile .binary false src with
    | error l => simp [stdoutOfAction]
    | exn => simp
    | ok img =>
      by_cases hw : fs.canWrite "a.bin" = true
      · exact absurd ⟨hr, hc, hw⟩ (h img src)
      · simp [hw, stdoutOfAction]

/-- Sequential composition of two tool runs in the shell sense (`a && b`, keeping `a`'s result
    when it fails). -/
def Result.andThen (r : Result) (k : Fs → Result) : Result := if r.status = 0 then k r.fs else r

theorem files_nonFiles_append (items : List Item) (g : String) :
    files (nonFiles items ++ [.file g]) = [g] := by
  induction items with
  | nil => rfl
  | cons i is ih => cases i <;> simp [nonFiles, files, ih]

theorem hasFlag_nonFiles_append (ns : List String) (items : List Item) (g : String) :
    hasFlag ns (nonFiles items ++ [.file g]) = hasFlag ns items := by
  induction items with
  | nil => rfl
  | cons i is ih => cases i <;> simp [nonFiles, hasFlag, ih]

theorem lastSome_nonFiles_append {α : Type} (fn : Item → Option α) (hfn : ∀ f, fn (.file f) = none)
    (items : List Item) (g : String) :
    lastSome fn (nonFiles items ++ [.file g]) = lastSome fn items := by
  induction items with
  | nil => simp [nonFiles, lastSome, hfn]
  | cons i is ih =>
    cases i <;> simp only [nonFiles, lastSome, List.cons_append, ih, hfn]
    cases lastSome fn is <;> rfl

theorem cyclesParse_nonFiles_append (items : List Item) (g : String) :
    cyclesParse (nonFiles items ++ [.file g]) = cyclesParse items := by
  induction items with
  | nil => rfl
  | cons i is ih => cases i <;> simp [nonFiles, cyclesParse, ih]

theorem render_append (a b : List Item) : render (a ++ b) = render a ++ render b := by
  induction a with
  | nil => rfl
  | cons i is ih => simp [render, ih]

theorem hasFlag_dump_xrun (items : List Item) (hv : ∀ i ∈ items, i.Valid xrunSyn) :
    hasFlag ["-d", "--dump"] items = false := by
  induction items with
  | nil => rfl
  | cons i is ih =>
    have hi := hv i List.mem_cons_self
    have ih' := ih (fun j hj => hv j (List.mem_cons_of_mem _ hj))
    cases i with
    | flag n =>
      simp only [Item.Valid, xrunSyn, List.mem_cons, List.not_mem_nil, or_false] at hi
      rcases hi with rfl | rfl <;> simp [hasFlag, ih']
    | opt n v => simpa [hasFlag] using ih'
    | file f => simpa [hasFlag] using ih'

theorem valid_sim_of_xrun (items : List Item) (hv : ∀ i ∈ items, i.Valid xrunSyn) :
    ∀ i ∈ nonFiles items ++ [.file "a.bin"], i.Valid hexsimSyn := by
  induction items with
  | nil =>
    intro i hi
    simp only [nonFiles, List.nil_append, List.mem_singleton] at hi
    subst hi
    simp [Item.Valid, hexsimSyn]
  | cons j js ih =>
    have hj := hv j List.mem_cons_self
    have ih' := ih (fun k hk => hv k (List.mem_cons_of_mem _ hk))
    cases j with
    | flag n =>
      intro i hi
      simp only [nonFiles, List.cons_append, List.mem_cons] at hi
      rcases hi with rfl | hi
      · simp only [Item.Valid, xrunSyn, List.mem_cons, List.not_mem_nil, or_false] at hj
        rcases hj with rfl | rfl <;> simp [Item.Valid, hexsimSyn]
      · exact ih' i hi
    | opt n v =>
      intro i hi
      simp only [nonFiles, List.cons_append, List.mem_cons] at hi
      rcases hi with rfl | hi
      · simp only [Item.Valid, xrunSyn, List.mem_cons, List.not_mem_nil, or_false] at hj
        subst hj; simp [Item.Valid, hexsimSyn]
      · exact ih' i hi
    | file f => simpa [nonFiles] using ih'

/-- A file name xrun accepts (no leading `-`) is also a file name for xcmp. -/
theorem valid_xcmp_file_of_xrun (f : String) (h : (Item.file f).Valid xrunSyn) :
    (Item.file f).Valid xcmpSyn := by
  simp only [Item.Valid, xrunSyn, forall_const] at h
  obtain ⟨_, _, _, hd⟩ := h
  have key : ∀ n ∈ xcmpSyn.help ++ xcmpSyn.flags ++ xcmpSyn.opts, dash n = true := by decide
  simp only [Item.Valid]
  refine ⟨?_, ?_, ?_, fun _ => hd⟩
  · intro hm; have := key f (by simp [hm]); simp [hd] at this
  · intro hm; have := key f (by simp [hm]); simp [hd] at this
  · intro hm; have := key f (by simp [hm]); simp [hd] at this

theorem mem_files {items : List Item} {f : String} (h : f ∈ files items) : Item.file f ∈ items := by
  induction items with
  | nil => simp [files] at h
  | cons i is ih =>
    cases i with
    | file g =>
      simp only [files, List.mem_cons] at h
      rcases h with rfl | h
      · exact List.mem_cons_self
      · exact List.mem_cons_of_mem _ (ih h)
    | flag n => exact List.mem_cons_of_mem _ (ih (by simpa [files] using h))
    | opt n v => exact List.mem_cons_of_mem _ (ih (by simpa [files] using h))


/-! ### Order of the arguments -/

theorem files_perm {a b : List Item} (h : a.Perm b) : (files a).Perm (files b) := by
  induction h with
  | nil => exact .nil
  | cons x _ ih => cases x <;> simp [files, ih]
  | swap x y l =>
    cases x <;> cases y <;> simp [files]
    exact List.Perm.swap _ _ _
  | trans _ _ ih1 ih2 => exact ih1.trans ih2

theorem hasFlag_perm (ns : List String) {a b : List Item} (h : a.Perm b) :
    hasFlag ns a = hasFlag ns b := by
  induction h with
  | nil => rfl
  | cons x _ ih => cases x <;> simp [hasFlag, ih]
  | swap x y l =>
    cases x <;> cases y <;> simp [hasFlag]
    rename_i n m
    cases decide (n ∈ ns) <;> cases decide (m ∈ ns) <;> simp
  | trans _ _ ih1 ih2 => exact ih1.trans ih2

theorem cyclesParse_perm {a b : List Item} (h : a.Perm b) : cyclesParse a = cyclesParse b := by
  induction h with
  | nil => rfl
  | cons x _ ih => cases x <;> simp [cyclesParse, ih]
  | swap x y l =>
    cases x <;> cases y <;> simp [cyclesParse]
    rename_i n v m w
    cases (stoull v).isSome <;> cases (stoull w).isSome <;> simp
  | trans _ _ ih1 ih2 => exact ih1.trans ih2

/-- The three-way case split every loop makes on the list of file arguments depends only on the
    multiset of files. -/
theorem perm_files_cases {x y : List String} (h : x.Perm y) :
    (x = [] ∧ y = []) ∨ (∃ f, x = [f] ∧ y = [f]) ∨
    (∃ f g t f' g' t', x = f :: g :: t ∧ y = f' :: g' :: t') := by
  cases x with
  | nil => exact .inl ⟨rfl, h.nil_eq.symm⟩
  | cons f t =>
    cases t with
    | nil => exact .inr (.inl ⟨f, rfl, (List.singleton_perm.mp h).symm⟩)
    | cons g t' =>
      have hl := h.length_eq
      cases y with
      | nil => simp at hl
      | cons a y' =>
        cases y' with
        | nil => simp at hl
        | cons b y'' => exact .inr (.inr ⟨f, g, t', a, b, y'', rfl, rfl⟩)

theorem hexasmMain_perm (core : AsmCore) (fs : Fs) {a b : List Item}
    (hva : ∀ i ∈ a, i.Valid hexasmSyn) (hvb : ∀ i ∈ b, i.Valid hexasmSyn) (hp : a.Perm b)
    (ho : lastSome (optVal asmOutNames) a = lastSome (optVal asmOutNames) b) :
    hexasmMain core (render a) fs = hexasmMain core (render b) fs := by
  have key : hexasmLoop (render a) {} = hexasmLoop (render b) {} := by
    rw [hexasmLoop_render a hva, hexasmLoop_render b hvb]
    simp only [Option.toList, List.nil_append, asmDone, hasFlag_perm _ hp, ho]
    rcases perm_files_cases (files_perm hp) with ⟨h1, h2⟩ | ⟨f, h1, h2⟩ | ⟨_, _, _, _, _, _, h1, h2⟩ <;>
      simp only [h1, h2]
  unfold hexasmMain
  rw [key]

theorem xcmpMain_perm (xc : XcmpCore) (fs : Fs) {a b : List Item}
    (hva : ∀ i ∈ a, i.Valid xcmpSyn) (hvb : ∀ i ∈ b, i.Valid xcmpSyn) (hp : a.Perm b)
    (ho : lastSome (optVal asmOutNames) a = lastSome (optVal asmOutNames) b)
    (hact : lastSome flagAction a = lastSome flagAction b) :
    xcmpMain xc (render a) fs = xcmpMain xc (render b) fs := by
  have key : xcmpLoop (render a) {} = xcmpLoop (render b) {} := by
    rw [xcmpLoop_render a hva, xcmpLoop_render b hvb]
    simp only [Option.toList, List.nil_append, xcmpDone, hasFlag_perm _ hp, ho, hact]
    rcases perm_files_cases (files_perm hp) with ⟨h1, h2⟩ | ⟨f, h1, h2⟩ | ⟨_, _, _, _, _, _, h1, h2⟩ <;>
      simp only [h1, h2]
  unfold xcmpMain
  rw [key]

theorem hexsimMain_perm (sim : SimCore) (fs : Fs) {a b : List Item}
    (hva : ∀ i ∈ a, i.Valid hexsimSyn) (hvb : ∀ i ∈ b, i.Valid hexsimSyn) (hp : a.Perm b)
    (hc : lastSome cyclesVal a = lastSome cyclesVal b) :
    hexsimMain sim (render a) fs = hexsimMain sim (render b) fs := by
  have key : hexsimLoop (render a) {} = hexsimLoop (render b) {} := by
    rw [hexsimLoop_render a hva, hexsimLoop_render b hvb]
    simp only [Option.toList, List.nil_append, simDone, hasFlag_perm _ hp, hc, cyclesParse_perm hp]
    rcases perm_files_cases (files_perm hp) with ⟨h1, h2⟩ | ⟨f, h1, h2⟩ | ⟨_, _, _, _, _, _, h1, h2⟩ <;>
      simp only [h1, h2]
  unfold hexsimMain
  rw [key]

theorem xrunMain_perm (xc : XcmpCore) (sim : SimCore) (fs : Fs) {a b : List Item}
    (hva : ∀ i ∈ a, i.Valid xrunSyn) (hvb : ∀ i ∈ b, i.Valid xrunSyn) (hp : a.Perm b)
    (hc : lastSome cyclesVal a = lastSome cyclesVal b) :
    xrunMain xc sim (render a) fs = xrunMain xc sim (render b) fs := by
  have key : xrunLoop (render a) {} = xrunLoop (render b) {} := by
    rw [xrunLoop_render a hva, xrunLoop_render b hvb]
    simp only [Option.toList, List.nil_append, runDone, hasFlag_perm _ hp, hc, cyclesParse_perm hp]
    rcases perm_files_cases (files_perm hp) with ⟨h1, h2⟩ | ⟨f, h1, h2⟩ | ⟨_, _, _, _, _, _, h1, h2⟩ <;>
      simp only [h1, h2]
  unfold xrunMain
  rw [key]


/-- `xrun f …` is `xcmp f -o a.bin && hexsim … a.bin` (full observation), when every
    `--max-cycles` value is a number. -/
theorem xrunMain_eq_seq (xc : XcmpCore) (sim : SimCore) (fs : Fs) (items : List Item)
    (hv : ∀ i ∈ items, i.Valid xrunSyn) (f : String) (hf : files items = [f])
    (hc : cyclesParse items = true) :
    xrunMain xc sim (render items) fs =
      (xcmpMain xc [f, "-o", "a.bin"] fs).andThen
        (hexsimMain sim (render (nonFiles items) ++ ["a.bin"])) := by
  -- left: xrun
  have hl : XrunLine (render items) (runCmdOf items f) := ⟨items, f, hv, rfl, hf, hc, rfl⟩
  rw [xrunMain_of_line xc sim fs hl]
  -- the compile step as an xcmp command line
  have hfv : (Item.file f).Valid xcmpSyn :=
    valid_xcmp_file_of_xrun f (hv _ (mem_files (by simp [hf])))
  have hx : XcmpLine [f, "-o", "a.bin"] ⟨.binary, false, f, "a.bin"⟩ := by
    refine ⟨[.file f, .opt "-o" "a.bin"], f, ?_, rfl, rfl, ?_⟩
    · intro i hi
      simp only [List.mem_cons, List.not_mem_nil, or_false] at hi
      rcases hi with rfl | rfl
      · exact hfv
      · simp [Item.Valid, xcmpSyn]
    · simp [xcmpCmdOf, lastSome, flagAction, hasFlag, optVal, asmOutNames]
  rw [xcmpMain_of_line xc fs hx]
  -- the simulate step as a hexsim command line
  have hs : HexsimLine (render (nonFiles items) ++ ["a.bin"])
      ⟨false, hasFlag ["-t", "--trace"] items, (lastSome cyclesVal items).getD 0, "a.bin"⟩ := by
    refine ⟨nonFiles items ++ [.file "a.bin"], "a.bin", valid_sim_of_xrun items hv, ?_,
      files_nonFiles_append _ _, ?_, ?_⟩
    · rw [render_append]; rfl
    · rw [cyclesParse_nonFiles_append, hc]
    · simp only [simCmdOf, hasFlag_nonFiles_append, hasFlag_dump_xrun items hv]
      rw [lastSome_nonFiles_append cyclesVal (fun _ => rfl)]
  by_cases hcomp : ∃ img, XrunCompiles xc fs f img
  · obtain ⟨img, hcomp⟩ := hcomp
    rw [xrunBody_compiled xc sim fs (runCmdOf items f) img hcomp]
    rw [xcmpBody_accepted xc fs _ img ((xrunCompiles_iff xc fs f img).mp hcomp)]
    simp only [Result.andThen, ↓reduceIte]
    rw [hexsimMain_of_line sim _ hs, hexsimBody_run sim _ _ rfl]
    rfl
  · rw [xrunBody_failed xc sim fs (runCmdOf items f) hcomp]
    have : ¬ XcmpSucceeds xc fs ⟨.binary, false, f, "a.bin"⟩ := by
      rintro ⟨src, img, h1, h2, h3⟩
      exact hcomp ⟨img, src, h1, h2, h3 rfl⟩
    rw [xcmpBody_binary_rejected xc fs _ rfl rfl this]
    simp [Result.andThen]

/-- With a `--max-cycles` value that is not a number both sides fail the same way as far as
    status, stderr and stdout go (xrun has not compiled anything yet, the pipeline has). -/
theorem xrunMain_eq_seq_badcycles (xc : XcmpCore) (sim : SimCore) (fs : Fs) (items : List Item)
    (hv : ∀ i ∈ items, i.Valid xrunSyn) (f : String) (hf : files items = [f])
    (hc : cyclesParse items = false) :
    let r := xrunMain xc sim (render items) fs
    let p := (xcmpMain xc [f, "-o", "a.bin"] fs).andThen
        (hexsimMain sim (render (nonFiles items) ++ ["a.bin"]))
    r.status = 1 ∧ p.status = 1 ∧ r.stderr = true ∧ p.stderr = true ∧
    r.stdout = .none ∧ p.stdout = .none ∧ r.fs = fs := by
  have hr : xrunMain xc sim (render items) fs = ⟨1, fs, true, .none⟩ := by
    unfold xrunMain
    rw [xrunLoop_render items hv]
    simp [hc]
  have hfv : (Item.file f).Valid xcmpSyn :=
    valid_xcmp_file_of_xrun f (hv _ (mem_files (by simp [hf])))
  have hx : XcmpLine [f, "-o", "a.bin"] ⟨.binary, false, f, "a.bin"⟩ := by
    refine ⟨[.file f, .opt "-o" "a.bin"], f, ?_, rfl, rfl, ?_⟩
    · intro i hi
      simp only [List.mem_cons, List.not_mem_nil, or_false] at hi
      rcases hi with rfl | rfl
      · exact hfv
      · simp [Item.Valid, xcmpSyn]
    · simp [xcmpCmdOf, lastSome, flagAction, hasFlag, optVal, asmOutNames]
  have hsim : ∀ fs', hexsimMain sim (render (nonFiles items) ++ ["a.bin"]) fs' = ⟨1, fs', true, .none⟩ := by
    intro fs'
    unfold hexsimMain
    have : render (nonFiles items) ++ ["a.bin"] = render (nonFiles items ++ [.file "a.bin"]) := by
      rw [render_append]; rfl
    rw [this, hexsimLoop_render _ (valid_sim_of_xrun items hv), cyclesParse_nonFiles_append, hc]
    simp
  simp only [hr, xcmpMain_of_line xc fs hx, true_and]
  by_cases hs : XcmpSucceeds xc fs ⟨.binary, false, f, "a.bin"⟩
  · have h0 := (xcmpBody_status xc fs _).mpr hs
    simp [Result.andThen, h0, hsim]
  · rw [xcmpBody_binary_rejected xc fs _ rfl rfl hs]
    simp [Result.andThen]

end Hex.Cli
